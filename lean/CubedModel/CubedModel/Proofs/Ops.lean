/-
  Lemmas about the key functions and block functions of `Model/Ops.lean`.
-/
import CubedModel.Model.Ops
import CubedModel.Proofs.ArraySem

namespace Cubed.Ops

open Cubed.ArraySem

/-! ### partial_reduce: the groups partition the blocks, in order -/

theorem range_append_range' (a b : Nat) (h : a ≤ b) : List.range a ++ List.range' a (b - a) = List.range b := by
  rw [List.range_eq_range', List.range_eq_range']
  have := List.range'_append_1 (s := 0) (m := a) (n := b - a)
  simp only [Nat.zero_add] at this
  rw [this]
  congr 1
  omega

theorem groupKeys_flat_prefix (k nb : Nat) (hk : 0 < k) (g : Nat) (hg : g ≤ nblocks nb k) :
    (List.range g).flatMap (groupKeys k nb) = List.range (min (g * k) nb) := by
  induction g with
  | zero => simp
  | succ g ih =>
    have hlt : g * k < nb := lt_of_lt_nblocks hk (by omega)
    rw [List.range_succ, List.flatMap_append, ih (by omega)]
    simp only [List.flatMap_cons, List.flatMap_nil, List.append_nil, groupKeys]
    rw [Nat.min_eq_left (Nat.le_of_lt hlt)]
    have hle : g * k ≤ min ((g + 1) * k) nb := by
      have : (g + 1) * k = g * k + k := by rw [Nat.add_mul, Nat.one_mul]
      omega
    exact range_append_range' _ _ hle

/-- the groups `[bi*k, min((bi+1)*k, nb))`, `bi = 0 … ceil(nb/k)-1`, concatenated in order are exactly
the blocks `0 … nb-1` in order: every block is reduced once, groups are contiguous and order preserving. -/
theorem groupKeys_flat (k nb : Nat) (hk : 0 < k) :
    (List.range (nblocks nb k)).flatMap (groupKeys k nb) = List.range nb := by
  rw [groupKeys_flat_prefix k nb hk _ (Nat.le_refl _)]
  rw [Nat.min_eq_right (nblocks_mul_ge hk)]

theorem mem_groupKeys {k nb b c : Nat} (hk : 0 < k) :
    c ∈ groupKeys k nb b ↔ c < nb ∧ b = c / k := by
  unfold groupKeys
  rw [List.mem_range'_1]
  have h1 : (b + 1) * k = b * k + k := by rw [Nat.add_mul, Nat.one_mul]
  constructor
  · intro ⟨hlo, hhi⟩
    refine ⟨by omega, ?_⟩
    have : c = b * k + (c - b * k) := by omega
    have hj : c - b * k < k := by omega
    exact (block_unique hj this.symm).1
  · intro ⟨hc, hb⟩
    subst hb
    have h2 := div_mul_add_mod c k
    have h3 := Nat.mod_lt c hk
    omega

/-- `x` picks one element from every list. -/
def MemEach : List Nat → List (List Nat) → Prop
  | [], [] => True
  | x :: xs, l :: ls => x ∈ l ∧ MemEach xs ls
  | _, _ => False

theorem mem_cartesian (x : List Nat) (ls : List (List Nat)) : x ∈ cartesian ls ↔ MemEach x ls := by
  induction ls generalizing x with
  | nil => cases x <;> simp [cartesian, MemEach]
  | cons l ls ih =>
    cases x with
    | nil => simp [cartesian, MemEach]
    | cons a xs =>
      simp only [cartesian, MemEach, List.mem_flatMap, List.mem_map, List.cons.injEq]
      constructor
      · rintro ⟨a', ha', y, hy, rfl, rfl⟩
        exact ⟨ha', (ih y).mp hy⟩
      · rintro ⟨ha, hxs⟩
        exact ⟨a, ha, xs, (ih xs).mpr hxs, rfl, rfl⟩

/-- n-d `partial_reduce`: in block `cs` is read by out block `bs` iff `cs` is in the grid and
`bs = cs // split_every` coordinate-wise (so every in block is read by exactly one out block). -/
theorem mem_partialReduceKeys (ks nbs bs cs : List Nat) (hpos : AllPos ks) (h1 : nbs.length = ks.length)
    (h2 : bs.length = ks.length) :
    cs ∈ partialReduceKeys ks nbs bs ↔ (InBox cs nbs ∧ bs = divs cs ks) := by
  unfold partialReduceKeys
  rw [mem_cartesian]
  induction ks generalizing nbs bs cs with
  | nil =>
    cases nbs with
    | nil =>
      cases bs with
      | nil => cases cs <;> simp [groupKeysN, MemEach, InBox, divs]
      | cons b bs => simp at h2
    | cons n nbs => simp at h1
  | cons k ks ih =>
    cases nbs with
    | nil => simp at h1
    | cons n nbs =>
      cases bs with
      | nil => simp at h2
      | cons b bs =>
        simp only [AllPos] at hpos
        cases cs with
        | nil => simp [groupKeysN, MemEach, InBox]
        | cons c cs =>
          simp only [groupKeysN, MemEach, InBox, divs, List.cons.injEq]
          rw [mem_groupKeys hpos.1, ih nbs bs cs hpos.2 (by simpa using h1) (by simpa using h2)]
          constructor
          · rintro ⟨⟨a, b⟩, c, d⟩; exact ⟨⟨a, c⟩, b, d⟩
          · rintro ⟨⟨a, c⟩, b, d⟩; exact ⟨⟨a, b⟩, c, d⟩

theorem reduceRound_fold {β : Type} (op : β → β → β) (hassoc : ∀ a b c, op (op a b) c = op a (op b c))
    (k nb : Nat) (hk : 0 < k) (blk : Nat → Option β) :
    ofoldO op ((List.range (nblocks nb k)).map (reduceRound op k nb blk)) = ofoldO op ((List.range nb).map blk) := by
  unfold reduceRound
  rw [ofoldO_flatMap op hassoc (List.range (nblocks nb k)) (fun bi => (groupKeys k nb bi).map blk)]
  rw [← List.map_flatMap, groupKeys_flat k nb hk]

theorem treeReduce_fold {β : Type} (op : β → β → β) (hassoc : ∀ a b c, op (op a b) c = op a (op b c))
    (k : Nat) (hk : 0 < k) (d nb : Nat) (blk : Nat → Option β) :
    ofoldO op ((List.range (treeReduce op k d nb blk).1).map (treeReduce op k d nb blk).2)
      = ofoldO op ((List.range nb).map blk) := by
  induction d generalizing nb blk with
  | zero => rfl
  | succ d ih =>
    simp only [treeReduce]
    rw [ih, reduceRound_fold op hassoc k nb hk]

theorem nblocks_le_pow {k d nb : Nat} (hk : 0 < k) (h : nb ≤ k ^ (d + 1)) : nblocks nb k ≤ k ^ d := by
  unfold nblocks
  have hp : k ^ (d + 1) = k ^ d * k := by rw [Nat.pow_succ]
  rw [hp] at h
  have h1 : nb + k - 1 < (k ^ d + 1) * k := by
    rw [Nat.add_mul, Nat.one_mul]; omega
  have := (Nat.div_lt_iff_lt_mul hk).mpr h1
  omega

theorem nblocks_pos {k nb : Nat} (hk : 0 < k) (h : 1 ≤ nb) : 1 ≤ nblocks nb k := by
  unfold nblocks
  exact (Nat.le_div_iff_mul_le hk).mpr (by omega)

theorem treeReduce_count {β : Type} (op : β → β → β) (k : Nat) (hk : 0 < k) (d nb : Nat)
    (blk : Nat → Option β) (hpow : nb ≤ k ^ d) (hnb : 1 ≤ nb) : (treeReduce op k d nb blk).1 = 1 := by
  induction d generalizing nb blk with
  | zero => simp [treeReduce] at *; omega
  | succ d ih =>
    simp only [treeReduce]
    exact ih _ _ (nblocks_le_pow hk hpow) (nblocks_pos hk hnb)

/-! ### arg reductions: first extremal index -/

theorem argmaxCombine_assoc (a b c : Nat × Nat) :
    argmaxCombine (argmaxCombine a b) c = argmaxCombine a (argmaxCombine b c) := by
  unfold argmaxCombine
  by_cases h1 : a.2 < b.2 <;> by_cases h2 : b.2 < c.2 <;> by_cases h3 : a.2 < c.2 <;> simp [h1, h2, h3] <;> omega

theorem argmax_fold_first (l : List (Nat × Nat)) (acc : Nat × Nat) (pre mid : List (Nat × Nat))
    (hpre : ∀ y ∈ pre, y.2 < acc.2) (hmid : ∀ y ∈ mid, y.2 ≤ acc.2) :
    ∃ pre' mid', pre ++ acc :: mid ++ l = pre' ++ (l.foldl argmaxCombine acc) :: mid'
      ∧ (∀ y ∈ pre', y.2 < (l.foldl argmaxCombine acc).2) ∧ (∀ y ∈ mid', y.2 ≤ (l.foldl argmaxCombine acc).2) := by
  induction l generalizing acc pre mid with
  | nil => exact ⟨pre, mid, by simp, hpre, hmid⟩
  | cons y l ih =>
    simp only [List.foldl]
    by_cases h : acc.2 < y.2
    · have hc : argmaxCombine acc y = y := by simp [argmaxCombine, h]
      rw [hc]
      obtain ⟨p, m, he, hp, hm⟩ := ih y (pre ++ acc :: mid) [] (by
        intro z hz
        rcases List.mem_append.mp hz with hz | hz
        · have := hpre z hz; omega
        · rcases List.mem_cons.mp hz with hz | hz
          · subst hz; exact h
          · have := hmid z hz; omega) (by simp)
      exact ⟨p, m, by simpa using he, hp, hm⟩
    · have hc : argmaxCombine acc y = acc := by simp [argmaxCombine, h]
      rw [hc]
      obtain ⟨p, m, he, hp, hm⟩ := ih acc pre (mid ++ [y]) hpre (by
        intro z hz
        rcases List.mem_append.mp hz with hz | hz
        · exact hmid z hz
        · simp at hz; subst hz; omega)
      exact ⟨p, m, by simpa using he, hp, hm⟩
/-! ### repeat -/

theorem repeat_arith (q s c j r : Nat) (hr : 0 < r) :
    q * c + (s * c + j) / r = ((q * r + s) * c + j) / r := by
  have : (q * r + s) * c + j = r * (q * c) + (s * c + j) := by
    rw [Nat.add_mul, Nat.mul_comm q r, Nat.mul_assoc, Nat.add_assoc]
  rw [this, Nat.mul_add_div hr]

theorem repeat_index (r c i : Nat) (hr : 0 < r) :
    (i / c / r) * c + ((i / c % r) * c + i % c) / r = i / r := by
  have := repeat_arith (i / c / r) (i / c % r) c (i % c) r hr
  rw [div_mul_add_mod, div_mul_add_mod] at this
  exact this

/-- `repeat` along one axis: out block `bi` reads in block `bi / r` and keeps the `bi % r`-th chunk-sized
slice of the repeated block — together this is `np.repeat`. -/
theorem repeatOut1_correct {α : Type} (A : Nat → α) (r c i : Nat) (hr : 0 < r) :
    repeatOut1 A r c i = repeatRef1 A r i := by
  simp only [repeatOut1, assemble1, repeatBlock1, block1, repeatRef1]
  rw [repeat_index r c i hr]

/-! ### lifting a one-axis op to n dimensions -/

theorem glob_onAxis (g f : Nat → Nat) (h : Nat → Nat → Nat) (a : Nat) (cs is : List Nat)
    (hlen : is.length ≤ cs.length)
    (hax : ∀ c i, cs[a]? = some c → is[a]? = some i → g (i / c) * c + h (i / c) (i % c) = f i) :
    glob cs (onAxis g a (divs is cs)) (onAxis2 h a (divs is cs) (mods is cs)) = onAxis f a is := by
  induction a generalizing cs is with
  | zero =>
    cases is with
    | nil => cases cs <;> simp [divs, mods, onAxis, onAxis2, glob]
    | cons i is =>
      cases cs with
      | nil => simp at hlen
      | cons c cs =>
        simp only [divs, mods, onAxis, onAxis2, glob]
        rw [hax c i (by simp) (by simp), glob_divs_mods cs is (by simpa using hlen)]
  | succ a ih =>
    cases is with
    | nil => cases cs <;> simp [divs, mods, onAxis, onAxis2, glob]
    | cons i is =>
      cases cs with
      | nil => simp at hlen
      | cons c cs =>
        simp only [divs, mods, onAxis, onAxis2, glob]
        rw [div_mul_add_mod, ih cs is (by simpa using hlen) (by
          intro c' i' hc hi
          exact hax c' i' (by simpa using hc) (by simpa using hi))]

/-- `repeat` in n dimensions (key function `repeatKey`, block function slicing along `axis`). -/
theorem repeatN_correct {α : Type} (A : List Nat → α) (r axis c : Nat) (cs is : List Nat) (hr : 0 < r)
    (hlen : is.length ≤ cs.length) (hc : cs[axis]? = some c) :
    assembleN cs (fun bs js => A (glob cs (repeatKey r axis bs) (onAxis2 (repeatLocal r c) axis bs js))) is
      = A (onAxis (· / r) axis is) := by
  simp only [assembleN, repeatKey]
  rw [glob_onAxis (· / r) (· / r) (repeatLocal r c) axis cs is hlen]
  intro c' i hc' _
  rw [hc] at hc'
  cases hc'
  exact repeat_index r c i hr

/-! ### selections: slices, rechunk, flip -/

theorem selElems_slice1 (s e : Nat) : selElems (.slice s e 1) = (List.range (e - s)).map (fun t => s + t) := by
  simp [selElems]

theorem assembleIndexChunk1_of_elem {α : Type} (A : Nat → α) (c : Nat) (s : Sel) (t e : Nat)
    (h : (selElems s)[t]? = some e) : assembleIndexChunk1 A c s t = some (A e) := by
  simp [assembleIndexChunk1, h, block1, div_mul_add_mod]

/-- generic selection theorem (one axis): if the per-block selections tile the output — the `t`-th
element block `b` selects is `selTotal (b*oc + t)` — then assembling every out block from the pieces
the indexer yields and writing it at its grid position computes `A[selTotal]`. -/
theorem selection_correct1 {α : Type} (A : Nat → α) (c oc : Nat) (sel : Nat → Sel) (selTotal : Nat → Nat)
    (i : Nat) (htile : (selElems (sel (i / oc)))[i % oc]? = some (selTotal i)) :
    assemble1 oc (fun b t => assembleIndexChunk1 A c (sel b) t) i = some (A (selTotal i)) := by
  simp only [assemble1]
  exact assembleIndexChunk1_of_elem A c _ _ _ htile

/-- `_rechunk` / `merge_chunks`: the selections `get_item(target_chunks, b)` tile with the identity. -/
theorem rechunkSel_tiles (n tc i : Nat) (htc : 0 < tc) (hi : i < n) :
    (selElems (.slice (i / tc * tc) (min ((i / tc + 1) * tc) n) 1))[i % tc]? = some i := by
  rw [selElems_slice1]
  have h1 := div_mul_add_mod i tc
  have h2 := Nat.mod_lt i htc
  have h3 : (i / tc + 1) * tc = i / tc * tc + tc := by rw [Nat.add_mul, Nat.one_mul]
  rw [List.getElem?_map, List.getElem?_range (by omega)]
  simp
  omega

theorem slice_count (offset step S S' : Nat) (hstep : 0 < step) (h : S ≤ S') :
    (offset + step * S' - (offset + step * S) + step - 1) / step = S' - S := by
  have hm : step * S ≤ step * S' := Nat.mul_le_mul_left step h
  have h2 : offset + step * S' - (offset + step * S) + step - 1 = step * (S' - S) + (step - 1) := by
    rw [Nat.mul_sub]; omega
  rw [h2, Nat.mul_add_div hstep, Nat.div_eq_of_lt (by omega), Nat.add_zero]

theorem slice_elem (offset step S t : Nat) : offset + step * S + t * step = offset + (S + t) * step := by
  rw [Nat.add_mul, Nat.mul_comm S step]; omega

/-- `_target_chunk_selection` for a slice `offset::step`: the selections of the out blocks tile with
`t ↦ offset + t*step`, i.e. the op computes `A[offset::step]` (first `m` elements). -/
theorem targetChunkSel1_tiles (m oc offset step i : Nat) (hoc : 0 < oc) (hstep : 0 < step) (hi : i < m) :
    (selElems (targetChunkSel1 (chunksOf m oc) offset step (i / oc)))[i % oc]? = some (offset + i * step) := by
  have hb := div_lt_nblocks hoc hi
  have hgi := getItem_chunksOf hoc hb
  unfold getItem at hgi
  have hg1 : ((chunksOf m oc).take (i / oc)).sum = i / oc * oc := (Prod.mk.inj hgi).1
  have hg2 : ((chunksOf m oc).take (i / oc + 1)).sum = min ((i / oc + 1) * oc) m := (Prod.mk.inj hgi).2
  unfold targetChunkSel1
  rw [hg1, hg2]
  have h1 := div_mul_add_mod i oc
  have h2 := mod_lt_blockLen hoc hi
  unfold blockLen at h2
  have h3 : (i / oc + 1) * oc = i / oc * oc + oc := by rw [Nat.add_mul, Nat.one_mul]
  have hL : i / oc * oc ≤ min ((i / oc + 1) * oc) m := by omega
  simp only [selElems]
  rw [slice_count offset step _ _ hstep hL, List.getElem?_map, List.getElem?_range (by omega)]
  simp only [Option.map_some]
  rw [slice_elem, h1]

/-- `x[offset::step]` on one axis: assembled out blocks = `sliceRef1`. -/
theorem index_slice_correct {α : Type} (A : Nat → α) (c m oc offset step i : Nat) (hoc : 0 < oc)
    (hstep : 0 < step) (hi : i < m) :
    assemble1 oc (fun b t => assembleIndexChunk1 A c (targetChunkSel1 (chunksOf m oc) offset step b) t) i
      = some (sliceRef1 A offset step i) :=
  selection_correct1 A c oc _ (fun i => offset + i * step) i (targetChunkSel1_tiles m oc offset step i hoc hstep hi)

/-- rechunk / merge_chunks on one axis is the identity on values. -/
theorem rechunk_correct1 {α : Type} (A : Nat → α) (n c tc i : Nat) (htc : 0 < tc) (hi : i < n) :
    assemble1 tc (fun b t => assembleIndexChunk1 A c (.slice (b * tc) (min ((b + 1) * tc) n) 1) t) i = some (A i) :=
  selection_correct1 A c tc (fun b => .slice (b * tc) (min ((b + 1) * tc) n) 1) (fun i => i) i
    (rechunkSel_tiles n tc i htc hi)

/-- generic selection theorem in n dimensions. -/
theorem selectionN_correct {α : Type} (A : List Nat → α) (ics ocs : List Nat) (sel : List Nat → List Sel)
    (selTotal : List Nat → List Nat) (is : List Nat)
    (htile : selPick (sel (divs is ocs)) (mods is ocs) = some (selTotal is))
    (hlen : (selTotal is).length ≤ ics.length) :
    assembleN ocs (fun b js => assembleIndexChunkN A ics (sel b) js) is = some (A (selTotal is)) := by
  simp only [assembleN, assembleIndexChunkN, htile, Option.map_some, blockN]
  rw [glob_divs_mods ics _ hlen]

/-- n-d `_rechunk` / `merge_chunks`: the selections `get_item(target_chunks, out_coords)` tile with the identity. -/
theorem rechunkSel_tilesN (shape tcs is : List Nat) (hlen : shape.length = tcs.length) (hpos : AllPos tcs)
    (h : InBox is shape) :
    selPick (rechunkSel shape tcs (divs is tcs)) (mods is tcs) = some is := by
  induction is generalizing shape tcs with
  | nil =>
    cases shape with
    | nil => cases tcs <;> simp [divs, mods, rechunkSel, selPick] at *
    | cons n ns => simp [InBox] at h
  | cons i is ih =>
    cases shape with
    | nil => simp [InBox] at h
    | cons n ns =>
      cases tcs with
      | nil => simp at hlen
      | cons c cs =>
        simp only [InBox] at h
        simp only [AllPos] at hpos
        simp only [divs, mods, rechunkSel, selPick]
        rw [rechunkSel_tiles n c i hpos.1 h.1, ih ns cs (by simpa using hlen) hpos.2 h.2]

/-- n-d rechunk / merge_chunks leave every value in place. -/
theorem rechunkN_correct {α : Type} (A : List Nat → α) (shape ics tcs is : List Nat)
    (hlen : shape.length = tcs.length) (hil : shape.length = ics.length) (hpos : AllPos tcs) (h : InBox is shape) :
    assembleN tcs (fun b js => assembleIndexChunkN A ics (rechunkSel shape tcs b) js) is = some (A is) :=
  selectionN_correct A ics tcs (rechunkSel shape tcs) (fun is => is) is
    (rechunkSel_tilesN shape tcs is hlen hpos h) (by rw [h.length_eq, hil]; exact Nat.le_refl _)

/-- `flip` on one axis: out block `b` selects the mirrored slice and reverses it. -/
theorem flip_correct1 {α : Type} (A : Nat → α) (n c i : Nat) (hc : 0 < c) (hi : i < n) :
    assemble1 c (fun b => flipBlock1 (blockLen n c b)
        (assembleIndexChunk1 A c (.slice (n - min ((b + 1) * c) n) (n - b * c) 1))) i
      = some (flipRef1 A n i) := by
  simp only [assemble1, flipBlock1, flipRef1]
  apply assembleIndexChunk1_of_elem
  rw [selElems_slice1]
  have h1 := div_mul_add_mod i c
  have h2 := mod_lt_blockLen hc hi
  unfold blockLen at *
  have h3 : (i / c + 1) * c = i / c * c + c := by rw [Nat.add_mul, Nat.one_mul]
  rw [List.getElem?_map, List.getElem?_range (by omega)]
  simp only [Option.map_some]
  congr 1
  omega

/-! ### scan -/

/-- since 5fff6ae the declared sizes of the per-block totals sum to `nb`: the assertion always holds. -/
theorem scanAccepts_all (s nb : Nat) : scanAccepts s nb = true := by
  unfold scanAccepts scanReducedSizes
  simp [sum_chunksOf]

theorem length_scanReducedSizes (s nb : Nat) (hs : 0 < s) (hnb : 0 < nb) :
    (scanReducedSizes s nb).length = nblocks nb (scanSplitSize s nb) := by
  unfold scanReducedSizes
  exact length_chunksOf _ _ (by unfold scanSplitSize; omega)

/-- the value `_scan_binop` reads (`inc[bi % split_every]` of increment block `bi // split_every`) exists:
the block is in the grid of the increment array and the local index is inside it (ragged last block included). -/
theorem scanInc_inBounds (s nb bi : Nat) (hs : 0 < s) (hbi : bi < nb) :
    bi / s < nblocks nb (scanSplitSize s nb) ∧ bi % s < blockLen nb (scanSplitSize s nb) (bi / s) := by
  unfold scanSplitSize
  by_cases hle : nb ≤ s
  · rw [Nat.min_eq_right hle, Nat.div_eq_of_lt (by omega), Nat.mod_eq_of_lt (by omega)]
    refine ⟨nblocks_pos (by omega) (by omega), ?_⟩
    unfold blockLen
    omega
  · rw [Nat.min_eq_left (by omega)]
    exact ⟨div_lt_nblocks hs hbi, mod_lt_blockLen hs hbi⟩

theorem scanAcceptsOld_iff (s nb : Nat) (hs : 0 < s) (hnb : 0 < nb) :
    scanAcceptsOld s nb = true ↔ (nb ≤ s ∨ nb % s = 0) := by
  unfold scanAcceptsOld scanSplitSize
  simp only [beq_iff_eq]
  by_cases hle : nb ≤ s
  · rw [Nat.min_eq_right hle]
    have : nblocks nb nb = 1 := by
      rw [nblocks_eq hnb, Nat.div_self hnb, Nat.mod_self]; rfl
    simp [this, hle]
  · rw [Nat.min_eq_left (by omega)]
    rw [nblocks_eq hs]
    have h1 := div_mul_add_mod nb s
    have h2 := Nat.mod_lt nb hs
    by_cases hm : nb % s = 0
    · simp [hm]; omega
    · simp only [hm, if_false, hle, false_or, iff_false]
      rw [Nat.add_mul, Nat.one_mul]; omega

/-- `_scan_binop` reads the increment of block `bi` itself (in an increment array chunked by `split_size`). -/
theorem scanIncPos_eq (s nb bi : Nat) (hbi : bi < nb) :
    scanIncPos s (scanSplitSize s nb) bi = bi := by
  unfold scanIncPos scanSplitSize
  by_cases hle : nb ≤ s
  · rw [Nat.min_eq_right hle, Nat.div_eq_of_lt (by omega), Nat.mod_eq_of_lt (by omega)]; omega
  · rw [Nat.min_eq_left (by omega)]; exact div_mul_add_mod bi s

theorem oop_comm {β : Type} (op : β → β → β) (hcomm : ∀ a b, op a b = op b a) (x y : Option β) :
    oop op x y = oop op y x := by
  cases x <;> cases y <;> simp [oop, hcomm]

/-- one level of `scan` (cumulative_sum / cumulative_prod): if the increment array holds at position `p`
the fold of everything before block `p` (what the recursive call and `partial_reduce` deliver), adding
it to the block-wise scan gives the inclusive scan of the whole axis.  The code computes
`binop(scanned, increment)`, so `op` must be commutative (`add`, `multiply`). -/
theorem scanOut1_correct {β : Type} (op : β → β → β) (hassoc : ∀ a b c, op (op a b) c = op a (op b c))
    (hcomm : ∀ a b, op a b = op b a) (A : Nat → β) (n c s i : Nat) (hc : 0 < c) (hi : i < n)
    (inc : Nat → Option β)
    (hinc : ∀ p, p < nblocks n c → inc p = ofold op ((List.range (p * c)).map A)) :
    scanOut1 op A c s (nblocks n c) inc i = scanRef1 op A i := by
  unfold scanOut1 scanRef1
  have hb := div_lt_nblocks hc hi
  rw [scanIncPos_eq s _ _ hb, hinc _ hb, oop_comm op hcomm]
  unfold ofold
  rw [← ofoldO_append op hassoc, ← List.map_append, ← List.map_append]
  have h1 := div_mul_add_mod i c
  have : List.range (i / c * c) ++ List.range' (i / c * c) (i % c + 1) = List.range (i + 1) := by
    have := range_append_range' (i / c * c) (i + 1) (by omega)
    rw [← this]
    congr 2
    omega
  rw [this]

/-! ### concat: `_array_slices` -/

theorem filterMap_eq_map_of {γ δ : Type} (f : γ → Option δ) (g : γ → δ) (xs : List γ)
    (h : ∀ x ∈ xs, f x = some (g x)) : xs.filterMap f = xs.map g := by
  induction xs with
  | nil => rfl
  | cons x xs ih =>
    rw [List.filterMap_cons, h x (by simp)]
    simp only [List.map_cons]
    rw [ih (fun y hy => h y (by simp [hy]))]

theorem filterMap_congr_mem {γ δ : Type} (f g : γ → Option δ) (xs : List γ)
    (h : ∀ x ∈ xs, f x = g x) : xs.filterMap f = xs.filterMap g := by
  induction xs with
  | nil => rfl
  | cons x xs ih =>
    rw [List.filterMap_cons, List.filterMap_cons, h x (by simp), ih (fun y hy => h y (by simp [hy]))]

theorem filterMap_range'_shift {γ : Type} (f : Nat → Option γ) (l n s : Nat) (h : l ≤ s) :
    (List.range' s n).filterMap (fun p => f (p - l)) = (List.range' (s - l) n).filterMap f := by
  induction n generalizing s with
  | zero => simp
  | succ n ih =>
    simp only [List.range'_succ, List.filterMap_cons]
    rw [ih (s + 1) (by omega)]
    have : s + 1 - l = s - l + 1 := by omega
    rw [this]

theorem range'_split (a m b : Nat) (h1 : a ≤ m) (h2 : m ≤ b) :
    List.range' a (b - a) = List.range' a (m - a) ++ List.range' m (b - m) := by
  have := List.range'_append_1 (s := a) (m := m - a) (n := b - m)
  rw [show a + (m - a) = m by omega] at this
  rw [this]
  congr 1
  omega

/-- `_array_slices` is correct: its pieces, expanded element by element in order, are exactly the
positions `start … stop-1` of the concatenation, each located in its array at its local index. -/
theorem arraySlices_correct (lens : List Nat) (ai start stop : Nat) :
    (arraySlices lens ai start stop).flatMap pieceElems
      = (List.range' start (stop - start)).filterMap (locate lens ai) := by
  induction lens generalizing ai start stop with
  | nil => simp [arraySlices, locate]
  | cons l ls ih =>
    unfold arraySlices
    by_cases h1 : stop ≤ start
    · simp [h1, Nat.sub_eq_zero_of_le h1]
    · simp only [h1, if_false]
      by_cases h2 : start < l
      · simp only [h2, if_true, List.flatMap_cons]
        rw [ih, range'_split start (min stop l) stop (by omega) (by omega), List.filterMap_append]
        congr 1
        · unfold pieceElems
          simp only
          symm
          apply filterMap_eq_map_of
          intro p hp
          rw [List.mem_range'_1] at hp
          have : p < l := by omega
          simp [locate, this]
        · by_cases h3 : stop ≤ l
          · simp [Nat.min_eq_left h3, Nat.sub_eq_zero_of_le h3]
          · have hml : min stop l = l := by omega
            rw [hml, Nat.sub_zero]
            have hs := filterMap_range'_shift (locate ls (ai + 1)) l (stop - l) l (Nat.le_refl l)
            rw [Nat.sub_self] at hs
            rw [← hs]
            apply filterMap_congr_mem
            intro p hp
            rw [List.mem_range'_1] at hp
            have : ¬ p < l := by omega
            simp [locate, this]
      · simp only [h2, if_false]
        rw [ih]
        have hs := filterMap_range'_shift (locate ls (ai + 1)) l (stop - start) start (by omega)
        rw [show stop - l - (start - l) = stop - start by omega, ← hs]
        apply filterMap_congr_mem
        intro p hp
        rw [List.mem_range'_1] at hp
        have : ¬ p < l := by omega
        simp [locate, this]

/-! ### coordinate surgery lemmas (stack / unstack) -/

theorem length_divs (is cs : List Nat) (h : is.length = cs.length) : (divs is cs).length = is.length := by
  induction is generalizing cs with
  | nil => cases cs <;> simp [divs]
  | cons i is ih =>
    cases cs with
    | nil => simp at h
    | cons c cs => simp [divs, ih cs (by simpa using h)]

theorem length_mods (is cs : List Nat) (h : is.length = cs.length) : (mods is cs).length = is.length := by
  induction is generalizing cs with
  | nil => cases cs <;> simp [mods]
  | cons i is ih =>
    cases cs with
    | nil => simp at h
    | cons c cs => simp [mods, ih cs (by simpa using h)]

theorem length_blockShapeN (ns cs bs : List Nat) (h1 : ns.length = cs.length) (h2 : bs.length = cs.length) :
    (blockShapeN ns cs bs).length = cs.length := by
  induction ns generalizing cs bs with
  | nil => cases cs <;> simp [blockShapeN] at *
  | cons n ns ih =>
    cases cs with
    | nil => simp at h1
    | cons c cs =>
      cases bs with
      | nil => simp at h2
      | cons b bs => simp [blockShapeN, ih cs bs (by simpa using h1) (by simpa using h2)]

theorem length_insertAt (a x : Nat) (l : List Nat) (h : a ≤ l.length) : (insertAt a x l).length = l.length + 1 := by
  induction a generalizing l with
  | zero => simp [insertAt]
  | succ a ih =>
    cases l with
    | nil => simp at h
    | cons y l => simp [insertAt, ih l (by simpa using h)]

theorem getElem?_insertAt (a x : Nat) (l : List Nat) (h : a ≤ l.length) : (insertAt a x l)[a]? = some x := by
  induction a generalizing l with
  | zero => simp [insertAt]
  | succ a ih =>
    cases l with
    | nil => simp at h
    | cons y l => simp [insertAt, ih l (by simpa using h)]

theorem eraseAt_insertAt (a x : Nat) (l : List Nat) (h : a ≤ l.length) : eraseAt a (insertAt a x l) = l := by
  induction a generalizing l with
  | zero => simp [insertAt, eraseAt]
  | succ a ih =>
    cases l with
    | nil => simp at h
    | cons y l => simp [insertAt, eraseAt, ih l (by simpa using h)]

theorem insertAt_eraseAt (a c : Nat) (cs : List Nat) (h : cs[a]? = some c) : insertAt a c (eraseAt a cs) = cs := by
  induction a generalizing cs with
  | zero =>
    cases cs with
    | nil => simp at h
    | cons y l => simp at h; simp [insertAt, eraseAt, h]
  | succ a ih =>
    cases cs with
    | nil => simp at h
    | cons y l => simp at h; simp [insertAt, eraseAt, ih l h]

theorem length_eraseAt (a c : Nat) (cs : List Nat) (h : cs[a]? = some c) : (eraseAt a cs).length + 1 = cs.length := by
  have := length_insertAt a c (eraseAt a cs)
  have h2 := insertAt_eraseAt a c cs h
  induction a generalizing cs with
  | zero =>
    cases cs with
    | nil => simp at h
    | cons y l => simp [eraseAt]
  | succ a ih =>
    cases cs with
    | nil => simp at h
    | cons y l =>
      simp at h
      simp [eraseAt]
      have h3 := insertAt_eraseAt a c l h
      exact ih l h (fun _ => by rw [length_insertAt]; assumption) h3

theorem divs_insertAt (a i c : Nat) (is cs : List Nat) (h : a ≤ is.length) (hl : is.length = cs.length) :
    divs (insertAt a i is) (insertAt a c cs) = insertAt a (i / c) (divs is cs) := by
  induction a generalizing is cs with
  | zero => simp [insertAt, divs]
  | succ a ih =>
    cases is with
    | nil => simp at h
    | cons y is =>
      cases cs with
      | nil => simp at hl
      | cons d cs => simp [insertAt, divs, ih is cs (by simpa using h) (by simpa using hl)]

theorem mods_insertAt (a i c : Nat) (is cs : List Nat) (h : a ≤ is.length) (hl : is.length = cs.length) :
    mods (insertAt a i is) (insertAt a c cs) = insertAt a (i % c) (mods is cs) := by
  induction a generalizing is cs with
  | zero => simp [insertAt, mods]
  | succ a ih =>
    cases is with
    | nil => simp at h
    | cons y is =>
      cases cs with
      | nil => simp at hl
      | cons d cs => simp [insertAt, mods, ih is cs (by simpa using h) (by simpa using hl)]

theorem glob_insertAt (a c b j : Nat) (cs bs js : List Nat) (h : a ≤ cs.length) (h1 : bs.length = cs.length)
    (h2 : js.length = cs.length) :
    glob (insertAt a c cs) (insertAt a b bs) (insertAt a j js) = insertAt a (b * c + j) (glob cs bs js) := by
  induction a generalizing cs bs js with
  | zero => simp [insertAt, glob]
  | succ a ih =>
    cases cs with
    | nil => simp at h
    | cons d cs =>
      cases bs with
      | nil => simp at h1
      | cons e bs =>
        cases js with
        | nil => simp at h2
        | cons f js =>
          simp [insertAt, glob, ih cs bs js (by simpa using h) (by simpa using h1) (by simpa using h2)]

theorem bcastIndex_self (v js : List Nat) (h : js.length = v.length) : bcastIndex v v js = some js := by
  induction v generalizing js with
  | nil => cases js <;> simp [bcastIndex] at *
  | cons x v ih =>
    cases js with
    | nil => simp at h
    | cons j js => simp [bcastIndex, ih js (by simpa using h)]

/-- `unstack`: output number `m` is `A[..., m, ...]` — block `m / c` along the axis, slice `m % c`. -/
theorem unstack_correct {α : Type} (A : List Nat → α) (cs : List Nat) (axis c m : Nat) (js : List Nat)
    (hc : cs[axis]? = some c) (hlen : js.length + 1 = cs.length) (ha : axis ≤ js.length) :
    unstackEval A cs axis c m js = A (insertAt axis m js) := by
  unfold unstackEval unstackPos
  have hcs := insertAt_eraseAt axis c cs hc
  have hl := length_eraseAt axis c cs hc
  have hjl : js.length = (eraseAt axis cs).length := by omega
  have hg : glob cs (insertAt axis (m / c) (divs js (eraseAt axis cs))) (insertAt axis (m % c) (mods js (eraseAt axis cs)))
      = glob (insertAt axis c (eraseAt axis cs)) (insertAt axis (m / c) (divs js (eraseAt axis cs)))
          (insertAt axis (m % c) (mods js (eraseAt axis cs))) := by rw [hcs]
  simp only
  rw [hg, glob_insertAt _ _ _ _ _ _ _ (by omega) (by rw [length_divs _ _ hjl]; exact hjl)
    (by rw [length_mods _ _ hjl]; exact hjl), glob_divs_mods _ _ (by omega), div_mul_add_mod]

/-- `stack` when every input has the chunking (and shape) of the first: element `(…, k, …)` is `arrs k`. -/
theorem stack_correct_partial {α : Type} (arrs : Nat → List Nat → α) (shape cs : List Nat) (axis k : Nat)
    (js : List Nat) (hpos : AllPos cs) (hlen : shape.length = cs.length) (hjs : InBox js shape)
    (ha : axis ≤ js.length) :
    stackEval arrs (fun _ => shape) (fun _ => cs) axis (insertAt axis k js) = some (arrs k js) := by
  have hjl : js.length = cs.length := by rw [hjs.length_eq, hlen]
  have hb := divs_mods_inBox hlen hpos hjs
  unfold stackEval
  simp only
  rw [divs_insertAt axis k 1 js cs ha hjl, mods_insertAt axis k 1 js cs ha hjl]
  have hdl : (divs js cs).length = js.length := length_divs js cs hjl
  have hml : (mods js cs).length = js.length := length_mods js cs hjl
  unfold stackKey
  rw [getElem?_insertAt _ _ _ (by omega), eraseAt_insertAt _ _ _ (by omega)]
  simp only [Option.map_some, Nat.div_one, Nat.mod_one]
  rw [(inBox_iff _ _).mpr hb.1]
  simp only [if_true]
  have hbl : (blockShapeN shape cs (divs js cs)).length = cs.length :=
    length_blockShapeN shape cs (divs js cs) hlen (by omega)
  rw [bcastIndex_self _ _ (by rw [length_insertAt _ _ _ (by omega), length_insertAt _ _ _ (by omega)]; omega)]
  simp only
  rw [eraseAt_insertAt _ _ _ (by omega), glob_divs_mods cs js (by omega)]

/-- `stack` since f3856f5: inputs of equal shape and arbitrary chunkings — the others are rechunked to the
first's chunking (values unchanged by `rechunkN_correct`), then the block op is correct. -/
theorem stackUnified_correct {α : Type} (arrs : Nat → List Nat → α) (shape : List Nat) (css : Nat → List Nat)
    (axis k : Nat) (js : List Nat) (hpos : AllPos (css 0)) (hlen : ∀ k, (css k).length = shape.length)
    (hjs : InBox js shape) (ha : axis ≤ js.length) :
    stackUnified arrs shape css axis (insertAt axis k js) = some (arrs k js) := by
  unfold stackUnified
  rw [stack_correct_partial _ shape (css 0) axis k js hpos (hlen 0).symm hjs ha]
  simp only [Option.bind_some, id]
  by_cases h : css k = css 0
  · simp [h]
  · simp only [h, if_false]
    exact rechunkN_correct (arrs k) shape (css k) (css 0) js (hlen 0).symm (hlen k).symm hpos hjs

/-! ### reshape_chunks -/

theorem unravel_inBox (off : Nat) (ds : List Nat) (h : off < ds.foldl (· * ·) 1) : InBox (unravel off ds) ds := by
  induction ds generalizing off with
  | nil => simp [unravel, InBox]
  | cons d ds ih =>
    simp [List.foldl] at h
    rw [foldl_mul_eq ds d] at h
    have hpos : 0 < List.foldl (· * ·) 1 ds := by
      rcases Nat.eq_zero_or_pos (List.foldl (· * ·) 1 ds) with h0 | h0
      · rw [h0] at h; simp at h
      · exact h0
    simp only [unravel, InBox]
    exact ⟨(Nat.div_lt_iff_lt_mul hpos).mpr h, ih _ (Nat.mod_lt _ hpos)⟩

/-- `reshape_chunks`' key function sends out block `out` to the in block with the same linear (C-order)
offset; it is a bijection between the two block grids when they have the same number of blocks. -/
theorem reshapeKey_spec (inNb outNb out : List Nat) (hprod : inNb.foldl (· * ·) 1 = outNb.foldl (· * ·) 1)
    (hout : InBox out outNb) :
    InBox (reshapeKey inNb outNb out) inNb ∧ ravel (reshapeKey inNb outNb out) inNb = ravel out outNb := by
  unfold reshapeKey
  have hlt := ravel_lt hout
  rw [← hprod] at hlt
  exact ⟨unravel_inBox _ _ hlt, ravel_unravel _ _ hlt⟩

theorem reshapeKey_injective (inNb outNb o1 o2 : List Nat) (h1 : InBox o1 outNb) (h2 : InBox o2 outNb)
    (h : reshapeKey inNb outNb o1 = reshapeKey inNb outNb o2)
    (hprod : inNb.foldl (· * ·) 1 = outNb.foldl (· * ·) 1) : o1 = o2 := by
  have a := (reshapeKey_spec inNb outNb o1 hprod h1).2
  have b := (reshapeKey_spec inNb outNb o2 hprod h2).2
  rw [h] at a
  have : ravel o1 outNb = ravel o2 outNb := by rw [← a, b]
  rw [← unravel_ravel h1, ← unravel_ravel h2, this]

end Cubed.Ops
