/-
  Helper lemmas for C16 (model layer `Lazy`).
-/
import CubedModel.Model.Lazy

namespace Cubed.Lazy

/-! ## Non-executing API calls leave the store alone -/

theorem step_nonexec (opt : List Op → List Op) (s : St) (a : Api) (h : a.isExecute = false) :
    (step opt s a).log = s.log ∧ (step opt s a).created = s.created := by
  cases a <;> simp_all [step, Api.isExecute]

theorem run_nonexec (opt : List Op → List Op) (h : List Api) :
    ∀ s : St, (∀ a ∈ h, a.isExecute = false) →
      (run opt s h).log = s.log ∧ (run opt s h).created = s.created := by
  induction h with
  | nil => intro s _; simp [run]
  | cons a rest ih =>
    intro s hall
    have ha := step_nonexec opt s a (hall a (by simp))
    have hr := ih (step opt s a) (fun b hb => hall b (by simp [hb]))
    simp only [run, List.foldl_cons] at hr ⊢
    exact ⟨hr.1.trans ha.1, hr.2.trans ha.2⟩

theorem life_created_iff (s : St) (a : String) : life s a = Life.created ↔ a ∈ s.created := by
  unfold life
  constructor
  · intro h
    split at h
    · rename_i hc; simpa using hc
    · split at h <;> simp at h
  · intro h
    simp [h]

/-- `created` only grows. -/
theorem applyEvent_created_mono (s : St) (e : Ev) (a : String) (h : a ∈ s.created) :
    a ∈ (applyEvent s e).created := by
  cases e with
  | mkmeta b =>
    simp only [applyEvent]
    split
    · exact h
    · simp [h]
  | chunk b i => simpa [applyEvent] using h

/-- metadata events in the log are exactly the arrays that became created. -/
theorem applyEvent_new_created (s : St) (e : Ev) (a : String)
    (h : a ∈ (applyEvent s e).created) (h0 : a ∉ s.created) : e = Ev.mkmeta a := by
  cases e with
  | mkmeta b =>
    simp only [applyEvent] at h
    split at h
    · exact absurd h h0
    · simp at h
      rcases h with h | h
      · exact absurd h h0
      · simp [h]
  | chunk b i => simp [applyEvent] at h; exact absurd h h0

theorem foldl_applyEvent_new_created (evs : List Ev) :
    ∀ (s : St) (a : String), a ∈ (evs.foldl applyEvent s).created → a ∉ s.created → Ev.mkmeta a ∈ evs := by
  induction evs with
  | nil => intro s a h h0; exact absurd h h0
  | cons e rest ih =>
    intro s a h h0
    simp only [List.foldl_cons] at h
    by_cases hc : a ∈ (applyEvent s e).created
    · have := applyEvent_new_created s e a hc h0
      simp [this]
    · have := ih (applyEvent s e) a h hc
      simp [this]

/-! ## The finalized plan -/

theorem mem_pipes {fp : FPlan} {o : Op} (h : o ∈ fp.pipes) : o ∈ fp.ops := by
  simp only [FPlan.pipes, List.mem_filter] at h
  exact h.1

theorem find_pipes_mem {fp : FPlan} {n : String} {o : Op}
    (h : fp.pipes.find? (·.name == n) = some o) : o ∈ fp.pipes :=
  List.mem_of_find?_eq_some h

/-- Every lazy target of a node of the finalized dag is in the create list. -/
theorem lazy_target_in_creates (opt : List Op → List Op) (ops : List Op) (o : Op) (a : String)
    (ho : o ∈ (finalize opt ops).ops) (ha : Target.lazy a ∈ o.targets) :
    a ∈ (finalize opt ops).creates := by
  simp only [finalize] at ho ⊢
  simp only [List.mem_flatMap, List.mem_filterMap]
  exact ⟨o, ho, Target.lazy a, ha, rfl⟩

/-- and conversely nothing else is created. -/
theorem creates_are_lazy_targets (opt : List Op → List Op) (ops : List Op) (a : String)
    (h : a ∈ (finalize opt ops).creates) :
    ∃ o ∈ (finalize opt ops).ops, Target.lazy a ∈ o.targets := by
  simp only [finalize, List.mem_flatMap, List.mem_filterMap] at h ⊢
  obtain ⟨o, ho, t, ht, hta⟩ := h
  refine ⟨o, ho, ?_⟩
  cases t <;> simp [Target.lazyName?] at hta
  subst hta
  exact ht

/-- create-arrays is a predecessor of every pipeline node as soon as there is something to create. -/
theorem createArrays_pred (fp : FPlan) (n : String) (o : Op)
    (ho : fp.pipes.find? (·.name == n) = some o) (a : String) (ha : a ∈ fp.creates) :
    Node.createArrays ∈ preds fp (Node.op n) := by
  have hne : fp.creates.isEmpty = false := by
    cases hc : fp.creates with
    | nil => simp [hc] at ha
    | cons _ _ => rfl
  simp [preds, ho, hne]

/-- a task belongs to a node only if the node exists; for `run` tasks the node is the op of that name. -/
theorem run_task_node (fp : FPlan) (n : String) (i : Nat) (nd : Node) (h : Task.run n i ∈ tasksOf fp nd) :
    nd = Node.op n ∧ ∃ o, fp.pipes.find? (·.name == n) = some o ∧ i < o.ntasks := by
  cases nd with
  | createArrays => simp [tasksOf] at h
  | op m =>
    simp only [tasksOf] at h
    split at h
    · simp at h
    · rename_i o ho
      simp only [List.mem_map, List.mem_range] at h
      obtain ⟨k, hk, hke⟩ := h
      injection hke with h1 h2
      subst h1; subst h2
      exact ⟨rfl, o, ho, hk⟩

theorem getElem?_append_cons {α} (pre post : List α) (x : α) : (pre ++ x :: post)[pre.length]? = some x := by
  simp

theorem take_append_cons {α} (pre post : List α) (x : α) : (pre ++ x :: post).take pre.length = pre := by
  simp

/-- Task level: a pipeline task never starts before every array of the create list has been created. -/
theorem create_before_run (fp : FPlan) (sched : List Task) (hB : Barrier fp sched)
    (pre post : List Task) (n : String) (i : Nat) (nd : Node)
    (hs : sched = pre ++ Task.run n i :: post) (hnd : Task.run n i ∈ tasksOf fp nd)
    (a : String) (ha : a ∈ fp.creates) : Task.create a ∈ pre := by
  obtain ⟨hnd', o, ho, _⟩ := run_task_node fp n i nd hnd
  subst hnd'
  have hj : sched[pre.length]? = some (Task.run n i) := by rw [hs]; exact getElem?_append_cons _ _ _
  have hp := createArrays_pred fp n o ho a ha
  have hc : Task.create a ∈ tasksOf fp Node.createArrays := by
    simp [tasksOf, ha]
  have := hB pre.length (Task.run n i) hj (Node.op n) hnd Node.createArrays hp (Task.create a) hc
  rw [hs, take_append_cons] at this
  exact this

/-- A node that owns a task is one of `nodesOf`. -/
theorem node_of_task_mem (fp : FPlan) (n : Node) (t : Task) (h : t ∈ tasksOf fp n) : n ∈ nodesOf fp := by
  cases n with
  | createArrays => simp [nodesOf]
  | op m =>
    simp only [tasksOf] at h
    split at h
    · simp at h
    · rename_i o ho
      have hmem := List.mem_of_find?_eq_some ho
      have hname : o.name = m := by
        have := List.find?_some ho
        simpa using this
      simp only [nodesOf, List.mem_cons, List.mem_map]
      right
      exact ⟨o, hmem, by rw [hname]⟩

/-- The executable barrier check implies the executor contract. -/
theorem barrierOk_sound (fp : FPlan) (sched : List Task) (h : barrierOk fp sched = true) : Barrier fp sched := by
  intro j t hj n ht p hp t' ht'
  have hjlt : j < sched.length := by
    rcases Nat.lt_or_ge j sched.length with hlt | hge
    · exact hlt
    · rw [List.getElem?_eq_none hge] at hj; cases hj
  simp only [barrierOk, List.all_eq_true, List.mem_range] at h
  have h1 := h j hjlt
  rw [hj] at h1
  simp only [List.all_eq_true] at h1
  have h2 := h1 n (node_of_task_mem fp n t ht)
  have hc : (tasksOf fp n).contains t = true := by simpa using ht
  simp only [hc, Bool.not_true, Bool.false_or, List.all_eq_true] at h2
  have h3 := h2 p hp t' ht'
  simpa using h3

/-- Splitting a `flatMap` at an element. -/
theorem flatMap_split {α β} (f : α → List β) :
    ∀ (l : List α) (pre post : List β) (x : β), l.flatMap f = pre ++ x :: post →
      ∃ p t q u v, l = p ++ t :: q ∧ f t = u ++ x :: v ∧ pre = p.flatMap f ++ u := by
  intro l
  induction l with
  | nil => intro pre post x h; simp at h
  | cons t rest ih =>
    intro pre post x h
    simp only [List.flatMap_cons] at h
    -- either x falls into f t, or into the rest
    rcases List.append_eq_append_iff.mp h with ⟨w, hw1, hw2⟩ | ⟨w, hw1, hw2⟩
    · -- pre = f t ++ w, rest.flatMap f = w ++ x :: post
      obtain ⟨p, t', q, u, v, hl, hft, hpre⟩ := ih w post x hw2
      refine ⟨t :: p, t', q, u, v, by simp [hl], hft, ?_⟩
      simp [hw1, hpre, List.append_assoc]
    · -- f t = pre ++ w, x :: post = w ++ rest.flatMap f
      cases w with
      | nil =>
        simp at hw2
        -- x :: post = rest.flatMap f : x falls into the rest with empty prefix
        obtain ⟨p, t', q, u, v, hl, hft, hpre⟩ := ih [] post x (by simpa using hw2.symm)
        refine ⟨t :: p, t', q, u, v, by simp [hl], hft, ?_⟩
        have : pre = f t := by simpa using hw1.symm
        simp [this]
        simpa using hpre
      | cons y w' =>
        simp at hw2
        obtain ⟨hxy, _⟩ := hw2
        subst hxy
        exact ⟨[], t, rest, pre, w', by simp, hw1, by simp⟩

/-- Every task the executor runs is a task of some node of the plan. -/
def Valid (fp : FPlan) (sched : List Task) : Prop := ∀ t ∈ sched, ∃ nd, t ∈ tasksOf fp nd

/-- Event level: in the store log of an execution, the metadata of every array of the create list is
ensured before any chunk of it is written. -/
theorem meta_before_chunk (fp : FPlan) (sched : List Task) (hV : Valid fp sched) (hB : Barrier fp sched)
    (pre post : List Ev) (a : String) (i : Nat)
    (h : schedEvents fp sched = pre ++ Ev.chunk a i :: post) (ha : a ∈ fp.creates) :
    Ev.mkmeta a ∈ pre := by
  obtain ⟨p, t, q, u, v, hl, hft, hpre⟩ := flatMap_split (taskEvents fp) sched pre post (Ev.chunk a i) h
  cases t with
  | create b =>
    simp only [taskEvents] at hft
    cases u with
    | nil => simp at hft
    | cons _ u' => simp at hft
  | run n k =>
    obtain ⟨nd, hnd⟩ := hV (Task.run n k) (by simp [hl])
    have hc := create_before_run fp sched hB p q n k nd hl hnd a ha
    rw [hpre]
    apply List.mem_append_left
    simp only [List.mem_flatMap]
    exact ⟨Task.create a, hc, by simp [taskEvents]⟩

/-! ## The trace acceptor -/

def Obs.isMutation : Obs → Bool
  | .mkmeta _ => true
  | .chunk _ => true
  | .del _ => true
  | _ => false

/-- With no executing call around, an accepted trace contains no store mutation at all. -/
theorem scanTrace_lazy_no_mutation (tr : List Obs) :
    ∀ (sc : Scan) (i : Nat), scanTrace tr sc i = none → sc.depthExec = 0 →
      (∀ e ∈ tr, e ≠ Obs.enter true) → ∀ e ∈ tr, e.isMutation = false := by
  induction tr with
  | nil => intro sc i _ _ _ e he; simp at he
  | cons o rest ih =>
    intro sc i h hd hne e he
    have hne' : ∀ e ∈ rest, e ≠ Obs.enter true := fun e he => hne e (by simp [he])
    cases o with
    | enter b =>
      have hb : b = false := by
        cases b with
        | false => rfl
        | true => exact absurd rfl (hne (Obs.enter true) (by simp))
      subst hb
      simp only [scanTrace] at h
      have := ih _ _ h (by simp [hd]) hne'
      rcases List.mem_cons.mp he with rfl | he'
      · rfl
      · exact this e he'
    | exit =>
      simp only [scanTrace] at h
      split at h
      · simp at h
      · have := ih _ _ h (by simp [hd]) hne'
        rcases List.mem_cons.mp he with rfl | he'
        · rfl
        · exact this e he'
    | pre a =>
      simp only [scanTrace] at h
      have := ih _ _ h (by simp [hd]) hne'
      rcases List.mem_cons.mp he with rfl | he'
      · rfl
      · exact this e he'
    | mkmeta a => simp [scanTrace, hd] at h
    | chunk a => simp [scanTrace, hd] at h
    | del k => simp [scanTrace, hd] at h

/-- In an accepted trace every chunk write is preceded by the creation of its array (or the array
pre-existed). -/
theorem scanTrace_chunk_after_create (tr : List Obs) :
    ∀ (sc : Scan) (i : Nat), scanTrace tr sc i = none →
      ∀ (pre post : List Obs) (a : String), tr = pre ++ Obs.chunk a :: post →
        a ∈ sc.created ∨ Obs.mkmeta a ∈ pre ∨ Obs.pre a ∈ pre := by
  induction tr with
  | nil => intro sc i _ pre post a h; simp at h
  | cons o rest ih =>
    intro sc i h pre post a hsplit
    cases pre with
    | nil =>
      simp at hsplit
      obtain ⟨ho, _⟩ := hsplit
      subst ho
      simp only [scanTrace] at h
      split at h
      · simp at h
      · split at h
        · simp at h
        · rename_i _ hc
          left
          simpa using hc
    | cons o' pre' =>
      simp at hsplit
      obtain ⟨ho, hrest⟩ := hsplit
      subst ho
      cases o with
      | enter b =>
        simp only [scanTrace] at h
        rcases ih _ _ h pre' post a hrest with h1 | h1 | h1
        · left; simpa using h1
        · right; left; simp [h1]
        · right; right; simp [h1]
      | exit =>
        simp only [scanTrace] at h
        split at h
        · simp at h
        · rcases ih _ _ h pre' post a hrest with h1 | h1 | h1
          · left; simpa using h1
          · right; left; simp [h1]
          · right; right; simp [h1]
      | pre b =>
        simp only [scanTrace] at h
        rcases ih _ _ h pre' post a hrest with h1 | h1 | h1
        · simp at h1
          rcases h1 with h1 | h1
          · right; right; simp [h1]
          · left; exact h1
        · right; left; simp [h1]
        · right; right; simp [h1]
      | mkmeta b =>
        simp only [scanTrace] at h
        split at h
        · simp at h
        · rcases ih _ _ h pre' post a hrest with h1 | h1 | h1
          · simp at h1
            rcases h1 with h1 | h1
            · right; left; simp [h1]
            · left; exact h1
          · right; left; simp [h1]
          · right; right; simp [h1]
      | chunk b =>
        simp only [scanTrace] at h
        split at h
        · simp at h
        · split at h
          · simp at h
          · rcases ih _ _ h pre' post a hrest with h1 | h1 | h1
            · left; exact h1
            · right; left; simp [h1]
            · right; right; simp [h1]
      | del k =>
        simp only [scanTrace] at h
        split at h
        · simp at h
        · rcases ih _ _ h pre' post a hrest with h1 | h1 | h1
          · left; exact h1
          · right; left; simp [h1]
          · right; right; simp [h1]

end Cubed.Lazy
