/-
  Lemmas about the rechunk model (Model/Rechunk.lean).

  Part A  `split_chunksizes` is the coarsest common refinement of the copy grid and the target grid
          (namespace `Cubed.Rechunk`, reused by C05).
  Part B  `consolidate_chunks`: memory bound, alignment with the original chunks, unreachable assertion.
  Part C  planners: stage invariants (memory, shape of the plan, alignment of the regular planner).
  Part D  `_rechunk_plan` / `rechunk_plan`: copy ops form a chain ending in the requested chunks.
-/
import CubedModel.Model.Rechunk

namespace Cubed.Rechunk

/-! ## Part A — split_chunksizes -/

theorem lt_next_mul (p s : Nat) (hs : 0 < s) : p < (p / s + 1) * s := by
  have := @Nat.lt_div_mul_add p s hs
  rw [Nat.add_mul]; omega

theorem div_mul_le' (p s : Nat) : p / s * s ≤ p := Nat.div_mul_le_self p s

/-- no multiple of `s` lies strictly between `p` and the next multiple of `s` after `p`. -/
theorem next_mul_le_of_dvd (p s b : Nat) (hs : 0 < s) (hpb : p < b) (hd : s ∣ b) :
    (p / s + 1) * s ≤ b := by
  obtain ⟨k, rfl⟩ := hd
  have h1 : p / s < k := by
    rw [Nat.div_lt_iff_lt_mul hs, Nat.mul_comm]; exact hpb
  have h2 : (p / s + 1) * s ≤ k * s := Nat.mul_le_mul_right s h1
  rw [Nat.mul_comm s k]; exact h2

theorem nextCut_gt (n sc tc p : Nat) (hs : 0 < sc) (ht : 0 < tc) (hp : p < n) :
    p < nextCut n sc tc p := by
  have h1 := lt_next_mul p sc hs
  have h2 := lt_next_mul p tc ht
  unfold nextCut; omega

theorem nextCut_le (n sc tc p : Nat) : nextCut n sc tc p ≤ n := by
  unfold nextCut; omega

theorem nextCut_le_src (n sc tc p : Nat) : nextCut n sc tc p ≤ (p / sc + 1) * sc := by
  unfold nextCut; omega

theorem nextCut_le_tgt (n sc tc p : Nat) : nextCut n sc tc p ≤ (p / tc + 1) * tc := by
  unfold nextCut; omega

theorem nextCut_kind (n sc tc p : Nat) :
    nextCut n sc tc p = n ∨ sc ∣ nextCut n sc tc p ∨ tc ∣ nextCut n sc tc p := by
  have h1 : sc ∣ (p / sc + 1) * sc := Nat.dvd_mul_left _ _
  have h2 : tc ∣ (p / tc + 1) * tc := Nat.dvd_mul_left _ _
  unfold nextCut
  generalize (p / sc + 1) * sc = A at *
  generalize (p / tc + 1) * tc = B at *
  by_cases hn : min A B ≤ n
  · rw [Nat.min_eq_left hn]
    by_cases hab : A ≤ B
    · rw [Nat.min_eq_left hab]; exact Or.inr (Or.inl h1)
    · rw [Nat.min_eq_right (by omega)]; exact Or.inr (Or.inr h2)
  · left; omega

/-- the block `[p, nextCut)` lies inside one block of a grid of size `s` whose next boundary is not before the cut. -/
theorem same_block (p q s : Nat) (hpq : p < q) (hq : q ≤ (p / s + 1) * s) :
    (q - 1) / s = p / s := by
  apply Nat.div_eq_of_lt_le
  · have := div_mul_le' p s; omega
  · omega

/-- boundaries of the split: `b` is listed iff it is `n` or a multiple of one of the two chunk sizes. -/
theorem mem_cutsFrom (n sc tc : Nat) (hs : 0 < sc) (ht : 0 < tc) (b : Nat) :
    ∀ fuel p, n - p ≤ fuel →
      (b ∈ cutsFrom n sc tc fuel p ↔ p < b ∧ b ≤ n ∧ (b = n ∨ sc ∣ b ∨ tc ∣ b)) := by
  intro fuel
  induction fuel with
  | zero => intro p h; simp [cutsFrom]; omega
  | succ f ih =>
    intro p h
    unfold cutsFrom
    by_cases hp : p < n
    · simp only [hp, if_true, List.mem_cons]
      have hgt := nextCut_gt n sc tc p hs ht hp
      have hle := nextCut_le n sc tc p
      have hk := nextCut_kind n sc tc p
      rw [ih (nextCut n sc tc p) (by omega)]
      constructor
      · rintro (rfl | ⟨h1, h2, h3⟩)
        · exact ⟨hgt, hle, hk⟩
        · exact ⟨by omega, h2, h3⟩
      · rintro ⟨h1, h2, h3⟩
        by_cases hb : b = nextCut n sc tc p
        · exact Or.inl hb
        · by_cases hlt : b < nextCut n sc tc p
          · exfalso
            rcases h3 with h3 | h3 | h3
            · omega
            · have := next_mul_le_of_dvd p sc b hs h1 h3
              have := nextCut_le_src n sc tc p; omega
            · have := next_mul_le_of_dvd p tc b ht h1 h3
              have := nextCut_le_tgt n sc tc p; omega
          · exact Or.inr ⟨by omega, h2, h3⟩
    · simp only [hp, if_false, List.not_mem_nil, false_iff]; omega

theorem cutsFrom_gt (n sc tc : Nat) (hs : 0 < sc) (ht : 0 < tc) :
    ∀ fuel p b, b ∈ cutsFrom n sc tc fuel p → p < b := by
  intro fuel
  induction fuel with
  | zero => intro p b h; simp [cutsFrom] at h
  | succ f ih =>
    intro p b h
    unfold cutsFrom at h
    by_cases hp : p < n
    · simp only [hp, if_true, List.mem_cons] at h
      have hgt := nextCut_gt n sc tc p hs ht hp
      rcases h with rfl | h
      · exact hgt
      · have := ih _ _ h; omega
    · simp [hp] at h

/-- the boundaries are strictly increasing. -/
theorem cutsFrom_sorted (n sc tc : Nat) (hs : 0 < sc) (ht : 0 < tc) :
    ∀ fuel p, List.Pairwise (· < ·) (cutsFrom n sc tc fuel p) := by
  intro fuel
  induction fuel with
  | zero => intro p; simp [cutsFrom]
  | succ f ih =>
    intro p
    unfold cutsFrom
    by_cases hp : p < n
    · simp only [hp, if_true, List.pairwise_cons]
      exact ⟨fun b hb => cutsFrom_gt n sc tc hs ht _ _ _ hb, ih _⟩
    · simp [hp]

/-- every stored chunk `[lo, hi)` of the split is non-empty and lies inside one copy region and one target chunk. -/
theorem intervals_cutsFrom (n sc tc : Nat) (hs : 0 < sc) (ht : 0 < tc) :
    ∀ fuel p lo hi, (lo, hi) ∈ intervals p (cutsFrom n sc tc fuel p) →
      lo < hi ∧ hi ≤ n ∧ (hi - 1) / sc = lo / sc ∧ (hi - 1) / tc = lo / tc := by
  intro fuel
  induction fuel with
  | zero => intro p lo hi h; simp [cutsFrom, intervals] at h
  | succ f ih =>
    intro p lo hi h
    unfold cutsFrom at h
    by_cases hp : p < n
    · simp only [hp, if_true, intervals, List.mem_cons, Prod.mk.injEq] at h
      rcases h with ⟨rfl, rfl⟩ | h
      · have hgt := nextCut_gt n sc tc lo hs ht hp
        exact ⟨hgt, nextCut_le _ _ _ _, same_block _ _ _ hgt (nextCut_le_src _ _ _ _),
          same_block _ _ _ hgt (nextCut_le_tgt _ _ _ _)⟩
      · exact ih _ _ _ h
    · simp [hp, intervals] at h

theorem diffs_cutsFrom_sum (n sc tc : Nat) (hs : 0 < sc) (ht : 0 < tc) :
    ∀ fuel p, n - p ≤ fuel → p ≤ n → (diffs p (cutsFrom n sc tc fuel p)).sum = n - p := by
  intro fuel
  induction fuel with
  | zero => intro p h1 h2; simp [cutsFrom, diffs]; omega
  | succ f ih =>
    intro p h1 h2
    unfold cutsFrom
    by_cases hp : p < n
    · simp only [hp, if_true, diffs, List.sum_cons]
      have hgt := nextCut_gt n sc tc p hs ht hp
      have hle := nextCut_le n sc tc p
      rw [ih _ (by omega) hle]; omega
    · simp [hp, diffs]; omega

theorem diffs_cutsFrom_pos (n sc tc : Nat) (hs : 0 < sc) (ht : 0 < tc) :
    ∀ fuel p x, x ∈ diffs p (cutsFrom n sc tc fuel p) → 0 < x := by
  intro fuel
  induction fuel with
  | zero => intro p x h; simp [cutsFrom, diffs] at h
  | succ f ih =>
    intro p x h
    unfold cutsFrom at h
    by_cases hp : p < n
    · simp only [hp, if_true, diffs, List.mem_cons] at h
      have hgt := nextCut_gt n sc tc p hs ht hp
      rcases h with rfl | h
      · omega
      · exact ih _ _ h
    · simp [hp, diffs] at h

/-- if the cut function agrees, the whole boundary list agrees. -/
theorem cutsFrom_congr (n sc tc sc' tc' : Nat)
    (h : ∀ p, nextCut n sc tc p = nextCut n sc' tc' p) :
    ∀ fuel p, cutsFrom n sc tc fuel p = cutsFrom n sc' tc' fuel p := by
  intro fuel
  induction fuel with
  | zero => intro p; rfl
  | succ f ih => intro p; simp only [cutsFrom, h, ih]

/-- copy chunk a multiple of the target chunk: the next cut is the next target boundary. -/
theorem nextCut_of_dvd (n sc tc p : Nat) (hs : 0 < sc) (ht : 0 < tc) (hd : tc ∣ sc) :
    nextCut n sc tc p = nextCut n tc tc p := by
  have h1 : (p / tc + 1) * tc ≤ (p / sc + 1) * sc := by
    apply next_mul_le_of_dvd p tc _ ht (lt_next_mul p sc hs)
    exact Nat.dvd_trans hd (Nat.dvd_mul_left _ _)
  unfold nextCut; omega

/-- copy chunk spanning the axis: only target boundaries remain. -/
theorem nextCut_of_span (n sc tc p : Nat) (hs : 0 < sc) (hn : n ≤ sc) :
    nextCut n sc tc p = nextCut n tc tc p := by
  have h1 : sc ≤ (p / sc + 1) * sc := by
    have : 1 * sc ≤ (p / sc + 1) * sc := Nat.mul_le_mul_right sc (Nat.le_add_left 1 (p / sc))
    omega
  unfold nextCut; omega

theorem regularSizes_add (m c : Nat) (hc : 0 < c) :
    regularSizes (m + c) c = c :: regularSizes m c := by
  unfold regularSizes
  rw [Nat.add_div_right m hc, Nat.add_mod_right, List.replicate_succ]; rfl

theorem regularSizes_small (m c : Nat) (h0 : 0 < m) (hc : m < c) : regularSizes m c = [m] := by
  unfold regularSizes
  have h1 : m / c = 0 := Nat.div_eq_of_lt hc
  have h2 : m % c = m := Nat.mod_eq_of_lt hc
  rw [h1, h2]; simp; omega

theorem regularSizes_zero (c : Nat) : regularSizes 0 c = [] := by
  simp [regularSizes]

theorem nextCut_self_of_dvd (n c p : Nat) (hc : 0 < c) (hd : c ∣ p) :
    nextCut n c c p = min (p + c) n := by
  obtain ⟨k, rfl⟩ := hd
  have : c * k / c = k := Nat.mul_div_cancel_left k hc
  unfold nextCut
  rw [this, Nat.add_mul, Nat.mul_comm k c]; omega

/-- the split of a grid with itself is the regular grid `(c,)*(n/c) + (n%c,)`. -/
theorem diffs_regular (n c : Nat) (hc : 0 < c) :
    ∀ fuel p, n - p ≤ fuel → p ≤ n → c ∣ p →
      diffs p (cutsFrom n c c fuel p) = regularSizes (n - p) c := by
  intro fuel
  induction fuel with
  | zero =>
    intro p h1 h2 _
    have : n - p = 0 := by omega
    simp [cutsFrom, diffs, this, regularSizes_zero]
  | succ f ih =>
    intro p h1 h2 hd
    unfold cutsFrom
    by_cases hp : p < n
    · simp only [hp, if_true, diffs]
      rw [nextCut_self_of_dvd n c p hc hd]
      by_cases hfit : p + c ≤ n
      · rw [Nat.min_eq_left hfit]
        have hd' : c ∣ p + c := (Nat.dvd_add_right hd).mpr (Nat.dvd_refl c)
        rw [ih (p + c) (by omega) hfit hd']
        have : n - p = (n - (p + c)) + c := by omega
        rw [this, regularSizes_add _ _ hc]
        congr 1; omega
      · rw [Nat.min_eq_right (by omega)]
        have hnil : cutsFrom n c c f n = [] := by
          cases f with
          | zero => rfl
          | succ f' => simp [cutsFrom]
        rw [hnil, regularSizes_small (n - p) c (by omega) (by omega)]; rfl
    · have : n - p = 0 := by omega
      simp [hp, diffs, this, regularSizes_zero]

/-! ### the statements used by C14 / C05 -/

/-- the boundaries (without 0) of `split_chunksizes(n, sc, tc)` are exactly `n` and the multiples of
`sc` or `tc` below `n`: the common refinement of the two grids, and the coarsest one. -/
theorem split_boundaries (n sc tc b : Nat) (hs : 0 < sc) (ht : 0 < tc) :
    b ∈ splitCuts n sc tc ↔ 0 < b ∧ b ≤ n ∧ (b = n ∨ sc ∣ b ∨ tc ∣ b) :=
  mem_cutsFrom n sc tc hs ht b n 0 (by omega)

theorem split_sorted (n sc tc : Nat) (hs : 0 < sc) (ht : 0 < tc) :
    List.Pairwise (· < ·) (splitCuts n sc tc) :=
  cutsFrom_sorted n sc tc hs ht n 0

/-- each stored chunk lies in exactly one copy region and in exactly one target chunk. -/
theorem split_chunk_in_one_region (n sc tc lo hi : Nat) (hs : 0 < sc) (ht : 0 < tc)
    (h : (lo, hi) ∈ intervals 0 (splitCuts n sc tc)) :
    lo < hi ∧ hi ≤ n ∧ (hi - 1) / sc = lo / sc ∧ (hi - 1) / tc = lo / tc :=
  intervals_cutsFrom n sc tc hs ht n 0 lo hi h

/-- every copy region `[k*sc, min((k+1)*sc, n))` starts and ends at a stored-chunk boundary, i.e. it is
a union of whole stored chunks. -/
theorem split_region_is_union (n sc tc k : Nat) (hs : 0 < sc) (ht : 0 < tc) (hk : k * sc < n) :
    (k = 0 ∨ k * sc ∈ splitCuts n sc tc) ∧ min ((k + 1) * sc) n ∈ splitCuts n sc tc := by
  constructor
  · cases k with
    | zero => exact Or.inl rfl
    | succ j =>
      right
      rw [split_boundaries n sc tc _ hs ht]
      refine ⟨?_, by omega, Or.inr (Or.inl (Nat.dvd_mul_left _ _))⟩
      have : 1 * sc ≤ (j + 1) * sc := Nat.mul_le_mul_right sc (by omega)
      omega
  · rw [split_boundaries n sc tc _ hs ht]
    have h1 : sc ≤ (k + 1) * sc := by
      have : 1 * sc ≤ (k + 1) * sc := Nat.mul_le_mul_right sc (by omega)
      omega
    refine ⟨by omega, by omega, ?_⟩
    by_cases hle : (k + 1) * sc ≤ n
    · rw [Nat.min_eq_left hle]; exact Or.inr (Or.inl (Nat.dvd_mul_left _ _))
    · left; omega

theorem splitSizes_sum (n sc tc : Nat) (l : List Nat) (h : splitSizes n sc tc = some l) : l.sum = n := by
  unfold splitSizes at h
  split at h
  · cases h
  · rename_i hz
    cases h
    have := diffs_cutsFrom_sum n sc tc (by omega) (by omega) n 0 (by omega) (by omega)
    simpa [splitCuts] using this

theorem splitSizes_pos (n sc tc : Nat) (l : List Nat) (h : splitSizes n sc tc = some l) :
    ∀ x ∈ l, 0 < x := by
  unfold splitSizes at h
  split at h
  · cases h
  · rename_i hz
    cases h
    exact diffs_cutsFrom_pos n sc tc (by omega) (by omega) n 0

theorem splitSizes_isSome (n sc tc : Nat) (hs : 0 < sc) (ht : 0 < tc) :
    splitSizes n sc tc = some (diffs 0 (splitCuts n sc tc)) := by
  unfold splitSizes
  rw [if_neg (by omega)]

/-- a copy chunk that is a multiple of the target chunk, or spans the axis, stores exactly the regular
target grid: `split_chunksizes(n, cc, tc) = (tc,)*(n/tc) + (n%tc,)`. -/
theorem splitSizes_aligned (n cc tc : Nat) (hc : 0 < cc) (ht : 0 < tc) (h : tc ∣ cc ∨ n ≤ cc) :
    splitSizes n cc tc = some (regularSizes n tc) := by
  rw [splitSizes_isSome n cc tc hc ht]
  have hcut : ∀ p, nextCut n cc tc p = nextCut n tc tc p := by
    intro p
    rcases h with h | h
    · exact nextCut_of_dvd n cc tc p hc ht h
    · exact nextCut_of_span n cc tc p hc h
  unfold splitCuts
  rw [cutsFrom_congr n cc tc tc tc hcut n 0]
  have := diffs_regular n tc ht n 0 (by omega) (by omega) (Nat.dvd_zero tc)
  simpa using this

/-! ## Part B — consolidate_chunks -/

/-- What the theorems assume about the float quotient `f = a / b` computed by Python
(validated by the harness on every division the real code performs). -/
structure DivOK (O : Oracles) : Prop where
  /-- `(a / b) > 1` only if `b ≤ a` -/
  gt1_le : ∀ a b, O.gt1 a b = true → b ≤ a
  /-- `int(a / b) * b ≤ a` -/
  hr_mul : ∀ a b, O.hr a b * b ≤ a
  /-- `b ≤ a` implies `(a / b) >= 1` -/
  ge1_of_le : ∀ a b, b ≤ a → O.ge1 a b = true
  /-- `0 < b ≤ a` implies `int(a / b) ≥ 1` -/
  hr_pos : ∀ a b, 0 < b → b ≤ a → 1 ≤ O.hr a b

/-- pointwise relation between two lists of equal length -/
def All2 {α β : Type} (R : α → β → Prop) : List α → List β → Prop
  | [], [] => True
  | a :: as, b :: bs => R a b ∧ All2 R as bs
  | _, _ => False

/-- pointwise relation between three lists of equal length -/
def All3 {α β γ : Type} (R : α → β → γ → Prop) : List α → List β → List γ → Prop
  | [], [], [] => True
  | a :: as, b :: bs, c :: cs => R a b c ∧ All3 R as bs cs
  | _, _, _ => False

theorem lprod_pos (l : List Nat) : 0 < lprod l ↔ ∀ x ∈ l, 0 < x := by
  induction l with
  | nil => simp [lprod]
  | cons x xs ih =>
    simp only [lprod, List.mem_cons, forall_eq_or_imp]
    rw [← ih]
    constructor
    · intro h
      exact ⟨Nat.pos_of_mul_pos_right h, Nat.pos_of_mul_pos_left h⟩
    · intro ⟨h1, h2⟩; exact Nat.mul_pos h1 h2

/-- result of one axis: untouched, raised to the upper bound, or an integer multiple of the original
chunk not above the upper bound. -/
def ConsRel (a : Ax) (r : Nat) : Prop :=
  (a.lim = none ∧ r = a.c) ∨
  (∃ l, a.lim = some l ∧ (r = min a.n l ∨ (a.c ∣ r ∧ r ≤ min a.n l)))

theorem consGo_mem (O : Oracles) (h : DivOK O) (itemsize maxMem : Nat) :
    ∀ axes pre res, consGo O itemsize maxMem pre axes = .ok res →
      itemsize * (pre * lprod (axes.map (·.c))) ≤ maxMem →
      itemsize * (pre * lprod res) ≤ maxMem := by
  intro axes
  induction axes with
  | nil => intro pre res hr hm; simp [consGo] at hr; subst hr; simpa [lprod] using hm
  | cons a rest ih =>
    intro pre res hr hm
    unfold consGo at hr
    cases hrec : consGo O itemsize maxMem (pre * a.c) rest with
    | error e => rw [hrec] at hr; cases hr
    | ok done =>
      rw [hrec] at hr
      have hm' : itemsize * (pre * a.c * lprod (rest.map (·.c))) ≤ maxMem := by
        have : itemsize * (pre * a.c * lprod (rest.map (·.c)))
            = itemsize * (pre * lprod ((a :: rest).map (·.c))) := by
          simp only [List.map_cons, lprod]; ac_rfl
        rw [this]; exact hm
      have hI := ih (pre * a.c) done hrec hm'
      cases hl : a.lim with
      | none =>
        rw [hl] at hr
        simp only [Except.ok.injEq] at hr; subst hr
        have : itemsize * (pre * lprod (a.c :: done)) = itemsize * (pre * a.c * lprod done) := by
          simp only [lprod]; ac_rfl
        rw [this]; exact hI
      | some l =>
        rw [hl] at hr
        simp only at hr
        split at hr
        · cases hr
        · split at hr
          · rename_i hgt
            split at hr
            · simp only [Except.ok.injEq] at hr; subst hr
              have := h.gt1_le _ _ hgt
              have e : itemsize * (pre * lprod (min a.n l :: done))
                  = itemsize * (pre * lprod done * min a.n l) := by
                simp only [lprod]; ac_rfl
              rw [e]; exact this
            · cases hr
          · split at hr
            · cases hr
            · split at hr
              · simp only [Except.ok.injEq] at hr; subst hr
                have hmul := h.hr_mul maxMem (itemsize * (pre * lprod done * a.c))
                generalize O.hr maxMem (itemsize * (pre * lprod done * a.c)) = k at *
                have hle : min (a.c * k) (min a.n l) ≤ a.c * k := Nat.min_le_left _ _
                calc itemsize * (pre * lprod (min (a.c * k) (min a.n l) :: done))
                    = itemsize * (pre * lprod done) * min (a.c * k) (min a.n l) := by
                      simp only [lprod]; ac_rfl
                  _ ≤ itemsize * (pre * lprod done) * (a.c * k) := Nat.mul_le_mul_left _ hle
                  _ = k * (itemsize * (pre * lprod done * a.c)) := by ac_rfl
                  _ ≤ maxMem := hmul
              · cases hr

theorem consGo_rel (O : Oracles) (itemsize maxMem : Nat) :
    ∀ axes pre res, consGo O itemsize maxMem pre axes = .ok res → All2 ConsRel axes res := by
  intro axes
  induction axes with
  | nil => intro pre res hr; simp [consGo] at hr; subst hr; trivial
  | cons a rest ih =>
    intro pre res hr
    unfold consGo at hr
    cases hrec : consGo O itemsize maxMem (pre * a.c) rest with
    | error e => rw [hrec] at hr; cases hr
    | ok done =>
      rw [hrec] at hr
      have hI := ih (pre * a.c) done hrec
      cases hl : a.lim with
      | none =>
        rw [hl] at hr
        simp only [Except.ok.injEq] at hr; subst hr
        exact ⟨Or.inl ⟨hl, rfl⟩, hI⟩
      | some l =>
        rw [hl] at hr
        simp only at hr
        split at hr
        · cases hr
        · split at hr
          · split at hr
            · simp only [Except.ok.injEq] at hr; subst hr
              exact ⟨Or.inr ⟨l, hl, Or.inl rfl⟩, hI⟩
            · cases hr
          · split at hr
            · cases hr
            · split at hr
              · simp only [Except.ok.injEq] at hr; subst hr
                refine ⟨Or.inr ⟨l, hl, ?_⟩, hI⟩
                generalize O.hr maxMem (itemsize * (pre * lprod done * a.c)) = k
                by_cases hk : a.c * k ≤ min a.n l
                · right; rw [Nat.min_eq_left hk]; exact ⟨Nat.dvd_mul_right _ _, hk⟩
                · left; rw [Nat.min_eq_right (by omega)]
              · cases hr

/-- a successful consolidation never returns an empty (zero-sized) chunk. -/
theorem consGo_pos (O : Oracles) (itemsize maxMem : Nat) :
    ∀ axes pre res, consGo O itemsize maxMem pre axes = .ok res →
      0 < itemsize * (pre * lprod (axes.map (·.c))) → 0 < itemsize * (pre * lprod res) := by
  intro axes
  induction axes with
  | nil => intro pre res hr hm; simp [consGo] at hr; subst hr; simpa [lprod] using hm
  | cons a rest ih =>
    intro pre res hr hm
    unfold consGo at hr
    cases hrec : consGo O itemsize maxMem (pre * a.c) rest with
    | error e => rw [hrec] at hr; cases hr
    | ok done =>
      rw [hrec] at hr
      have hm' : 0 < itemsize * (pre * a.c * lprod (rest.map (·.c))) := by
        have : itemsize * (pre * a.c * lprod (rest.map (·.c)))
            = itemsize * (pre * lprod ((a :: rest).map (·.c))) := by
          simp only [List.map_cons, lprod]; ac_rfl
        rw [this]; exact hm
      have hI := ih (pre * a.c) done hrec hm'
      cases hl : a.lim with
      | none =>
        rw [hl] at hr
        simp only [Except.ok.injEq] at hr; subst hr
        have : itemsize * (pre * lprod (a.c :: done)) = itemsize * (pre * a.c * lprod done) := by
          simp only [lprod]; ac_rfl
        rw [this]; exact hI
      | some l =>
        rw [hl] at hr
        simp only at hr
        split at hr
        · cases hr
        · rename_i hz
          split at hr
          · split at hr
            · simp only [Except.ok.injEq] at hr; subst hr
              have e : itemsize * (pre * lprod (min a.n l :: done))
                  = itemsize * (pre * lprod done * min a.n l) := by
                simp only [lprod]; ac_rfl
              rw [e]; omega
            · cases hr
          · split at hr
            · cases hr
            · rename_i hz2
              split at hr
              · simp only [Except.ok.injEq] at hr; subst hr
                generalize O.hr maxMem (itemsize * (pre * lprod done * a.c)) = k at *
                have e : itemsize * (pre * lprod (min (a.c * k) (min a.n l) :: done))
                    = itemsize * (pre * lprod done * min (a.c * k) (min a.n l)) := by
                  simp only [lprod]; ac_rfl
                rw [e]; omega
              · cases hr

/-- Under `DivOK` and positive extents / limits the consolidation loop cannot fail: neither
`assert headroom >= 1` nor a division by zero is reachable. -/
theorem consGo_ok (O : Oracles) (h : DivOK O) (itemsize maxMem : Nat) :
    ∀ axes pre,
      (∀ a ∈ axes, 0 < a.n ∧ ∀ l, a.lim = some l → 0 < l) →
      0 < itemsize * (pre * lprod (axes.map (·.c))) →
      itemsize * (pre * lprod (axes.map (·.c))) ≤ maxMem →
      ∃ res, consGo O itemsize maxMem pre axes = .ok res := by
  intro axes
  induction axes with
  | nil => intro pre _ _ _; exact ⟨[], rfl⟩
  | cons a rest ih =>
    intro pre hax hp hm
    have e0 : itemsize * (pre * a.c * lprod (rest.map (·.c)))
        = itemsize * (pre * lprod ((a :: rest).map (·.c))) := by
      simp only [List.map_cons, lprod]; ac_rfl
    obtain ⟨done, hrec⟩ := ih (pre * a.c) (fun x hx => hax x (List.mem_cons_of_mem _ hx))
      (by rw [e0]; exact hp) (by rw [e0]; exact hm)
    have hM := consGo_mem O h itemsize maxMem rest (pre * a.c) done hrec (by rw [e0]; exact hm)
    have hP := consGo_pos O itemsize maxMem rest (pre * a.c) done hrec (by rw [e0]; exact hp)
    unfold consGo
    rw [hrec]
    cases hl : a.lim with
    | none => exact ⟨_, rfl⟩
    | some l =>
      simp only
      have hn := (hax a (List.mem_cons_self)).1
      have hlp := (hax a (List.mem_cons_self)).2 l hl
      have hcur : itemsize * (pre * lprod done * a.c) = itemsize * (pre * a.c * lprod done) := by ac_rfl
      have hothers : 0 < itemsize * (pre * lprod done) := by
        have : itemsize * (pre * a.c * lprod done) = itemsize * (pre * lprod done) * a.c := by ac_rfl
        rw [this] at hP
        exact Nat.pos_of_mul_pos_right hP
      have hub : 0 < min a.n l := by omega
      have hmemUb : itemsize * (pre * lprod done * min a.n l) ≠ 0 := by
        have : itemsize * (pre * lprod done * min a.n l) = itemsize * (pre * lprod done) * min a.n l := by ac_rfl
        rw [this]; exact Nat.ne_of_gt (Nat.mul_pos hothers hub)
      rw [if_neg hmemUb]
      by_cases hgt : O.gt1 maxMem (itemsize * (pre * lprod done * min a.n l)) = true
      · rw [if_pos hgt, if_pos (h.ge1_of_le _ _ (h.gt1_le _ _ hgt))]; exact ⟨_, rfl⟩
      · rw [if_neg hgt]
        have hk := h.hr_pos maxMem (itemsize * (pre * lprod done * a.c)) (by rw [hcur]; exact hP)
          (by rw [hcur]; exact hM)
        have hmul := h.hr_mul maxMem (itemsize * (pre * lprod done * a.c))
        generalize O.hr maxMem (itemsize * (pre * lprod done * a.c)) = k at *
        have hc : 0 < a.c := by
          rw [← hcur] at hP
          have : itemsize * (pre * lprod done * a.c) = itemsize * (pre * lprod done) * a.c := by ac_rfl
          rw [this] at hP
          exact Nat.pos_of_mul_pos_left hP
        have hnew : 0 < min (a.c * k) (min a.n l) := by
          have : 0 < a.c * k := Nat.mul_pos hc hk
          omega
        have hmemNew : itemsize * (pre * lprod done * min (a.c * k) (min a.n l)) ≠ 0 := by
          have : itemsize * (pre * lprod done * min (a.c * k) (min a.n l))
              = itemsize * (pre * lprod done) * min (a.c * k) (min a.n l) := by ac_rfl
          rw [this]; exact Nat.ne_of_gt (Nat.mul_pos hothers hnew)
        rw [if_neg hmemNew]
        have hle : itemsize * (pre * lprod done * min (a.c * k) (min a.n l)) ≤ maxMem := by
          calc itemsize * (pre * lprod done * min (a.c * k) (min a.n l))
              = itemsize * (pre * lprod done) * min (a.c * k) (min a.n l) := by ac_rfl
            _ ≤ itemsize * (pre * lprod done) * (a.c * k) := Nat.mul_le_mul_left _ (Nat.min_le_left _ _)
            _ = k * (itemsize * (pre * lprod done * a.c)) := by ac_rfl
            _ ≤ maxMem := hmul
        rw [if_pos (h.ge1_of_le _ _ hle)]; exact ⟨_, rfl⟩

/-! ### `consolidate` (limit resolution + loop) -/

theorem All2.length_eq {α β : Type} {R : α → β → Prop} :
    ∀ {l1 : List α} {l2 : List β}, All2 R l1 l2 → l1.length = l2.length
  | [], [], _ => rfl
  | _ :: as, _ :: bs, h => by simp [All2.length_eq (l1 := as) (l2 := bs) h.2]
  | [], _ :: _, h => by cases h
  | _ :: _, [], h => by cases h

theorem resolveAll_maps :
    ∀ shape chunks lims axes, resolveAll shape chunks lims = .ok axes →
      chunks.length = shape.length → lims.length = shape.length →
      axes.map (·.c) = chunks ∧ axes.map (·.n) = shape := by
  intro shape
  induction shape with
  | nil =>
    intro chunks lims axes h h1 h2
    cases chunks with
    | nil => simp [resolveAll] at h; subst h; exact ⟨rfl, rfl⟩
    | cons _ _ => simp at h1
  | cons n ns ih =>
    intro chunks lims axes h h1 h2
    cases chunks with
    | nil => simp at h1
    | cons c cs =>
      cases lims with
      | nil => simp at h2
      | cons l ls =>
        unfold resolveAll at h
        cases hr : resolveLim n c l with
        | error e => rw [hr] at h; cases h
        | ok r =>
          rw [hr] at h
          cases hrest : resolveAll ns cs ls with
          | error e => rw [hrest] at h; cases h
          | ok rest =>
            rw [hrest] at h
            simp only [Except.ok.injEq] at h; subst h
            have := ih cs ls rest hrest (by simpa using h1) (by simpa using h2)
            simp [this.1, this.2]

/-- per-axis description of the resolved limits -/
theorem resolveAll_rel :
    ∀ shape chunks lims axes, resolveAll shape chunks lims = .ok axes →
      chunks.length = shape.length → lims.length = shape.length →
      All3 (fun n c (p : Lim × Ax) => p.2.n = n ∧ p.2.c = c ∧ resolveLim n c p.1 = .ok p.2.lim)
        shape chunks (lims.zip axes) := by
  intro shape
  induction shape with
  | nil =>
    intro chunks lims axes h h1 h2
    cases chunks with
    | nil =>
      cases lims with
      | nil => simp [resolveAll] at h; subst h; trivial
      | cons _ _ => simp at h2
    | cons _ _ => simp at h1
  | cons n ns ih =>
    intro chunks lims axes h h1 h2
    cases chunks with
    | nil => simp at h1
    | cons c cs =>
      cases lims with
      | nil => simp at h2
      | cons l ls =>
        unfold resolveAll at h
        cases hr : resolveLim n c l with
        | error e => rw [hr] at h; cases h
        | ok r =>
          rw [hr] at h
          cases hrest : resolveAll ns cs ls with
          | error e => rw [hrest] at h; cases h
          | ok rest =>
            rw [hrest] at h
            simp only [Except.ok.injEq] at h; subst h
            have := ih cs ls rest hrest (by simpa using h1) (by simpa using h2)
            exact ⟨⟨rfl, rfl, hr⟩, this⟩

theorem consolidate_unfold (O : Oracles) (shape chunks : List Nat) (itemsize maxMem : Nat)
    (limits : Option (List Lim)) (res : List Nat)
    (h : consolidate O shape chunks itemsize maxMem limits = .ok res) :
    ∃ axes,
      (defaultLims shape limits).length = shape.length ∧
      resolveAll shape chunks (defaultLims shape limits) = .ok axes ∧
      itemsize * lprod chunks ≤ maxMem ∧ 0 < itemsize * lprod chunks ∧
      consGo O itemsize maxMem 1 axes = .ok res := by
  unfold consolidate at h
  generalize defaultLims shape limits = lims at h
  by_cases hlen : lims.length ≠ shape.length
  · rw [if_pos hlen] at h; cases h
  · rw [if_neg hlen] at h
    cases hax : resolveAll shape chunks lims with
    | error e => rw [hax] at h; cases h
    | ok axes =>
      rw [hax] at h; simp only at h
      by_cases h1 : itemsize * lprod chunks > maxMem
      · rw [if_pos h1] at h; cases h
      · rw [if_neg h1] at h
        by_cases h2 : itemsize * lprod chunks = 0
        · rw [if_pos h2] at h; cases h
        · rw [if_neg h2] at h
          exact ⟨axes, by omega, rfl, by omega, by omega, h⟩

/-- the consolidated chunk fits in `max_mem`. -/
theorem consolidate_mem (O : Oracles) (hO : DivOK O) (shape chunks : List Nat) (itemsize maxMem : Nat)
    (limits : Option (List Lim)) (res : List Nat) (hlen : chunks.length = shape.length)
    (h : consolidate O shape chunks itemsize maxMem limits = .ok res) :
    itemsize * lprod res ≤ maxMem := by
  obtain ⟨axes, hl, hax, hm, _, hgo⟩ := consolidate_unfold O shape chunks itemsize maxMem limits res h
  have hc := (resolveAll_maps shape chunks _ axes hax hlen hl).1
  have := consGo_mem O hO itemsize maxMem axes 1 res hgo (by rw [hc]; simpa using hm)
  simpa using this

/-- a successful consolidation returns positive chunks (and the item size is positive). -/
theorem consolidate_pos (O : Oracles) (shape chunks : List Nat) (itemsize maxMem : Nat)
    (limits : Option (List Lim)) (res : List Nat) (hlen : chunks.length = shape.length)
    (h : consolidate O shape chunks itemsize maxMem limits = .ok res) :
    0 < itemsize ∧ ∀ x ∈ res, 0 < x := by
  obtain ⟨axes, hl, hax, _, hp, hgo⟩ := consolidate_unfold O shape chunks itemsize maxMem limits res h
  have hc := (resolveAll_maps shape chunks _ axes hax hlen hl).1
  have := consGo_pos O itemsize maxMem axes 1 res hgo (by rw [hc]; simpa using hp)
  simp only [Nat.one_mul] at this
  exact ⟨Nat.pos_of_mul_pos_right this, (lprod_pos res).1 (Nat.pos_of_mul_pos_left this)⟩

theorem consolidate_input_pos (O : Oracles) (shape chunks : List Nat) (itemsize maxMem : Nat)
    (limits : Option (List Lim)) (res : List Nat)
    (h : consolidate O shape chunks itemsize maxMem limits = .ok res) : ∀ x ∈ chunks, 0 < x := by
  obtain ⟨axes, _, _, _, hp, _⟩ := consolidate_unfold O shape chunks itemsize maxMem limits res h
  exact (lprod_pos chunks).1 (Nat.pos_of_mul_pos_left hp)

theorem consolidate_length (O : Oracles) (shape chunks : List Nat) (itemsize maxMem : Nat)
    (limits : Option (List Lim)) (res : List Nat) (hlen : chunks.length = shape.length)
    (h : consolidate O shape chunks itemsize maxMem limits = .ok res) :
    res.length = shape.length := by
  obtain ⟨axes, hl, hax, _, _, hgo⟩ := consolidate_unfold O shape chunks itemsize maxMem limits res h
  have h1 := (consGo_rel O itemsize maxMem axes 1 res hgo).length_eq
  have h2 := (resolveAll_maps shape chunks _ axes hax hlen hl).2
  have : (axes.map (·.n)).length = shape.length := by rw [h2]
  simp at this; omega

theorem default_aligned_aux :
    ∀ (shape chunks : List Nat) (axes : List Ax) (res : List Nat),
      All3 (fun n c (p : Lim × Ax) => p.2.n = n ∧ p.2.c = c ∧ resolveLim n c p.1 = .ok p.2.lim)
        shape chunks ((shape.map Lim.upto).zip axes) →
      axes.length = shape.length →
      All2 ConsRel axes res →
      All3 (fun n c r => (c ∣ r ∨ r = n) ∧ r ≤ n) shape chunks res := by
  intro shape
  induction shape with
  | nil =>
    intro chunks axes res hrel hal hcons
    cases axes with
    | nil =>
      cases chunks with
      | nil => cases res with
        | nil => trivial
        | cons _ _ => cases hcons
      | cons _ _ => simp [All3] at hrel
    | cons _ _ => simp at hal
  | cons n ns ih =>
    intro chunks axes res hrel hal hcons
    cases axes with
    | nil => simp at hal
    | cons a as =>
      cases chunks with
      | nil => simp [All3] at hrel
      | cons c cs =>
        cases res with
        | nil => cases hcons
        | cons r rs =>
          simp only [List.map_cons, List.zip_cons_cons, All3] at hrel
          obtain ⟨⟨hn, hc, hlim⟩, hrest⟩ := hrel
          obtain ⟨hr, hcrest⟩ := hcons
          refine ⟨?_, ih cs as rs hrest (by simpa using hal) hcrest⟩
          simp only [resolveLim] at hlim
          have hlim' : a.lim = some n ∧ c ≤ n := by
            by_cases hcn : c ≤ n ∧ n ≤ n
            · rw [if_pos hcn] at hlim
              simp only [Except.ok.injEq] at hlim
              exact ⟨hlim.symm, hcn.1⟩
            · rw [if_neg hcn, if_neg (by omega)] at hlim; cases hlim
          rcases hr with ⟨hnone, _⟩ | ⟨l, hl, hr⟩
          · rw [hlim'.1] at hnone; cases hnone
          · rw [hlim'.1] at hl
            simp only [Option.some.injEq] at hl; subst hl
            rw [hn, hc] at hr
            rcases hr with hr | ⟨hd, hle⟩
            · constructor
              · right; omega
              · omega
            · exact ⟨Or.inl hd, by omega⟩

/-- `verify_chunk_compatibility`: with the default limits (consolidation of the *write* chunks) every
consolidated chunk is an integer multiple of the original one or spans the axis, and never exceeds it. -/
theorem consolidate_default_aligned (O : Oracles)
    (shape chunks : List Nat) (itemsize maxMem : Nat) (res : List Nat)
    (hlen : chunks.length = shape.length)
    (h : consolidate O shape chunks itemsize maxMem none = .ok res) :
    All3 (fun n c r => (c ∣ r ∨ r = n) ∧ r ≤ n) shape chunks res := by
  obtain ⟨axes, _, hax, _, _, hgo⟩ := consolidate_unfold O shape chunks itemsize maxMem none res h
  simp only [defaultLims] at hax
  have hrel := resolveAll_rel shape chunks _ axes hax hlen (by simp)
  have hcons := consGo_rel O itemsize maxMem axes 1 res hgo
  have h2 := (resolveAll_maps shape chunks _ axes hax hlen (by simp)).2
  have hal : axes.length = shape.length := by
    have : (axes.map (·.n)).length = shape.length := by rw [h2]
    simpa using this
  exact default_aligned_aux shape chunks axes res hrel hal hcons

/-! ## Part C — planners -/

/-- What the theorems assume about `calculate_stage_chunks` (geomspace + floor); validated per case. -/
structure GeoOK (O : Oracles) : Prop where
  rank : ∀ r w k s, s ∈ O.geo r w k → r.length = w.length → s.length = r.length
  pos : ∀ r w k s, s ∈ O.geo r w k → (∀ x ∈ r, 0 < x) → (∀ x ∈ w, 0 < x) → ∀ x ∈ s, 0 < x
  prod : ∀ r w k s, s ∈ O.geo r w k → r.length = w.length → lprod s ≤ max (lprod r) (lprod w)

def StageMemOK (itemsize maxMem : Nat) (s : Stage) : Prop :=
  itemsize * lprod s.read ≤ maxMem ∧ itemsize * lprod s.int ≤ maxMem ∧ itemsize * lprod s.write ≤ maxMem

theorem lprod_shared_le_left : ∀ (r w : List Nat), r.length = w.length → lprod (shared r w) ≤ lprod r := by
  intro r
  induction r with
  | nil => intro w _; cases w <;> simp [shared, lprod]
  | cons a as ih =>
    intro w h
    cases w with
    | nil => simp at h
    | cons b bs =>
      simp only [shared, List.zipWith_cons_cons, lprod]
      exact Nat.mul_le_mul (Nat.min_le_left _ _) (ih bs (by simpa using h))

theorem shared_length (r w : List Nat) (h : r.length = w.length) : (shared r w).length = r.length := by
  simp [shared, List.length_zipWith, h]

theorem mkPlan_nil (read write : List Nat) : mkPlan read [] write = [⟨read, shared read write, write⟩] := rfl

theorem mkPlan_cons (read x : List Nat) (xs : List (List Nat)) (write : List Nat) :
    mkPlan read (x :: xs) write = ⟨read, shared read x, x⟩ :: mkPlan x xs write := rfl

/-- shape of a plan: stage `k` reads what stage `k-1` wrote; the first reads `read`, the last writes
`write`; the intermediate chunk is the pointwise minimum. -/
theorem mkPlan_maps : ∀ (stage : List (List Nat)) (read write : List Nat),
    (mkPlan read stage write).map (·.read) = read :: stage ∧
    (mkPlan read stage write).map (·.write) = stage ++ [write] ∧
    ∀ s ∈ mkPlan read stage write, s.int = shared s.read s.write := by
  intro stage
  induction stage with
  | nil => intro read write; simp [mkPlan_nil]
  | cons x xs ih =>
    intro read write
    obtain ⟨h1, h2, h3⟩ := ih x write
    rw [mkPlan_cons]
    refine ⟨by simp [h1], by simp [h2], ?_⟩
    intro s hs
    rcases List.mem_cons.1 hs with rfl | hs
    · rfl
    · exact h3 s hs

theorem mkPlan_ne_nil (stage : List (List Nat)) (read write : List Nat) : mkPlan read stage write ≠ [] := by
  cases stage <;> simp [mkPlan_nil, mkPlan_cons]

theorem mkPlan_mem (itemsize maxMem L : Nat) : ∀ (stage : List (List Nat)) (read write : List Nat),
    itemsize * lprod read ≤ maxMem → itemsize * lprod write ≤ maxMem →
    read.length = L → write.length = L →
    (∀ s ∈ stage, itemsize * lprod s ≤ maxMem ∧ s.length = L) →
    ∀ st ∈ mkPlan read stage write, StageMemOK itemsize maxMem st := by
  intro stage
  induction stage with
  | nil =>
    intro read write hr hw lr lw _ st hst
    simp only [mkPlan_nil, List.mem_singleton] at hst; subst hst
    refine ⟨hr, ?_, hw⟩
    exact Nat.le_trans (Nat.mul_le_mul_left _ (lprod_shared_le_left read write (by omega))) hr
  | cons x xs ih =>
    intro read write hr hw lr lw hs st hst
    rw [mkPlan_cons] at hst
    have hx := hs x (List.mem_cons_self)
    rcases List.mem_cons.1 hst with rfl | hst
    · refine ⟨hr, ?_, hx.1⟩
      exact Nat.le_trans (Nat.mul_le_mul_left _ (lprod_shared_le_left read x (by omega))) hr
    · exact ih x write hx.1 hw hx.2 lw (fun s h => hs s (List.mem_cons_of_mem _ h)) st hst

/-- all chunk entries of a plan are positive when those of its ingredients are. -/
theorem mkPlan_pos : ∀ (stage : List (List Nat)) (read write : List Nat),
    (∀ x ∈ read, 0 < x) → (∀ x ∈ write, 0 < x) → (∀ s ∈ stage, ∀ x ∈ s, 0 < x) →
    ∀ st ∈ mkPlan read stage write,
      (∀ x ∈ st.read, 0 < x) ∧ (∀ x ∈ st.write, 0 < x) := by
  intro stage
  induction stage with
  | nil =>
    intro read write hr hw _ st hst
    simp only [mkPlan_nil, List.mem_singleton] at hst; subst hst
    exact ⟨hr, hw⟩
  | cons x xs ih =>
    intro read write hr hw hs st hst
    rw [mkPlan_cons] at hst
    have hx := hs x (List.mem_cons_self)
    rcases List.mem_cons.1 hst with rfl | hst
    · exact ⟨hr, hx⟩
    · exact ih x write hx hw (fun s h => hs s (List.mem_cons_of_mem _ h)) st hst

/-- facts established by the argument checks and the two consolidations. -/
structure Prepared (shape source target : List Nat) (itemsize maxMem : Nat) (read write : List Nat) : Prop where
  srcLen : source.length = shape.length
  tgtLen : target.length = shape.length
  readLen : read.length = shape.length
  writeLen : write.length = shape.length
  readMem : itemsize * lprod read ≤ maxMem
  writeMem : itemsize * lprod write ≤ maxMem
  itemPos : 0 < itemsize
  readPos : ∀ x ∈ read, 0 < x
  writePos : ∀ x ∈ write, 0 < x
  srcPos : ∀ x ∈ source, 0 < x
  tgtPos : ∀ x ∈ target, 0 < x
  writeAligned : All3 (fun n t w => (t ∣ w ∨ w = n) ∧ w ≤ n) shape target write

theorem prepare_spec (O : Oracles) (hO : DivOK O) (shape source target : List Nat)
    (itemsize minMem maxMem : Nat) (read write : List Nat)
    (h : prepare O shape source target itemsize minMem maxMem = .ok (read, write)) :
    Prepared shape source target itemsize maxMem read write ∧ minMem ≤ maxMem := by
  unfold prepare at h
  by_cases h1 : source.length ≠ shape.length
  · rw [if_pos h1] at h; cases h
  rw [if_neg h1] at h
  by_cases h2 : target.length ≠ shape.length
  · rw [if_pos h2] at h; cases h
  rw [if_neg h2] at h
  by_cases h3 : itemsize * lprod source > maxMem
  · rw [if_pos h3] at h; cases h
  rw [if_neg h3] at h
  by_cases h4 : itemsize * lprod target > maxMem
  · rw [if_pos h4] at h; cases h
  rw [if_neg h4] at h
  by_cases h5 : maxMem < minMem
  · rw [if_pos h5] at h; cases h
  rw [if_neg h5] at h
  have hs : source.length = shape.length := by omega
  have ht : target.length = shape.length := by omega
  cases hw : consolidate O shape target itemsize maxMem none with
  | error e => rw [hw] at h; cases h
  | ok w =>
    rw [hw] at h; simp only at h
    cases hr : consolidate O shape source itemsize maxMem (some (readLimits source w)) with
    | error e => rw [hr] at h; cases h
    | ok r =>
      rw [hr] at h
      simp only [Except.ok.injEq, Prod.mk.injEq] at h
      obtain ⟨rfl, rfl⟩ := h
      have pw := consolidate_pos O shape target itemsize maxMem none w ht hw
      have pr := consolidate_pos O shape source itemsize maxMem _ r hs hr
      exact ⟨{ srcLen := hs, tgtLen := ht
               readLen := consolidate_length O shape source itemsize maxMem _ r hs hr
               writeLen := consolidate_length O shape target itemsize maxMem none w ht hw
               readMem := consolidate_mem O hO shape source itemsize maxMem _ r hs hr
               writeMem := consolidate_mem O hO shape target itemsize maxMem none w ht hw
               itemPos := pw.1, readPos := pr.2, writePos := pw.2
               srcPos := consolidate_input_pos O shape source itemsize maxMem _ r hr
               tgtPos := consolidate_input_pos O shape target itemsize maxMem none w hw
               writeAligned := consolidate_default_aligned O shape target itemsize maxMem w ht hw },
             by omega⟩

/-- whatever the loop returns is `mkPlan read (geo read write k) write` for some stage count `k`
(or the remembered previous plan). -/
theorem irrLoop_result (O : Oracles) (shape read write : List Nat) (itemsize minMem : Nat) :
    ∀ fuel sc prev plan, irrLoop O shape read write itemsize minMem fuel sc prev = .ok plan →
      (∃ k, plan = mkPlan read (O.geo read write k) write) ∨ (∃ io, prev = some (io, plan)) := by
  intro fuel
  induction fuel with
  | zero => intro sc prev plan h; simp [irrLoop] at h
  | succ f ih =>
    intro sc prev plan h
    unfold irrLoop at h
    simp only at h
    split at h
    · simp only [Except.ok.injEq] at h; exact Or.inl ⟨sc, h.symm⟩
    · cases prev with
      | none =>
        simp only at h
        rcases ih _ _ _ h with h' | ⟨io, h'⟩
        · exact Or.inl h'
        · simp only [Option.some.injEq, Prod.mk.injEq] at h'
          exact Or.inl ⟨sc, h'.2.symm⟩
      | some p =>
        obtain ⟨pio, pplan⟩ := p
        simp only at h
        split at h
        · simp only [Except.ok.injEq] at h; exact Or.inr ⟨pio, by rw [h]⟩
        · rcases ih _ _ _ h with h' | ⟨io, h'⟩
          · exact Or.inl h'
          · simp only [Option.some.injEq, Prod.mk.injEq] at h'
            exact Or.inl ⟨sc, h'.2.symm⟩

theorem irregularPlan_result (O : Oracles) (hO : DivOK O) (shape source target : List Nat)
    (itemsize minMem maxMem : Nat) (plan : List Stage)
    (h : irregularPlan O shape source target itemsize minMem maxMem = .ok plan) :
    ∃ read write k, Prepared shape source target itemsize maxMem read write ∧
      plan = mkPlan read (O.geo read write k) write := by
  unfold irregularPlan at h
  cases hp : prepare O shape source target itemsize minMem maxMem with
  | error e => rw [hp] at h; cases h
  | ok rw' =>
    obtain ⟨read, write⟩ := rw'
    rw [hp] at h; simp only at h
    rcases irrLoop_result O shape read write itemsize minMem _ _ _ _ h with ⟨k, hk⟩ | ⟨io, hio⟩
    · exact ⟨read, write, k, (prepare_spec O hO _ _ _ _ _ _ _ _ hp).1, hk⟩
    · cases hio

/-! ### regular planner: `_fix_copy_chunks` -/

/-- the copy chunk does not exceed the written chunk, or is a multiple of it, or spans the axis -/
def StageAxisOK (n r w : Nat) : Prop := r ≤ w ∨ w ∣ r ∨ r = n

/-- `_fix_copy_chunks` returns chunks aligned with the target, never larger than before, positive. -/
theorem fixCopy_spec : ∀ (shape r t r' : List Nat), fixCopy shape r t = .ok r' →
    r.length = shape.length → t.length = shape.length →
    All3 StageAxisOK shape r' t ∧ All2 (fun c c' => c' ≤ c ∧ (0 < c → 0 < c')) r r' := by
  intro shape
  induction shape with
  | nil =>
    intro r t r' h hr ht
    cases r with
    | nil => cases t with
      | nil => simp [fixCopy] at h; subst h; exact ⟨trivial, trivial⟩
      | cons _ _ => simp at ht
    | cons _ _ => simp at hr
  | cons n ns ih =>
    intro r t r' h hr ht
    cases r with
    | nil => simp at hr
    | cons cc cs =>
      cases t with
      | nil => simp at ht
      | cons tc ts =>
        unfold fixCopy at h
        cases hrest : fixCopy ns cs ts with
        | error e => rw [hrest] at h; cases h
        | ok rest =>
          rw [hrest] at h; simp only at h
          obtain ⟨i1, i2⟩ := ih cs ts rest hrest (by simpa using hr) (by simpa using ht)
          by_cases c1 : cc ≤ tc ∨ cc = n
          · rw [if_pos c1] at h
            simp only [Except.ok.injEq] at h; subst h
            refine ⟨⟨?_, i1⟩, ⟨⟨Nat.le_refl _, id⟩, i2⟩⟩
            rcases c1 with c1 | c1
            · exact Or.inl c1
            · exact Or.inr (Or.inr c1)
          · rw [if_neg c1] at h
            by_cases c2 : tc = 0
            · rw [if_pos c2] at h; cases h
            · rw [if_neg c2] at h
              by_cases c3 : cc % tc = 0
              · rw [if_pos c3] at h
                simp only [Except.ok.injEq] at h; subst h
                exact ⟨⟨Or.inr (Or.inl (Nat.dvd_of_mod_eq_zero c3)), i1⟩, ⟨⟨Nat.le_refl _, id⟩, i2⟩⟩
              · rw [if_neg c3] at h
                simp only [Except.ok.injEq] at h; subst h
                refine ⟨⟨Or.inr (Or.inl (Nat.dvd_mul_left _ _)), i1⟩, ⟨⟨Nat.div_mul_le_self cc tc, ?_⟩, i2⟩⟩
                intro _
                have h1 : 1 ≤ cc / tc := by
                  rw [Nat.le_div_iff_mul_le (by omega)]; omega
                have : 1 * tc ≤ cc / tc * tc := Nat.mul_le_mul_right tc h1
                omega

theorem lprod_le_of_All2 : ∀ (r r' : List Nat), All2 (fun c c' => c' ≤ c ∧ (0 < c → 0 < c')) r r' →
    lprod r' ≤ lprod r ∧ r'.length = r.length ∧ ((∀ x ∈ r, 0 < x) → ∀ x ∈ r', 0 < x) := by
  intro r
  induction r with
  | nil => intro r' h; cases r' with
    | nil => simp [lprod]
    | cons _ _ => cases h
  | cons a as ih =>
    intro r' h
    cases r' with
    | nil => cases h
    | cons b bs =>
      obtain ⟨⟨h1, h1'⟩, h2⟩ := h
      obtain ⟨i1, i2, i3⟩ := ih bs h2
      refine ⟨Nat.mul_le_mul h1 i1, by simp [i2], ?_⟩
      intro hp x hx
      rcases List.mem_cons.1 hx with rfl | hx
      · exact h1' (hp a (List.mem_cons_self))
      · exact i3 (fun y hy => hp y (List.mem_cons_of_mem _ hy)) x hx

/-- whatever the regular loop returns is `mkPlan read' stage write` where `stage` are the regular stage
chunks for the current read chunks `r0` and `read'` is `r0` fixed against the first written chunks;
`P` is any property of the read chunks preserved by `_fix_copy_chunks`. -/
theorem regLoop_result (O : Oracles) (shape write : List Nat) (itemsize minMem : Nat)
    (P : List Nat → Prop)
    (hfix : ∀ r k stage r', P r → regStageChunks O r write k = .ok stage →
      fixCopy shape r (firstTarget stage write) = .ok r' → P r') :
    ∀ fuel sc read prev plan, P read →
      regLoop O shape write itemsize minMem fuel sc read prev = .ok plan →
      (∃ k r0 stage r', P r0 ∧ regStageChunks O r0 write k = .ok stage ∧
          fixCopy shape r0 (firstTarget stage write) = .ok r' ∧ plan = mkPlan r' stage write) ∨
      (∃ io, prev = some (io, plan)) := by
  intro fuel
  induction fuel with
  | zero => intro sc read prev plan _ h; simp [regLoop] at h
  | succ f ih =>
    intro sc read prev plan hP h
    unfold regLoop at h
    cases hst : regStageChunks O read write sc with
    | error e => rw [hst] at h; cases h
    | ok stage =>
      rw [hst] at h; simp only at h
      cases hfx : fixCopy shape read (firstTarget stage write) with
      | error e => rw [hfx] at h; cases h
      | ok read' =>
        rw [hfx] at h; simp only at h
        have hP' := hfix _ _ _ _ hP hst hfx
        have here : ∃ k r0 stage' r', P r0 ∧ regStageChunks O r0 write k = .ok stage' ∧
            fixCopy shape r0 (firstTarget stage' write) = .ok r' ∧
            mkPlan read' stage write = mkPlan r' stage' write :=
          ⟨sc, read, stage, read', hP, hst, hfx, rfl⟩
        split at h
        · simp only [Except.ok.injEq] at h; subst h; exact Or.inl here
        · cases prev with
          | none =>
            simp only at h
            rcases ih _ _ _ _ hP' h with h' | ⟨io, h'⟩
            · exact Or.inl h'
            · simp only [Option.some.injEq, Prod.mk.injEq] at h'
              rw [← h'.2]; exact Or.inl here
          | some p =>
            obtain ⟨pio, pplan⟩ := p
            simp only at h
            split at h
            · simp only [Except.ok.injEq] at h; exact Or.inr ⟨pio, by rw [h]⟩
            · rcases ih _ _ _ _ hP' h with h' | ⟨io, h'⟩
              · exact Or.inl h'
              · simp only [Option.some.injEq, Prod.mk.injEq] at h'
                rw [← h'.2]; exact Or.inl here

/-! ### chains (consecutive elements related) -/

def ChainR {α : Type} (R : α → α → Prop) : List α → Prop
  | [] => True
  | [_] => True
  | a :: b :: rest => R a b ∧ ChainR R (b :: rest)

theorem ChainR.tail {α : Type} {R : α → α → Prop} {a : α} {l : List α} (h : ChainR R (a :: l)) :
    ChainR R l := by
  cases l with
  | nil => trivial
  | cons b rest => exact h.2

theorem ChainR_imp {α : Type} {R S : α → α → Prop} (hRS : ∀ a b, R a b → S a b) :
    ∀ l : List α, ChainR R l → ChainR S l
  | [], _ => trivial
  | [_], _ => trivial
  | _ :: b :: rest, h => ⟨hRS _ _ h.1, ChainR_imp hRS (b :: rest) h.2⟩

theorem ChainR_get {α : Type} {R : α → α → Prop} :
    ∀ (l : List α) (j : Nat) (a b : α), ChainR R l → l[j]? = some a → l[j + 1]? = some b → R a b
  | [], _, _, _, _, h, _ => by simp at h
  | [_], j, _, _, _, _, h => by simp at h
  | x :: y :: rest, 0, a, b, hc, h1, h2 => by
    simp at h1 h2; subst h1; subst h2; exact hc.1
  | x :: y :: rest, j + 1, a, b, hc, h1, h2 => by
    simp only [List.getElem?_cons_succ] at h1 h2
    exact ChainR_get (y :: rest) j a b hc.2 h1 (by simpa using h2)

theorem ChainR_append {α : Type} {R : α → α → Prop} (a : α) :
    ∀ l : List α, ChainR R l → (∀ x, l.getLast? = some x → R x a) → ChainR R (l ++ [a])
  | [], _, _ => trivial
  | [b], _, h => ⟨h b rfl, trivial⟩
  | b :: c :: rest, hc, h => by
    refine ⟨hc.1, ?_⟩
    exact ChainR_append a (c :: rest) hc.2 (fun x hx => h x (by rw [List.getLast?_cons_cons]; exact hx))

theorem ChainR_reverse {α : Type} {R : α → α → Prop} :
    ∀ l : List α, ChainR R l → ChainR (fun a b => R b a) l.reverse
  | [], _ => trivial
  | a :: l, h => by
    rw [List.reverse_cons]
    apply ChainR_append a l.reverse (ChainR_reverse l h.tail)
    intro x hx
    rw [List.getLast?_reverse] at hx
    cases l with
    | nil => simp at hx
    | cons b rest => simp at hx; subst hx; exact h.1

theorem ChainR_dropLast {α : Type} {R : α → α → Prop} :
    ∀ l : List α, ChainR R l → ChainR R l.dropLast
  | [], _ => trivial
  | [_], _ => trivial
  | [_, _], _ => trivial
  | a :: b :: c :: rest, h => by
    have ih := ChainR_dropLast (b :: c :: rest) h.2
    simp only [List.dropLast_cons_cons] at ih ⊢
    exact ⟨h.1, ih⟩

theorem ChainR_drop_one {α : Type} {R : α → α → Prop} (l : List α) (h : ChainR R l) :
    ChainR R (l.drop 1) := by
  cases l with
  | nil => trivial
  | cons a rest => simpa using h.tail

theorem mem_of_mem_dropLast' {α : Type} {a : α} : ∀ l : List α, a ∈ l.dropLast → a ∈ l
  | [], h => by simp at h
  | [_], h => by simp at h
  | x :: y :: rest, h => by
    simp only [List.dropLast_cons_cons, List.mem_cons] at h
    rcases h with rfl | h
    · exact List.mem_cons_self
    · exact List.mem_cons_of_mem _ (mem_of_mem_dropLast' (y :: rest) (by simpa using h))

/-! ### `_multspace` / `multspace` -/

/-- consecutive `_multspace` values: the next is a multiple of the previous one, or was reset to 1 -/
def UpP (x y : Nat) : Prop := (x ∣ y ∨ y = 1) ∧ 0 < x ∧ 0 < y

/-- relation between the chunk read and the chunk written in one axis of one stage (no spanning) -/
def Mono (a b : Nat) : Prop := a ≤ b ∨ b ∣ a

/-- the divisibility chain of `_multspace`, for *every* quotient list. -/
theorem msVals_chain : ∀ (qs : List Nat) (vint : Nat), 0 < vint → ChainR UpP (vint :: msVals vint qs)
  | [], _, _ => trivial
  | q :: qs, vint, hv => by
    simp only [msVals]
    have hpos : 0 < max (q * vint) 1 := by omega
    refine ⟨⟨?_, hv, hpos⟩, msVals_chain qs _ hpos⟩
    by_cases h : 1 ≤ q * vint
    · left; rw [Nat.max_eq_left h]; exact Nat.dvd_mul_left _ _
    · right; omega

theorem msVals_pos : ∀ (qs : List Nat) (vint : Nat), ∀ x ∈ msVals vint qs, 0 < x
  | [], _, x, h => by simp [msVals] at h
  | q :: qs, vint, x, h => by
    simp only [msVals, List.mem_cons] at h
    rcases h with rfl | h
    · omega
    · exact msVals_pos qs _ x h

theorem msInner_chain (O : Oracles) (a b num : Nat) : ChainR UpP (msInner O a b num) := by
  unfold msInner
  exact ChainR_dropLast _ (ChainR_drop_one _ (msVals_chain _ 1 (by omega)).tail)

theorem msInner_pos (O : Oracles) (a b num : Nat) : ∀ x ∈ msInner O a b num, 0 < x := by
  intro x hx
  unfold msInner at hx
  exact msVals_pos _ _ x (List.mem_of_mem_drop (mem_of_mem_dropLast' _ hx))

theorem UpP_mono (x y : Nat) (h : UpP x y) : Mono x y := by
  obtain ⟨h1, _, hy⟩ := h
  rcases h1 with h1 | h1
  · exact Or.inl (Nat.le_of_dvd hy h1)
  · right; rw [h1]; exact Nat.one_dvd _

theorem UpP_mono_rev (x y : Nat) (h : UpP x y) : Mono y x := by
  obtain ⟨h1, hx, _⟩ := h
  rcases h1 with h1 | h1
  · exact Or.inr h1
  · left; omega

/-- What the theorems assume about the float-dependent part of `_multspace` and the stage chunks built
from it (validated per case): the first value is `start`; the values returned do not exceed `stop`; a
stage chunk has no more elements than the larger of the read and write chunk. -/
structure RegOK (O : Oracles) : Prop where
  len : ∀ a b num, 1 ≤ a → a ≤ b → (O.msq a b num).length = num + 2
  head : ∀ a b num v, 1 ≤ a → a ≤ b → (msVals 1 (O.msq a b num)).head? = some v → v = a
  le_stop : ∀ a b num, 1 ≤ a → a ≤ b → ∀ v ∈ msInner O a b num, v ≤ b
  prod : ∀ r w k st s, regStageChunks O r w k = .ok st → s ∈ st → r.length = w.length →
    lprod s ≤ max (lprod r) (lprod w)

/-- one row of stage values (one axis): consecutive values line up, the last one lines up with the
write chunk, all are positive. -/
theorem multspace_row (O : Oracles) (hR : RegOK O) (rc wc num : Nat) (row : List Nat)
    (h : multspace O rc wc num = .ok row) :
    ChainR Mono row ∧ (∀ a, row.getLast? = some a → Mono a wc) ∧ ∀ x ∈ row, 0 < x := by
  unfold multspace at h
  by_cases h1 : rc < 1
  · rw [if_pos h1] at h; cases h
  rw [if_neg h1] at h
  by_cases h2 : wc < 1
  · rw [if_pos h2] at h; cases h
  rw [if_neg h2] at h
  by_cases h3 : rc > wc
  · rw [if_pos h3] at h
    simp only [Except.ok.injEq] at h; subst h
    refine ⟨?_, ?_, ?_⟩
    · have := ChainR_reverse _ (msInner_chain O wc rc num)
      exact ChainR_imp (fun a b hab => UpP_mono_rev b a hab) _ this
    · intro a ha
      rw [List.getLast?_reverse] at ha
      -- the first inner value follows `vals[0] = wc`
      unfold msInner at ha
      rw [List.head?_dropLast] at ha
      split at ha
      · have hc := (msVals_chain (O.msq wc rc num) 1 (by omega)).tail
        cases hv : msVals 1 (O.msq wc rc num) with
        | nil => rw [hv] at ha; simp at ha
        | cons v0 rest =>
          rw [hv] at ha hc
          have hv0 := hR.head wc rc num v0 (by omega) (by omega) (by rw [hv]; rfl)
          cases rest with
          | nil => simp at ha
          | cons v1 rest' =>
            simp at ha; subst ha
            have := hc.1
            rw [hv0] at this
            exact UpP_mono_rev _ _ this
      · cases ha
    · intro x hx
      exact msInner_pos O wc rc num x (List.mem_reverse.1 hx)
  · rw [if_neg h3] at h
    simp only [Except.ok.injEq] at h; subst h
    refine ⟨ChainR_imp UpP_mono _ (msInner_chain O rc wc num), ?_, msInner_pos O rc wc num⟩
    intro a ha
    exact Or.inl (hR.le_stop rc wc num (by omega) (by omega) a (List.mem_of_getLast? ha))

/-! ### rows (one per axis) and columns (one per stage) -/

/-- what `multspace_row` gives for the row of one axis with write chunk `wc` -/
def RowFacts (wc : Nat) (row : List Nat) : Prop :=
  ChainR Mono row ∧ (∀ a, row.getLast? = some a → Mono a wc) ∧ ∀ x ∈ row, 0 < x

theorem msRows_facts (O : Oracles) (hR : RegOK O) (num : Nat) :
    ∀ (r w : List Nat) (rows : List (List Nat)), msRows O num r w = .ok rows → r.length = w.length →
      All2 RowFacts w rows := by
  intro r
  induction r with
  | nil =>
    intro w rows h hl
    cases w with
    | nil => simp [msRows] at h; subst h; trivial
    | cons _ _ => simp at hl
  | cons rc rs ih =>
    intro w rows h hl
    cases w with
    | nil => simp at hl
    | cons wc ws =>
      unfold msRows at h
      cases hm : multspace O rc wc num with
      | error e => rw [hm] at h; cases h
      | ok row =>
        rw [hm] at h; simp only at h
        cases hrest : msRows O num rs ws with
        | error e => rw [hrest] at h; cases h
        | ok rest =>
          rw [hrest] at h
          simp only [Except.ok.injEq] at h; subst h
          exact ⟨multspace_row O hR rc wc num row hm, ih ws rest hrest (by simpa using hl)⟩

theorem column_cons (row : List Nat) (rows : List (List Nat)) (j v : Nat) (h : row[j]? = some v) :
    column (row :: rows) j = v :: column rows j := by
  simp [column, List.filterMap_cons, h]

theorem getElem?_of_lt (row : List Nat) (j : Nat) (h : j < row.length) : ∃ v, row[j]? = some v :=
  ⟨row[j], List.getElem?_eq_getElem h⟩

theorem column_length : ∀ (rows : List (List Nat)) (j : Nat), (∀ row ∈ rows, j < row.length) →
    (column rows j).length = rows.length := by
  intro rows
  induction rows with
  | nil => intro j _; rfl
  | cons row rest ih =>
    intro j h
    obtain ⟨v, hv⟩ := getElem?_of_lt row j (h row (List.mem_cons_self))
    rw [column_cons row rest j v hv]
    simp [ih j (fun r hr => h r (List.mem_cons_of_mem _ hr))]

theorem column_pos (rows : List (List Nat)) (j : Nat) (h : ∀ row ∈ rows, ∀ x ∈ row, 0 < x) :
    ∀ x ∈ column rows j, 0 < x := by
  intro x hx
  unfold column at hx
  obtain ⟨row, hrow, hget⟩ := List.mem_filterMap.1 hx
  exact h row hrow x (List.mem_of_getElem? hget)

theorem column_step (num : Nat) : ∀ (w : List Nat) (rows : List (List Nat)) (j : Nat),
    All2 RowFacts w rows → (∀ row ∈ rows, row.length = num) → j + 1 < num →
    All2 Mono (column rows j) (column rows (j + 1)) := by
  intro w
  induction w with
  | nil =>
    intro rows j h _ _
    cases rows with
    | nil => trivial
    | cons _ _ => cases h
  | cons wc ws ih =>
    intro rows j h hlen hj
    cases rows with
    | nil => cases h
    | cons row rest =>
      have hl := hlen row (List.mem_cons_self)
      obtain ⟨a, ha⟩ := getElem?_of_lt row j (by omega)
      obtain ⟨b, hb⟩ := getElem?_of_lt row (j + 1) (by omega)
      rw [column_cons row rest j a ha, column_cons row rest (j + 1) b hb]
      exact ⟨ChainR_get row j a b h.1.1 ha hb,
        ih rest j h.2 (fun r hr => hlen r (List.mem_cons_of_mem _ hr)) hj⟩

theorem column_last (num : Nat) : ∀ (w : List Nat) (rows : List (List Nat)),
    All2 RowFacts w rows → (∀ row ∈ rows, row.length = num) → 0 < num →
    All2 Mono (column rows (num - 1)) w := by
  intro w
  induction w with
  | nil =>
    intro rows h _ _
    cases rows with
    | nil => trivial
    | cons _ _ => cases h
  | cons wc ws ih =>
    intro rows h hlen hn
    cases rows with
    | nil => cases h
    | cons row rest =>
      have hl := hlen row (List.mem_cons_self)
      obtain ⟨a, ha⟩ := getElem?_of_lt row (num - 1) (by omega)
      rw [column_cons row rest (num - 1) a ha]
      refine ⟨h.1.2.1 a ?_, ih rest h.2 (fun r hr => hlen r (List.mem_cons_of_mem _ hr)) hn⟩
      rw [List.getLast?_eq_getElem?, hl]; exact ha

theorem All2_mono_to_stage : ∀ (shape c1 c2 : List Nat), All2 Mono c1 c2 → shape.length = c1.length →
    All3 StageAxisOK shape c1 c2 := by
  intro shape
  induction shape with
  | nil =>
    intro c1 c2 h hl
    cases c1 with
    | nil => cases c2 with
      | nil => trivial
      | cons _ _ => cases h
    | cons _ _ => simp at hl
  | cons n ns ih =>
    intro c1 c2 h hl
    cases c1 with
    | nil => simp at hl
    | cons a as =>
      cases c2 with
      | nil => cases h
      | cons b bs =>
        refine ⟨?_, ih as bs h.2 (by simpa using hl)⟩
        rcases h.1 with h1 | h1
        · exact Or.inl h1
        · exact Or.inr (Or.inl h1)

/-- consecutive stage chunks (columns) and finally the write chunks line up in every axis. -/
theorem cols_chain (shape w : List Nat) (rows : List (List Nat)) (num : Nat)
    (hf : All2 RowFacts w rows) (hlen : ∀ row ∈ rows, row.length = num)
    (hs : shape.length = rows.length) :
    ∀ fuel j, j + fuel = num →
      ChainR (fun a b => All3 StageAxisOK shape a b) (colsFrom rows j fuel ++ [w]) := by
  intro fuel
  induction fuel with
  | zero => intro j _; trivial
  | succ f ih =>
    intro j hj
    have hcl : (column rows j).length = rows.length :=
      column_length rows j (fun r hr => by have := hlen r hr; omega)
    cases f with
    | zero =>
      simp only [colsFrom, List.cons_append, List.nil_append]
      have : j = num - 1 := by omega
      subst this
      exact ⟨All2_mono_to_stage shape _ _ (column_last num w rows hf hlen (by omega)) (by omega), trivial⟩
    | succ f' =>
      have ih' := ih (j + 1) (by omega)
      simp only [colsFrom, List.cons_append] at ih' ⊢
      exact ⟨All2_mono_to_stage shape _ _ (column_step num w rows j hf hlen (by omega)) (by omega), ih'⟩

theorem mkPlan_chain (Q : List Nat → List Nat → Prop) : ∀ (stage : List (List Nat)) (read write : List Nat),
    ChainR Q (read :: (stage ++ [write])) → ∀ s ∈ mkPlan read stage write, Q s.read s.write := by
  intro stage
  induction stage with
  | nil =>
    intro read write h s hs
    simp only [mkPlan_nil, List.mem_singleton] at hs; subst hs
    exact h.1
  | cons x xs ih =>
    intro read write h s hs
    rw [mkPlan_cons] at hs
    rcases List.mem_cons.1 hs with rfl | hs
    · exact h.1
    · exact ih x write h.2 s hs

theorem colsFrom_mem (rows : List (List Nat)) : ∀ fuel j s, s ∈ colsFrom rows j fuel →
    ∃ i, j ≤ i ∧ i < j + fuel ∧ s = column rows i := by
  intro fuel
  induction fuel with
  | zero => intro j s h; simp [colsFrom] at h
  | succ f ih =>
    intro j s h
    simp only [colsFrom, List.mem_cons] at h
    rcases h with rfl | h
    · exact ⟨j, Nat.le_refl _, by omega, rfl⟩
    · obtain ⟨i, h1, h2, h3⟩ := ih (j + 1) s h
      exact ⟨i, by omega, by omega, h3⟩

theorem msRows_length (O : Oracles) (num : Nat) :
    ∀ (r w : List Nat) (rows : List (List Nat)), msRows O num r w = .ok rows → r.length = w.length →
      rows.length = r.length := by
  intro r
  induction r with
  | nil =>
    intro w rows h hl
    cases w with
    | nil => simp [msRows] at h; subst h; rfl
    | cons _ _ => simp at hl
  | cons rc rs ih =>
    intro w rows h hl
    cases w with
    | nil => simp at hl
    | cons wc ws =>
      unfold msRows at h
      cases hm : multspace O rc wc num with
      | error e => rw [hm] at h; cases h
      | ok row =>
        rw [hm] at h; simp only at h
        cases hrest : msRows O num rs ws with
        | error e => rw [hrest] at h; cases h
        | ok rest =>
          rw [hrest] at h
          simp only [Except.ok.injEq] at h; subst h
          simp [ih ws rest hrest (by simpa using hl)]

/-- structure of `calculate_regular_stage_chunks`: rows per axis with the row facts, columns as stages. -/
theorem regStageChunks_spec (O : Oracles) (hR : RegOK O) (r w : List Nat) (k : Nat) (st : List (List Nat))
    (h : regStageChunks O r w k = .ok st) (hl : r.length = w.length) :
    ∃ rows, All2 RowFacts w rows ∧ rows.length = r.length ∧
      ((rows = [] ∧ st = []) ∨ ((∀ row ∈ rows, row.length = k - 1) ∧ st = colsFrom rows 0 (k - 1))) := by
  unfold regStageChunks at h
  cases hrows : msRows O (k - 1) r w with
  | error e => rw [hrows] at h; cases h
  | ok rows =>
    rw [hrows] at h; simp only at h
    refine ⟨rows, msRows_facts O hR _ r w rows hrows hl, msRows_length O _ r w rows hrows hl, ?_⟩
    unfold transposeRows at h
    by_cases h1 : rows = []
    · rw [if_pos h1] at h
      simp only [Except.ok.injEq] at h
      exact Or.inl ⟨h1, h.symm⟩
    · rw [if_neg h1] at h
      by_cases h2 : rows.all (fun r => r.length == k - 1) = true
      · rw [if_pos h2] at h
        simp only [Except.ok.injEq] at h
        right
        refine ⟨?_, h.symm⟩
        intro row hrow
        have := List.all_eq_true.1 h2 row hrow
        simpa using this
      · rw [if_neg h2] at h; cases h

/-- every regular stage chunk has the rank of the array and positive entries. -/
theorem regStageChunks_rank_pos (O : Oracles) (hR : RegOK O) (r w : List Nat) (k : Nat)
    (st : List (List Nat)) (h : regStageChunks O r w k = .ok st) (hl : r.length = w.length) :
    ∀ s ∈ st, s.length = r.length ∧ ∀ x ∈ s, 0 < x := by
  obtain ⟨rows, hf, hrl, hcase⟩ := regStageChunks_spec O hR r w k st h hl
  intro s hs
  rcases hcase with ⟨_, rfl⟩ | ⟨hlen, rfl⟩
  · simp at hs
  · obtain ⟨i, _, hi, rfl⟩ := colsFrom_mem rows _ _ s hs
    refine ⟨?_, ?_⟩
    · rw [column_length rows i (fun row hrow => by have := hlen row hrow; omega)]; exact hrl
    · apply column_pos
      intro row hrow
      -- positivity of the row from RowFacts
      have : ∀ (w : List Nat) (rows : List (List Nat)), All2 RowFacts w rows → ∀ row ∈ rows, ∀ x ∈ row, 0 < x := by
        intro w
        induction w with
        | nil => intro rows h; cases rows with
          | nil => intro row hr; simp at hr
          | cons _ _ => cases h
        | cons wc ws ih =>
          intro rows h
          cases rows with
          | nil => intro row hr; simp at hr
          | cons r0 rest =>
            intro row hr
            rcases List.mem_cons.1 hr with rfl | hr
            · exact h.1.2.2
            · exact ih rest h.2 row hr
      exact this w rows hf row hrow

/-! ### regular planner: main results -/

/-- invariant of the (re-assigned) read chunks of the regular planner -/
def ReadInv (shape : List Nat) (itemsize maxMem : Nat) (r : List Nat) : Prop :=
  itemsize * lprod r ≤ maxMem ∧ r.length = shape.length ∧ ∀ x ∈ r, 0 < x

theorem firstTarget_length (stage : List (List Nat)) (write : List Nat) (L : Nat)
    (hs : ∀ s ∈ stage, s.length = L) (hw : write.length = L) : (firstTarget stage write).length = L := by
  cases stage with
  | nil => exact hw
  | cons s _ => exact hs s (List.mem_cons_self)

theorem readInv_fix (O : Oracles) (hR : RegOK O) (shape write : List Nat) (itemsize maxMem : Nat)
    (hw : write.length = shape.length) :
    ∀ r k stage r', ReadInv shape itemsize maxMem r → regStageChunks O r write k = .ok stage →
      fixCopy shape r (firstTarget stage write) = .ok r' → ReadInv shape itemsize maxMem r' := by
  intro r k stage r' ⟨hm, hl, hp⟩ hst hfx
  have hrp := regStageChunks_rank_pos O hR r write k stage hst (by omega)
  have htl := firstTarget_length stage write shape.length (fun s hs => by rw [(hrp s hs).1]; exact hl) hw
  obtain ⟨_, h2⟩ := fixCopy_spec shape r _ r' hfx hl htl
  obtain ⟨i1, i2, i3⟩ := lprod_le_of_All2 r r' h2
  exact ⟨Nat.le_trans (Nat.mul_le_mul_left _ i1) hm, by omega, i3 hp⟩

theorem regularPlan_result (O : Oracles) (hO : DivOK O) (hR : RegOK O) (shape source target : List Nat)
    (itemsize minMem maxMem : Nat) (plan : List Stage)
    (h : regularPlan O shape source target itemsize minMem maxMem = .ok plan) :
    ∃ read write k r0 stage r', Prepared shape source target itemsize maxMem read write ∧
      ReadInv shape itemsize maxMem r0 ∧ regStageChunks O r0 write k = .ok stage ∧
      fixCopy shape r0 (firstTarget stage write) = .ok r' ∧ plan = mkPlan r' stage write := by
  unfold regularPlan at h
  cases hp : prepare O shape source target itemsize minMem maxMem with
  | error e => rw [hp] at h; cases h
  | ok rw' =>
    obtain ⟨read, write⟩ := rw'
    rw [hp] at h; simp only at h
    have hprep := (prepare_spec O hO _ _ _ _ _ _ _ _ hp).1
    have hinv : ReadInv shape itemsize maxMem read := ⟨hprep.readMem, hprep.readLen, hprep.readPos⟩
    rcases regLoop_result O shape write itemsize minMem (ReadInv shape itemsize maxMem)
        (readInv_fix O hR shape write itemsize maxMem hprep.writeLen) _ _ _ _ _ hinv h with
      ⟨k, r0, stage, r', h1, h2, h3, h4⟩ | ⟨io, hio⟩
    · exact ⟨read, write, k, r0, stage, r', hprep, h1, h2, h3, h4⟩
    · cases hio

theorem chain_cons_first (Q : List Nat → List Nat → Prop) (a : List Nat) (stage : List (List Nat))
    (write : List Nat) (h1 : Q a (firstTarget stage write)) (h2 : ChainR Q (stage ++ [write])) :
    ChainR Q (a :: (stage ++ [write])) := by
  cases stage with
  | nil => exact ⟨h1, trivial⟩
  | cons s ss => exact ⟨h1, h2⟩

theorem All3.length_left {α β γ : Type} {R : α → β → γ → Prop} :
    ∀ {l1 : List α} {l2 : List β} {l3 : List γ}, All3 R l1 l2 l3 → l2.length = l1.length ∧ l3.length = l1.length
  | [], [], [], _ => ⟨rfl, rfl⟩
  | _ :: as, _ :: bs, _ :: cs, h => by
    have := All3.length_left (l1 := as) (l2 := bs) (l3 := cs) h.2
    simp [this.1, this.2]
  | [], [], _ :: _, h => by cases h
  | [], _ :: _, _, h => by cases h
  | _ :: _, [], _, h => by cases h
  | _ :: _, _ :: _, [], h => by cases h

/-! ## Part D — `_rechunk_plan`, `rechunk_plan` -/

/-- the copy chunk is a multiple of the chunk it writes, or spans the axis -/
def OpAxisOK (n c t : Nat) : Prop := t ∣ c ∨ c = n

theorem stage_to_op_int : ∀ (shape r w : List Nat), All3 StageAxisOK shape r w →
    All3 OpAxisOK shape r (shared r w) := by
  intro shape
  induction shape with
  | nil => intro r w h; cases r <;> cases w <;> first | trivial | cases h
  | cons n ns ih =>
    intro r w h
    cases r with
    | nil => cases h
    | cons a as =>
      cases w with
      | nil => cases h
      | cons b bs =>
        simp only [shared, List.zipWith_cons_cons]
        refine ⟨?_, ih as bs h.2⟩
        rcases h.1 with h1 | h1 | h1
        · left; rw [Nat.min_eq_left h1]; exact Nat.dvd_refl _
        · by_cases hab : a ≤ b
          · left; rw [Nat.min_eq_left hab]; exact Nat.dvd_refl _
          · left; rw [Nat.min_eq_right (by omega)]; exact h1
        · exact Or.inr h1

theorem stage_to_op_self : ∀ (shape r w : List Nat), All3 StageAxisOK shape r w → All3 OpAxisOK shape r r := by
  intro shape
  induction shape with
  | nil => intro r w h; cases r <;> cases w <;> first | trivial | cases h
  | cons n ns ih =>
    intro r w h
    cases r with
    | nil => cases h
    | cons a as =>
      cases w with
      | nil => cases h
      | cons b bs => exact ⟨Or.inl (Nat.dvd_refl _), ih as bs h.2⟩

theorem write_to_op : ∀ (shape target write : List Nat),
    All3 (fun n t w => (t ∣ w ∨ w = n) ∧ w ≤ n) shape target write → All3 OpAxisOK shape write target := by
  intro shape
  induction shape with
  | nil => intro t w h; cases t <;> cases w <;> first | trivial | cases h
  | cons n ns ih =>
    intro t w h
    cases t with
    | nil => cases h
    | cons a as =>
      cases w with
      | nil => cases h
      | cons b bs => exact ⟨h.1.1, ih as bs h.2⟩

theorem opsOfStages_cases (target : List Nat) : ∀ (stages : List Stage) (op : List Nat × List Nat),
    op ∈ opsOfStages target stages →
      (∃ s ∈ stages, op = (s.read, s.int)) ∨
      (∃ s ∈ stages, s.read = s.write ∧ op = (s.read, s.write)) ∨
      (∃ s, stages.getLast? = some s ∧ op = (s.write, target))
  | [], op, h => by simp [opsOfStages] at h
  | [s], op, h => by
    unfold opsOfStages at h
    by_cases hrw : s.read = s.write
    · rw [if_pos hrw] at h
      simp only [List.mem_singleton] at h
      exact Or.inr (Or.inr ⟨s, rfl, by rw [h, hrw]⟩)
    · rw [if_neg hrw] at h
      simp only [List.mem_cons, List.not_mem_nil, or_false] at h
      rcases h with h | h
      · exact Or.inl ⟨s, List.mem_cons_self, h⟩
      · exact Or.inr (Or.inr ⟨s, rfl, h⟩)
  | s :: s2 :: rest, op, h => by
    unfold opsOfStages at h
    rcases List.mem_cons.1 h with h | h
    · by_cases hrw : s.read = s.write
      · rw [if_pos hrw] at h
        exact Or.inr (Or.inl ⟨s, List.mem_cons_self, hrw, h⟩)
      · rw [if_neg hrw] at h
        exact Or.inl ⟨s, List.mem_cons_self, h⟩
    · rcases opsOfStages_cases target (s2 :: rest) op h with ⟨x, hx, e⟩ | ⟨x, hx, e1, e2⟩ | ⟨x, hx, e⟩
      · exact Or.inl ⟨x, List.mem_cons_of_mem _ hx, e⟩
      · exact Or.inr (Or.inl ⟨x, List.mem_cons_of_mem _ hx, e1, e2⟩)
      · exact Or.inr (Or.inr ⟨x, by rw [List.getLast?_cons_cons]; exact hx, e⟩)

/-- the last copy op writes the requested target chunks, copying with the last stage's write chunks. -/
theorem opsOfStages_last (target : List Nat) : ∀ (stages : List Stage) (s : Stage),
    stages.getLast? = some s → (opsOfStages target stages).getLast? = some (s.write, target)
  | [], s, h => by simp at h
  | [x], s, h => by
    simp at h; subst h
    unfold opsOfStages
    by_cases hrw : x.read = x.write
    · rw [if_pos hrw]; simp [hrw]
    · rw [if_neg hrw]; simp
  | x :: y :: rest, s, h => by
    rw [List.getLast?_cons_cons] at h
    have ih := opsOfStages_last target (y :: rest) s h
    unfold opsOfStages
    have hne : opsOfStages target (y :: rest) ≠ [] := by
      intro hnil; rw [hnil] at ih; simp at ih
    cases hops : opsOfStages target (y :: rest) with
    | nil => exact absurd hops hne
    | cons o os => rw [hops] at ih; rw [List.getLast?_cons_cons]; exact ih

theorem mkPlan_last : ∀ (stage : List (List Nat)) (read write : List Nat) (s : Stage),
    (mkPlan read stage write).getLast? = some s → s.write = write := by
  intro stage
  induction stage with
  | nil => intro read write s h; simp [mkPlan_nil] at h; subst h; rfl
  | cons x xs ih =>
    intro read write s h
    rw [mkPlan_cons] at h
    cases hm : mkPlan x xs write with
    | nil => exact absurd hm (mkPlan_ne_nil xs x write)
    | cons a as =>
      rw [hm, List.getLast?_cons_cons, ← hm] at h
      exact ih x write s h

theorem mkPlan_first (stage : List (List Nat)) (read write : List Nat) :
    ∃ s, (mkPlan read stage write).head? = some s ∧ s.read = read := by
  cases stage with
  | nil => exact ⟨_, rfl, rfl⟩
  | cons x xs => exact ⟨_, rfl, rfl⟩

/-- `rechunk_plan` threads the source chunks through the ops -/
def Chained : List Nat → List CopyOp → Prop
  | _, [] => True
  | src, o :: rest => o.source = src ∧ Chained o.target rest

theorem copyOps_chained : ∀ (l : List (List Nat × List Nat)) (source : List Nat),
    Chained source (copyOps source l)
  | [], _ => trivial
  | (_, t) :: rest, _ => ⟨rfl, copyOps_chained rest t⟩

theorem copyOps_pairs : ∀ (l : List (List Nat × List Nat)) (source : List Nat),
    (copyOps source l).map (fun o => (o.copy, o.target)) = l
  | [], _ => rfl
  | (c, t) :: rest, _ => by simp [copyOps, copyOps_pairs rest t]

theorem copyOps_last : ∀ (l : List (List Nat × List Nat)) (source : List Nat) (c t : List Nat),
    l.getLast? = some (c, t) → ∃ o, (copyOps source l).getLast? = some o ∧ o.copy = c ∧ o.target = t
  | [], _, _, _, h => by simp at h
  | [(c', t')], source, c, t, h => by
    simp at h; obtain ⟨rfl, rfl⟩ := h
    exact ⟨⟨source, c', t'⟩, rfl, rfl, rfl⟩
  | (c1, t1) :: p2 :: rest, source, c, t, h => by
    rw [List.getLast?_cons_cons] at h
    obtain ⟨o, ho, h1, h2⟩ := copyOps_last (p2 :: rest) t1 c t h
    refine ⟨o, ?_, h1, h2⟩
    obtain ⟨c2, t2⟩ := p2
    simp only [copyOps] at ho ⊢
    rw [List.getLast?_cons_cons]; exact ho

theorem rechunkPlanOps_spec (O : Oracles) (irr : Bool) (shape source target : List Nat) (itemsize : Nat)
    (b : Budget) (minMem : Option Nat) (ops : List (List Nat × List Nat))
    (h : rechunkPlanOps O irr shape source target itemsize b minMem = .ok ops) :
    (ops = [] ∧ (source = target ∨ lprod shape = 0)) ∨
    ∃ stages, choosePlan O irr shape source target itemsize
        (effMinMem b (itemsize * lprod shape) minMem) (rechunkerMaxMem b) = .ok stages ∧
      ops = opsOfStages target stages ∧ source ≠ target := by
  unfold rechunkPlanOps at h
  by_cases h1 : source = target
  · rw [if_pos h1] at h; simp only [Except.ok.injEq] at h; exact Or.inl ⟨h.symm, Or.inl h1⟩
  · rw [if_neg h1] at h
    by_cases h2 : lprod shape = 0
    · rw [if_pos h2] at h; simp only [Except.ok.injEq] at h; exact Or.inl ⟨h.symm, Or.inr h2⟩
    · rw [if_neg h2] at h
      cases hp : choosePlan O irr shape source target itemsize
          (effMinMem b (itemsize * lprod shape) minMem) (rechunkerMaxMem b) with
      | error e => rw [hp] at h; cases h
      | ok stages =>
        rw [hp] at h
        simp only [Except.ok.injEq] at h
        exact Or.inr ⟨stages, rfl, h.symm, h1⟩

/-- `rechunker_max_mem * total_copies ≤ allowed_mem - reserved_mem` -/
theorem rechunkerMaxMem_budget (b : Budget) :
    rechunkerMaxMem b * totalCopies b ≤ b.allowedMem - b.reservedMem :=
  Nat.div_mul_le_self _ _

/-! ## Part E — outcomes: the internal assertion and the division by zero are unreachable -/

theorem resolveAll_error : ∀ shape chunks lims e, resolveAll shape chunks lims = .error e → e = errInvalidLimits := by
  intro shape
  induction shape with
  | nil => intro chunks lims e h; simp [resolveAll] at h
  | cons n ns ih =>
    intro chunks lims e h
    cases chunks with
    | nil => simp [resolveAll] at h
    | cons c cs =>
      cases lims with
      | nil => simp [resolveAll] at h
      | cons l ls =>
        unfold resolveAll at h
        cases hr : resolveLim n c l with
        | error e' =>
          rw [hr] at h
          simp only [Except.error.injEq] at h; subst h
          cases l with
          | skip => simp [resolveLim] at hr
          | unlimited => simp [resolveLim] at hr
          | upto cl =>
            simp only [resolveLim] at hr
            split at hr
            · cases hr
            · split at hr
              · cases hr
              · simp only [Except.error.injEq] at hr; exact hr.symm
        | ok r =>
          rw [hr] at h
          cases hrest : resolveAll ns cs ls with
          | error e' => rw [hrest] at h; simp only [Except.error.injEq] at h; subst h; exact ih cs ls _ hrest
          | ok rest => rw [hrest] at h; cases h

theorem resolveAll_pos : ∀ shape chunks lims axes, resolveAll shape chunks lims = .ok axes →
    (∀ n ∈ shape, 0 < n) → (∀ c ∈ chunks, 0 < c) →
    ∀ a ∈ axes, 0 < a.n ∧ ∀ l, a.lim = some l → 0 < l := by
  intro shape
  induction shape with
  | nil => intro chunks lims axes h _ _ a ha; simp [resolveAll] at h; subst h; simp at ha
  | cons n ns ih =>
    intro chunks lims axes h hn hc a ha
    cases chunks with
    | nil => simp [resolveAll] at h; subst h; simp at ha
    | cons c cs =>
      cases lims with
      | nil => simp [resolveAll] at h; subst h; simp at ha
      | cons l ls =>
        unfold resolveAll at h
        cases hr : resolveLim n c l with
        | error e => rw [hr] at h; cases h
        | ok r =>
          rw [hr] at h
          cases hrest : resolveAll ns cs ls with
          | error e => rw [hrest] at h; cases h
          | ok rest =>
            rw [hrest] at h
            simp only [Except.ok.injEq] at h; subst h
            have hn0 := hn n (List.mem_cons_self)
            have hc0 := hc c (List.mem_cons_self)
            rcases List.mem_cons.1 ha with rfl | ha
            · refine ⟨hn0, ?_⟩
              intro l' hl'
              simp only at hl'
              subst hl'
              cases l with
              | skip => simp [resolveLim] at hr
              | unlimited => simp [resolveLim] at hr; omega
              | upto cl =>
                simp only [resolveLim] at hr
                split at hr
                · simp only [Except.ok.injEq, Option.some.injEq] at hr; omega
                · split at hr
                  · simp only [Except.ok.injEq, Option.some.injEq] at hr; omega
                  · cases hr
            · exact ih cs ls rest hrest (fun x hx => hn x (List.mem_cons_of_mem _ hx))
                (fun x hx => hc x (List.mem_cons_of_mem _ hx)) a ha

theorem readLimits_length : ∀ (s w : List Nat), s.length = w.length → (readLimits s w).length = s.length := by
  intro s
  induction s with
  | nil => intro w _; cases w <;> rfl
  | cons a as ih =>
    intro w h
    cases w with
    | nil => simp at h
    | cons b bs => simp [readLimits, ih bs (by simpa using h)]

theorem consolidate_outcome_le (O : Oracles) (hO : DivOK O) (shape chunks : List Nat) (itemsize maxMem : Nat)
    (limits : Option (List Lim)) (hn : ∀ n ∈ shape, 0 < n) (hc : ∀ c ∈ chunks, 0 < c) (hi : 0 < itemsize)
    (hlen : chunks.length = shape.length) (hl : (defaultLims shape limits).length = shape.length)
    (hm : ¬ itemsize * lprod chunks > maxMem) :
    (∃ res, consolidate O shape chunks itemsize maxMem limits = .ok res) ∨
    consolidate O shape chunks itemsize maxMem limits = .error errInvalidLimits := by
  unfold consolidate
  rw [if_neg (by omega)]
  cases hax : resolveAll shape chunks (defaultLims shape limits) with
  | error e => right; simp only; rw [resolveAll_error _ _ _ _ hax]
  | ok axes =>
    simp only
    rw [if_neg hm]
    have hp : 0 < itemsize * lprod chunks := Nat.mul_pos hi ((lprod_pos chunks).2 hc)
    rw [if_neg (by omega)]
    left
    have hmap := (resolveAll_maps shape chunks _ axes hax hlen hl).1
    exact consGo_ok O hO itemsize maxMem axes 1 (resolveAll_pos shape chunks _ axes hax hn hc)
      (by rw [hmap]; simpa using hp) (by rw [hmap]; simp only [Nat.one_mul]; omega)

/-- With sane float behaviour (`DivOK`) and positive inputs, `consolidate_chunks` either succeeds or
raises one of its two `ValueError`s: `assert headroom >= 1` and `ZeroDivisionError` are unreachable. -/
theorem consolidate_outcome (O : Oracles) (hO : DivOK O) (shape chunks : List Nat) (itemsize maxMem : Nat)
    (limits : Option (List Lim)) (hn : ∀ n ∈ shape, 0 < n) (hc : ∀ c ∈ chunks, 0 < c) (hi : 0 < itemsize)
    (hlen : chunks.length = shape.length) (hl : (defaultLims shape limits).length = shape.length) :
    (∃ res, consolidate O shape chunks itemsize maxMem limits = .ok res) ∨
    consolidate O shape chunks itemsize maxMem limits = .error errInvalidLimits ∨
    consolidate O shape chunks itemsize maxMem limits = .error errChunkMem := by
  by_cases hm : itemsize * lprod chunks > maxMem
  · right
    unfold consolidate
    rw [if_neg (by omega)]
    cases hax : resolveAll shape chunks (defaultLims shape limits) with
    | error e => left; simp only; rw [resolveAll_error _ _ _ _ hax]
    | ok axes => right; simp only; rw [if_pos hm]
  · rcases consolidate_outcome_le O hO shape chunks itemsize maxMem limits hn hc hi hlen hl hm with h | h
    · exact Or.inl h
    · exact Or.inr (Or.inl h)

theorem irrLoop_error (O : Oracles) (shape read write : List Nat) (itemsize minMem : Nat) :
    ∀ fuel sc prev e, irrLoop O shape read write itemsize minMem fuel sc prev = .error e → e = errMaxStages := by
  intro fuel
  induction fuel with
  | zero => intro sc prev e h; simp [irrLoop] at h; exact h.symm
  | succ f ih =>
    intro sc prev e h
    unfold irrLoop at h
    simp only at h
    split at h
    · cases h
    · cases prev with
      | none => exact ih _ _ _ h
      | some p =>
        obtain ⟨pio, pplan⟩ := p
        simp only at h
        split at h
        · cases h
        · exact ih _ _ _ h

/-- the explicit `ValueError`s of the planners -/
def explicitErrors : List String :=
  [errSourceLen, errTargetLen, errSourceMem, errTargetMem, errMaxLtMin, errInvalidLimits]

theorem prepare_outcome (O : Oracles) (hO : DivOK O) (shape source target : List Nat)
    (itemsize minMem maxMem : Nat) (hn : ∀ n ∈ shape, 0 < n) (hs : ∀ c ∈ source, 0 < c)
    (ht : ∀ c ∈ target, 0 < c) (hi : 0 < itemsize) (e : String)
    (h : prepare O shape source target itemsize minMem maxMem = .error e) : e ∈ explicitErrors := by
  unfold prepare at h
  by_cases h1 : source.length ≠ shape.length
  · rw [if_pos h1] at h; simp only [Except.error.injEq] at h; subst h; simp [explicitErrors]
  rw [if_neg h1] at h
  by_cases h2 : target.length ≠ shape.length
  · rw [if_pos h2] at h; simp only [Except.error.injEq] at h; subst h; simp [explicitErrors]
  rw [if_neg h2] at h
  by_cases h3 : itemsize * lprod source > maxMem
  · rw [if_pos h3] at h; simp only [Except.error.injEq] at h; subst h; simp [explicitErrors]
  rw [if_neg h3] at h
  by_cases h4 : itemsize * lprod target > maxMem
  · rw [if_pos h4] at h; simp only [Except.error.injEq] at h; subst h; simp [explicitErrors]
  rw [if_neg h4] at h
  by_cases h5 : maxMem < minMem
  · rw [if_pos h5] at h; simp only [Except.error.injEq] at h; subst h; simp [explicitErrors]
  rw [if_neg h5] at h
  have hsl : source.length = shape.length := by omega
  have htl : target.length = shape.length := by omega
  rcases consolidate_outcome_le O hO shape target itemsize maxMem none hn ht hi htl (by simp [defaultLims]) h4 with
    ⟨w, hw⟩ | hw
  · rw [hw] at h; simp only at h
    have hwl := consolidate_length O shape target itemsize maxMem none w htl hw
    rcases consolidate_outcome_le O hO shape source itemsize maxMem (some (readLimits source w)) hn hs hi hsl
        (by simp only [defaultLims]; rw [readLimits_length source w (by omega)]; exact hsl) h3 with
      ⟨r, hr⟩ | hr
    · rw [hr] at h; cases h
    · rw [hr] at h; simp only [Except.error.injEq] at h; subst h; simp [explicitErrors]
  · rw [hw] at h; simp only [Except.error.injEq] at h; subst h; simp [explicitErrors]

/-- The irregular planner always terminates with a plan, an explicit `ValueError`, or the explicit
"no feasible scheme within MAX_STAGES" error. -/
theorem irregularPlan_outcome (O : Oracles) (hO : DivOK O) (shape source target : List Nat)
    (itemsize minMem maxMem : Nat) (hn : ∀ n ∈ shape, 0 < n) (hs : ∀ c ∈ source, 0 < c)
    (ht : ∀ c ∈ target, 0 < c) (hi : 0 < itemsize) (e : String)
    (h : irregularPlan O shape source target itemsize minMem maxMem = .error e) :
    e ∈ explicitErrors ∨ e = errMaxStages := by
  unfold irregularPlan at h
  cases hp : prepare O shape source target itemsize minMem maxMem with
  | error e' =>
    rw [hp] at h; simp only [Except.error.injEq] at h; subst h
    exact Or.inl (prepare_outcome O hO shape source target itemsize minMem maxMem hn hs ht hi _ hp)
  | ok rw' =>
    obtain ⟨read, write⟩ := rw'
    rw [hp] at h; simp only at h
    exact Or.inr (irrLoop_error O shape read write itemsize minMem _ _ _ _ h)

/-! ## Part F — both planners at once; an oracle satisfying every hypothesis -/

theorem irregularPlan_mem (O : Oracles) (hO : DivOK O) (hG : GeoOK O) (shape source target : List Nat)
    (itemsize minMem maxMem : Nat) (plan : List Stage)
    (h : irregularPlan O shape source target itemsize minMem maxMem = .ok plan) :
    ∀ s ∈ plan, StageMemOK itemsize maxMem s := by
  obtain ⟨read, write, k, hp, rfl⟩ := irregularPlan_result O hO shape source target itemsize minMem maxMem plan h
  apply mkPlan_mem itemsize maxMem shape.length _ read write hp.readMem hp.writeMem hp.readLen hp.writeLen
  intro s hs
  have hl : read.length = write.length := by rw [hp.readLen, hp.writeLen]
  refine ⟨?_, by rw [hG.rank read write k s hs hl]; exact hp.readLen⟩
  have := hG.prod read write k s hs hl
  have h1 := hp.readMem
  have h2 := hp.writeMem
  have : itemsize * lprod s ≤ itemsize * max (lprod read) (lprod write) := Nat.mul_le_mul_left _ this
  by_cases hc : lprod read ≤ lprod write
  · rw [Nat.max_eq_right hc] at this; omega
  · rw [Nat.max_eq_left (by omega)] at this; omega

theorem regularPlan_mem (O : Oracles) (hO : DivOK O) (hR : RegOK O) (shape source target : List Nat)
    (itemsize minMem maxMem : Nat) (plan : List Stage)
    (h : regularPlan O shape source target itemsize minMem maxMem = .ok plan) :
    ∀ s ∈ plan, StageMemOK itemsize maxMem s := by
  obtain ⟨read, write, k, r0, stage, r', hp, hinv, hst, hfx, rfl⟩ :=
    regularPlan_result O hO hR shape source target itemsize minMem maxMem plan h
  have hinv' := readInv_fix O hR shape write itemsize maxMem hp.writeLen r0 k stage r' hinv hst hfx
  have hl : r0.length = write.length := by rw [hinv.2.1, hp.writeLen]
  apply mkPlan_mem itemsize maxMem shape.length _ r' write hinv'.1 hp.writeMem hinv'.2.1 hp.writeLen
  intro s hs
  refine ⟨?_, by rw [(regStageChunks_rank_pos O hR r0 write k stage hst hl s hs).1]; exact hinv.2.1⟩
  have := hR.prod r0 write k stage s hst hs hl
  have h1 := hinv.1
  have h2 := hp.writeMem
  have : itemsize * lprod s ≤ itemsize * max (lprod r0) (lprod write) := Nat.mul_le_mul_left _ this
  by_cases hc : lprod r0 ≤ lprod write
  · rw [Nat.max_eq_right hc] at this; omega
  · rw [Nat.max_eq_left (by omega)] at this; omega

/-- every stage of the regular planner is aligned: in each axis the chunk copied does not exceed the
chunk written, or is a multiple of it, or spans the axis. -/
theorem regularPlan_aligned (O : Oracles) (hO : DivOK O) (hR : RegOK O) (shape source target : List Nat)
    (itemsize minMem maxMem : Nat) (plan : List Stage)
    (h : regularPlan O shape source target itemsize minMem maxMem = .ok plan) :
    ∀ s ∈ plan, All3 StageAxisOK shape s.read s.write := by
  obtain ⟨read, write, k, r0, stage, r', hp, hinv, hst, hfx, rfl⟩ :=
    regularPlan_result O hO hR shape source target itemsize minMem maxMem plan h
  have hl : r0.length = write.length := by rw [hinv.2.1, hp.writeLen]
  have hrp := regStageChunks_rank_pos O hR r0 write k stage hst hl
  have htl := firstTarget_length stage write shape.length
    (fun s hs => by rw [(hrp s hs).1]; exact hinv.2.1) hp.writeLen
  have hfirst := (fixCopy_spec shape r0 _ r' hfx hinv.2.1 htl).1
  apply mkPlan_chain (fun a b => All3 StageAxisOK shape a b)
  apply chain_cons_first _ _ _ _ hfirst
  obtain ⟨rows, hf, hrl, hcase⟩ := regStageChunks_spec O hR r0 write k stage hst hl
  rcases hcase with ⟨_, rfl⟩ | ⟨hlen, rfl⟩
  · trivial
  · exact cols_chain shape write rows (k - 1) hf hlen (by rw [hrl, hinv.2.1]) (k - 1) 0 (by omega)

/-- facts common to both planners -/
theorem choosePlan_facts (O : Oracles) (hO : DivOK O) (hG : GeoOK O) (hR : RegOK O) (irr : Bool)
    (shape source target : List Nat) (itemsize minMem maxMem : Nat) (plan : List Stage)
    (h : choosePlan O irr shape source target itemsize minMem maxMem = .ok plan) :
    (∃ read write r st, Prepared shape source target itemsize maxMem read write ∧ plan = mkPlan r st write) ∧
    (∀ s ∈ plan, StageMemOK itemsize maxMem s) ∧
    (irr = false → ∀ s ∈ plan, All3 StageAxisOK shape s.read s.write) := by
  unfold choosePlan at h
  cases irr with
  | true =>
    simp only [if_true] at h
    obtain ⟨read, write, k, hp, he⟩ := irregularPlan_result O hO shape source target itemsize minMem maxMem plan h
    exact ⟨⟨read, write, read, _, hp, he⟩, irregularPlan_mem O hO hG _ _ _ _ _ _ _ h, by intro hc; cases hc⟩
  | false =>
    simp only [Bool.false_eq_true, if_false] at h
    obtain ⟨read, write, k, r0, stage, r', hp, _, _, _, he⟩ :=
      regularPlan_result O hO hR shape source target itemsize minMem maxMem plan h
    exact ⟨⟨read, write, r', stage, hp, he⟩, regularPlan_mem O hO hR _ _ _ _ _ _ _ h,
      fun _ => regularPlan_aligned O hO hR _ _ _ _ _ _ _ h⟩

/-! ### exact arithmetic satisfies all hypotheses (non-vacuity) -/

/-- the oracle of exact rational arithmetic with the crudest legal stage chunks (pointwise minimum) -/
def exactO : Oracles :=
  { gt1 := fun a b => decide (b < a)
    ge1 := fun a b => decide (b ≤ a)
    hr := fun a b => a / b
    geo := fun r w k => List.replicate (k - 1) (shared r w)
    msq := fun a _ num => a :: List.replicate (num + 1) 1 }

theorem exactO_div : DivOK exactO where
  gt1_le := by intro a b h; simp [exactO] at h; omega
  hr_mul := by intro a b; exact Nat.div_mul_le_self a b
  ge1_of_le := by intro a b h; simp [exactO, h]
  hr_pos := by
    intro a b hb hab
    show 1 ≤ a / b
    rw [Nat.le_div_iff_mul_le hb]; omega

theorem shared_pos : ∀ (r w : List Nat), (∀ x ∈ r, 0 < x) → (∀ x ∈ w, 0 < x) → ∀ x ∈ shared r w, 0 < x := by
  intro r
  induction r with
  | nil => intro w _ _ x hx; simp [shared] at hx
  | cons a as ih =>
    intro w hr hw x hx
    cases w with
    | nil => simp [shared] at hx
    | cons b bs =>
      simp only [shared, List.zipWith_cons_cons, List.mem_cons] at hx
      have ha := hr a (List.mem_cons_self)
      have hb := hw b (List.mem_cons_self)
      rcases hx with rfl | hx
      · omega
      · exact ih bs (fun y hy => hr y (List.mem_cons_of_mem _ hy)) (fun y hy => hw y (List.mem_cons_of_mem _ hy)) x hx

theorem exactO_geo : GeoOK exactO where
  rank := by
    intro r w k s hs hl
    simp only [exactO] at hs
    rw [(List.mem_replicate.1 hs).2]; exact shared_length r w hl
  pos := by
    intro r w k s hs hr hw
    simp only [exactO] at hs
    rw [(List.mem_replicate.1 hs).2]; exact shared_pos r w hr hw
  prod := by
    intro r w k s hs hl
    simp only [exactO] at hs
    rw [(List.mem_replicate.1 hs).2]
    exact Nat.le_trans (lprod_shared_le_left r w hl) (Nat.le_max_left _ _)

theorem msVals_ones : ∀ (n a : Nat), 0 < a → msVals a (List.replicate n 1) = List.replicate n a := by
  intro n
  induction n with
  | zero => intro a _; rfl
  | succ m ih =>
    intro a ha
    have : max (1 * a) 1 = a := by omega
    simp only [List.replicate_succ, msVals, this, ih a ha]

theorem dropLast_replicate' (n a : Nat) : (List.replicate (n + 1) a).dropLast = List.replicate n a := by
  induction n with
  | zero => rfl
  | succ m ih =>
    rw [List.replicate_succ, List.replicate_succ, List.dropLast_cons_cons, ← List.replicate_succ, ih]
    rfl

theorem exactO_inner (a b num : Nat) (ha : 0 < a) : msInner exactO a b num = List.replicate num a := by
  unfold msInner
  have h1 : max (a * 1) 1 = a := by omega
  simp only [exactO, msVals, h1, msVals_ones (num + 1) a ha, List.drop_succ_cons, List.drop_zero]
  exact dropLast_replicate' num a

theorem exactO_multspace (rc wc num : Nat) (hr : 0 < rc) (hw : 0 < wc) :
    multspace exactO rc wc num = .ok (List.replicate num (min rc wc)) := by
  unfold multspace
  rw [if_neg (by omega), if_neg (by omega)]
  by_cases h : rc > wc
  · rw [if_pos h, exactO_inner wc rc num hw, List.reverse_replicate, Nat.min_eq_right (by omega)]
  · rw [if_neg h, exactO_inner rc wc num hr, Nat.min_eq_left (by omega)]

theorem exactO_multspace_ok (rc wc num : Nat) (row : List Nat) (h : multspace exactO rc wc num = .ok row) :
    row = List.replicate num (min rc wc) := by
  by_cases hr : 0 < rc
  · by_cases hw : 0 < wc
    · rw [exactO_multspace rc wc num hr hw] at h; simp only [Except.ok.injEq] at h; exact h.symm
    · unfold multspace at h; rw [if_neg (by omega), if_pos (by omega)] at h; cases h
  · unfold multspace at h; rw [if_pos (by omega)] at h; cases h

theorem exactO_column (num j : Nat) (hj : j < num) :
    ∀ (r w : List Nat) (rows : List (List Nat)), msRows exactO num r w = .ok rows → r.length = w.length →
      column rows j = shared r w := by
  intro r
  induction r with
  | nil =>
    intro w rows h hl
    cases w with
    | nil => simp [msRows] at h; subst h; rfl
    | cons _ _ => simp at hl
  | cons rc rs ih =>
    intro w rows h hl
    cases w with
    | nil => simp at hl
    | cons wc ws =>
      unfold msRows at h
      cases hm : multspace exactO rc wc num with
      | error e => rw [hm] at h; cases h
      | ok row =>
        rw [hm] at h; simp only at h
        cases hrest : msRows exactO num rs ws with
        | error e => rw [hrest] at h; cases h
        | ok rest =>
          rw [hrest] at h
          simp only [Except.ok.injEq] at h; subst h
          have hrow := exactO_multspace_ok rc wc num row hm
          have hget : row[j]? = some (min rc wc) := by
            rw [hrow]; simp [List.getElem?_replicate, hj]
          rw [column_cons row rest j _ hget, ih ws rest hrest (by simpa using hl)]
          simp [shared]

theorem exactO_reg : RegOK exactO where
  len := by intro a b num _ _; simp [exactO]
  head := by
    intro a b num v ha _ h
    have h1 : max (a * 1) 1 = a := by omega
    simp only [exactO, msVals, h1, List.head?_cons, Option.some.injEq] at h
    exact h.symm
  le_stop := by
    intro a b num ha hab v hv
    rw [exactO_inner a b num (by omega)] at hv
    rw [(List.mem_replicate.1 hv).2]; exact hab
  prod := by
    intro r w k st s hst hs hl
    unfold regStageChunks at hst
    cases hrows : msRows exactO (k - 1) r w with
    | error e => rw [hrows] at hst; cases hst
    | ok rows =>
      rw [hrows] at hst; simp only at hst
      unfold transposeRows at hst
      by_cases h1 : rows = []
      · rw [if_pos h1] at hst; simp only [Except.ok.injEq] at hst; subst hst; simp at hs
      · rw [if_neg h1] at hst
        by_cases h2 : rows.all (fun r => r.length == k - 1) = true
        · rw [if_pos h2] at hst
          simp only [Except.ok.injEq] at hst; subst hst
          obtain ⟨i, _, hi, rfl⟩ := colsFrom_mem rows _ _ s hs
          rw [exactO_column (k - 1) i (by omega) r w rows hrows hl]
          exact Nat.le_trans (lprod_shared_le_left r w hl) (Nat.le_max_left _ _)
        · rw [if_neg h2] at hst; cases hst

/-- write chunks aligned with the target chunks store exactly the regular target grid. -/
theorem last_aligned_split : ∀ (shape target write : List Nat),
    All3 (fun n t w => (t ∣ w ∨ w = n) ∧ w ≤ n) shape target write →
    (∀ x ∈ write, 0 < x) → (∀ x ∈ target, 0 < x) →
    All3 (fun n c t => (t ∣ c ∨ c = n) ∧ splitSizes n c t = some (regularSizes n t)) shape write target := by
  intro shape
  induction shape with
  | nil => intro t w h _ _; cases t <;> cases w <;> first | trivial | cases h
  | cons n ns ih =>
    intro t w h hw ht
    cases t with
    | nil => cases h
    | cons a as =>
      cases w with
      | nil => cases h
      | cons b bs =>
        obtain ⟨⟨h1, _⟩, hrest⟩ := h
        have hb := hw b (List.mem_cons_self)
        have ha := ht a (List.mem_cons_self)
        refine ⟨⟨h1, ?_⟩, ih as bs hrest (fun x hx => hw x (List.mem_cons_of_mem _ hx))
          (fun x hx => ht x (List.mem_cons_of_mem _ hx))⟩
        apply splitSizes_aligned n b a hb ha
        rcases h1 with h1 | h1
        · exact Or.inl h1
        · right; omega

/-! ## Part G — outcome of the regular planner -/

theorem msVals_length : ∀ (qs : List Nat) (v : Nat), (msVals v qs).length = qs.length
  | [], _ => rfl
  | q :: qs, v => by simp [msVals, msVals_length qs]

theorem msInner_length (O : Oracles) (hR : RegOK O) (a b num : Nat) (ha : 1 ≤ a) (hab : a ≤ b) :
    (msInner O a b num).length = num := by
  unfold msInner
  simp [List.length_dropLast, List.length_drop, msVals_length, hR.len a b num ha hab]

theorem multspace_ok (O : Oracles) (hR : RegOK O) (rc wc num : Nat) (hr : 0 < rc) (hw : 0 < wc) :
    ∃ row, multspace O rc wc num = .ok row ∧ row.length = num := by
  unfold multspace
  rw [if_neg (by omega), if_neg (by omega)]
  by_cases h : rc > wc
  · rw [if_pos h]
    exact ⟨_, rfl, by rw [List.length_reverse]; exact msInner_length O hR wc rc num (by omega) (by omega)⟩
  · rw [if_neg h]
    exact ⟨_, rfl, msInner_length O hR rc wc num (by omega) (by omega)⟩

theorem msRows_ok (O : Oracles) (hR : RegOK O) (num : Nat) :
    ∀ (r w : List Nat), (∀ x ∈ r, 0 < x) → (∀ x ∈ w, 0 < x) →
      ∃ rows, msRows O num r w = .ok rows ∧ ∀ row ∈ rows, row.length = num := by
  intro r
  induction r with
  | nil => intro w _ _; exact ⟨[], by cases w <;> rfl, by intro row h; simp at h⟩
  | cons rc rs ih =>
    intro w hr hw
    cases w with
    | nil => exact ⟨[], rfl, by intro row h; simp at h⟩
    | cons wc ws =>
      obtain ⟨row, hrow, hlen⟩ := multspace_ok O hR rc wc num (hr rc (List.mem_cons_self)) (hw wc (List.mem_cons_self))
      obtain ⟨rows, hrows, hlens⟩ := ih ws (fun x hx => hr x (List.mem_cons_of_mem _ hx))
        (fun x hx => hw x (List.mem_cons_of_mem _ hx))
      refine ⟨row :: rows, ?_, ?_⟩
      · unfold msRows; rw [hrow]; simp only; rw [hrows]
      · intro x hx
        rcases List.mem_cons.1 hx with rfl | hx
        · exact hlen
        · exact hlens x hx

theorem regStageChunks_ok (O : Oracles) (hR : RegOK O) (r w : List Nat) (k : Nat)
    (hr : ∀ x ∈ r, 0 < x) (hw : ∀ x ∈ w, 0 < x) : ∃ st, regStageChunks O r w k = .ok st := by
  obtain ⟨rows, hrows, hlens⟩ := msRows_ok O hR (k - 1) r w hr hw
  unfold regStageChunks
  rw [hrows]; simp only
  unfold transposeRows
  by_cases h1 : rows = []
  · rw [if_pos h1]; exact ⟨_, rfl⟩
  · rw [if_neg h1]
    have : rows.all (fun r => r.length == k - 1) = true := by
      rw [List.all_eq_true]; intro x hx; simp [hlens x hx]
    rw [if_pos this]; exact ⟨_, rfl⟩

theorem fixCopy_ok : ∀ (shape r t : List Nat), (∀ x ∈ t, 0 < x) → ∃ r', fixCopy shape r t = .ok r' := by
  intro shape
  induction shape with
  | nil => intro r t _; exact ⟨[], by cases r <;> cases t <;> rfl⟩
  | cons n ns ih =>
    intro r t ht
    cases r with
    | nil => exact ⟨[], rfl⟩
    | cons cc cs =>
      cases t with
      | nil => exact ⟨[], rfl⟩
      | cons tc ts =>
        obtain ⟨rest, hrest⟩ := ih cs ts (fun x hx => ht x (List.mem_cons_of_mem _ hx))
        have htc := ht tc (List.mem_cons_self)
        unfold fixCopy
        rw [hrest]; simp only
        by_cases c1 : cc ≤ tc ∨ cc = n
        · rw [if_pos c1]; exact ⟨_, rfl⟩
        · rw [if_neg c1, if_neg (by omega)]
          by_cases c3 : cc % tc = 0
          · rw [if_pos c3]; exact ⟨_, rfl⟩
          · rw [if_neg c3]; exact ⟨_, rfl⟩

theorem firstTarget_pos (stage : List (List Nat)) (write : List Nat)
    (hs : ∀ s ∈ stage, ∀ x ∈ s, 0 < x) (hw : ∀ x ∈ write, 0 < x) : ∀ x ∈ firstTarget stage write, 0 < x := by
  cases stage with
  | nil => exact hw
  | cons s _ => exact hs s (List.mem_cons_self)

theorem regLoop_error (O : Oracles) (hR : RegOK O) (shape write : List Nat) (itemsize minMem maxMem : Nat)
    (hwl : write.length = shape.length) (hwp : ∀ x ∈ write, 0 < x) :
    ∀ fuel sc read prev e, ReadInv shape itemsize maxMem read →
      regLoop O shape write itemsize minMem fuel sc read prev = .error e → e = errMaxStages := by
  intro fuel
  induction fuel with
  | zero => intro sc read prev e _ h; simp [regLoop] at h; exact h.symm
  | succ f ih =>
    intro sc read prev e hinv h
    unfold regLoop at h
    obtain ⟨stage, hst⟩ := regStageChunks_ok O hR read write sc hinv.2.2 hwp
    rw [hst] at h; simp only at h
    have hrp := regStageChunks_rank_pos O hR read write sc stage hst (by rw [hinv.2.1, hwl])
    obtain ⟨read', hfx⟩ := fixCopy_ok shape read (firstTarget stage write)
      (firstTarget_pos stage write (fun s hs => (hrp s hs).2) hwp)
    rw [hfx] at h; simp only at h
    have hinv' := readInv_fix O hR shape write itemsize maxMem hwl read sc stage read' hinv hst hfx
    split at h
    · cases h
    · cases prev with
      | none => exact ih _ _ _ _ hinv' h
      | some p =>
        obtain ⟨pio, pplan⟩ := p
        simp only at h
        split at h
        · cases h
        · exact ih _ _ _ _ hinv' h

/-- The regular planner always terminates with a plan, an explicit `ValueError`, or the explicit
"no feasible scheme within MAX_STAGES" error: `NotImplementedError` of `multspace`, a ragged stage
array, a modulo by zero in `_fix_copy_chunks` and the assertions of `consolidate_chunks` are unreachable. -/
theorem regularPlan_outcome (O : Oracles) (hO : DivOK O) (hR : RegOK O) (shape source target : List Nat)
    (itemsize minMem maxMem : Nat) (hn : ∀ n ∈ shape, 0 < n) (hs : ∀ c ∈ source, 0 < c)
    (ht : ∀ c ∈ target, 0 < c) (hi : 0 < itemsize) (e : String)
    (h : regularPlan O shape source target itemsize minMem maxMem = .error e) :
    e ∈ explicitErrors ∨ e = errMaxStages := by
  unfold regularPlan at h
  cases hp : prepare O shape source target itemsize minMem maxMem with
  | error e' =>
    rw [hp] at h; simp only [Except.error.injEq] at h; subst h
    exact Or.inl (prepare_outcome O hO shape source target itemsize minMem maxMem hn hs ht hi _ hp)
  | ok rw' =>
    obtain ⟨read, write⟩ := rw'
    rw [hp] at h; simp only at h
    have hprep := (prepare_spec O hO _ _ _ _ _ _ _ _ hp).1
    exact Or.inr (regLoop_error O hR shape write itemsize minMem maxMem hprep.writeLen hprep.writePos _ _ _ _ _
      ⟨hprep.readMem, hprep.readLen, hprep.readPos⟩ h)

end Cubed.Rechunk
