/-
  Helper lemmas for C11 (Model/StoreSem.lean).  Core tactics only (omega, simp, induction).

  * sequential runs and array updates: runTasks_ok, applyPairs_of_mem, applyPairs_of_not_mem
  * zarr slice indexer for step one: chunkNItems_step_one_pos, mem_hitBlocks_step_one
  * normal form of an accepted request: validate_single_ok, startOf_good, stopOf_good, good_normal
  * one task under the hypotheses: axisTask_write, axisTask_good;  all tasks of one axis: good_axis, runAxis_good(_values)
  * tasks never overlap: writeSlot_range, axisTask_write_range, axisTask_disjoint
  * identity copy: copyTask_same, runCopy_same(_values);  stored chunks: chunksTouched_range/_disjoint
  * n-D lifting: InProd, mem_cartesian, validate_each, ndTask_good, ndWritten_iff, runRegion_good(_values), declared_eq_blocks
  * after the fixes (ba97b91, d416aac): accept_single/_each/_normal, prepare1_good, storeAxis_correct/_values,
    storeRegion_correct/_values, storeAxis_declared, storeCopy_chunks_private
  * store: pairUp_*, buildJobs_accepted/_rejected, movedTo_retarget, finalMoves_other, jobs_good, storeOutcome_good/_rejected,
    storeWorld_good/_rejected
-/
import CubedModel.Model.StoreSem
namespace Cubed.StoreSem


theorem runTasks_ok {β ι : Type} (task : β → Except TaskErr (List (ι × ι))) (f : β → List (ι × ι))
    (bs : List β) (h : ∀ b ∈ bs, task b = .ok (f b)) :
    runTasks task bs = ⟨bs.flatMap f, none⟩ := by
  induction bs with
  | nil => rfl
  | cons b bs ih =>
    have hb := h b (by simp)
    have ih' := ih (fun b' hb' => h b' (by simp [hb']))
    simp [runTasks, hb, ih']

theorem applyPairs_of_not_mem {ι V : Type} [DecidableEq ι] (src : ι → V) (ps : List (ι × ι)) (t : ι → V) (i : ι)
    (h : ∀ p ∈ ps, p.1 ≠ i) : applyPairs src ps t i = t i := by
  induction ps generalizing t with
  | nil => rfl
  | cons p ps ih =>
    obtain ⟨pi, pj⟩ := p
    have hne : pi ≠ i := h (pi, pj) (by simp)
    have := ih (fun k => if k = pi then src pj else t k) (fun p hp => h p (by simp [hp]))
    simp only [applyPairs, this]
    simp [Ne.symm hne]

theorem applyPairs_of_mem {ι V : Type} [DecidableEq ι] (src : ι → V) (g : ι → ι) (ps : List (ι × ι)) (t : ι → V) (i : ι)
    (hfun : ∀ p ∈ ps, p.2 = g p.1) (h : ∃ p ∈ ps, p.1 = i) : applyPairs src ps t i = src (g i) := by
  induction ps generalizing t with
  | nil => simp at h
  | cons p ps ih =>
    obtain ⟨pi, pj⟩ := p
    simp only [applyPairs]
    by_cases hin : ∃ p ∈ ps, p.1 = i
    · exact ih _ (fun p hp => hfun p (by simp [hp])) hin
    · have hnot : ∀ p ∈ ps, p.1 ≠ i := fun p hp he => hin ⟨p, hp, he⟩
      rw [applyPairs_of_not_mem src ps _ i hnot]
      obtain ⟨p, hp, he⟩ := h
      have : p = (pi, pj) := by
        rcases List.mem_cons.mp hp with h1 | h1
        · exact h1
        · exact absurd he (hnot p h1)
      subst this
      have hj := hfun (pi, pj) (by simp)
      simp at he hj
      simp [he, hj]


theorem ceildiv_one (x : Int) : ceildiv x 1 = x := by
  unfold ceildiv
  by_cases h : x = 0
  · simp [h]
  · simp [h]

theorem chunkNItems_step_one_pos (n cs s e b : Nat) (hcs : 0 < cs) (hse : s < e) (hen : e ≤ n)
    (hlo : s / cs ≤ b) (hhi : b ≤ (e - 1) / cs) : chunkNItems n cs ⟨s, e, 1⟩ b ≠ 0 := by
  have h1 : b * cs ≤ e - 1 := (Nat.le_div_iff_mul_le hcs).mp hhi
  have h2 : s < (b + 1) * cs := by
    have : s / cs < b + 1 := by omega
    exact (Nat.div_lt_iff_lt_mul hcs).mp this
  have h3 : (b + 1) * cs = b * cs + cs := by rw [Nat.add_mul]; simp
  unfold chunkNItems
  dsimp only
  have hone : ((1 : Nat) : Int) = 1 := rfl
  simp only [hone, ceildiv_one, Int.emod_one]
  generalize hoff : b * cs = off at *
  have hcast : ((b : Int) * (cs : Int)) = (off : Int) := by rw [← hoff]; simp
  rw [hcast]
  simp only [ne_eq, not_true_eq_false, ↓reduceIte]
  split <;> split <;> omega

theorem mem_hitBlocks_step_one (n cs s e b : Nat) (hcs : 0 < cs) (hse : s < e) (hen : e ≤ n) :
    b ∈ hitBlocks n cs ⟨s, e, 1⟩ ↔ s / cs ≤ b ∧ b ≤ (e - 1) / cs := by
  unfold hitBlocks
  have : ¬ (e ≤ s) := by omega
  simp only [this, ↓reduceIte, List.mem_filter, List.mem_range'_1]
  have hle : s / cs ≤ (e - 1) / cs := Nat.div_le_div_right (by omega)
  constructor
  · rintro ⟨⟨h1, h2⟩, _⟩
    omega
  · rintro ⟨h1, h2⟩
    refine ⟨⟨h1, by omega⟩, ?_⟩
    have := chunkNItems_step_one_pos n cs s e b hcs hse hen h1 h2
    simpa using this


theorem validate_single_ok (a : Axis) (hv : validate [a] = .ok) :
    misaligned a = false ∧ ∃ nm, normalize a.sl a.n = some nm ∧ a.m = nm.nitems := by
  unfold validate at hv
  simp only [List.any_cons, List.any_nil, Bool.or_false] at hv
  cases hm : misaligned a with
  | true => simp [hm] at hv
  | false =>
    cases hb : badStepAxis a with
    | true => simp [hm, hb] at hv
    | false =>
      cases hs : shapeMismatchAxis a with
      | true => simp [hm, hb, hs] at hv
      | false =>
        refine ⟨rfl, ?_⟩
        unfold badStepAxis at hb
        unfold shapeMismatchAxis at hs
        cases hnm : normalize a.sl a.n with
        | none => simp [hnm] at hb
        | some nm =>
          refine ⟨nm, rfl, ?_⟩
          simpa [hnm] using hs

theorem clip_nonneg (n k : Nat) : clip n (k : Int) = min k n := by
  unfold clip
  have : ¬ ((k : Int) < 0) := by omega
  simp [this]

theorem stepOne_stepOf (a : Axis) (h1 : stepOne a = true) : stepOf a.sl = 1 := by
  have : a.sl.step = none ∨ a.sl.step = some 1 := by simpa [stepOne] using h1
  unfold stepOf
  rcases this with h | h <;> simp [h]


theorem stopOf_good (sl : PSlice) (n cs : Nat)
    (hnn : ∀ e, sl.stop = some e → 0 ≤ e)
    (hal : ∀ e, sl.stop = some e → e % (cs : Int) = 0 ∨ e = (n : Int)) :
    stopOf sl n ≤ n ∧ (stopOf sl n % cs = 0 ∨ stopOf sl n = n) := by
  unfold stopOf
  cases hsp : sl.stop with
  | none => exact ⟨Nat.le_refl _, Or.inr rfl⟩
  | some ev =>
    obtain ⟨k, rfl⟩ := Int.eq_ofNat_of_zero_le (hnn ev hsp)
    simp only [clip_nonneg]
    refine ⟨by omega, ?_⟩
    rcases hal _ hsp with h0 | hk
    · have h0' : k % cs = 0 := by exact_mod_cast h0
      by_cases hkn : k ≤ n
      · left; rw [Nat.min_eq_left hkn]; exact h0'
      · right; omega
    · right; omega

theorem startOf_good (sl : PSlice) (n cs : Nat)
    (hnn : ∀ s, sl.start = some s → 0 ≤ s)
    (hal : ∀ s, sl.start = some s → s % (cs : Int) = 0) :
    startOf sl n ≤ n ∧ (startOf sl n < n → startOf sl n % cs = 0 ∧
      (match sl.start with | none => (0 : Int) | some s => s / (cs : Int)) = ((startOf sl n / cs : Nat) : Int)) := by
  unfold startOf
  cases hst : sl.start with
  | none => simp
  | some sv =>
    obtain ⟨k, rfl⟩ := Int.eq_ofNat_of_zero_le (hnn sv hst)
    simp only [clip_nonneg]
    refine ⟨by omega, fun hlt => ?_⟩
    have hkn : min k n = k := by omega
    rw [hkn]
    have h0 := hal _ hst
    refine ⟨by exact_mod_cast h0, ?_⟩
    exact_mod_cast rfl

/-- Normal form of an accepted request with step one and non-negative bounds. -/
theorem good_normal (a : Axis) (h1 : stepOne a = true) (h2 : nonNegBounds a = true)
    (hv : validate [a] = .ok) :
    normalize a.sl a.n = some ⟨startOf a.sl a.n, stopOf a.sl a.n, 1⟩ ∧
    startOf a.sl a.n ≤ a.n ∧ stopOf a.sl a.n ≤ a.n ∧ a.m = stopOf a.sl a.n - startOf a.sl a.n ∧
      (startOf a.sl a.n < stopOf a.sl a.n →
        (startOf a.sl a.n % a.cs = 0 ∧ blockOffset a = ((startOf a.sl a.n / a.cs : Nat) : Int)) ∧
        (stopOf a.sl a.n % a.cs = 0 ∨ stopOf a.sl a.n = a.n)) := by
  obtain ⟨hmis, nm, hnm, hm⟩ := validate_single_ok a hv
  have hstep := stepOne_stepOf a h1
  have hnorm : normalize a.sl a.n = some ⟨startOf a.sl a.n, stopOf a.sl a.n, 1⟩ := by
    simp [normalize, hstep]
  rw [hnorm] at hnm
  simp only [Option.some.injEq] at hnm
  subst hnm
  refine ⟨hnorm, ?_⟩
  simp only [Norm.nitems] at hm
  simp only [misaligned, Bool.or_eq_false_iff] at hmis
  simp only [nonNegBounds, Bool.and_eq_true] at h2
  obtain ⟨hmis1, hmis2⟩ := hmis
  obtain ⟨hnn1, hnn2⟩ := h2
  have hstop := stopOf_good a.sl a.n a.cs
    (fun e he => by simpa [he] using hnn2)
    (fun e he => by
      rw [he] at hmis2
      by_cases hk : e = (a.n : Int)
      · exact Or.inr hk
      · left; simpa [hk] using hmis2)
  have hstart := startOf_good a.sl a.n a.cs
    (fun s hs => by simpa [hs] using hnn1)
    (fun s hs => by rw [hs] at hmis1; simpa using hmis1)
  refine ⟨hstart.1, hstop.1, by (split at hm <;> omega), fun hlt => ⟨?_, hstop.2⟩⟩
  have := hstart.2 (by omega)
  exact ⟨this.1, by unfold blockOffset; exact this.2⟩


theorem srcBlocks_gt (a : Axis) (x : Nat) (hsc : 0 < a.sc) (h : x * a.sc < a.m) : x < srcBlocks a := by
  unfold srcBlocks
  have hm : a.m ≠ 0 := by omega
  simp only [hm, ↓reduceIte]
  have : x + 1 ≤ (a.m + a.sc - 1) / a.sc := by
    apply (Nat.le_div_iff_mul_le hsc).mpr
    rw [Nat.add_mul]; omega
  omega

theorem axisTask_write (a : Axis) (bi lo hi : Nat)
    (hsrc : srcInterval a (srcBlockOf a bi) = some (lo, hi))
    (hl : min (hi - lo) (min ((bi + 1) * a.cs) a.n - bi * a.cs) = min ((bi + 1) * a.cs) a.n - bi * a.cs) :
    axisTask a bi = .write ((List.range (min ((bi + 1) * a.cs) a.n - bi * a.cs)).map
      (fun j => (bi * a.cs + j, lo + j))) := by
  unfold axisTask writeSlot
  simp only [hsrc, tgtInterval, hl, ↓reduceIte]

theorem axisTask_good (a : Axis) (s e q bi : Nat)
    (hcs : 0 < a.cs) (hsc : 0 < a.sc)
    (hoff : blockOffset a = (q : Int)) (hs : s = q * a.cs) (hse : s < e) (hen : e ≤ a.n) (hm : a.m = e - s)
    (hal : e % a.cs = 0 ∨ e = a.n) (hag : a.sc = a.cs ∨ (a.m ≤ a.sc ∧ a.m ≤ a.cs))
    (hq : q ≤ bi) (hb : bi * a.cs < e) :
    axisTask a bi = .write ((List.range (min ((bi + 1) * a.cs) a.n - bi * a.cs)).map
      (fun j => (bi * a.cs + j, bi * a.cs - s + j))) := by
  have hsb : srcBlockOf a bi = ((bi - q : Nat) : Int) := by
    unfold srcBlockOf; rw [hoff]; omega
  have hqb : q * a.cs ≤ bi * a.cs := Nat.mul_le_mul_right _ hq
  have hsub : (bi - q) * a.cs = bi * a.cs - q * a.cs := Nat.sub_mul _ _ _
  have hb1 : (bi + 1) * a.cs = bi * a.cs + a.cs := by rw [Nat.add_mul]; simp
  have hfull : e % a.cs = 0 → (bi + 1) * a.cs ≤ e := by
    intro h0
    have he : e = (e / a.cs) * a.cs := by
      have := Nat.div_add_mod e a.cs
      rw [h0, Nat.mul_comm] at this; omega
    have hlt : bi < e / a.cs := by
      apply Nat.lt_of_mul_lt_mul_right (a := a.cs)
      omega
    have : (bi + 1) * a.cs ≤ (e / a.cs) * a.cs := Nat.mul_le_mul_right _ hlt
    omega
  have hnn : ¬ (((bi - q : Nat) : Int) < 0) := by omega
  rcases hag with hag | ⟨hag1, hag2⟩
  · -- same chunk size
    have hlt : (bi - q) < srcBlocks a := by
      apply srcBlocks_gt a _ hsc
      rw [hag, hsub]; omega
    have hsub1 : (bi - q + 1) * a.sc = bi * a.cs - q * a.cs + a.cs := by
      rw [Nat.add_mul, hag, hsub]; simp
    have hsrc : srcInterval a (srcBlockOf a bi) = some (bi * a.cs - s, min (bi * a.cs - s + a.cs) a.m) := by
      rw [hsb]
      simp only [srcInterval, hnn, ↓reduceIte, Int.toNat_natCast, hlt, hsub1]
      rw [hag, hsub, hs]
    rw [axisTask_write a bi _ _ hsrc]
    rcases hal with h0 | hn
    · have := hfull h0; omega
    · omega
  · -- single source block inside one target chunk
    have hbq : bi = q := by
      have : bi < q + 1 := by
        apply Nat.lt_of_mul_lt_mul_right (a := a.cs)
        rw [Nat.add_mul]; omega
      omega
    subst hbq
    have hlt : 0 < srcBlocks a := by
      apply srcBlocks_gt a 0 hsc; omega
    have hsrc : srcInterval a (srcBlockOf a bi) = some (bi * a.cs - s, a.m) := by
      rw [hsb]
      have hhi : min a.sc a.m = a.m := by omega
      have h0 : bi * a.cs - s = 0 := by omega
      simp [srcInterval, hlt, hhi, h0]
    rw [axisTask_write a bi _ _ hsrc]
    rcases hal with h0 | hn
    · have := hfull h0; omega
    · omega

/-- the pairs one good task writes -/
def goodPairs (a : Axis) (bi : Nat) : List (Nat × Nat) :=
  (List.range (min ((bi + 1) * a.cs) a.n - bi * a.cs)).map
    (fun j => (bi * a.cs + j, bi * a.cs - startOf a.sl a.n + j))

theorem aligned_full (cs e bi : Nat) (hb : bi * cs < e) (h0 : e % cs = 0) : (bi + 1) * cs ≤ e := by
  have he : e = (e / cs) * cs := by
    have := Nat.div_add_mod e cs
    rw [h0, Nat.mul_comm] at this; omega
  have hlt : bi < e / cs := by
    apply Nat.lt_of_mul_lt_mul_right (a := cs)
    omega
  have : (bi + 1) * cs ≤ (e / cs) * cs := Nat.mul_le_mul_right _ hlt
  omega

/-- The hypotheses of the partial theorems, bundled. -/
structure Good (a : Axis) : Prop where
  cs_pos : 0 < a.cs
  sc_pos : 0 < a.sc
  step : stepOne a = true
  nonneg : nonNegBounds a = true
  chunks : chunksAgree a = true
  valid : validate [a] = .ok

/-- One good axis: every output block's task writes `goodPairs`, and together they write exactly the
region, each target index `i` from source index `i - start`. -/
theorem good_axis (a : Axis) (g : Good a) :
    (∀ bi ∈ axisBlocks a, axisTask a bi = .write (goodPairs a bi)) ∧
    ∀ i j, (∃ bi ∈ axisBlocks a, (i, j) ∈ goodPairs a bi) ↔
      (startOf a.sl a.n ≤ i ∧ i < stopOf a.sl a.n ∧ j = i - startOf a.sl a.n) := by
  obtain ⟨hcs, hsc, h1, h2, h3, hv⟩ := g
  obtain ⟨hnorm, hsn, hen, hm, hrest⟩ := good_normal a h1 h2 hv
  unfold goodPairs
  generalize hs : startOf a.sl a.n = s at *
  generalize he : stopOf a.sl a.n = e at *
  have hag : a.sc = a.cs ∨ (a.m ≤ a.sc ∧ a.m ≤ a.cs) := by
    simpa [chunksAgree] using h3
  have hblocks : axisBlocks a = hitBlocks a.n a.cs ⟨s, e, 1⟩ := by
    simp [axisBlocks, hnorm]
  by_cases hse : s < e
  · obtain ⟨⟨hs0, hoff⟩, hal⟩ := hrest hse
    have hsq : s = (s / a.cs) * a.cs := by
      have := Nat.div_add_mod s a.cs
      rw [hs0, Nat.mul_comm] at this; omega
    have hmem := fun b => mem_hitBlocks_step_one a.n a.cs s e b hcs hse hen
    refine ⟨?_, fun i j => ?_⟩
    · intro bi hbi
      rw [hblocks] at hbi
      obtain ⟨hlo, hhi⟩ := (hmem bi).mp hbi
      have hbe : bi * a.cs < e := by
        have := (Nat.le_div_iff_mul_le hcs).mp hhi
        omega
      exact axisTask_good a s e (s / a.cs) bi hcs hsc hoff hsq hse hen hm hal hag hlo hbe
    rw [hblocks]
    constructor
    · rintro ⟨bi, hbi, hij⟩
      obtain ⟨hlo, hhi⟩ := (hmem bi).mp hbi
      have hbe : bi * a.cs ≤ e - 1 := (Nat.le_div_iff_mul_le hcs).mp hhi
      have hqb : (s / a.cs) * a.cs ≤ bi * a.cs := Nat.mul_le_mul_right _ hlo
      simp only [List.mem_map, List.mem_range, Prod.mk.injEq] at hij
      obtain ⟨k, hk, rfl, rfl⟩ := hij
      have hb1 : (bi + 1) * a.cs = bi * a.cs + a.cs := by rw [Nat.add_mul]; simp
      rcases hal with h0 | hn
      · have := aligned_full a.cs e bi (by omega) h0; omega
      · omega
    · rintro ⟨hsi, hie, rfl⟩
      refine ⟨i / a.cs, ?_, ?_⟩
      · apply (hmem _).mpr
        exact ⟨Nat.div_le_div_right hsi, Nat.div_le_div_right (by omega)⟩
      · simp only [List.mem_map, List.mem_range, Prod.mk.injEq]
        have h1 : i / a.cs * a.cs ≤ i := Nat.div_mul_le_self i a.cs
        have h2 : i < (i / a.cs + 1) * a.cs := by
          have := Nat.div_add_mod i a.cs
          have := Nat.mod_lt i hcs
          rw [Nat.add_mul, Nat.mul_comm]; omega
        have hqb : (s / a.cs) * a.cs ≤ (i / a.cs) * a.cs := Nat.mul_le_mul_right _ (Nat.div_le_div_right hsi)
        refine ⟨i - i / a.cs * a.cs, by omega, by omega, by omega⟩
  · have : hitBlocks a.n a.cs ⟨s, e, 1⟩ = [] := by
      unfold hitBlocks; simp; omega
    rw [hblocks, this]
    refine ⟨by simp, fun i j => ?_⟩
    simp
    omega

theorem runAxis_good (a : Axis) (g : Good a) :
    (runAxis a).err = none ∧
    ∀ i j, (i, j) ∈ (runAxis a).written ↔
      (startOf a.sl a.n ≤ i ∧ i < stopOf a.sl a.n ∧ j = i - startOf a.sl a.n) := by
  obtain ⟨htask, hchar⟩ := good_axis a g
  have htask' : ∀ bi ∈ axisBlocks a, axisRunTask a bi = .ok (goodPairs a bi) := by
    intro bi hbi
    simp only [axisRunTask, htask bi hbi, AxisTask.toExcept]
  have hrun := runTasks_ok _ _ _ htask'
  unfold runAxis
  rw [hrun]
  refine ⟨rfl, fun i j => ?_⟩
  simp only [List.mem_flatMap]
  exact hchar i j

/-- Values after the run: Python's `target[start:stop] = source`. -/
theorem runAxis_good_values (a : Axis) (g : Good a) {V : Type} (src tgt : Nat → V) (i : Nat) :
    applyPairs src (runAxis a).written tgt i =
      expectedAxis ⟨startOf a.sl a.n, stopOf a.sl a.n, 1⟩ src tgt i := by
  obtain ⟨_, hchar⟩ := runAxis_good a g
  unfold expectedAxis
  simp only [Nat.mod_one, Nat.div_one, and_true]
  by_cases hin : startOf a.sl a.n ≤ i ∧ i < stopOf a.sl a.n
  · simp only [hin, and_self, ↓reduceIte]
    apply applyPairs_of_mem src (fun i => i - startOf a.sl a.n)
    · intro p hp
      exact ((hchar p.1 p.2).mp hp).2.2
    · exact ⟨(i, i - startOf a.sl a.n), (hchar _ _).mpr ⟨hin.1, hin.2, rfl⟩, rfl⟩
  · simp only [hin, ↓reduceIte]
    apply applyPairs_of_not_mem
    intro p hp heq
    have := (hchar p.1 p.2).mp hp
    rw [heq] at this
    exact hin ⟨this.1, this.2.1⟩

/-! ### every task writes inside its own target chunk: tasks of different blocks never touch the same element -/

theorem writeSlot_range (tlo w lo len : Nat) (ps : List (Nat × Nat)) (h : writeSlot tlo w lo len = .write ps) :
    ∀ p ∈ ps, tlo ≤ p.1 ∧ p.1 < tlo + w := by
  unfold writeSlot at h
  by_cases hc1 : min len w = w
  · rw [if_pos hc1] at h
    simp only [AxisTask.write.injEq] at h
    subst h
    intro p hp
    simp only [List.mem_map, List.mem_range] at hp
    obtain ⟨j, hj, rfl⟩ := hp
    simp only
    omega
  · rw [if_neg hc1] at h
    by_cases hc2 : min len w = 1
    · rw [if_pos hc2] at h
      simp only [AxisTask.write.injEq] at h
      subst h
      intro p hp
      simp only [List.mem_map, List.mem_range] at hp
      obtain ⟨j, hj, rfl⟩ := hp
      simp only
      omega
    · rw [if_neg hc2] at h
      simp at h

theorem axisTask_write_range (a : Axis) (bi : Nat) (ps : List (Nat × Nat)) (h : axisTask a bi = .write ps) :
    ∀ p ∈ ps, bi * a.cs ≤ p.1 ∧ p.1 < (bi + 1) * a.cs := by
  have hb1 : (bi + 1) * a.cs = bi * a.cs + a.cs := by rw [Nat.add_mul]; simp
  unfold axisTask at h
  split at h
  · simp at h
  · intro p hp
    have := writeSlot_range _ _ _ _ ps h p hp
    simp only [tgtInterval] at this
    omega

theorem axisTask_disjoint (a : Axis) (b1 b2 : Nat) (ps1 ps2 : List (Nat × Nat))
    (h1 : axisTask a b1 = .write ps1) (h2 : axisTask a b2 = .write ps2) (hne : b1 ≠ b2) :
    ∀ p1 ∈ ps1, ∀ p2 ∈ ps2, p1.1 ≠ p2.1 := by
  intro p1 hp1 p2 hp2 heq
  have r1 := axisTask_write_range a b1 ps1 h1 p1 hp1
  have r2 := axisTask_write_range a b2 ps2 h2 p2 hp2
  rcases Nat.lt_or_gt_of_ne hne with hlt | hlt
  · have : (b1 + 1) * a.cs ≤ b2 * a.cs := Nat.mul_le_mul_right _ hlt
    omega
  · have : (b2 + 1) * a.cs ≤ b1 * a.cs := Nat.mul_le_mul_right _ hlt
    omega

/-! ### the no-region identity copy -/

theorem copyTask_same (m sc b : Nat) (hb : b < copyBlocks m sc) :
    copyTask m sc m b = .write ((List.range (min ((b + 1) * sc) m - b * sc)).map (fun j => (b * sc + j, b * sc + j))) := by
  unfold copyTask writeSlot
  simp only [hb, ↓reduceIte, Nat.min_self]

theorem runCopy_same (m sc : Nat) (hsc : 0 < sc) :
    (runCopy m sc m).err = none ∧ ∀ i j, (i, j) ∈ (runCopy m sc m).written ↔ (i < m ∧ j = i) := by
  have htask : ∀ b ∈ List.range (copyBlocks m sc), (fun b => (copyTask m sc m b).toExcept) b
      = .ok ((fun b => (List.range (min ((b + 1) * sc) m - b * sc)).map (fun j => (b * sc + j, b * sc + j))) b) := by
    intro b hb
    simp only [List.mem_range] at hb
    simp only [copyTask_same m sc b hb, AxisTask.toExcept]
  have hrun := runTasks_ok _ _ _ htask
  unfold runCopy
  rw [hrun]
  refine ⟨rfl, fun i j => ?_⟩
  simp only [List.mem_flatMap, List.mem_range, List.mem_map, Prod.mk.injEq]
  constructor
  · rintro ⟨b, _, k, hk, rfl, rfl⟩
    omega
  · rintro ⟨him, hj⟩
    rw [hj]
    have h1 : i / sc * sc ≤ i := Nat.div_mul_le_self i sc
    have h2 : i < (i / sc + 1) * sc := by
      have := Nat.div_add_mod i sc
      have := Nat.mod_lt i hsc
      rw [Nat.add_mul, Nat.mul_comm]; omega
    refine ⟨i / sc, ?_, i - i / sc * sc, by omega, by omega, by omega⟩
    unfold copyBlocks
    have hm : m ≠ 0 := by omega
    simp only [hm, ↓reduceIte]
    have : i / sc + 1 ≤ (m + sc - 1) / sc := by
      apply (Nat.le_div_iff_mul_le hsc).mpr
      rw [Nat.add_mul]; omega
    omega

theorem runCopy_same_values {V : Type} (m sc : Nat) (hsc : 0 < sc) (src tgt : Nat → V) (i : Nat) :
    applyPairs src (runCopy m sc m).written tgt i = if i < m then src i else tgt i := by
  obtain ⟨_, hchar⟩ := runCopy_same m sc hsc
  by_cases hin : i < m
  · simp only [hin, ↓reduceIte]
    apply applyPairs_of_mem src (fun i => i)
    · intro p hp
      exact ((hchar p.1 p.2).mp hp).2
    · exact ⟨(i, i), (hchar i i).mpr ⟨hin, rfl⟩, rfl⟩
  · simp only [hin, ↓reduceIte]
    apply applyPairs_of_not_mem
    intro p hp heq
    have := (hchar p.1 p.2).mp hp
    rw [heq] at this
    exact hin this.1

/-! ### stored chunks touched by copy tasks -/

theorem chunksTouched_range (m sc tc r b c : Nat) (htc : 0 < tc) (hr : sc = r * tc)
    (hc : c ∈ chunksTouched m sc tc b) : b * r ≤ c ∧ c < (b + 1) * r := by
  unfold chunksTouched at hc
  simp only at hc
  split at hc
  · simp at hc
  · rename_i hlt
    simp only [List.mem_range'_1] at hc
    have hlo : b * sc / tc = b * r := by
      rw [hr, ← Nat.mul_assoc]
      exact Nat.mul_div_cancel _ htc
    have hhi : (min ((b + 1) * sc) m - 1) / tc < (b + 1) * r := by
      apply (Nat.div_lt_iff_lt_mul htc).mpr
      have : (b + 1) * sc = (b + 1) * r * tc := by rw [hr, Nat.mul_assoc]
      omega
    omega

theorem chunksTouched_disjoint (m sc tc r b1 b2 : Nat) (htc : 0 < tc) (hr : sc = r * tc) (hne : b1 ≠ b2) :
    ∀ c ∈ chunksTouched m sc tc b1, c ∉ chunksTouched m sc tc b2 := by
  intro c h1 h2
  have r1 := chunksTouched_range m sc tc r b1 c htc hr h1
  have r2 := chunksTouched_range m sc tc r b2 c htc hr h2
  rcases Nat.lt_or_gt_of_ne hne with hlt | hlt
  · have : (b1 + 1) * r ≤ b2 * r := Nat.mul_le_mul_right _ hlt
    omega
  · have : (b2 + 1) * r ≤ b1 * r := Nat.mul_le_mul_right _ hlt
    omega

/-! ### n-D lifting: products of per-axis blocks and per-axis pairs -/

/-- membership in a cartesian product, componentwise -/
def InProd {α : Type} : List α → List (List α) → Prop
  | [], [] => True
  | x :: xs, l :: ls => x ∈ l ∧ InProd xs ls
  | _, _ => False

theorem mem_cartesian {α : Type} (ls : List (List α)) (xs : List α) : xs ∈ cartesian ls ↔ InProd xs ls := by
  induction ls generalizing xs with
  | nil => cases xs <;> simp [cartesian, InProd]
  | cons l ls ih =>
    cases xs with
    | nil => simp [cartesian, InProd]
    | cons x xs =>
      simp only [cartesian, InProd, List.mem_flatMap, List.mem_map, List.cons.injEq]
      constructor
      · rintro ⟨y, hy, zs, hzs, rfl, rfl⟩
        exact ⟨hy, (ih _).mp hzs⟩
      · rintro ⟨hx, hxs⟩
        exact ⟨x, hx, xs, (ih _).mpr hxs, rfl, rfl⟩

theorem validate_each (axes : List Axis) (hv : validate axes = .ok) : ∀ a ∈ axes, validate [a] = .ok := by
  intro a ha
  unfold validate at hv
  cases h1 : axes.any misaligned with
  | true => simp [h1] at hv
  | false =>
    cases h2 : axes.any badStepAxis with
    | true => simp [h1, h2] at hv
    | false =>
      cases h3 : axes.any shapeMismatchAxis with
      | true => simp [h1, h2, h3] at hv
      | false =>
        have e1 : misaligned a = false := by
          cases h : misaligned a with
          | false => rfl
          | true => rw [List.any_eq_true.mpr ⟨a, ha, h⟩] at h1; cases h1
        have e2 : badStepAxis a = false := by
          cases h : badStepAxis a with
          | false => rfl
          | true => rw [List.any_eq_true.mpr ⟨a, ha, h⟩] at h2; cases h2
        have e3 : shapeMismatchAxis a = false := by
          cases h : shapeMismatchAxis a with
          | false => rfl
          | true => rw [List.any_eq_true.mpr ⟨a, ha, h⟩] at h3; cases h3
        simp [validate, e1, e2, e3]

/-- pairs of the n-D task for block coordinates `bis` when every axis is good -/
def ndGood (axes : List Axis) (bis : List Nat) : List (List Nat × List Nat) :=
  (cartesian ((axes.zip bis).map (fun p => goodPairs p.1 p.2))).map (fun ps => (ps.map (·.1), ps.map (·.2)))

theorem zip_good (axes : List Axis) (bis : List Nat) (hg : ∀ a ∈ axes, Good a)
    (hb : InProd bis (axes.map axisBlocks)) :
    ∀ p ∈ axes.zip bis, axisTask p.1 p.2 = .write (goodPairs p.1 p.2) := by
  induction axes generalizing bis with
  | nil => simp
  | cons a as ih =>
    cases bis with
    | nil => simp
    | cons b bs =>
      simp only [List.map_cons, InProd] at hb
      intro p hp
      simp only [List.zip_cons_cons, List.mem_cons] at hp
      rcases hp with rfl | hp
      · exact (good_axis a (hg a (by simp))).1 b hb.1
      · exact ih bs (fun a' ha' => hg a' (by simp [ha'])) hb.2 p hp

theorem ndTask_good (axes : List Axis) (bis : List Nat) (hg : ∀ a ∈ axes, Good a)
    (hb : InProd bis (axes.map axisBlocks)) : ndTask axes bis = .ok (ndGood axes bis) := by
  have hz := zip_good axes bis hg hb
  have hts : (axes.zip bis).map (fun p => axisTask p.1 p.2)
      = (axes.zip bis).map (fun p => AxisTask.write (goodPairs p.1 p.2)) :=
    List.map_congr_left hz
  unfold ndTask ndGood
  simp only [hts, List.any_map, List.map_map]
  have h1 : ((axes.zip bis).any ((fun x => x == AxisTask.indexError) ∘ fun p => AxisTask.write (goodPairs p.1 p.2))) = false := by
    apply List.any_eq_false.mpr
    intro p _
    simp
  have h2 : ((axes.zip bis).any ((fun x => x == AxisTask.broadcastError) ∘ fun p => AxisTask.write (goodPairs p.1 p.2))) = false := by
    apply List.any_eq_false.mpr
    intro p _
    simp
  simp only [h1, h2, Bool.false_eq_true, ↓reduceIte]
  rfl

/-- what the good n-D tasks write, as a relation -/
def NdWritten (axes : List Axis) (is js : List Nat) : Prop :=
  ∃ bis, InProd bis (axes.map axisBlocks) ∧
    ∃ ps, InProd ps ((axes.zip bis).map (fun p => goodPairs p.1 p.2)) ∧ is = ps.map (·.1) ∧ js = ps.map (·.2)

theorem ndWritten_iff (axes : List Axis) (hg : ∀ a ∈ axes, Good a) (is js : List Nat) :
    NdWritten axes is js ↔ InRegion axes is js := by
  induction axes generalizing is js with
  | nil =>
    unfold NdWritten
    constructor
    · rintro ⟨bis, hb, ps, hp, rfl, rfl⟩
      cases bis with
      | nil =>
        cases ps with
        | nil => simp [InRegion]
        | cons p ps => simp [InProd] at hp
      | cons b bs => simp [InProd] at hb
    · intro h
      cases is with
      | nil =>
        cases js with
        | nil => exact ⟨[], by simp [InProd], [], by simp [InProd], rfl, rfl⟩
        | cons j js => simp [InRegion] at h
      | cons i is => cases js <;> simp [InRegion] at h
  | cons a as ih =>
    have hga := hg a (by simp)
    have hgas : ∀ a' ∈ as, Good a' := fun a' ha' => hg a' (by simp [ha'])
    have hax := (good_axis a hga).2
    constructor
    · rintro ⟨bis, hb, ps, hp, rfl, rfl⟩
      cases bis with
      | nil => simp [InProd] at hb
      | cons b bs =>
        simp only [List.map_cons, InProd] at hb
        cases ps with
        | nil => simp [InProd] at hp
        | cons p ps =>
          simp only [List.zip_cons_cons, List.map_cons, InProd] at hp
          simp only [List.map_cons, InRegion]
          refine ⟨(hax p.1 p.2).mp ⟨b, hb.1, hp.1⟩, ?_⟩
          exact (ih hgas _ _).mp ⟨bs, hb.2, ps, hp.2, rfl, rfl⟩
    · intro h
      cases is with
      | nil => cases js <;> simp [InRegion] at h
      | cons i is =>
        cases js with
        | nil => simp [InRegion] at h
        | cons j js =>
          simp only [InRegion] at h
          obtain ⟨b, hb, hij⟩ := (hax i j).mpr h.1
          obtain ⟨bs, hbs, ps, hps, his, hjs⟩ := (ih hgas is js).mpr h.2
          refine ⟨b :: bs, by simp [InProd, hb, hbs], (i, j) :: ps, ?_, by simp [his], by simp [hjs]⟩
          simp only [List.zip_cons_cons, List.map_cons, InProd]
          exact ⟨hij, hps⟩

/-- n-D main lemma: an accepted request whose axes all satisfy the extra hypotheses runs without
error and writes exactly the product region, element `is` from source element `is - start`. -/
theorem runRegion_good (axes : List Axis) (hg : ∀ a ∈ axes, Good a) :
    (runRegion axes).err = none ∧
    ∀ is js, (is, js) ∈ (runRegion axes).written ↔ InRegion axes is js := by
  have htask : ∀ bis ∈ outputBlocks axes, ndTask axes bis = .ok (ndGood axes bis) := by
    intro bis hb
    exact ndTask_good axes bis hg ((mem_cartesian _ _).mp hb)
  have hrun := runTasks_ok _ _ _ htask
  unfold runRegion
  rw [hrun]
  refine ⟨rfl, fun is js => ?_⟩
  rw [← ndWritten_iff axes hg]
  simp only [List.mem_flatMap, ndGood, List.mem_map, Prod.mk.injEq, NdWritten, outputBlocks]
  constructor
  · rintro ⟨bis, hb, ps, hp, rfl, rfl⟩
    exact ⟨bis, (mem_cartesian _ _).mp hb, ps, (mem_cartesian _ _).mp hp, rfl, rfl⟩
  · rintro ⟨bis, hb, ps, hp, rfl, rfl⟩
    exact ⟨bis, (mem_cartesian _ _).mpr hb, ps, (mem_cartesian _ _).mpr hp, rfl, rfl⟩

/-! ### `store`: pairing -/

theorem pairUp_len_mismatch {S T R : Type} (s : List S) (t : List T) (r : RegionsArg R)
    (h : s.length ≠ t.length) : pairUp s t r = .error .lenTargets := by
  simp [pairUp, h]

theorem pairUp_regions_mismatch {S T R : Type} (s : List S) (t : List T) (rs : List R)
    (h : s.length = t.length) (h' : s.length ≠ rs.length) : pairUp s t (.many rs) = .error .lenRegions := by
  simp only [pairUp, h, ne_eq, not_true_eq_false, ↓reduceIte]
  have : ¬ t.length = rs.length := fun e => h' (h.trans e)
  simp [this]

theorem pairUp_ok {S T R : Type} (s : List S) (t : List T) (r : RegionsArg R) (ps : List (S × T × Option R))
    (h : pairUp s t r = .ok ps) :
    ps.map (·.1) = s ∧ ps.map (·.2.1) = t ∧
    (match r with
     | .none => ps.map (·.2.2) = s.map (fun _ => none)
     | .one x => ps.map (·.2.2) = s.map (fun _ => some x)
     | .many rs => ps.map (·.2.2) = rs.map some) := by
  unfold pairUp at h
  by_cases hl : s.length = t.length
  · simp only [hl, ne_eq, not_true_eq_false, ↓reduceIte] at h
    cases r with
    | none =>
      simp only [Except.ok.injEq] at h
      subst h
      simp only [List.map_map]
      refine ⟨?_, ?_, ?_⟩
      · exact List.map_fst_zip (Nat.le_of_eq hl)
      · exact List.map_snd_zip (Nat.le_of_eq hl.symm)
      · have : s.map (fun _ => (none : Option R)) = ((s.zip t).map (·.1)).map (fun _ => none) := by
          rw [List.map_fst_zip (Nat.le_of_eq hl)]
        rw [this, List.map_map]; rfl
    | one x =>
      simp only [Except.ok.injEq] at h
      subst h
      simp only [List.map_map]
      refine ⟨?_, ?_, ?_⟩
      · exact List.map_fst_zip (Nat.le_of_eq hl)
      · exact List.map_snd_zip (Nat.le_of_eq hl.symm)
      · have : s.map (fun _ => some x) = ((s.zip t).map (·.1)).map (fun _ => some x) := by
          rw [List.map_fst_zip (Nat.le_of_eq hl)]
        rw [this, List.map_map]; rfl
    | many rs =>
      by_cases hr : t.length = rs.length
      · simp only [hr, not_true_eq_false, ↓reduceIte, Except.ok.injEq] at h
        subst h
        simp only [List.map_map]
        have hz : (t.zip rs).length = t.length := by simp [List.length_zip, hr]
        refine ⟨?_, ?_, ?_⟩
        · exact List.map_fst_zip (by omega)
        · have : (s.zip (t.zip rs)).map ((fun x => x.2.1) ∘ fun p => (p.1, p.2.1, some p.2.2))
              = ((s.zip (t.zip rs)).map (·.2)).map (·.1) := by rw [List.map_map]; rfl
          rw [this, List.map_snd_zip (by omega), List.map_fst_zip (Nat.le_of_eq hr)]
        · have : (s.zip (t.zip rs)).map ((fun x => x.2.2) ∘ fun p => (p.1, p.2.1, some p.2.2))
              = (((s.zip (t.zip rs)).map (·.2)).map (·.2)).map some := by
            rw [List.map_map, List.map_map]; rfl
          rw [this, List.map_snd_zip (by omega), List.map_snd_zip (Nat.le_of_eq hr.symm)]
      · simp [hr] at h
  · simp [hl] at h

/-! ### `store`: the build loop and the outcome -/

def finalMoves (A : Arrays) : List Pair → Moves → Moves
  | [], mv => mv
  | p :: ps, mv => if isMoveAt A mv p then finalMoves A ps (retarget mv p.src p.tgt) else finalMoves A ps mv

def jobsOf (A : Arrays) : List Pair → Moves → List Job
  | [], _ => []
  | p :: ps, mv =>
    if isMoveAt A mv p then .moved p.src p.tgt :: jobsOf A ps (retarget mv p.src p.tgt)
    else .copy p.src (if A.lazy p.src then movedTo mv p.src else none) p.tgt :: jobsOf A ps mv

theorem buildJobs_accepted (A : Arrays) (pairs : List Pair) (mv : Moves) (k : Nat)
    (h : ∀ p ∈ pairs, p.accepted = true) :
    buildJobs A pairs mv k = .ok (jobsOf A pairs mv, finalMoves A pairs mv) := by
  induction pairs generalizing mv k with
  | nil => rfl
  | cons p ps ih =>
    have hp := h p (by simp)
    have hps : ∀ q ∈ ps, q.accepted = true := fun q hq => h q (by simp [hq])
    unfold buildJobs
    simp only [hp, Bool.not_true, Bool.false_eq_true, ↓reduceIte]
    cases hm : isMoveAt A mv p with
    | true => simp only [↓reduceIte, ih _ _ hps, jobsOf, finalMoves, hm]
    | false => simp only [Bool.false_eq_true, ↓reduceIte, ih _ _ hps, jobsOf, finalMoves, hm]

theorem buildJobs_rejected (A : Arrays) (pairs : List Pair) (mv : Moves) (k : Nat)
    (h : ∃ p ∈ pairs, p.accepted = false) : ∃ e, buildJobs A pairs mv k = .error e := by
  induction pairs generalizing mv k with
  | nil => simp at h
  | cons p ps ih =>
    unfold buildJobs
    by_cases hp : p.accepted = true
    · have hps : ∃ q ∈ ps, q.accepted = false := by
        obtain ⟨q, hq, hqa⟩ := h
        rcases List.mem_cons.mp hq with rfl | hq'
        · simp [hp] at hqa
        · exact ⟨q, hq', hqa⟩
      simp only [hp, Bool.not_true, Bool.false_eq_true, ↓reduceIte]
      split
      · obtain ⟨e, he⟩ := ih (retarget mv p.src p.tgt) (k + 1) hps
        exact ⟨e, by simp [he]⟩
      · obtain ⟨e, he⟩ := ih mv (k + 1) hps
        exact ⟨e, by simp [he]⟩
    · exact ⟨k, by simp [hp]⟩

theorem find_filter_ne (mv : Moves) (a b : Nat) (h : b ≠ a) :
    (mv.filter (fun p => p.1 != a)).find? (fun p => p.1 == b) = mv.find? (fun p => p.1 == b) := by
  induction mv with
  | nil => rfl
  | cons q qs ih =>
    by_cases hq : q.1 = a
    · have h1 : (q.1 != a) = false := by simp [hq]
      have h2 : (q.1 == b) = false := by simp [hq]; exact fun e => h e.symm
      rw [List.filter_cons, h1, List.find?_cons, h2]
      simpa using ih
    · have h1 : (q.1 != a) = true := by simp [hq]
      rw [List.filter_cons, h1]
      simp only [↓reduceIte, List.find?_cons]
      cases hb : q.1 == b with
      | true => rfl
      | false => simpa using ih

theorem movedTo_retarget (mv : Moves) (a t b : Nat) :
    movedTo (retarget mv a t) b = if b = a then some t else movedTo mv b := by
  unfold movedTo retarget
  by_cases h : b = a
  · subst h; simp
  · have h' : (a == b) = false := by simp; exact fun e => h e.symm
    simp only [List.find?_cons, h', h, ↓reduceIte]
    rw [find_filter_ne mv a b h]

theorem finalMoves_other (A : Arrays) (pairs : List Pair) (mv : Moves) (a : Nat)
    (h : ∀ p ∈ pairs, p.src ≠ a) :
    movedTo (finalMoves A pairs mv) a = movedTo mv a := by
  induction pairs generalizing mv with
  | nil => rfl
  | cons p ps ih =>
    have hps : ∀ q ∈ ps, q.src ≠ a := fun q hq => h q (by simp [hq])
    unfold finalMoves
    cases hm : isMoveAt A mv p with
    | true =>
      simp only [↓reduceIte, ih _ hps, movedTo_retarget]
      have := h p (by simp)
      simp [Ne.symm this]
    | false => simp only [Bool.false_eq_true, ↓reduceIte, ih _ hps]

theorem depsIntact_of (A : Arrays) (final : Moves) (a : Nat)
    (h : ∀ d ∈ A.deps a, movedTo final d = none) : depsIntact A final a = true := by
  unfold depsIntact
  apply List.all_eq_true.mpr
  intro d hd
  simp [h d hd]

theorem jobs_good (A : Arrays) (pairs : List Pair) (mv : Moves)
    (h1 : lazyOnce A pairs = true)
    (hd : ∀ p ∈ pairs, ∀ d ∈ A.deps p.src, movedTo mv d = none ∧ ∀ q ∈ pairs, q.src ≠ d)
    (hfresh : ∀ p ∈ pairs, movedTo mv p.src = none) :
    (jobsOf A pairs mv).any (jobStale A (finalMoves A pairs mv)) = false ∧
    (jobsOf A pairs mv).map (jobResult (finalMoves A pairs mv)) = pairs.map (fun _ => PairResult.written) := by
  induction pairs generalizing mv with
  | nil => simp [jobsOf]
  | cons p ps ih =>
    simp only [lazyOnce, Bool.and_eq_true, Bool.or_eq_true, Bool.not_eq_true'] at h1
    obtain ⟨hp1, hps1⟩ := h1
    have hpd := hd p (by simp)
    by_cases hm : isMoveAt A mv p = true
    · -- in-place re-targeting of a lazy source
      have hlazy : A.lazy p.src = true := by
        simp only [isMoveAt, lazyNow, Bool.and_eq_true] at hm; exact hm.2.1
      have hnotin : ∀ q ∈ ps, q.src ≠ p.src := by
        rcases hp1 with h | h
        · simp [hlazy] at h
        · intro q hq
          have := List.all_eq_true.mp h q hq
          simpa using this
      have hd' : ∀ q ∈ ps, ∀ d ∈ A.deps q.src,
          movedTo (retarget mv p.src p.tgt) d = none ∧ ∀ r ∈ ps, r.src ≠ d := by
        intro q hq d hdq
        obtain ⟨h0, hne⟩ := hd q (by simp [hq]) d hdq
        have hpd' : p.src ≠ d := hne p (by simp)
        refine ⟨?_, fun r hr => hne r (by simp [hr])⟩
        rw [movedTo_retarget]; simp [Ne.symm hpd', h0]
      have hfresh' : ∀ q ∈ ps, movedTo (retarget mv p.src p.tgt) q.src = none := by
        intro q hq
        rw [movedTo_retarget]
        simp [hnotin q hq, hfresh q (by simp [hq])]
      obtain ⟨ih1, ih2⟩ := ih (retarget mv p.src p.tgt) hps1 hd' hfresh'
      have hfin_src : movedTo (finalMoves A ps (retarget mv p.src p.tgt)) p.src = some p.tgt := by
        rw [finalMoves_other A ps _ p.src (fun q hq => hnotin q hq), movedTo_retarget]; simp
      have hfin_dep : ∀ d ∈ A.deps p.src, movedTo (finalMoves A ps (retarget mv p.src p.tgt)) d = none := by
        intro d hdd
        obtain ⟨h0, hne⟩ := hpd d hdd
        rw [finalMoves_other A ps _ d (fun q hq => hne q (by simp [hq])), movedTo_retarget]
        have : d ≠ p.src := fun e => hne p (by simp) e.symm
        simp [this, h0]
      simp only [jobsOf, finalMoves, hm, ↓reduceIte, List.any_cons, List.map_cons, jobStale, jobResult,
        depsIntact_of A _ p.src hfin_dep, hfin_src, ih1, ih2, Bool.not_true, Bool.or_self]
      simp
    · -- copy op (region branch, or a non-lazy source)
      have hd' : ∀ q ∈ ps, ∀ d ∈ A.deps q.src, movedTo mv d = none ∧ ∀ r ∈ ps, r.src ≠ d := by
        intro q hq d hdq
        obtain ⟨h0, hne⟩ := hd q (by simp [hq]) d hdq
        exact ⟨h0, fun r hr => hne r (by simp [hr])⟩
      obtain ⟨ih1, ih2⟩ := ih mv hps1 hd' (fun q hq => hfresh q (by simp [hq]))
      have hfin_dep : ∀ d ∈ A.deps p.src, movedTo (finalMoves A ps mv) d = none := by
        intro d hdd
        obtain ⟨h0, hne⟩ := hpd d hdd
        rw [finalMoves_other A ps _ d (fun q hq => hne q (by simp [hq]))]
        exact h0
      have hread : readOk A (finalMoves A ps mv) p.src (if A.lazy p.src = true then movedTo mv p.src else none)
          = true := by
        unfold readOk
        cases hl : A.lazy p.src with
        | false => simp
        | true =>
          have hnotin : ∀ q ∈ ps, q.src ≠ p.src := by
            rcases hp1 with h | h
            · simp [hl] at h
            · intro q hq
              have := List.all_eq_true.mp h q hq
              simpa using this
          rw [finalMoves_other A ps _ p.src (fun q hq => hnotin q hq)]
          simp [hfresh p (by simp)]
      simp only [jobsOf, finalMoves, hm, Bool.false_eq_true, ↓reduceIte, List.any_cons, List.map_cons, jobStale,
        jobResult, depsIntact_of A _ p.src hfin_dep, hread, ih1, ih2, Bool.not_true, Bool.or_self]
      simp

/-- Under the explicit hypotheses every pair of a `store` call is written. -/
theorem storeOutcome_good (A : Arrays) (pairs : List Pair)
    (hacc : allAccepted pairs = true) (hlazy : lazyOnce A pairs = true) (hdeps : noDependants A pairs = true) :
    storeOutcome A pairs = .done (pairs.map (fun _ => PairResult.written)) := by
  have hacc' : ∀ p ∈ pairs, p.accepted = true := by
    intro p hp; exact List.all_eq_true.mp hacc p hp
  have hd : ∀ p ∈ pairs, ∀ d ∈ A.deps p.src, movedTo [] d = none ∧ ∀ q ∈ pairs, q.src ≠ d := by
    intro p hp d hdd
    refine ⟨by simp [movedTo], fun q hq => ?_⟩
    have h1 := List.all_eq_true.mp hdeps p hp
    have h2 := List.all_eq_true.mp h1 d hdd
    have h3 := List.all_eq_true.mp h2 q hq
    simpa using h3
  obtain ⟨j1, j2⟩ := jobs_good A pairs [] hlazy hd (fun _ _ => by simp [movedTo])
  unfold storeOutcome
  rw [buildJobs_accepted A pairs [] 0 hacc']
  simp only [j1, Bool.false_eq_true, ↓reduceIte, j2]

theorem storeOutcome_rejected (A : Arrays) (pairs : List Pair) (h : ∃ p ∈ pairs, p.accepted = false) :
    ∃ k, storeOutcome A pairs = .rejected k := by
  obtain ⟨e, he⟩ := buildJobs_rejected A pairs [] 0 h
  exact ⟨e, by simp [storeOutcome, he]⟩

/-- A rejected call leaves the storage untouched. -/
theorem storeWorld_rejected {V : Type} (A : Arrays) (pairs : List Pair) (put : Pair → Option V → V)
    (w : Nat → Option V) (h : ∃ p ∈ pairs, p.accepted = false) : storeWorld A pairs put w = some w := by
  obtain ⟨k, hk⟩ := storeOutcome_rejected A pairs h
  simp [storeWorld, hk]

theorem foldl_written {V : Type} (put : Pair → Option V → V) (pairs : List Pair) (w : Nat → Option V)
    (hdist : targetsDistinct pairs = true) :
    let w' := (pairs.zip (pairs.map (fun _ => PairResult.written))).foldl (fun w' pr =>
      match pr.2 with
      | .written => fun l => if l = pr.1.tgt then some (put pr.1 (w' l)) else w' l
      | .missing => w') w
    (∀ p ∈ pairs, w' p.tgt = some (put p (w p.tgt))) ∧ (∀ l, (∀ p ∈ pairs, p.tgt ≠ l) → w' l = w l) := by
  induction pairs generalizing w with
  | nil => simp
  | cons p ps ih =>
    simp only [targetsDistinct, Bool.and_eq_true] at hdist
    obtain ⟨hp, hps⟩ := hdist
    have hne : ∀ q ∈ ps, q.tgt ≠ p.tgt := by
      intro q hq
      have := List.all_eq_true.mp hp q hq
      simpa using this
    simp only [List.map_cons, List.zip_cons_cons, List.foldl_cons]
    obtain ⟨ih1, ih2⟩ := ih (fun l => if l = p.tgt then some (put p (w l)) else w l) hps
    refine ⟨?_, ?_⟩
    · intro q hq
      rcases List.mem_cons.mp hq with rfl | hq'
      · rw [ih2 q.tgt (fun r hr => hne r hr)]
        simp
      · rw [ih1 q hq']
        simp [hne q hq']
    · intro l hl
      rw [ih2 l (fun r hr => hl r (by simp [hr]))]
      have : l ≠ p.tgt := fun e => hl p (by simp) e.symm
      simp [this]

/-- Storage after a good call: every target holds its pair's effect, everything else is unchanged. -/
theorem storeWorld_good {V : Type} (A : Arrays) (pairs : List Pair) (put : Pair → Option V → V)
    (w : Nat → Option V)
    (hacc : allAccepted pairs = true) (hlazy : lazyOnce A pairs = true) (hdeps : noDependants A pairs = true)
    (hdist : targetsDistinct pairs = true) :
    ∃ w', storeWorld A pairs put w = some w' ∧
      (∀ p ∈ pairs, w' p.tgt = some (put p (w p.tgt))) ∧ (∀ l, (∀ p ∈ pairs, p.tgt ≠ l) → w' l = w l) := by
  have ho := storeOutcome_good A pairs hacc hlazy hdeps
  unfold storeWorld
  rw [ho]
  exact ⟨_, rfl, foldl_written put pairs w hdist⟩

/-- the source index a region element is read from -/
def srcIndex (axes : List Axis) (is : List Nat) : List Nat :=
  List.zipWith (fun a i => i - startOf a.sl a.n) axes is

theorem inRegion_src (axes : List Axis) (is js : List Nat) (h : InRegion axes is js) : js = srcIndex axes is := by
  induction axes generalizing is js with
  | nil =>
    cases is with
    | nil => cases js with
      | nil => rfl
      | cons j js => simp [InRegion] at h
    | cons i is => cases js <;> simp [InRegion] at h
  | cons a as ih =>
    cases is with
    | nil => cases js <;> simp [InRegion] at h
    | cons i is =>
      cases js with
      | nil => simp [InRegion] at h
      | cons j js =>
        simp only [InRegion] at h
        simp only [srcIndex, List.zipWith_cons_cons, List.cons.injEq]
        exact ⟨h.1.2.2, ih is js h.2⟩

/-- n-D values after the run. -/
theorem runRegion_good_values (axes : List Axis) (hg : ∀ a ∈ axes, Good a) {V : Type}
    (src tgt : List Nat → V) (is : List Nat) :
    (∀ js, InRegion axes is js → applyPairs src (runRegion axes).written tgt is = src js) ∧
    ((∀ js, ¬ InRegion axes is js) → applyPairs src (runRegion axes).written tgt is = tgt is) := by
  obtain ⟨_, hchar⟩ := runRegion_good axes hg
  constructor
  · intro js hin
    have hj := inRegion_src axes is js hin
    rw [hj]
    apply applyPairs_of_mem src (srcIndex axes)
    · intro p hp
      exact inRegion_src axes p.1 p.2 ((hchar p.1 p.2).mp hp)
    · exact ⟨(is, js), (hchar is js).mpr hin, rfl⟩
  · intro hout
    apply applyPairs_of_not_mem
    intro p hp heq
    have := (hchar p.1 p.2).mp hp
    rw [heq] at this
    exact hout p.2 this

/-- The declared task count (`source.npartitions`) equals the number of output blocks. -/
theorem declared_eq_blocks (a : Axis) (g : Good a) (hm : 0 < a.m) : srcBlocks a = (axisBlocks a).length := by
  obtain ⟨hcs, hsc, h1, h2, h3, hv⟩ := g
  obtain ⟨hnorm, hsn, hen, hmm, hrest⟩ := good_normal a h1 h2 hv
  generalize hs : startOf a.sl a.n = s at *
  generalize he : stopOf a.sl a.n = e at *
  have hse : s < e := by omega
  obtain ⟨⟨hs0, _⟩, hal⟩ := hrest hse
  have hag : a.sc = a.cs ∨ (a.m ≤ a.sc ∧ a.m ≤ a.cs) := by simpa [chunksAgree] using h3
  have hblocks : axisBlocks a = hitBlocks a.n a.cs ⟨s, e, 1⟩ := by simp [axisBlocks, hnorm]
  have hsq : s = (s / a.cs) * a.cs := by
    have := Nat.div_add_mod s a.cs
    rw [hs0, Nat.mul_comm] at this; omega
  have hlen : (hitBlocks a.n a.cs ⟨s, e, 1⟩).length = (e - 1) / a.cs + 1 - s / a.cs := by
    unfold hitBlocks
    have : ¬ (e ≤ s) := by omega
    simp only [this, ↓reduceIte]
    rw [List.filter_eq_self.mpr]
    · simp
    · intro b hb
      simp only [List.mem_range'_1] at hb
      have hle : s / a.cs ≤ (e - 1) / a.cs := Nat.div_le_div_right (by omega)
      have := chunkNItems_step_one_pos a.n a.cs s e b hcs hse hen hb.1 (by omega)
      simpa using this
  rw [hblocks, hlen]
  unfold srcBlocks
  have hm0 : a.m ≠ 0 := by omega
  simp only [hm0, ↓reduceIte]
  have hle : s / a.cs ≤ (e - 1) / a.cs := Nat.div_le_div_right (by omega)
  rcases hag with hag | ⟨hag1, hag2⟩
  · rw [hag]
    have h1' : a.m + a.cs - 1 = (e - 1 - s / a.cs * a.cs) + a.cs := by omega
    rw [h1', Nat.add_div_right _ hcs]
    have h2' : (e - 1 - s / a.cs * a.cs) / a.cs = (e - 1) / a.cs - s / a.cs := by
      rw [Nat.mul_comm]
      exact Nat.sub_mul_div_of_le _ _ _ (by rw [Nat.mul_comm]; omega)
    rw [h2']
    omega
  · have hb1 : (s / a.cs + 1) * a.cs = s / a.cs * a.cs + a.cs := by rw [Nat.add_mul]; simp
    have e1 : (a.m + a.sc - 1) / a.sc = 1 := by
      apply Nat.div_eq_of_lt_le <;> omega
    have e2 : (e - 1) / a.cs = s / a.cs := by
      apply Nat.div_eq_of_lt_le <;> omega
    rw [e1, e2]
    omega

theorem cartesian_single {α : Type} (l : List α) : cartesian [l] = l.map (fun x => [x]) := by
  induction l with
  | nil => rfl
  | cons x xs ih =>
    simp only [cartesian, List.flatMap_cons, List.map_cons, List.map_nil, List.singleton_append, List.cons.injEq,
      true_and] at ih ⊢
    exact ih

/-! ### the fixed region branch (accept / prepare / storeRegion) -/

theorem clip_le (n : Nat) (v : Int) : clip n v ≤ n := by
  unfold clip
  split <;> omega

theorem startOf_le (sl : PSlice) (n : Nat) : startOf sl n ≤ n := by
  unfold startOf
  split
  · omega
  · exact clip_le n _

theorem stopOf_le (sl : PSlice) (n : Nat) : stopOf sl n ≤ n := by
  unfold stopOf
  split
  · omega
  · exact clip_le n _

theorem startOf_some_nat (k : Nat) (e st : Option Int) (n : Nat) : startOf ⟨some (k : Nat), e, st⟩ n = min k n := by
  simp [startOf, clip_nonneg]

theorem stopOf_some_nat (k : Nat) (s st : Option Int) (n : Nat) : stopOf ⟨s, some (k : Nat), st⟩ n = min k n := by
  simp [stopOf, clip_nonneg]

theorem normalizeAxis_bounds (a : Axis) :
    startOf (normalizeAxis a).sl a.n = startOf a.sl a.n ∧ stopOf (normalizeAxis a).sl a.n = stopOf a.sl a.n := by
  have h1 := startOf_le a.sl a.n
  have h2 := stopOf_le a.sl a.n
  unfold normalizeAxis
  rw [startOf_some_nat, stopOf_some_nat]
  constructor <;> omega

theorem accept_single (a : Axis) (h : accept [a] = .ok) :
    stepOne a = true ∧ misaligned (normalizeAxis a) = false ∧ shapeMismatchAxis a = false := by
  unfold accept at h
  simp only [List.any_cons, List.any_nil, Bool.or_false] at h
  cases h1 : stepBad a with
  | true => simp [h1] at h
  | false =>
    cases h2 : misaligned (normalizeAxis a) with
    | true => simp [h1, h2] at h
    | false =>
      cases h3 : shapeMismatchAxis a with
      | true => simp [h1, h2, h3] at h
      | false =>
        refine ⟨?_, rfl, rfl⟩
        simpa [stepBad] using h1

theorem accept_each (axes : List Axis) (hv : accept axes = .ok) : ∀ a ∈ axes, accept [a] = .ok := by
  intro a ha
  unfold accept at hv
  cases h1 : axes.any stepBad with
  | true => simp [h1] at hv
  | false =>
    cases h2 : axes.any (fun a => misaligned (normalizeAxis a)) with
    | true => simp [h1, h2] at hv
    | false =>
      cases h3 : axes.any shapeMismatchAxis with
      | true => simp [h1, h2, h3] at hv
      | false =>
        have e1 : stepBad a = false := by
          cases h : stepBad a with
          | false => rfl
          | true => rw [List.any_eq_true.mpr ⟨a, ha, h⟩] at h1; cases h1
        have e2 : misaligned (normalizeAxis a) = false := by
          cases h : misaligned (normalizeAxis a) with
          | false => rfl
          | true => rw [List.any_eq_true.mpr ⟨a, ha, h⟩] at h2; cases h2
        have e3 : shapeMismatchAxis a = false := by
          cases h : shapeMismatchAxis a with
          | false => rfl
          | true => rw [List.any_eq_true.mpr ⟨a, ha, h⟩] at h3; cases h3
        simp [accept, e1, e2, e3]

/-- normal form of a request accepted by the fixed code -/
theorem accept_normal (a : Axis) (h : accept [a] = .ok) :
    normalize a.sl a.n = some ⟨startOf a.sl a.n, stopOf a.sl a.n, 1⟩ ∧
    startOf a.sl a.n % a.cs = 0 ∧ (stopOf a.sl a.n % a.cs = 0 ∨ stopOf a.sl a.n = a.n) ∧
    a.m = stopOf a.sl a.n - startOf a.sl a.n := by
  obtain ⟨h1, h2, h3⟩ := accept_single a h
  have hstep := stepOne_stepOf a h1
  have hnorm : normalize a.sl a.n = some ⟨startOf a.sl a.n, stopOf a.sl a.n, 1⟩ := by
    simp [normalize, hstep]
  refine ⟨hnorm, ?_⟩
  simp only [misaligned, normalizeAxis, Bool.or_eq_false_iff] at h2
  obtain ⟨ha, hb⟩ := h2
  have ha' : ((startOf a.sl a.n : Nat) : Int) % (a.cs : Int) = 0 := by simpa using ha
  have hs : startOf a.sl a.n % a.cs = 0 := by exact_mod_cast ha'
  have he : stopOf a.sl a.n % a.cs = 0 ∨ stopOf a.sl a.n = a.n := by
    by_cases hk : stopOf a.sl a.n = a.n
    · exact Or.inr hk
    · left
      have hk' : ((stopOf a.sl a.n : Nat) : Int) ≠ (a.n : Int) := by omega
      have : ((stopOf a.sl a.n : Nat) : Int) % (a.cs : Int) = 0 := by simpa [hk'] using hb
      exact_mod_cast this
  refine ⟨hs, he, ?_⟩
  unfold shapeMismatchAxis at h3
  rw [hnorm] at h3
  simp only [Norm.nitems] at h3
  have : a.m = if stopOf a.sl a.n ≤ startOf a.sl a.n then 0
      else (stopOf a.sl a.n - startOf a.sl a.n + 1 - 1) / 1 := by simpa using h3
  split at this
  · omega
  · simp at this; omega

/-- the prepared axis of an accepted request with a non-empty source satisfies every hypothesis of the old
partial theorem -/
theorem prepare1_good (a : Axis) (hcs : 0 < a.cs) (h : accept [a] = .ok) (hm : 0 < a.m) : Good (prepare1 a) := by
  obtain ⟨hnorm, hs, he, hmm⟩ := accept_normal a h
  obtain ⟨_, h2, _⟩ := accept_single a h
  obtain ⟨b1, b2⟩ := normalizeAxis_bounds a
  have hp : prepare1 a = { normalizeAxis a with sc := min a.cs a.m } := by simp [prepare1, hm]
  have hsl : (prepare1 a).sl = ⟨some (startOf a.sl a.n : Nat), some (stopOf a.sl a.n : Nat), none⟩ := by
    rw [hp]; rfl
  have hn : (prepare1 a).n = a.n := by rw [hp]; rfl
  have hc : (prepare1 a).cs = a.cs := by rw [hp]; rfl
  have hmm' : (prepare1 a).m = a.m := by rw [hp]; rfl
  have hsc : (prepare1 a).sc = min a.cs a.m := by rw [hp]
  have hstart : startOf (prepare1 a).sl a.n = startOf a.sl a.n := by rw [hsl]; exact b1
  have hstop : stopOf (prepare1 a).sl a.n = stopOf a.sl a.n := by rw [hsl]; exact b2
  refine ⟨by rw [hc]; exact hcs, by rw [hsc]; omega, by simp [stepOne, hsl], by simp [nonNegBounds, hsl], ?_, ?_⟩
  · simp only [chunksAgree, hsc, hc, hmm', Bool.or_eq_true, beq_iff_eq, Bool.and_eq_true, decide_eq_true_eq]
    omega
  · have hmis : misaligned (prepare1 a) = false := by
      rw [← h2]; simp only [misaligned, hp, normalizeAxis]
    have hnm : normalize (prepare1 a).sl (prepare1 a).n = some ⟨startOf a.sl a.n, stopOf a.sl a.n, 1⟩ := by
      rw [hn]
      have : stepOf (prepare1 a).sl = 1 := by simp [stepOf, hsl]
      simp [normalize, this, hstart, hstop]
    simp only [validate, List.any_cons, List.any_nil, Bool.or_false, hmis, Bool.false_eq_true, ↓reduceIte,
      badStepAxis, hnm, Option.isNone_some, shapeMismatchAxis, hmm']
    have : (a.m != Norm.nitems ⟨startOf a.sl a.n, stopOf a.sl a.n, 1⟩) = false := by
      simp only [Norm.nitems]
      split <;> simp <;> omega
    simp [this]

theorem prepare1_bounds (a : Axis) :
    (prepare1 a).n = a.n ∧ startOf (prepare1 a).sl (prepare1 a).n = startOf a.sl a.n ∧
    stopOf (prepare1 a).sl (prepare1 a).n = stopOf a.sl a.n := by
  obtain ⟨b1, b2⟩ := normalizeAxis_bounds a
  unfold prepare1
  split
  · exact ⟨rfl, b1, b2⟩
  · exact ⟨rfl, b1, b2⟩

/-- an accepted request with an empty source has no output block -/
theorem prepare1_empty (a : Axis) (h : accept [a] = .ok) (hm : a.m = 0) : axisBlocks (prepare1 a) = [] := by
  obtain ⟨_, _, _, hmm⟩ := accept_normal a h
  obtain ⟨hn, hs, he⟩ := prepare1_bounds a
  have hsl : (prepare1 a).sl.step = none := by
    unfold prepare1; split <;> rfl
  have hnm : normalize (prepare1 a).sl (prepare1 a).n = some ⟨startOf a.sl a.n, stopOf a.sl a.n, 1⟩ := by
    have : stepOf (prepare1 a).sl = 1 := by simp [stepOf, hsl]
    simp [normalize, this, hs, he]
  simp only [axisBlocks, hnm, hitBlocks]
  have : stopOf a.sl a.n ≤ startOf a.sl a.n := by omega
  simp [this]

/-- The fixed code, one axis: every accepted request is written exactly. -/
theorem storeAxis_correct (a : Axis) (hcs : 0 < a.cs) (h : accept [a] = .ok) :
    (storeAxis a).err = none ∧
    ∀ i j, (i, j) ∈ (storeAxis a).written ↔
      (startOf a.sl a.n ≤ i ∧ i < stopOf a.sl a.n ∧ j = i - startOf a.sl a.n) := by
  obtain ⟨hn, hs, he⟩ := prepare1_bounds a
  by_cases hm : 0 < a.m
  · have g := prepare1_good a hcs h hm
    obtain ⟨herr, hchar⟩ := runAxis_good (prepare1 a) g
    rw [hs, he] at hchar
    exact ⟨herr, hchar⟩
  · have hm0 : a.m = 0 := by omega
    have hb := prepare1_empty a h hm0
    obtain ⟨_, _, _, hmm⟩ := accept_normal a h
    unfold storeAxis runAxis
    rw [hb]
    refine ⟨rfl, fun i j => ?_⟩
    simp [runTasks]
    omega

theorem storeAxis_values (a : Axis) (hcs : 0 < a.cs) (h : accept [a] = .ok) {V : Type} (src tgt : Nat → V) (i : Nat) :
    applyPairs src (storeAxis a).written tgt i =
      expectedAxis ⟨startOf a.sl a.n, stopOf a.sl a.n, 1⟩ src tgt i := by
  obtain ⟨_, hchar⟩ := storeAxis_correct a hcs h
  unfold expectedAxis
  simp only [Nat.mod_one, Nat.div_one, and_true]
  by_cases hin : startOf a.sl a.n ≤ i ∧ i < stopOf a.sl a.n
  · simp only [hin, and_self, ↓reduceIte]
    apply applyPairs_of_mem src (fun i => i - startOf a.sl a.n)
    · intro p hp
      exact ((hchar p.1 p.2).mp hp).2.2
    · exact ⟨(i, i - startOf a.sl a.n), (hchar _ _).mpr ⟨hin.1, hin.2, rfl⟩, rfl⟩
  · simp only [hin, ↓reduceIte]
    apply applyPairs_of_not_mem
    intro p hp heq
    have := (hchar p.1 p.2).mp hp
    rw [heq] at this
    exact hin ⟨this.1, this.2.1⟩

/-! ### the fixed region branch, n-D -/

theorem prepare_all_pos (axes : List Axis) (h : ∀ a ∈ axes, 0 < a.m) : prepare axes = axes.map prepare1 := by
  unfold prepare rechunkToTarget
  have hall : (axes.map normalizeAxis).all (fun a => decide (0 < a.m)) = true := by
    apply List.all_eq_true.mpr
    intro a ha
    obtain ⟨b, hb, rfl⟩ := List.mem_map.mp ha
    have := h b hb
    show decide (0 < b.m) = true
    exact decide_eq_true this
  simp only [hall, ↓reduceIte, List.map_map]
  apply List.map_congr_left
  intro a ha
  simp [prepare1, h a ha, normalizeAxis]

theorem prepare_some_zero (axes : List Axis) (h : ∃ a ∈ axes, a.m = 0) : prepare axes = axes.map normalizeAxis := by
  unfold prepare rechunkToTarget
  obtain ⟨a, ha, hm⟩ := h
  have hall : (axes.map normalizeAxis).all (fun a => decide (0 < a.m)) = false := by
    apply List.all_eq_false.mpr
    exact ⟨normalizeAxis a, List.mem_map.mpr ⟨a, ha, rfl⟩, by simp [normalizeAxis, hm]⟩
  simp [hall]

theorem inRegion_congr (f : Axis → Axis)
    (hf : ∀ a, (f a).n = a.n ∧ startOf (f a).sl (f a).n = startOf a.sl a.n ∧ stopOf (f a).sl (f a).n = stopOf a.sl a.n)
    (axes : List Axis) (is js : List Nat) : InRegion (axes.map f) is js ↔ InRegion axes is js := by
  induction axes generalizing is js with
  | nil => cases is <;> cases js <;> simp [InRegion]
  | cons a as ih =>
    cases is with
    | nil => cases js <;> simp [InRegion]
    | cons i is =>
      cases js with
      | nil => simp [InRegion]
      | cons j js =>
        obtain ⟨h1, h2, h3⟩ := hf a
        simp only [List.map_cons, InRegion, h2, h3, ih]

theorem inRegion_false (axes : List Axis) (a0 : Axis) (h0 : a0 ∈ axes)
    (he : stopOf a0.sl a0.n ≤ startOf a0.sl a0.n) (is js : List Nat) : ¬ InRegion axes is js := by
  induction axes generalizing is js with
  | nil => simp at h0
  | cons a as ih =>
    cases is with
    | nil => cases js <;> simp [InRegion]
    | cons i is =>
      cases js with
      | nil => simp [InRegion]
      | cons j js =>
        simp only [InRegion]
        rcases List.mem_cons.mp h0 with rfl | h
        · intro hh; omega
        · intro hh; exact ih h is js hh.2

theorem cartesian_eq_nil {α : Type} (ls : List (List α)) (h : [] ∈ ls) : cartesian ls = [] := by
  induction ls with
  | nil => simp at h
  | cons l ls ih =>
    rcases List.mem_cons.mp h with h1 | h1
    · subst h1; simp [cartesian]
    · simp [cartesian, ih h1]

theorem normalizeAxis_facts (a : Axis) :
    (normalizeAxis a).n = a.n ∧ startOf (normalizeAxis a).sl (normalizeAxis a).n = startOf a.sl a.n ∧
    stopOf (normalizeAxis a).sl (normalizeAxis a).n = stopOf a.sl a.n :=
  ⟨rfl, (normalizeAxis_bounds a).1, (normalizeAxis_bounds a).2⟩

/-- The fixed code, n-D: every accepted request runs without error and writes exactly the product region. -/
theorem storeRegion_correct (axes : List Axis) (hcs : ∀ a ∈ axes, 0 < a.cs) (h : accept axes = .ok) :
    (storeRegion axes).err = none ∧
    ∀ is js, (is, js) ∈ (storeRegion axes).written ↔ InRegion axes is js := by
  have hea := accept_each axes h
  by_cases hpos : ∀ a ∈ axes, 0 < a.m
  · have hp := prepare_all_pos axes hpos
    have hg : ∀ a' ∈ axes.map prepare1, Good a' := by
      intro a' ha'
      obtain ⟨a, ha, rfl⟩ := List.mem_map.mp ha'
      exact prepare1_good a (hcs a ha) (hea a ha) (hpos a ha)
    obtain ⟨herr, hchar⟩ := runRegion_good (axes.map prepare1) hg
    unfold storeRegion
    rw [hp]
    refine ⟨herr, fun is js => ?_⟩
    rw [hchar, inRegion_congr prepare1 prepare1_bounds]
  · have hz : ∃ a ∈ axes, a.m = 0 := by
      apply Classical.byContradiction
      intro hne
      apply hpos
      intro a ha
      have : a.m ≠ 0 := fun e => hne ⟨a, ha, e⟩
      omega
    have hp := prepare_some_zero axes hz
    obtain ⟨a0, ha0, hm0⟩ := hz
    have hb : axisBlocks (normalizeAxis a0) = [] := by
      have := prepare1_empty a0 (hea a0 ha0) hm0
      simpa [prepare1, hm0] using this
    have hout : outputBlocks (axes.map normalizeAxis) = [] := by
      unfold outputBlocks
      apply cartesian_eq_nil
      rw [List.map_map]
      exact List.mem_map.mpr ⟨a0, ha0, by simpa using hb⟩
    obtain ⟨_, _, _, hmm⟩ := accept_normal a0 (hea a0 ha0)
    unfold storeRegion runRegion
    rw [hp, hout]
    refine ⟨rfl, fun is js => ?_⟩
    have := inRegion_false axes a0 ha0 (by omega) is js
    simp [runTasks, this]

theorem storeRegion_values (axes : List Axis) (hcs : ∀ a ∈ axes, 0 < a.cs) (h : accept axes = .ok) {V : Type}
    (src tgt : List Nat → V) (is : List Nat) :
    (∀ js, InRegion axes is js → applyPairs src (storeRegion axes).written tgt is = src js) ∧
    ((∀ js, ¬ InRegion axes is js) → applyPairs src (storeRegion axes).written tgt is = tgt is) := by
  obtain ⟨_, hchar⟩ := storeRegion_correct axes hcs h
  constructor
  · intro js hin
    have hj := inRegion_src axes is js hin
    rw [hj]
    apply applyPairs_of_mem src (srcIndex axes)
    · intro p hp
      exact inRegion_src axes p.1 p.2 ((hchar p.1 p.2).mp hp)
    · exact ⟨(is, js), (hchar is js).mpr hin, rfl⟩
  · intro hout
    apply applyPairs_of_not_mem
    intro p hp heq
    have := (hchar p.1 p.2).mp hp
    rw [heq] at this
    exact hout p.2 this

theorem prepare_single (a : Axis) : prepare [a] = [prepare1 a] := by
  by_cases hm : 0 < a.m
  · rw [prepare_all_pos [a] (by simpa using hm)]; rfl
  · have hm0 : a.m = 0 := by omega
    rw [prepare_some_zero [a] ⟨a, by simp, hm0⟩]
    simp [prepare1, hm0]

/-- declared task count = tasks run, for every accepted request with a non-empty source -/
theorem storeAxis_declared (a : Axis) (hcs : 0 < a.cs) (h : accept [a] = .ok) (hm : 0 < a.m) :
    declaredTasks (prepare [a]) = (outputBlocks (prepare [a])).length := by
  rw [prepare_single]
  have := declared_eq_blocks (prepare1 a) (prepare1_good a hcs h hm)
    (by have : (prepare1 a).m = a.m := by unfold prepare1; split <;> rfl
        omega)
  simp [declaredTasks, outputBlocks, cartesian_single, this]

/-! ### the fixed no-region branch -/

theorem copyChunk_pos (m sc tc : Nat) (hsc : 0 < sc) (htc : 0 < tc) : 0 < copyChunk m sc tc := by
  unfold copyChunk
  split <;> assumption

theorem chunksTouched_beyond (m sc tc b : Nat) (hb : 1 ≤ b) (hm : m ≤ sc) : chunksTouched m sc tc b = [] := by
  unfold chunksTouched
  have : sc ≤ b * sc := Nat.le_mul_of_pos_left sc hb
  have h : min ((b + 1) * sc) m ≤ b * sc := by omega
  simp [h]

theorem storeCopy_chunks_private (m sc tc b1 b2 : Nat) (htc : 0 < tc) (hne : b1 ≠ b2) :
    ∀ c ∈ chunksTouched m (copyChunk m sc tc) tc b1, c ∉ chunksTouched m (copyChunk m sc tc) tc b2 := by
  unfold copyChunk
  by_cases h1 : sc % tc = 0
  · have hr : sc = (sc / tc) * tc := by
      have := Nat.div_add_mod sc tc
      rw [h1, Nat.mul_comm] at this; omega
    simp only [h1, beq_self_eq_true, Bool.true_or, ↓reduceIte]
    exact chunksTouched_disjoint m sc tc (sc / tc) b1 b2 htc hr hne
  · by_cases h2 : m ≤ sc
    · have hc : (sc % tc == 0 || decide (m ≤ sc)) = true := by simp [h2]
      simp only [hc, ↓reduceIte]
      intro c hc1 hc2
      by_cases hb1 : 1 ≤ b1
      · rw [chunksTouched_beyond m sc tc b1 hb1 h2] at hc1; simp at hc1
      · have hb2 : 1 ≤ b2 := by omega
        rw [chunksTouched_beyond m sc tc b2 hb2 h2] at hc2; simp at hc2
    · have hc : (sc % tc == 0 || decide (m ≤ sc)) = false := by simp [h1, h2]
      simp only [hc, Bool.false_eq_true, ↓reduceIte]
      exact chunksTouched_disjoint m tc tc 1 b1 b2 htc (by simp) hne

end Cubed.StoreSem
