/-
  Helper lemmas for C18 (Model/SpecModel.lean): spec equality, the spec check, memory settings of plan ops,
  and exactness of the size-literal parser w.r.t. its denotation.  Core Lean only.
-/
import CubedModel.Model.SpecModel

namespace Cubed.SpecModel
open Cubed

/-! ## Specs -/

theorem specEq_iff (a b : Spec) : specEq a b = true ↔ a = b := by
  cases a; cases b
  simp [specEq, GeneratedC18.specEqFields, Spec.get]

theorem specEq_false_of_field (a b : Spec) (f : String) (_hf : f ∈ resourceFields)
    (hne : a.get f ≠ b.get f) : specEq a b = false := by
  cases h : specEq a b with
  | false => rfl
  | true => exact absurd (by rw [(specEq_iff a b).1 h]) hne

theorem foldl_max_const (v : Nat) : ∀ (l : List Nat) (acc : Nat), (∀ x ∈ l, x = v) → l ≠ [] →
    l.foldl max acc = max acc v := by
  intro l
  induction l with
  | nil => intro acc _ h; exact absurd rfl h
  | cons x xs ih =>
    intro acc hx _
    have hxv : x = v := hx x (by simp)
    subst hxv
    cases xs with
    | nil => simp
    | cons y ys =>
      have := ih (max acc x) (fun z hz => hx z (by simp [hz])) (by simp)
      rw [List.foldl_cons, this]; omega

theorem maxOf_const (l : List Nat) (v : Nat) (hne : l ≠ []) (h : ∀ x ∈ l, x = v) : maxOf l = v := by
  unfold maxOf
  rw [foldl_max_const v l 0 h hne]; omega

/-! ## The spec check -/

theorem mem_specs {arrays : List (Option Spec)} {t : Spec} : t ∈ arrays.filterMap id ↔ some t ∈ arrays := by
  simp [List.mem_filterMap]

/-- An accepted argument list: every argument that has a spec has the returned one. -/
theorem check_ok_spec (arrays : List (Option Spec)) (s : Spec) (h : checkArraySpecs arrays = .ok s) :
    ∀ t, some t ∈ arrays → t = s := by
  intro t ht
  unfold checkArraySpecs at h
  cases hall : allSameSpec (arrays.filterMap id) with
  | false => simp [hall] at h
  | true =>
    simp only [hall] at h
    cases arrays with
    | nil => cases ht
    | cons a rest =>
      cases a with
      | none => simp at h
      | some s' =>
        have ht' : t ∈ (some s' :: rest).filterMap id := mem_specs.2 ht
        simp at h
        subst h
        simp only [List.filterMap_cons, id, allSameSpec] at hall ht'
        exact (specEq_iff t s').1 (List.all_eq_true.1 hall t ht')

/-- Two arguments with different specs: the check raises `ValueError`. -/
theorem check_mismatch (arrays : List (Option Spec)) (a b : Spec) (ha : some a ∈ arrays) (hb : some b ∈ arrays)
    (hne : a ≠ b) : checkArraySpecs arrays = .error .specMismatch := by
  have ha' : a ∈ arrays.filterMap id := mem_specs.2 ha
  have hb' : b ∈ arrays.filterMap id := mem_specs.2 hb
  have hfalse : allSameSpec (arrays.filterMap id) = false := by
    cases hs : arrays.filterMap id with
    | nil => rw [hs] at ha'; cases ha'
    | cons s0 tl =>
      rw [hs] at ha' hb'
      cases hall : allSameSpec (s0 :: tl) with
      | false => rfl
      | true =>
        simp only [allSameSpec] at hall
        have e1 := (specEq_iff a s0).1 (List.all_eq_true.1 hall a ha')
        have e2 := (specEq_iff b s0).1 (List.all_eq_true.1 hall b hb')
        exact absurd (e1.trans e2.symm) hne
  unfold checkArraySpecs
  simp [hfalse]

/-! ## Ops and plans -/

theorem mem_map_spec {args : List Arr} {a : Arr} (h : a ∈ args) : some a.spec ∈ args.map (fun a => some a.spec) :=
  List.mem_map.2 ⟨a, h, rfl⟩

theorem naryOp_ok (args : List Arr) (p : Nat) (lz : Bool) (r : Arr) (h : naryOp args p lz = .ok r) :
    (∀ a ∈ args, a.spec = r.spec) ∧ ((∀ a ∈ args, a.WF) → r.WF) := by
  unfold naryOp at h
  split at h
  · cases h
  · next spec hc =>
    injection h with h
    subst h
    have hall : ∀ a ∈ args, a.spec = spec := fun a ha => check_ok_spec _ spec hc a.spec (mem_map_spec ha)
    refine ⟨hall, ?_⟩
    intro hwf op hop
    simp only [List.mem_append, List.mem_flatMap, List.mem_singleton] at hop
    rcases hop with ⟨a, ha, hopa⟩ | rfl
    · have := hwf a ha op hopa
      rw [hall a ha] at this
      exact this
    · exact ⟨rfl, rfl⟩

/-- Induction over the construction of an array: every op of its plan was made under the array's spec. -/
theorem built_wf {a : Arr} (h : Built a) : a.WF := by
  induction h with
  | leaf s => intro op hop; cases hop
  | nary args p lz r _ hok ih => exact (naryOp_ok args p lz r hok).2 ih

theorem naryOp_rejects (args : List Arr) (p : Nat) (lz : Bool) (a b : Arr) (ha : a ∈ args) (hb : b ∈ args)
    (hne : a.spec ≠ b.spec) : naryOp args p lz = .error .specMismatch := by
  unfold naryOp
  rw [check_mismatch _ a.spec b.spec (mem_map_spec ha) (mem_map_spec hb) hne]

theorem computePlan_rejects (arrays : List Arr) (opt : List Op → List Op) (isz : Nat) (a b : Arr)
    (ha : a ∈ arrays) (hb : b ∈ arrays) (hne : a.spec ≠ b.spec) :
    computePlan arrays opt isz = .error .specMismatch := by
  unfold computePlan
  rw [check_mismatch _ a.spec b.spec (mem_map_spec ha) (mem_map_spec hb) hne]

theorem computePlan_budget (arrays : List Arr) (opt : List Op → List Op) (isz : Nat) (p : Plan)
    (h : computePlan arrays opt isz = .ok p)
    (hwf : ∀ a ∈ arrays, a.WF)
    (hopt : FusedFrom (arrays.flatMap (·.ops)) (opt (arrays.flatMap (·.ops)))) :
    (∀ a ∈ arrays, a.spec = p.spec) ∧
      ∀ op ∈ p.ops, op.allowedMem = p.spec.allowedMem ∧ op.reservedMem = p.spec.reservedMem := by
  unfold computePlan at h
  split at h
  · cases h
  · next spec hc =>
    injection h with h
    subst h
    have hall : ∀ a ∈ arrays, a.spec = spec := fun a ha => check_ok_spec _ spec hc a.spec (mem_map_spec ha)
    refine ⟨hall, ?_⟩
    have hbase : ∀ op ∈ arrays.flatMap (·.ops), op.allowedMem = spec.allowedMem ∧ op.reservedMem = spec.reservedMem := by
      intro op hop
      obtain ⟨a, ha, hopa⟩ := List.mem_flatMap.1 hop
      have := hwf a ha op hopa
      rw [hall a ha] at this
      exact this
    have hoptd : ∀ op ∈ opt (arrays.flatMap (·.ops)), op.allowedMem = spec.allowedMem ∧ op.reservedMem = spec.reservedMem := by
      intro op hop
      obtain ⟨o, ho, h1, h2, _⟩ := hopt op hop
      have := hbase o ho
      exact ⟨h1.trans this.1, h2.trans this.2⟩
    intro op hop
    simp only at hop
    split at hop
    · next c hcre =>
      rcases List.mem_cons.1 hop with rfl | hmem
      · unfold createArraysOp at hcre
        split at hcre
        · next hany =>
          injection hcre with hcre
          subst hcre
          have hne : opt (arrays.flatMap (·.ops)) ≠ [] := by
            intro hnil; rw [hnil] at hany; simp at hany
          constructor
          · exact maxOf_const _ _ (by simpa using hne) (by
              intro x hx
              obtain ⟨o, ho, rfl⟩ := List.mem_map.1 hx
              exact (hoptd o ho).1)
          · exact maxOf_const _ _ (by simpa using hne) (by
              intro x hx
              obtain ⟨o, ho, rfl⟩ := List.mem_map.1 hx
              exact (hoptd o ho).2)
        · cases hcre
      · exact hoptd op hmem
    · exact hoptd op hop

theorem admitted_le (p : Plan) (h : admitted p = true) : ∀ op ∈ p.ops, op.projectedMem ≤ op.allowedMem := by
  intro op hop
  have := List.all_eq_true.1 h op hop
  simpa using this

/-! ## Size literals -/

/-! ### characters of finite numeric strings -/

def isFinChar (c : Char) : Bool :=
  isWs c || (digit? c).isSome || c == '_' || c == '.' || c == '+' || c == '-' || c == 'e' || c == 'E'

def Cov (cs r : List Char) : Prop := ∀ c ∈ cs, isFinChar c = true ∨ c ∈ r

theorem Cov.refl (cs : List Char) : Cov cs cs := fun _ h => Or.inr h
theorem Cov.trans {a b c : List Char} (h1 : Cov a b) (h2 : Cov b c) : Cov a c :=
  fun x hx => (h1 x hx).elim Or.inl (h2 x)
theorem Cov.cons {cs r : List Char} (c : Char) (h : isFinChar c = true) (hr : Cov cs r) : Cov (c :: cs) r := by
  intro x hx
  cases List.mem_cons.1 hx with
  | inl e => subst e; exact Or.inl h
  | inr m => exact hr x m

theorem fin_of_digit {c : Char} {d : Nat} (h : digit? c = some d) : isFinChar c = true := by
  simp [isFinChar, h]

theorem moreDigits_cov (cs : List Char) : Cov cs (moreDigits cs).2 := by
  fun_induction moreDigits cs with
  | case1 => exact Cov.refl _
  | case2 c cs d hd r ih => exact Cov.cons c (fin_of_digit hd) ih
  | case3 c2 cs' d2 hd2 r hu ih =>
    exact Cov.cons '_' (by decide) (Cov.cons c2 (fin_of_digit hd2) ih)
  | case4 => exact Cov.refl _
  | case5 => exact Cov.refl _
  | case6 => exact Cov.refl _

theorem digitPart_cov (cs : List Char) : Cov cs (digitPart cs).2 := by
  cases cs with
  | nil => exact Cov.refl _
  | cons c cs =>
    simp only [digitPart]
    split
    · next d hd => exact Cov.cons c (fin_of_digit hd) (moreDigits_cov cs)
    · exact Cov.refl _

theorem lexSign_cov (cs : List Char) : Cov cs (lexSign cs).2 := by
  cases cs with
  | nil => exact Cov.refl _
  | cons c r =>
    simp only [lexSign]
    split
    · next h => exact Cov.cons c (by simp [isFinChar, h]) (Cov.refl _)
    · split
      · next h => exact Cov.cons c (by simp [isFinChar, h]) (Cov.refl _)
      · exact Cov.refl _

theorem lexFraction_cov (cs : List Char) : Cov cs (lexFraction cs).2 := by
  cases cs with
  | nil => exact Cov.refl _
  | cons c r =>
    simp only [lexFraction]
    split
    · next h => exact Cov.cons c (by simp [isFinChar, h]) (digitPart_cov r)
    · exact Cov.refl _

theorem lexMantissa_cov (cs : List Char) : Cov cs (lexMantissa cs).2.2 :=
  Cov.trans (digitPart_cov cs) (lexFraction_cov _)

theorem lexExponent_cov (cs : List Char) (e : Int) (h : lexExponent cs = some e) : Cov cs [] := by
  cases cs with
  | nil => exact Cov.refl _
  | cons c r =>
    simp only [lexExponent] at h
    split at h
    · next hc =>
      split at h
      · cases h
      · next hrest =>
        have hc' : isFinChar c = true := by
          cases hc with
          | inl h1 => simp [isFinChar, h1]
          | inr h1 => simp [isFinChar, h1]
        have hnil : (digitPart (lexSign r).2).2 = [] := by
          simp at hrest
          exact hrest.2
        have := Cov.trans (lexSign_cov r) (digitPart_cov _)
        rw [hnil] at this
        exact Cov.cons c hc' this
    · cases h

theorem mem_dropWhile_or (p : Char → Bool) (l : List Char) (c : Char) (h : c ∈ l) :
    p c = true ∨ c ∈ l.dropWhile p := by
  induction l with
  | nil => cases h
  | cons x xs ih =>
    simp only [List.dropWhile_cons]
    split
    · next hx =>
      cases List.mem_cons.1 h with
      | inl e => left; rw [e]; exact hx
      | inr m => exact ih m
    · right; exact h

theorem stripWs_cov (cs : List Char) : Cov cs (stripWs cs) := by
  intro c hc
  have hws : ∀ x, isWs x = true → isFinChar x = true := by intro x hx; simp [isFinChar, hx]
  cases mem_dropWhile_or isWs cs c hc with
  | inl h => exact Or.inl (hws c h)
  | inr h =>
    have h' : c ∈ (cs.dropWhile isWs).reverse := List.mem_reverse.2 h
    cases mem_dropWhile_or isWs _ c h' with
    | inl h2 => exact Or.inl (hws c h2)
    | inr h2 => exact Or.inr (by unfold stripWs; exact List.mem_reverse.2 h2)

/-- Lemma A: a string that lexes as a finite number consists of whitespace, digits, `_ . + - e E` only. -/
theorem finite_chars (cs : List Char) (l : Lit) (h : lexNumber cs = some (.finite l)) :
    ∀ c ∈ cs, isFinChar c = true := by
  unfold lexNumber at h
  simp only at h
  split at h
  · cases h
  · split at h
    · cases h
    · split at h
      · next e he =>
        have c1 := stripWs_cov cs
        have c2 := lexSign_cov (stripWs cs)
        have c3 := lexMantissa_cov (lexSign (stripWs cs)).2
        have c4 := lexExponent_cov _ e he
        have := Cov.trans (Cov.trans (Cov.trans c1 c2) c3) c4
        intro c hc
        cases this c hc with
        | inl h => exact h
        | inr h => cases h
      · cases h

/-! ### units -/

theorem unit_table_si : GeneratedC18.unitTable = siTable := by decide
theorem unit_base_si : GeneratedC18.unitBase = 1000 := by decide

theorem unitExp_eq_siExp (u : List Char) : unitExp u = siExp u := by
  unfold unitExp siExp; rw [unit_table_si]

theorem siExp_some {u : List Char} {k : Nat} (h : siExp u = some k) :
    ∃ x, u = [x, 'B'] ∧ isFinChar x = false := by
  unfold siExp at h
  obtain ⟨p, hp, _⟩ := Option.map_eq_some_iff.1 h
  have hpred := List.find?_some hp
  have hmem := List.mem_of_find?_eq_some hp
  simp only [siTable, List.mem_cons, List.not_mem_nil, or_false] at hmem
  have hu : u = p.1.toList := (by simpa using hpred : p.1.toList = u).symm
  rcases hmem with rfl | rfl | rfl | rfl | rfl
  · exact ⟨'k', by simpa using hu, by decide⟩
  · exact ⟨'M', by simpa using hu, by decide⟩
  · exact ⟨'G', by simpa using hu, by decide⟩
  · exact ⟨'T', by simpa using hu, by decide⟩
  · exact ⟨'P', by simpa using hu, by decide⟩

theorem lastTwo_subset (cs : List Char) (c : Char) (h : c ∈ lastTwo cs) : c ∈ cs :=
  List.mem_of_mem_drop h

theorem lastTwo_pair {cs : List Char} {x y : Char} (h : lastTwo cs = [x, y]) :
    x ∈ cs.dropLast ∧ cs.getLast? = some y := by
  have hcs : cs = dropLastTwo cs ++ [x, y] := by
    unfold dropLastTwo; rw [← h]; unfold lastTwo; exact (List.take_append_drop _ _).symm
  rw [hcs]
  constructor
  · simp
  · simp

theorem fin_B : isFinChar 'B' = false := by decide

/-- The code's branch order and the longest-suffix reading pick the same unit. -/
theorem split_agrees (cs value : List Char) (factor : Nat) (l : Lit)
    (h : splitValueUnit cs = .ok (value, factor)) (hl : lexNumber value = some (.finite l)) :
    ∃ k, splitUnit cs = (value, k) ∧ (factor : Rat) = (1000 : Rat) ^ k := by
  have hfin := finite_chars value l hl
  unfold splitValueUnit at h
  split at h
  · -- plain number
    injection h with h; injection h with hv hf; subst hv; subst hf
    refine ⟨0, ?_, by simp⟩
    unfold splitUnit
    cases hs : siExp (lastTwo cs) with
    | some k =>
      obtain ⟨x, hx, _⟩ := siExp_some hs
      have : 'B' ∈ cs := lastTwo_subset cs 'B' (by rw [hx]; simp)
      have := hfin 'B' this
      rw [fin_B] at this; cases this
    | none =>
      simp only
      split
      · next hB =>
        have : 'B' ∈ cs := List.mem_of_getLast? hB
        have := hfin 'B' this
        rw [fin_B] at this; cases this
      · rfl
  · split at h
    · cases h
    · next c hc =>
      split at h
      · -- suffix B
        next hB =>
        injection h with h; injection h with hv hf; subst hv; subst hf
        have hcB : c = 'B' := by simp at hB; exact hB.1
        subst hcB
        refine ⟨0, ?_, by simp⟩
        unfold splitUnit
        cases hs : siExp (lastTwo cs) with
        | some k =>
          obtain ⟨x, hx, hxf⟩ := siExp_some hs
          have := (lastTwo_pair hx).1
          have := hfin x this
          rw [hxf] at this; cases this
        | none => simp [hc]
      · split at h
        · next k hk =>
          split at h
          · injection h with h; injection h with hv hf; subst hv; subst hf
            refine ⟨k, ?_, ?_⟩
            · unfold splitUnit; rw [← unitExp_eq_siExp, hk]
            · rw [unit_base_si]; simp [Rat.natCast_pow]
          · cases h
        · cases h

/-! ### exact arithmetic -/

theorem foldl_digits (ds : List Nat) (acc : Nat) :
    ds.foldl (fun a d => a * 10 + d) acc = acc * 10 ^ ds.length + ds.foldl (fun a d => a * 10 + d) 0 := by
  induction ds generalizing acc with
  | nil => simp
  | cons d ds ih =>
    simp only [List.foldl_cons, List.length_cons]
    rw [ih (acc * 10 + d), ih (0 * 10 + d)]
    grind

theorem ofDigits_append (a b : List Nat) : ofDigits (a ++ b) = ofDigits a * 10 ^ b.length + ofDigits b := by
  unfold ofDigits
  rw [List.foldl_append, foldl_digits]

theorem ten_pow_ne (k : Nat) : ((10 : Rat) ^ k) ≠ 0 := by
  have : (0 : Rat) < (10 : Rat) ^ k := Rat.pow_pos (by decide)
  intro h; rw [h] at this; exact absurd this (by decide)

theorem natCast_ten_pow (k : Nat) : ((10 ^ k : Nat) : Rat) = (10 : Rat) ^ k := by
  rw [Rat.natCast_pow]; rfl

/-- `10^e` for an integer exponent as a quotient of two natural powers of ten (one of them is 1). -/
theorem zpow10 (e : Int) : (10 : Rat) ^ e = ((10 ^ e.toNat : Nat) : Rat) / ((10 ^ (-e).toNat : Nat) : Rat) := by
  rcases Int.le_total 0 e with h | h
  · obtain ⟨k, rfl⟩ := Int.eq_ofNat_of_zero_le h
    simp [Rat.zpow_natCast]
    grind
  · obtain ⟨k, hk⟩ := Int.exists_eq_neg_ofNat h
    subst hk
    simp [Rat.zpow_neg, Rat.zpow_natCast, Rat.div_def]

theorem zpow10_split (x : Int) (L : Nat) : (10 : Rat) ^ x = (10 : Rat) ^ (x - L) * (10 : Rat) ^ L := by
  have h := Rat.zpow_add (q := (10 : Rat)) (by decide) (x - L) (L : Int)
  rw [Int.sub_add_cancel, Rat.zpow_natCast] at h
  exact h

theorem litToBytesCore_exact (l : Lit) (f n : Nat) (h : litToBytesCore l f = .ok n) :
    l.value * (f : Rat) = (n : Rat) := by
  unfold litToBytesCore Lit.decExp at h
  simp only at h
  split at h
  · cases h
  · next hmod =>
    split at h
    · cases h
    · next hneg =>
      injection h with hn
      -- names
      generalize hm : ofDigits (l.ip ++ l.fp) = m at *
      generalize he : (l.exp - (l.fp.length : Int)) = e at *
      generalize hP : 10 ^ e.toNat = P at *
      generalize hD : 10 ^ (-e).toNat = D at *
      have hDpos : 0 < D := by rw [← hD]; exact Nat.pow_pos (by decide)
      have hdiv : m * P * f = n * D := by
        have : (m * P * f) % D = 0 := by simpa using hmod
        rw [← hn]; exact (Nat.div_mul_cancel (Nat.dvd_of_mod_eq_zero this)).symm
      have hdivR : (m : Rat) * (P : Rat) * (f : Rat) = (n : Rat) * (D : Rat) := by
        rw [← Rat.natCast_mul, ← Rat.natCast_mul, ← Rat.natCast_mul, hdiv]
      have hDne : (D : Rat) ≠ 0 := by
        intro h0
        have : D = 0 := by exact_mod_cast h0
        omega
      have hT := ten_pow_ne l.fp.length
      have h1 : (10 : Rat) ^ l.exp = (10 : Rat) ^ e * (10 : Rat) ^ l.fp.length := by
        rw [← he]; exact zpow10_split l.exp l.fp.length
      have h2 : (10 : Rat) ^ e = (P : Rat) / (D : Rat) := by rw [← hP, ← hD]; exact zpow10 e
      have h3 : (m : Rat) = (ofDigits l.ip : Rat) * (10 : Rat) ^ l.fp.length + (ofDigits l.fp : Rat) := by
        rw [← hm, ofDigits_append, Rat.natCast_add, Rat.natCast_mul, natCast_ten_pow]
      have hsign : l.neg = false ∨ n = 0 := by
        cases hb : l.neg with
        | false => exact Or.inl rfl
        | true =>
          right
          rw [hb] at hneg
          simpa [hn] using hneg
      unfold Lit.value
      rw [h1, h2]
      rcases hsign with hs | hz
      · rw [hs]
        simp only [Bool.false_eq_true, if_false]
        grind
      · subst hz
        have hz' : (m : Rat) * (P : Rat) * (f : Rat) = 0 := by rw [hdivR]; simp
        grind

theorem ofDigits_zeros (ds : List Nat) (h : ds.dropWhile (· == 0) = []) : ofDigits ds = 0 := by
  unfold ofDigits
  induction ds with
  | nil => rfl
  | cons d ds ih =>
    simp only [List.dropWhile_cons] at h
    split at h
    · next hd =>
      have : d = 0 := by simpa using hd
      subst this
      simpa using ih h
    · cases h

theorem ofDigits_append_zero {a b : List Nat} (h : ofDigits (a ++ b) = 0) : ofDigits a = 0 ∧ ofDigits b = 0 := by
  rw [ofDigits_append] at h
  have hpos : 0 < 10 ^ b.length := Nat.pow_pos (by decide)
  have hb : ofDigits b = 0 := by omega
  have ha : ofDigits a * 10 ^ b.length = 0 := by omega
  exact ⟨(Nat.mul_eq_zero.1 ha).resolve_right (by omega), hb⟩

theorem litToBytes_exact (l : Lit) (f n : Nat) (h : litToBytes l f = .ok n) :
    l.value * (f : Rat) = (n : Rat) := by
  unfold litToBytes at h
  split at h
  · cases h
  · split at h
    · next hz =>
      injection h with hn
      subst hn
      have hz' : coeffDigits l = [] := by simpa using hz
      obtain ⟨h1, h2⟩ := ofDigits_append_zero (ofDigits_zeros _ hz')
      unfold Lit.value
      rw [h1, h2]
      have h0 : (((0 : Nat) : Rat) + ((0 : Nat) : Rat) / (10 : Rat) ^ l.fp.length) = 0 := by
        rw [Rat.div_def]; simp; grind
      rw [h0]
      simp
    · split at h
      · cases h
      · exact litToBytesCore_exact l f n h

/-- The new rejection: a representable non-zero literal whose most significant digit lies beyond the bound. -/
theorem litToBytes_range (l : Lit) (f : Nat) (hok : decimalOk l = true) (hnz : coeffDigits l ≠ [])
    (hr : (GeneratedC18.adjustedBound : Int) < l.adjusted.natAbs) : litToBytes l f = .error .range := by
  unfold litToBytes
  have hne : (coeffDigits l).isEmpty = false := by
    cases hc : coeffDigits l with
    | nil => exact absurd hc hnz
    | cons _ _ => rfl
  simp [hok, hne, outOfRange, hr]

/-- … and nothing else is rejected as out of range. -/
theorem litToBytes_range_only (l : Lit) (f : Nat) (h : litToBytes l f = .error .range) :
    coeffDigits l ≠ [] ∧ (GeneratedC18.adjustedBound : Int) < l.adjusted.natAbs := by
  unfold litToBytes at h
  split at h
  · cases h
  · split at h
    · cases h
    · split at h
      · next hz hr =>
        simp only [outOfRange, Bool.and_eq_true, Bool.not_eq_true', decide_eq_true_eq] at hr
        refine ⟨?_, hr.2⟩
        intro hnil; rw [hnil] at hr; simp at hr
      · unfold litToBytesCore at h
        simp only at h
        split at h
        · cases h
        · split at h <;> cases h

/-- Soundness of the parser: an accepted string denotes exactly the returned number of bytes. -/
theorem convertStr_exact (s : List Char) (n : Nat) (h : convertStr s = .ok n) : denote s = some (n : Rat) := by
  unfold convertStr at h
  split at h
  · cases h
  · next value factor hsv =>
    split at h
    · next l hl =>
      obtain ⟨k, hk, hf⟩ := split_agrees _ value factor l hsv hl
      unfold denote
      simp only [hk, hl]
      rw [← hf, litToBytes_exact l factor n h]
    · cases h

theorem convertInt_exact (z : Int) (n : Nat) (h : convertInt z = .ok n) : (n : Int) = z := by
  unfold convertInt at h
  split at h
  · next hz => injection h with h; rw [← h]; exact Int.toNat_of_nonneg hz
  · cases h

theorem convertRatio_exact (num : Int) (den n : Nat) (h : convertRatio num den = .ok n) :
    den ≠ 0 ∧ (n : Rat) = (num : Rat) / (den : Rat) := by
  unfold convertRatio at h
  split at h
  · cases h
  · next hden =>
    split at h
    · cases h
    · next hmod =>
      have hq := convertInt_exact _ n h
      have hm : num % (den : Int) = 0 := by simpa using hmod
      have hnum : num = (n : Int) * (den : Int) := by
        rw [hq]; exact (Int.ediv_mul_cancel (Int.dvd_of_emod_eq_zero hm)).symm
      have hR : (num : Rat) = (n : Rat) * (den : Rat) := by
        rw [hnum, Rat.intCast_mul, Rat.intCast_natCast, Rat.intCast_natCast]
      have hdne : (den : Rat) ≠ 0 := by
        intro h0
        have : den = 0 := by exact_mod_cast h0
        exact hden this
      refine ⟨hden, ?_⟩
      rw [hR]
      grind

end Cubed.SpecModel
