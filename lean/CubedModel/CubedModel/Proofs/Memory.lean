/-
  Helper lemmas for C03 (Memory layer).  Core tactics only.
-/
import CubedModel.Model.Memory

namespace Cubed.Memory

/-! ## sums used by the accounting -/

/-- bytes `calculate_projected_mem` adds for the list of inputs: `i * read + i` each. -/
def cost (r : Nat) : List Nat → Nat
  | [] => 0
  | i :: l => (i * r + i) + cost r l

def total : List Nat → Nat
  | [] => 0
  | b :: l => b + total l

theorem foldl_cost (r : Nat) (l : List Nat) (a : Nat) :
    l.foldl (fun acc i => acc + i * r + i) a = a + cost r l := by
  induction l generalizing a with
  | nil => simp [cost]
  | cons i l ih => simp only [List.foldl_cons, ih, cost]; omega

theorem projectedMem_eq (res : Nat) (ins : List Nat) (op out : Nat) (c : BufferCopies) :
    projectedMem res ins op out c = res + cost c.read ins + op + out + out * c.write := by
  simp [projectedMem, foldl_cost]

theorem cost_append (r : Nat) (a b : List Nat) : cost r (a ++ b) = cost r a + cost r b := by
  induction a with
  | nil => simp [cost]
  | cons i l ih => simp only [List.cons_append, cost, ih]; omega

theorem total_append (a b : List Nat) : total (a ++ b) = total a + total b := by
  induction a with
  | nil => simp [total]
  | cons i l ih => simp only [List.cons_append, total, ih]; omega

theorem total_le_cost (r : Nat) (l : List Nat) : total l ≤ cost r l := by
  induction l with
  | nil => simp [total, cost]
  | cons i l ih => simp only [total, cost]; omega

theorem cost_erase (r : Nat) (i : Nat) (l : List Nat) (h : i ∈ l) :
    cost r l = (i * r + i) + cost r (l.erase i) := by
  induction l with
  | nil => simp at h
  | cons x xs ih =>
    by_cases hx : x = i
    · subst hx; simp [cost]
    · have hm : i ∈ xs := by
        cases h with
        | head => exact absurd rfl hx
        | tail _ h' => exact h'
      have hbeq : (x == i) = false := by simpa using hx
      simp only [List.erase_cons, hbeq, cost, ih hm]
      simp only [Bool.false_eq_true, if_false, cost]
      omega

theorem cost_mono_entry (r b i : Nat) (h : b ≤ i) : b * r + b ≤ i * r + i := by
  have := Nat.mul_le_mul_right r h
  omega

/-- every block has its own, large enough entry ⇒ the entries' cost covers the blocks' cost. -/
theorem accounts_cost (r : Nat) {bs ins : List Nat} (h : Accounts bs ins) : cost r bs ≤ cost r ins := by
  induction h with
  | nil ins => simp [cost]
  | @cons b i bs ins hmem hle _ ih =>
    rw [cost_erase r i ins hmem]
    simp only [cost]
    have := cost_mono_entry r b i hle
    omega

theorem accounts_length {bs ins : List Nat} (h : Accounts bs ins) : bs.length ≤ ins.length := by
  induction h with
  | nil ins => simp
  | @cons b i bs ins hmem _ _ ih =>
    have := List.length_erase_of_mem hmem
    have hpos : 0 < ins.length := List.length_pos_of_mem hmem
    simp only [List.length_cons]
    omega

/-! ## traces -/

theorem peak_nonneg (t : List Ev) : 0 ≤ peak t := by
  cases t with
  | nil => simp [peak]
  | cons e es => simp only [peak]; omega

theorem net_le_peak (t : List Ev) : net t ≤ peak t := by
  induction t with
  | nil => simp [net, peak]
  | cons e es ih => simp only [net, peak]; omega

theorem net_append (a b : List Ev) : net (a ++ b) = net a + net b := by
  induction a with
  | nil => simp [net]
  | cons e es ih => simp only [List.cons_append, net, ih]; omega

theorem peak_append (a b : List Ev) : peak (a ++ b) = max (peak a) (net a + peak b) := by
  induction a with
  | nil => have := peak_nonneg b; simp only [List.nil_append, peak, net]; omega
  | cons e es ih => simp only [List.cons_append, peak, net, ih]; omega

theorem peak_append_le (a b : List Ev) (X : Int) (ha : peak a ≤ X) (hb : net a + peak b ≤ X) :
    peak (a ++ b) ≤ X := by
  rw [peak_append]; omega

theorem net_loadBlock (r b : Nat) : net (loadBlock r b) = b := by
  simp only [loadBlock, net, Ev.delta]; omega

theorem peak_loadBlock (r b : Nat) : peak (loadBlock r b) = ((b * r : Nat) : Int) + b := by
  simp only [loadBlock, peak, Ev.delta]; omega

theorem net_streamBlock (r b : Nat) : net (streamBlock r b) = 0 := by
  simp only [streamBlock, net_append, net_loadBlock, net, Ev.delta]; omega

theorem peak_streamBlock (r b : Nat) : peak (streamBlock r b) = ((b * r : Nat) : Int) + b := by
  rw [streamBlock, peak_append, net_loadBlock, peak_loadBlock]
  simp only [peak, Ev.delta]; omega

theorem net_loads (r : Nat) (l : List Nat) : net (l.flatMap (loadBlock r)) = total l := by
  induction l with
  | nil => simp [net, total]
  | cons b l ih => simp only [List.flatMap_cons, net_append, net_loadBlock, ih, total]; omega

theorem peak_loads (r : Nat) (l : List Nat) : peak (l.flatMap (loadBlock r)) ≤ cost r l := by
  induction l with
  | nil => simp [peak, cost]
  | cons b l ih =>
    simp only [List.flatMap_cons, peak_append, net_loadBlock, peak_loadBlock, cost]
    omega

theorem net_streams (r : Nat) (l : List Nat) : net (l.flatMap (streamBlock r)) = 0 := by
  induction l with
  | nil => simp [net]
  | cons b l ih => simp only [List.flatMap_cons, net_append, net_streamBlock, ih]; omega

theorem peak_streams (r : Nat) (l : List Nat) (M : Int) (hM0 : 0 ≤ M)
    (hM : ∀ b ∈ l, (((b * r + b : Nat)) : Int) ≤ M) : peak (l.flatMap (streamBlock r)) ≤ M := by
  induction l with
  | nil => simpa [peak] using hM0
  | cons b l ih =>
    have hb := hM b (by simp)
    have hl := ih (fun x hx => hM x (by simp [hx]))
    simp only [List.flatMap_cons, peak_append, net_streamBlock, peak_streamBlock]
    omega

theorem net_frees (l : List Nat) : net (l.map Ev.free) = -(total l : Int) := by
  induction l with
  | nil => simp [net, total]
  | cons b l ih => simp only [List.map_cons, net, Ev.delta, ih, total]; omega

theorem peak_frees (l : List Nat) : peak (l.map Ev.free) = 0 := by
  induction l with
  | nil => simp [peak]
  | cons b l ih =>
    have := peak_nonneg (l.map Ev.free)
    simp only [List.map_cons, peak, Ev.delta, ih]; omega

/-- every block of the streams is covered by the stream bounds' cost. -/
theorem streams_covered (r : Nat) (streams : List (List Nat)) (sb : List Nat)
    (h : StreamsBound streams sb) :
    ∀ b ∈ streams.flatten, b * r + b ≤ cost r sb := by
  induction h with
  | nil => intro b hb; simp at hb
  | @cons bs m streams sb hsb _ ih =>
    intro b hb
    simp only [List.flatten_cons, List.mem_append] at hb
    simp only [cost]
    cases hb with
    | inl h1 => have := cost_mono_entry r b m (hsb b h1); omega
    | inr h2 => have := ih b h2; omega

/-- peak of one task in terms of the cost of what it loads. -/
theorem peak_taskTrace_le (c : BufferCopies) (t : Task) (M : Nat)
    (hM : ∀ b ∈ t.streams.flatten, b * c.read + b ≤ M) :
    peak (taskTrace c t) ≤ ((cost c.read t.eager + t.work + M + t.out + t.out * c.write : Nat) : Int) := by
  have hA := peak_loads c.read t.eager
  have hS := total_le_cost c.read t.eager
  have hC := peak_streams c.read t.streams.flatten (M : Int) (by omega)
    (fun b hb => by have := hM b hb; omega)
  have hF := peak_frees t.eager
  unfold taskTrace
  generalize hw : t.out * c.write = W
  generalize hce : cost c.read t.eager = CE at *
  generalize htot : total t.eager = T at *
  simp only [List.append_assoc]
  apply peak_append_le
  · omega
  · rw [net_loads, htot]
    apply Int.le_trans (b := (T : Int) + ((t.work + M + t.out + W : Nat) : Int))
    · apply Int.add_le_add_left
      apply peak_append_le
      · simp only [peak, Ev.delta]; omega
      · simp only [net, Ev.delta]
        have : peak (t.streams.flatten.flatMap (streamBlock c.read) ++
            ([Ev.alloc t.out, Ev.free t.work] ++ (t.eager.map Ev.free ++
              [Ev.alloc W, Ev.free W, Ev.free t.out]))) ≤ ((M + t.out + W : Nat) : Int) + T - T := by
          apply peak_append_le
          · omega
          · rw [net_streams]
            have : peak ([Ev.alloc t.out, Ev.free t.work] ++ (t.eager.map Ev.free ++
                [Ev.alloc W, Ev.free W, Ev.free t.out])) ≤ ((t.out + W : Nat) : Int) := by
              apply peak_append_le
              · simp only [peak, Ev.delta]; omega
              · simp only [net, Ev.delta]
                have : peak (t.eager.map Ev.free ++ [Ev.alloc W, Ev.free W, Ev.free t.out]) ≤ (W : Int) := by
                  apply peak_append_le
                  · omega
                  · rw [net_frees, htot]; simp only [peak, Ev.delta]; omega
                omega
            omega
        omega
    · omega

/-! ## MemoryModeller -/

theorem stepPred_current (m : Modeller) (p : POp) : (stepPred m p).current = m.current + p.chunkmem := by
  simp only [stepPred, Modeller.allocate, Modeller.free]; omega

theorem stepPred_peak_ge (m : Modeller) (p : POp) :
    m.peak ≤ (stepPred m p).peak ∧ m.current + p.projected ≤ (stepPred m p).peak := by
  simp only [stepPred, Modeller.allocate, Modeller.free]; omega

theorem foldl_peak_mono (ps : List POp) (m : Modeller) : m.peak ≤ (ps.foldl stepPred m).peak := by
  induction ps generalizing m with
  | nil => simp
  | cons p ps ih =>
    simp only [List.foldl_cons]
    have := (stepPred_peak_ge m p).1
    have := ih (stepPred m p)
    omega

theorem foldl_current_mono (ps : List POp) (m : Modeller) : m.current ≤ (ps.foldl stepPred m).current := by
  induction ps generalizing m with
  | nil => simp
  | cons p ps ih =>
    simp only [List.foldl_cons]
    have := stepPred_current m p
    have := ih (stepPred m p)
    omega

theorem foldl_peak_ge_each (ps : List POp) (m : Modeller) (p : POp) (hp : p ∈ ps) :
    m.current + p.projected ≤ (ps.foldl stepPred m).peak := by
  induction ps generalizing m with
  | nil => simp at hp
  | cons q qs ih =>
    simp only [List.foldl_cons]
    cases hp with
    | head =>
      have := (stepPred_peak_ge m p).2
      have := foldl_peak_mono qs (stepPred m p)
      omega
    | tail _ h =>
      have := ih (stepPred m q) h
      have := stepPred_current m q
      omega

/-- appending a predecessor never lowers the modelled peak. -/
theorem peakProjected_append_ge (ps qs : List POp) : peakProjected ps ≤ peakProjected (ps ++ qs) := by
  simp only [peakProjected, List.foldl_append]
  exact foldl_peak_mono qs _

/-- closed form: one predecessor. -/
theorem peakProjected_single (p : POp) : peakProjected [p] = max (p.projected : Int) p.chunkmem := by
  simp only [peakProjected, List.foldl_cons, List.foldl_nil, stepPred, Modeller.allocate, Modeller.free]
  omega

/-- Sound predecessor run: its trace stays below its projected memory (reserved included) and ends holding
its result, which is at most `chunk_memory(target)`. -/
def PredSound (res : Nat) (p : PredRun) : Prop :=
  (res : Int) + peak p.trace ≤ p.op.projected ∧ 0 ≤ net p.trace ∧ net p.trace ≤ p.op.chunkmem

theorem preds_phase (res : Nat) (ps : List PredRun) (m : Modeller) (held : Int)
    (hs : ∀ p ∈ ps, PredSound res p) (hh : held ≤ m.current) :
    (res : Int) + held + peak (ps.flatMap (·.trace)) ≤ max ((res : Int) + held) ((ps.map (·.op)).foldl stepPred m).peak
    ∧ held + net (ps.flatMap (·.trace)) ≤ ((ps.map (·.op)).foldl stepPred m).current := by
  induction ps generalizing m held with
  | nil => simp [peak, net]; omega
  | cons p ps ih =>
    obtain ⟨h1, h2, h3⟩ := hs p (by simp)
    have hrest := ih (stepPred m p.op) (held + net p.trace) (fun q hq => hs q (by simp [hq]))
      (by rw [stepPred_current]; omega)
    have hmono := foldl_peak_mono (ps.map (·.op)) (stepPred m p.op)
    have hge := (stepPred_peak_ge m p.op).2
    have hnp := net_le_peak p.trace
    simp only [List.flatMap_cons, List.map_cons, List.foldl_cons, peak_append, net_append]
    constructor
    · have := hrest.1
      omega
    · have := hrest.2
      omega

theorem net_preds_nonneg (res : Nat) (ps : List PredRun) (hs : ∀ p ∈ ps, PredSound res p) :
    0 ≤ net (ps.flatMap (·.trace)) := by
  induction ps with
  | nil => simp [net]
  | cons p ps ih =>
    have := (hs p (by simp)).2.1
    have := ih (fun q hq => hs q (by simp [hq]))
    simp only [List.flatMap_cons, net_append]; omega

theorem net_release (res : Nat) (ps : List PredRun) (hs : ∀ p ∈ ps, PredSound res p) :
    net (ps.map (fun p => Ev.free (net p.trace).toNat)) = - net (ps.flatMap (·.trace)) := by
  induction ps with
  | nil => simp [net]
  | cons p ps ih =>
    have h0 := (hs p (by simp)).2.1
    have := ih (fun q hq => hs q (by simp [hq]))
    simp only [List.map_cons, List.flatMap_cons, net, net_append, Ev.delta, this]
    omega

theorem peak_release (ps : List PredRun) :
    peak (ps.map (fun p => Ev.free (net p.trace).toNat)) = 0 := by
  induction ps with
  | nil => simp [peak]
  | cons p ps ih => simp only [List.map_cons, peak, Ev.delta, ih]; omega

/-- the fused task: predecessor phase below the modelled peak, function phase below the op's own
projection. -/
theorem fusedTrace_le (res : Nat) (c : BufferCopies) (ps : List PredRun) (work out : Nat) (opProj : Nat)
    (hs : ∀ p ∈ ps, PredSound res p)
    (hop1 : (res : Int) + net (ps.flatMap (·.trace)) + work + out ≤ opProj)
    (hop2 : (res : Int) + out + ((out * c.write : Nat) : Int) ≤ opProj) :
    (res : Int) + peak (fusedTrace c ps work out) ≤ fusedProjected opProj (ps.map (·.op)) := by
  have hp := preds_phase res ps {} 0 hs (by simp)
  have hR := net_preds_nonneg res ps hs
  have hrel := net_release res ps hs
  have hprel := peak_release ps
  unfold fusedTrace fusedProjected peakProjected
  generalize hW : out * c.write = W at *
  generalize hR' : net (ps.flatMap (·.trace)) = R at *
  generalize hP : peak (ps.flatMap (·.trace)) = P at *
  generalize hF : ((ps.map (·.op)).foldl stepPred {}).peak = F at *
  simp only [List.append_assoc]
  have h2 : peak ([Ev.alloc work, Ev.alloc out, Ev.free work] ++
      (ps.map (fun p => Ev.free (net p.trace).toNat) ++ [Ev.alloc W, Ev.free W, Ev.free out]))
      ≤ max ((work : Int) + out) ((out : Int) + W - R) := by
    apply peak_append_le
    · simp only [peak, Ev.delta]; omega
    · simp only [net, Ev.delta]
      have : peak (ps.map (fun p => Ev.free (net p.trace).toNat) ++ [Ev.alloc W, Ev.free W, Ev.free out])
          ≤ max 0 ((W : Int) - R) := by
        apply peak_append_le
        · omega
        · rw [hrel]; simp only [peak, Ev.delta]; omega
      omega
  rw [peak_append, hR', hP]
  have := hp.1
  simp only [Int.add_zero] at this
  omega

/-! ## greedy accounting test, blocks vs largest chunk -/

theorem pick_spec (b : Nat) (ins : List Nat) (i : Nat) (h : pick b ins = some i) : i ∈ ins ∧ b ≤ i := by
  induction ins generalizing i with
  | nil => simp [pick] at h
  | cons x xs ih =>
    simp only [pick] at h
    cases hp : pick b xs with
    | none =>
      rw [hp] at h
      by_cases hx : b ≤ x
      · simp [hx] at h; subst h; simp [hx]
      · simp [hx] at h
    | some j =>
      rw [hp] at h
      have := ih j hp
      by_cases hx : b ≤ x ∧ x ≤ j
      · simp [hx] at h; subst h; simp [hx.1]
      · simp [hx] at h; subst h; simp [this.1, this.2]

theorem accountsGreedy_sound (bs ins : List Nat) (h : accountsGreedy bs ins = true) : Accounts bs ins := by
  induction bs generalizing ins with
  | nil => exact Accounts.nil ins
  | cons b bs ih =>
    simp only [accountsGreedy] at h
    cases hp : pick b ins with
    | none => rw [hp] at h; simp at h
    | some i =>
      rw [hp] at h
      have := pick_spec b ins i hp
      exact Accounts.cons this.1 this.2 (ih _ h)

theorem foldl_mul (l : List Nat) (a : Nat) : l.foldl (· * ·) a = a * l.foldl (· * ·) 1 := by
  induction l generalizing a with
  | nil => simp
  | cons x xs ih => simp only [List.foldl_cons]; rw [ih (a * x), ih (1 * x)]; simp [Nat.mul_assoc]

theorem prod_cons (x : Nat) (xs : List Nat) : prod (x :: xs) = x * prod xs := by
  simp only [prod, List.foldl_cons]; rw [foldl_mul]; simp

theorem foldl_max_ge (l : List Nat) (a : Nat) : a ≤ l.foldl max a ∧ ∀ x ∈ l, x ≤ l.foldl max a := by
  induction l generalizing a with
  | nil => simp
  | cons y ys ih =>
    simp only [List.foldl_cons]
    have h := ih (max a y)
    constructor
    · omega
    · intro x hx
      cases hx with
      | head => omega
      | tail _ hx' => exact h.2 x hx'

theorem le_maxD (l : List Nat) (d x : Nat) (hx : x ∈ l) : x ≤ maxD l d := by
  cases l with
  | nil => simp at hx
  | cons y ys =>
    simp only [maxD]
    have h := foldl_max_ge ys y
    cases hx with
    | head => exact h.1
    | tail _ hx' => exact h.2 x hx'

theorem prod_block_le (shape : List Nat) (cs : List (List Nat)) (h : BlockOf shape cs) :
    prod shape ≤ prod (largestChunk (.rect cs)) := by
  induction h with
  | nil => simp [largestChunk]
  | @cons s c ss cs hs _ ih =>
    simp only [largestChunk, List.map_cons, prod_cons] at *
    exact Nat.mul_le_mul (le_maxD c 1 s hs) ih

end Cubed.Memory
