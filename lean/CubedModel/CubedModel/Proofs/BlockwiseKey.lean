import CubedModel.Proofs.Blockwise

namespace Cubed.Bw

/-- pointwise relation between two lists of equal length -/
inductive All2 {α β : Type} (R : α → β → Prop) : List α → List β → Prop
  | nil : All2 R [] []
  | cons {a b as bs} : R a b → All2 R as bs → All2 R (a :: as) (b :: bs)

theorem allSome_some {α : Type} (l : List (Option α)) (r : List α) (h : allSome l = some r) :
    All2 (fun o x => o = some x) l r := by
  induction l generalizing r with
  | nil => simp [allSome] at h; subst h; exact .nil
  | cons o rest ih =>
    cases o with
    | none => simp [allSome] at h
    | some a =>
      simp only [allSome, Option.map_eq_some_iff] at h
      obtain ⟨r', hr', rfl⟩ := h
      exact .cons rfl (ih r' hr')

/-- entry of a non-contracted axis: a single number, the reference coordinate -/
theorem refEntry_out (e : Expr) (dims : Nat → Nat) (out : List Nat) (i nb : Nat) (en : Ent)
    (hi : e.outInd.contains i = true) (h : refEntry e dims out i nb = some en) :
    ∃ c, en = .one c ∧ refCoord e out i nb = some c := by
  unfold refEntry at h
  unfold refCoord
  cases hl : lastIdx i e.outInd with
  | none =>
    have := lastIdx_none i e.outInd hl
    simp only [List.contains_iff_mem] at hi
    exact absurd hi this
  | some p =>
    simp only [hl] at h ⊢
    cases hnb : (nb == 1) with
    | true => simp only [hnb, if_true, Option.some.injEq] at h; exact ⟨0, h.symm, by simp⟩
    | false =>
      simp only [hnb, Bool.false_eq_true, if_false, Option.map_eq_some_iff] at h
      obtain ⟨c, hc, rfl⟩ := h
      exact ⟨c, rfl, by simp [hc]⟩

theorem lolFlat_ones (cs : List Nat) : lolFlat (cs.map Ent.one) = [cs] := by
  induction cs with
  | nil => rfl
  | cons c rest ih => simp [lolFlat, ih]

/-- entries of an argument without contracted index are single numbers = reference coordinates -/
theorem argEntries_no_dummy (e : Expr) (dims : Nat → Nat) (out : List Nat) (a : Arg) (es : List Ent)
    (hlen : out.length = e.outInd.length)
    (hnd : hasDummy e a = false) (h : argEntries e dims out a = some es) :
    ∃ cs, es = cs.map Ent.one ∧
      All2 (fun p c => refCoord e out p.1 p.2 = some c) (a.ind.zip a.nb) cs := by
  unfold argEntries at h
  have hall := allSome_some _ _ h
  have hmem : ∀ p ∈ a.ind.zip a.nb, e.outInd.contains p.1 = true := by
    intro p hp
    have hpi : p.1 ∈ a.ind := (List.of_mem_zip hp).1
    unfold hasDummy at hnd
    have := List.any_eq_false.mp hnd p.1 hpi
    simpa using this
  clear h hnd
  generalize a.ind.zip a.nb = ps at hall hmem
  induction ps generalizing es with
  | nil => cases hall; exact ⟨[], rfl, .nil⟩
  | cons p rest ih =>
    cases hall with
    | cons hp hrest =>
      rename_i en es'
      simp only [] at hp
      rw [entry_eq_ref e dims out p.1 p.2 hlen] at hp
      obtain ⟨c, rfl, hc⟩ := refEntry_out e dims out p.1 p.2 en (hmem p (by simp)) hp
      obtain ⟨cs, rfl, hcs⟩ := ih es' hrest (fun q hq => hmem q (by simp [hq]))
      exact ⟨c :: cs, rfl, .cons hc hcs⟩


theorem All2.map_left {α β γ : Type} (R : β → γ → Prop) (f : α → β) (l : List α) (r : List γ)
    (h : All2 R (l.map f) r) : All2 (fun a c => R (f a) c) l r := by
  induction l generalizing r with
  | nil => cases h; exact .nil
  | cons a rest ih =>
    cases h with
    | cons h1 h2 => exact .cons h1 (ih _ h2)

/-- Per-argument description of the key list produced when no argument has a contracted index. -/
def ArgKey (e : Expr) (out : List Nat) (a : Arg) (t : Tree CK) : Prop :=
  ∃ cs, t = .leaf ⟨a.name, cs⟩ ∧
    All2 (fun p c => refCoord e out p.1 p.2 = some c) (a.ind.zip a.nb) cs

theorem flat_keys (e : Expr) (dims : Nat → Nat) (out : List Nat) (args : List Arg)
    (argEs : List (Arg × List Ent)) (hlen : out.length = e.outInd.length)
    (hnd : ∀ a ∈ args, hasDummy e a = false)
    (h : All2 (fun a x => (argEntries e dims out a).map (fun es => (a, es)) = some x) args argEs) :
    All2 (ArgKey e out) args
      (argEs.flatMap (fun (a, es) => (lolFlat es).map (fun c => Tree.leaf ⟨a.name, c⟩))) ∧
    argEs.any (fun (a, _) => hasDummy e a) = false ∧
    (∀ x, argEs.head? = some x → hasDummy e x.1 = false) := by
  induction h with
  | nil => exact ⟨.nil, rfl, by simp⟩
  | @cons a x as xs h1 _ ih =>
    have hnda := hnd a (by simp)
    obtain ⟨ih1, ih2, _⟩ := ih (fun b hb => hnd b (by simp [hb]))
    simp only [Option.map_eq_some_iff] at h1
    obtain ⟨es, hes, rfl⟩ := h1
    obtain ⟨cs, rfl, hcs⟩ := argEntries_no_dummy e dims out a es hlen hnda hes
    refine ⟨?_, ?_, ?_⟩
    · simp only [List.flatMap_cons, lolFlat_ones, List.map_cons, List.map_nil, List.singleton_append]
      exact .cons ⟨cs, rfl, hcs⟩ ih1
    · simp only [List.any_cons, hnda, ih2, Bool.or_self]
    · intro x hx; simp at hx; subst hx; exact hnda

/-- **Whole key function, no contraction** (elementwise / broadcasting / new-axis expressions): if
`make_blockwise_back_key_function_flattened` succeeds it returns exactly one key per argument, in
argument order, labelled with the out key's name, whose coordinates are the reference coordinates
(broadcast axes 0, otherwise the out coordinate at the index' position). -/
theorem keyFn_no_contraction (e : Expr) (out : CK) (fa : FArgs CK)
    (hlen : out.coords.length = e.outInd.length)
    (hnd : ∀ a ∈ e.args, hasDummy e a = false)
    (h : keyFn e out = .ok fa) :
    fa.out = out.name ∧ All2 (ArgKey e out.coords) e.args fa.args := by
  unfold keyFn at h
  cases htab : allSome ((allIndices e).map (fun i => (dimOf e i).map (fun d => (i, d)))) with
  | none => simp [htab] at h
  | some table =>
    simp only [htab] at h
    cases hd : droppedOk e with
    | false => simp [hd] at h
    | true =>
      simp only [hd, Bool.not_true, Bool.false_eq_true, if_false] at h
      generalize hdims : (fun i => ((table.find? (fun p => p.1 == i)).map (·.2)).getD 1) = dims at h
      cases hae : allSome (e.args.map (fun a => (argEntries e dims out.coords a).map (fun es => (a, es)))) with
      | none => simp [hae] at h
      | some argEs =>
        simp only [hae] at h
        have h2 := All2.map_left _ _ _ _ (allSome_some _ _ hae)
        obtain ⟨k1, k2, k3⟩ := flat_keys e dims out.coords e.args argEs hlen hnd h2
        cases argEs with
        | nil => simp at h
        | cons x xs =>
          have hx := k3 x rfl
          simp only [hx, Bool.false_eq_true, if_false, k2] at h
          cases h
          exact ⟨rfl, k1⟩

end Cubed.Bw
