/-
  Lemmas about the History model (C10): the invariant `Inv`, evaluation of fused ops, plan
  well-formedness under `fuseStep`, execution of a finalized plan, and preservation of the invariant by
  every API step except a late re-targeting.
-/
import CubedModel.Model.History

namespace Cubed.History

/-! ### small list / option lemmas -/

theorem mapOpt_congr {α β : Type} (f g : α → Option β) (l : List α) (h : ∀ a ∈ l, f a = g a) :
    mapOpt f l = mapOpt g l := by
  induction l with
  | nil => rfl
  | cons a as ih =>
    simp only [mapOpt]
    rw [h a (by simp), ih (fun x hx => h x (by simp [hx]))]

theorem mapOpt_some_of_forall {α β : Type} (f : α → Option β) (l : List α)
    (h : ∀ a ∈ l, ∃ b, f a = some b) : ∃ bs, mapOpt f l = some bs := by
  induction l with
  | nil => exact ⟨[], rfl⟩
  | cons a as ih =>
    obtain ⟨b, hb⟩ := h a (by simp)
    obtain ⟨bs, hbs⟩ := ih (fun x hx => h x (by simp [hx]))
    exact ⟨b :: bs, by simp [mapOpt, hb, hbs]⟩

theorem mapOpt_eq_some_mem {α β : Type} (f : α → Option β) (l : List α) (bs : List β)
    (h : mapOpt f l = some bs) : ∀ a ∈ l, ∃ b, f a = some b := by
  induction l generalizing bs with
  | nil => intro a ha; cases ha
  | cons x xs ih =>
    intro a ha
    simp only [mapOpt] at h
    cases hx : f x with
    | none => simp [hx] at h
    | some b =>
      cases hxs : mapOpt f xs with
      | none => simp [hx, hxs] at h
      | some bs' =>
        rcases List.mem_cons.mp ha with rfl | ha'
        · exact ⟨b, hx⟩
        · exact ih bs' hxs a ha'

theorem mapOpt_map {α β γ : Type} (g : α → β) (f : β → Option γ) (l : List α) :
    mapOpt f (l.map g) = mapOpt (fun a => f (g a)) l := by
  induction l with
  | nil => rfl
  | cons a as ih => simp [mapOpt, ih]

theorem mapOpt_length {α β : Type} (f : α → Option β) (l : List α) (bs : List β)
    (h : mapOpt f l = some bs) : bs.length = l.length := by
  induction l generalizing bs with
  | nil => simp [mapOpt] at h; subst h; rfl
  | cons x xs ih =>
    simp only [mapOpt] at h
    cases hx : f x with
    | none => simp [hx] at h
    | some b =>
      cases hxs : mapOpt f xs with
      | none => simp [hx, hxs] at h
      | some bs' =>
        simp [hx, hxs] at h
        subst h
        simp [ih bs' hxs]

/-- elements of the input list are exactly the pre-images of the result -/
theorem mapOpt_getElem {α β : Type} (f : α → Option β) (l : List α) (bs : List β)
    (h : mapOpt f l = some bs) : ∀ a ∈ l, ∃ b ∈ bs, f a = some b := by
  induction l generalizing bs with
  | nil => intro a ha; cases ha
  | cons x xs ih =>
    intro a ha
    simp only [mapOpt] at h
    cases hx : f x with
    | none => simp [hx] at h
    | some b =>
      cases hxs : mapOpt f xs with
      | none => simp [hx, hxs] at h
      | some bs' =>
        simp [hx, hxs] at h
        subst h
        rcases List.mem_cons.mp ha with rfl | ha'
        · exact ⟨b, by simp, hx⟩
        · obtain ⟨b', hb', hfb⟩ := ih bs' hxs a ha'
          exact ⟨b', by simp [hb'], hfb⟩

theorem mapOpt_mem_result {α β : Type} (f : α → Option β) (l : List α) (bs : List β)
    (h : mapOpt f l = some bs) : ∀ b ∈ bs, ∃ a ∈ l, f a = some b := by
  induction l generalizing bs with
  | nil => simp [mapOpt] at h; subst h; intro b hb; cases hb
  | cons x xs ih =>
    intro b hb
    simp only [mapOpt] at h
    cases hx : f x with
    | none => simp [hx] at h
    | some b0 =>
      cases hxs : mapOpt f xs with
      | none => simp [hx, hxs] at h
      | some bs' =>
        simp [hx, hxs] at h
        subst h
        rcases List.mem_cons.mp hb with rfl | hb'
        · exact ⟨x, by simp, hx⟩
        · obtain ⟨a, ha, hfa⟩ := ih bs' hxs b hb'
          exact ⟨a, by simp [ha], hfa⟩

/-! ### rlookup -/

theorem rlookup_mem {r : List (Nat × Loc)} {n : Nat} {l : Loc} (h : rlookup r n = some l) :
    (n, l) ∈ r := by
  induction r with
  | nil => simp [rlookup] at h
  | cons p rest ih =>
    obtain ⟨m, l'⟩ := p
    simp only [rlookup] at h
    by_cases hm : m = n
    · simp [hm] at h; subst h; subst hm; simp
    · simp [hm] at h; exact List.mem_cons_of_mem _ (ih h)

theorem rlookup_isSome_of_mem {r : List (Nat × Loc)} {n : Nat} {l : Loc} (h : (n, l) ∈ r) :
    ∃ l', rlookup r n = some l' := by
  induction r with
  | nil => cases h
  | cons p rest ih =>
    obtain ⟨m, l0⟩ := p
    simp only [rlookup]
    by_cases hm : m = n
    · exact ⟨l0, by simp [hm]⟩
    · simp only [hm, if_false]
      rcases List.mem_cons.mp h with h1 | h1
      · cases h1; exact absurd rfl hm
      · exact ih h1

theorem rlookup_append (a b : List (Nat × Loc)) (n : Nat) :
    rlookup (a ++ b) n = (rlookup a n).orElse (fun _ => rlookup b n) := by
  induction a with
  | nil => simp [rlookup]
  | cons p rest ih =>
    obtain ⟨m, l⟩ := p
    simp only [List.cons_append, rlookup]
    by_cases hm : m = n
    · simp [hm]
    · simp [hm, ih]

theorem rlookup_map_pair {α : Type} (l : List α) (f : α → Nat) (g : α → Loc) (n : Nat) (loc : Loc)
    (h : rlookup (l.map (fun a => (f a, g a))) n = some loc) : ∃ a ∈ l, f a = n ∧ g a = loc := by
  have := rlookup_mem h
  simp only [List.mem_map, Prod.mk.injEq] at this
  obtain ⟨a, ha, h1, h2⟩ := this
  exact ⟨a, ha, h1, h2⟩

/-! ### the heap -/

theorem findOp_mem {heap : List OpObj} {n : Nat} {o : OpObj} (h : findOp heap n = some o) :
    o ∈ heap ∧ o.out = n := by
  induction heap with
  | nil => simp [findOp] at h
  | cons x rest ih =>
    simp only [findOp] at h
    by_cases hx : x.out = n
    · simp [hx] at h; subst h; exact ⟨by simp, hx⟩
    · simp [hx] at h
      obtain ⟨h1, h2⟩ := ih h
      exact ⟨List.mem_cons_of_mem _ h1, h2⟩

theorem HeapWF.out_lt {heap : List OpObj} (h : HeapWF heap) : ∀ o ∈ heap, o.out < heap.length := by
  induction heap with
  | nil => intro o ho; cases ho
  | cons x rest ih =>
    intro o ho
    obtain ⟨h1, _, h3⟩ := h
    rcases List.mem_cons.mp ho with rfl | ho'
    · simp [h1]
    · have := ih h3 o ho'
      simp only [List.length_cons]
      omega

theorem HeapWF.tail {x : OpObj} {rest : List OpObj} (h : HeapWF (x :: rest)) : HeapWF rest := h.2.2

theorem findOp_of_mem {heap : List OpObj} (h : HeapWF heap) : ∀ o ∈ heap, findOp heap o.out = some o := by
  induction heap with
  | nil => intro o ho; cases ho
  | cons x rest ih =>
    intro o ho
    obtain ⟨h1, _, h3⟩ := h
    simp only [findOp]
    rcases List.mem_cons.mp ho with rfl | ho'
    · simp
    · have hlt := HeapWF.out_lt h3 o ho'
      have : x.out ≠ o.out := by omega
      simp [this, ih h3 o ho']

theorem findOp_some_of_lt {heap : List OpObj} (h : HeapWF heap) :
    ∀ n, n < heap.length → ∃ o, findOp heap n = some o := by
  induction heap with
  | nil => intro n hn; simp at hn
  | cons x rest ih =>
    intro n hn
    obtain ⟨h1, _, h3⟩ := h
    simp only [findOp]
    by_cases hx : x.out = n
    · exact ⟨x, by simp [hx]⟩
    · simp only [hx, if_false]
      apply ih h3
      simp only [List.length_cons] at hn
      omega

theorem findOp_lt {heap : List OpObj} (h : HeapWF heap) {n : Nat} {o : OpObj}
    (hf : findOp heap n = some o) : n < heap.length := by
  obtain ⟨hm, ho⟩ := findOp_mem hf
  have := HeapWF.out_lt h o hm
  omega

theorem HeapWF.srcs_lt {heap : List OpObj} (h : HeapWF heap) : ∀ o ∈ heap, ∀ s ∈ o.srcs, s < o.out := by
  induction heap with
  | nil => intro o ho; cases ho
  | cons x rest ih =>
    intro o ho
    obtain ⟨_, h2, h3⟩ := h
    rcases List.mem_cons.mp ho with rfl | ho'
    · exact h2
    · exact ih h3 o ho'

/-- On names of the older part the newest op is invisible. -/
theorem denote_cons_ne (x : OpObj) (rest : List OpObj) (n : Nat) (h : x.out ≠ n) :
    denote (x :: rest) n = denote rest n := by
  simp [denote, h]

theorem findOp_cons_ne (x : OpObj) (rest : List OpObj) (n : Nat) (h : x.out ≠ n) :
    findOp (x :: rest) n = findOp rest n := by
  simp [findOp, h]

theorem wlocOf_cons_ne (x : OpObj) (rest : List OpObj) (n : Nat) (h : x.out ≠ n) :
    wlocOf (x :: rest) n = wlocOf rest n := by
  simp [wlocOf, findOp, h]

/-- `denote` is defined on every name of a well-formed heap. -/
theorem denote_total {heap : List OpObj} (h : HeapWF heap) :
    ∀ n, n < heap.length → ∃ v, denote heap n = some v := by
  induction heap with
  | nil => intro n hn; simp at hn
  | cons x rest ih =>
    intro n hn
    obtain ⟨h1, h2, h3⟩ := h
    simp only [denote]
    by_cases hx : x.out = n
    · simp only [hx, if_true]
      by_cases hp : x.prim
      · simp only [hp, if_true]
        obtain ⟨vs, hvs⟩ := mapOpt_some_of_forall (denote rest) x.srcs
          (fun s hs => ih h3 s (by have := h2 s hs; omega))
        exact ⟨Val.app x.fn vs, by simp [hvs]⟩
      · exact ⟨x.inval, by simp [hp]⟩
    · simp only [hx, if_false]
      apply ih h3
      simp only [List.length_cons] at hn
      omega

/-- The value of a primitive op is never `fill`-like: it is an application. -/
theorem denote_prim_isData {heap : List OpObj} {n : Nat} {o : OpObj} {v : Val}
    (hf : findOp heap n = some o) (hp : o.prim = true) (hd : denote heap n = some v) : v.isData = true := by
  induction heap with
  | nil => simp [findOp] at hf
  | cons x rest ih =>
    simp only [findOp] at hf
    simp only [denote] at hd
    by_cases hx : x.out = n
    · simp [hx] at hf; subst hf
      simp only [hx, if_true, hp] at hd
      cases hm : mapOpt (denote rest) x.srcs with
      | none => simp [hm] at hd
      | some vs => simp [hm] at hd; subst hd; rfl
    · simp [hx] at hf hd
      exact ih hf hd

/-- Updating only the mutable fields of ops leaves `denote` unchanged. -/
theorem denote_map_congr (f : OpObj → OpObj) (heap : List OpObj)
    (h : ∀ o, (f o).out = o.out ∧ (f o).prim = o.prim ∧ (f o).fn = o.fn ∧ (f o).srcs = o.srcs ∧ (f o).inval = o.inval) :
    ∀ n, denote (heap.map f) n = denote heap n := by
  induction heap with
  | nil => intro n; rfl
  | cons x rest ih =>
    intro n
    obtain ⟨h1, h2, h3, h4, h5⟩ := h x
    simp only [List.map_cons, denote, h1, h2, h3, h4, h5]
    by_cases hx : x.out = n
    · simp only [hx, if_true]
      rw [mapOpt_congr (denote (rest.map f)) (denote rest) x.srcs (fun a _ => ih a)]
    · simp only [hx, if_false]
      exact ih n

theorem findOp_map (f : OpObj → OpObj) (heap : List OpObj) (h : ∀ o, (f o).out = o.out) (n : Nat) :
    findOp (heap.map f) n = (findOp heap n).map f := by
  induction heap with
  | nil => rfl
  | cons x rest ih =>
    simp only [List.map_cons, findOp, h x]
    by_cases hx : x.out = n
    · simp [hx]
    · simp [hx, ih]

theorem HeapWF_map (f : OpObj → OpObj) (heap : List OpObj)
    (h : ∀ o, (f o).out = o.out ∧ (f o).srcs = o.srcs) (hw : HeapWF heap) : HeapWF (heap.map f) := by
  induction heap with
  | nil => trivial
  | cons x rest ih =>
    obtain ⟨h1, h2, h3⟩ := hw
    refine ⟨?_, ?_, ih h3⟩
    · simp [(h x).1, h1]
    · simp only [(h x).1, (h x).2]; exact h2

/-! ### fused evaluation -/

/-- A (fused) op computes the value its output was built to have, provided every source it reads from
storage holds that source's built value.  `members ∪ {root}` are the ops evaluated in memory. -/
theorem evalFused_eq_denote (members : List Nat) (reads : List (Nat × Loc)) (σ : Store) (root : Nat) :
    ∀ (heap : List OpObj), HeapWF heap →
    (∀ o ∈ heap, (o.out ∈ members ∨ o.out = root) →
        o.prim = true ∧ ∀ s ∈ o.srcs, s ∉ members → (rlookup reads s).bind σ = denote heap s) →
    ∀ n, (n ∈ members ∨ n = root) → evalFused members reads σ heap n = denote heap n := by
  intro heap
  induction heap with
  | nil => intro _ _ n _; rfl
  | cons x rest ih =>
    intro hw H n hn
    obtain ⟨h1, h2, h3⟩ := hw
    have Hrest : ∀ o ∈ rest, (o.out ∈ members ∨ o.out = root) →
        o.prim = true ∧ ∀ s ∈ o.srcs, s ∉ members → (rlookup reads s).bind σ = denote rest s := by
      intro o ho hm
      obtain ⟨hp, hs⟩ := H o (List.mem_cons_of_mem _ ho) hm
      refine ⟨hp, fun s hs1 hs2 => ?_⟩
      have hlt := HeapWF.srcs_lt h3 o ho s hs1
      have hol := HeapWF.out_lt h3 o ho
      rw [hs s hs1 hs2, denote_cons_ne]
      omega
    by_cases hx : x.out = n
    · obtain ⟨hp, hs⟩ := H x (by simp) (by rw [hx]; exact hn)
      simp only [evalFused, denote, hx, if_true, hp]
      congr 1
      apply mapOpt_congr
      intro s hs1
      by_cases hsm : s ∈ members
      · simp only [hsm, if_true]
        exact ih h3 Hrest s (Or.inl hsm)
      · simp only [hsm, if_false]
        rw [hs s hs1 hsm, denote_cons_ne]
        have := h2 s hs1
        omega
    · simp only [evalFused, denote, hx, if_false]
      exact ih h3 Hrest n hn

/-! ### dags -/

theorem mem_insertNode {d : List ANode} {nd x : ANode} (h : x ∈ insertNode d nd) : x ∈ d ∨ x = nd := by
  unfold insertNode at h
  split at h
  · simp only [List.mem_map] at h
    obtain ⟨y, hy, hxy⟩ := h
    split at hxy
    · exact Or.inr hxy.symm
    · exact Or.inl (hxy ▸ hy)
  · simp only [List.mem_append, List.mem_singleton] at h
    exact h

theorem self_mem_insertNode (d : List ANode) (nd : ANode) : nd ∈ insertNode d nd := by
  unfold insertNode
  split
  · rename_i h
    simp only [List.any_eq_true, beq_iff_eq] at h
    obtain ⟨y, hy, hn⟩ := h
    simp only [List.mem_map]
    exact ⟨y, hy, by simp [hn]⟩
  · simp

theorem name_mem_insertNode {d : List ANode} (nd : ANode) {y : ANode} (hy : y ∈ d) :
    ∃ x ∈ insertNode d nd, x.name = y.name := by
  unfold insertNode
  split
  · by_cases hn : y.name = nd.name
    · exact ⟨nd, by simp only [List.mem_map]; exact ⟨y, hy, by simp [hn]⟩, hn.symm⟩
    · exact ⟨y, by simp only [List.mem_map]; exact ⟨y, hy, by simp [hn]⟩, rfl⟩
  · exact ⟨y, by simp [hy], rfl⟩

theorem mem_foldl_insertNode {d acc : List ANode} {x : ANode} (h : x ∈ d.foldl insertNode acc) :
    x ∈ acc ∨ x ∈ d := by
  induction d generalizing acc with
  | nil => exact Or.inl h
  | cons nd rest ih =>
    simp only [List.foldl_cons] at h
    rcases ih h with h1 | h1
    · rcases mem_insertNode h1 with h2 | h2
      · exact Or.inl h2
      · exact Or.inr (by simp [h2])
    · exact Or.inr (List.mem_cons_of_mem _ h1)

theorem name_mem_foldl_insertNode_acc {d acc : List ANode} {y : ANode} (hy : y ∈ acc) :
    ∃ x ∈ d.foldl insertNode acc, x.name = y.name := by
  induction d generalizing acc y with
  | nil => exact ⟨y, hy, rfl⟩
  | cons nd rest ih =>
    simp only [List.foldl_cons]
    obtain ⟨x, hx, hxn⟩ := name_mem_insertNode nd hy
    obtain ⟨z, hz, hzn⟩ := ih hx
    exact ⟨z, hz, hzn.trans hxn⟩

theorem name_mem_foldl_insertNode {d acc : List ANode} {y : ANode} (hy : y ∈ d) :
    ∃ x ∈ d.foldl insertNode acc, x.name = y.name := by
  induction d generalizing acc with
  | nil => cases hy
  | cons nd rest ih =>
    simp only [List.foldl_cons]
    rcases List.mem_cons.mp hy with rfl | hy'
    · exact name_mem_foldl_insertNode_acc (self_mem_insertNode acc y)
    · exact ih hy'

theorem mem_compose_aux {ds : List (List ANode)} {acc : List ANode} {x : ANode}
    (h : x ∈ ds.foldl (fun acc d => d.foldl insertNode acc) acc) : x ∈ acc ∨ ∃ d ∈ ds, x ∈ d := by
  induction ds generalizing acc with
  | nil => exact Or.inl h
  | cons d rest ih =>
    simp only [List.foldl_cons] at h
    rcases ih h with h1 | ⟨d', hd', hx⟩
    · rcases mem_foldl_insertNode h1 with h2 | h2
      · exact Or.inl h2
      · exact Or.inr ⟨d, by simp, h2⟩
    · exact Or.inr ⟨d', List.mem_cons_of_mem _ hd', hx⟩

theorem mem_compose {ds : List (List ANode)} {x : ANode} (h : x ∈ compose ds) : ∃ d ∈ ds, x ∈ d := by
  rcases mem_compose_aux h with h1 | h1
  · cases h1
  · exact h1

theorem name_mem_compose_acc {ds : List (List ANode)} {acc : List ANode} {y : ANode} (hy : y ∈ acc) :
    ∃ x ∈ ds.foldl (fun acc d => d.foldl insertNode acc) acc, x.name = y.name := by
  induction ds generalizing acc y with
  | nil => exact ⟨y, hy, rfl⟩
  | cons d rest ih =>
    simp only [List.foldl_cons]
    obtain ⟨x, hx, hxn⟩ := name_mem_foldl_insertNode_acc (d := d) hy
    obtain ⟨z, hz, hzn⟩ := ih hx
    exact ⟨z, hz, hzn.trans hxn⟩

theorem name_mem_compose_aux {ds : List (List ANode)} {acc d : List ANode} {y : ANode}
    (hd : d ∈ ds) (hy : y ∈ d) :
    ∃ x ∈ ds.foldl (fun acc d => d.foldl insertNode acc) acc, x.name = y.name := by
  induction ds generalizing acc with
  | nil => cases hd
  | cons d0 rest ih =>
    simp only [List.foldl_cons]
    rcases List.mem_cons.mp hd with rfl | hd'
    · obtain ⟨x, hx, hxn⟩ := name_mem_foldl_insertNode (acc := acc) hy
      obtain ⟨z, hz, hzn⟩ := name_mem_compose_acc (ds := rest) hx
      exact ⟨z, hz, hzn.trans hxn⟩
    · exact ih hd'

theorem name_mem_compose {ds : List (List ANode)} {d : List ANode} {y : ANode} (hd : d ∈ ds) (hy : y ∈ d) :
    ∃ x ∈ compose ds, x.name = y.name :=
  name_mem_compose_aux hd hy

/-! ### well-formed plans -/

def isInput (heap : List OpObj) (s : Nat) : Prop := ∃ o, findOp heap s = some o ∧ o.prim = false

def isPrim (heap : List OpObj) (s : Nat) : Prop := ∃ o, findOp heap s = some o ∧ o.prim = true

/-- What execution needs to know about one (possibly fused) op of a plan. -/
structure XOpOK (heap : List OpObj) (plan : List XOp) (e : XOp) : Prop where
  root : isPrim heap e.out
  mem : ∀ m ∈ e.members, isPrim heap m
  reads : ∀ p ∈ e.reads, wlocOf heap p.1 = some p.2
  ext : ∀ m, (m = e.out ∨ m ∈ e.members) → ∀ o, findOp heap m = some o → ∀ s ∈ o.srcs, s ∉ e.members →
          s ∈ e.srcs ∧ (∃ l, rlookup e.reads s = some l) ∧ (isInput heap s ∨ ∃ x ∈ plan, x.out = s)
  srcsLt : ∀ s ∈ e.srcs, s < e.out

structure PlanOK (heap : List OpObj) (nodes : List ANode) (requested : List Nat) (plan : List XOp) : Prop where
  ops : ∀ e ∈ plan, XOpOK heap plan e
  sorted : (plan.map (·.out)).Pairwise (· > ·)
  req : ∀ r ∈ requested, isPrim heap r → ∃ x ∈ plan, x.out = r
  rootsNotMembers : ∀ e ∈ plan, ∀ x ∈ plan, e.out ∉ x.members
  nodesCovered : ∀ nd ∈ nodes, nd.lazy = true → nd.name ∉ plan.flatMap (·.members) → ∃ e ∈ plan, e.out = nd.name
  inNodes : ∀ e ∈ plan, ∃ nd ∈ nodes, nd.name = e.out

theorem sorted_out_inj {plan : List XOp} (h : (plan.map (·.out)).Pairwise (· > ·)) :
    ∀ e ∈ plan, ∀ x ∈ plan, e.out = x.out → e = x := by
  induction plan with
  | nil => intro e he; cases he
  | cons a rest ih =>
    simp only [List.map_cons, List.pairwise_cons, List.mem_map, forall_exists_index, and_imp,
      forall_apply_eq_imp_iff₂] at h
    obtain ⟨h1, h2⟩ := h
    intro e he x hx hex
    rcases List.mem_cons.mp he with rfl | he'
    · rcases List.mem_cons.mp hx with rfl | hx'
      · rfl
      · have := h1 x hx'; omega
    · rcases List.mem_cons.mp hx with rfl | hx'
      · have := h1 e he'; omega
      · exact ih h2 e he' x hx' hex

theorem xopOf_mem {plan : List XOp} {n : Nat} {e : XOp} (h : xopOf plan n = some e) : e ∈ plan ∧ e.out = n := by
  unfold xopOf at h
  refine ⟨List.mem_of_find?_eq_some h, ?_⟩
  have := List.find?_some h
  simpa using this

theorem xopOf_of_mem {plan : List XOp} (hs : (plan.map (·.out)).Pairwise (· > ·)) {e : XOp} (he : e ∈ plan) :
    xopOf plan e.out = some e := by
  cases hf : xopOf plan e.out with
  | none =>
    unfold xopOf at hf
    have := List.find?_eq_none.mp hf e he
    simp at this
  | some x =>
    obtain ⟨hx, hxo⟩ := xopOf_mem hf
    rw [sorted_out_inj hs x hx e he hxo]

theorem consumers_one {plan : List XOp} {s : Nat} (h : consumers plan s = 1) {e y : XOp}
    (he : e ∈ plan) (hy : y ∈ plan) (hes : s ∈ e.srcs) (hys : s ∈ y.srcs) : e = y := by
  unfold consumers at h
  have he' : e ∈ plan.filter (fun e => s ∈ e.srcs) := by simp [he, hes]
  have hy' : y ∈ plan.filter (fun e => s ∈ e.srcs) := by simp [hy, hys]
  generalize plan.filter (fun e => decide (s ∈ e.srcs)) = L at h he' hy'
  match L, h with
  | [z], _ =>
    simp at he' hy'
    rw [he', hy']

theorem canFuse_true {plan : List XOp} {s : Nat} (h : canFuse plan s = true) :
    ∃ p, xopOf plan s = some p ∧ p.fusable = true ∧ consumers plan s = 1 := by
  unfold canFuse at h
  cases hx : xopOf plan s with
  | none => simp [hx] at h
  | some p =>
    simp [hx] at h
    exact ⟨p, rfl, h.1, h.2⟩

theorem heap_sorted {heap : List OpObj} (h : HeapWF heap) : (heap.map (·.out)).Pairwise (· > ·) := by
  induction heap with
  | nil => simp
  | cons x rest ih =>
    obtain ⟨h1, _, h3⟩ := h
    simp only [List.map_cons, List.pairwise_cons, List.mem_map, forall_exists_index, and_imp,
      forall_apply_eq_imp_iff₂]
    refine ⟨fun o ho => ?_, ih h3⟩
    have := HeapWF.out_lt h3 o ho
    omega

theorem mem_basePlan {heap : List OpObj} {nodes : List ANode} {e : XOp} :
    e ∈ basePlan heap nodes ↔
      ∃ o ∈ heap, o.prim = true ∧ (∃ nd ∈ nodes, nd.name = o.out) ∧
        e = { out := o.out, members := [], reads := o.reads, srcs := o.srcs, fusable := o.fusable } := by
  unfold basePlan
  simp only [List.mem_map, List.mem_filter, Bool.and_eq_true, List.any_eq_true, beq_iff_eq]
  constructor
  · rintro ⟨o, ⟨ho, hp, nd, hnd, hn⟩, rfl⟩
    exact ⟨o, ho, hp, ⟨nd, hnd, hn⟩, rfl⟩
  · rintro ⟨o, ho, hp, ⟨nd, hnd, hn⟩, rfl⟩
    exact ⟨o, ⟨ho, hp, nd, hnd, hn⟩, rfl⟩

/-- The unoptimized plan of a merged dag is well-formed. -/
theorem basePlan_ok (heap : List OpObj) (nodes : List ANode) (requested : List Nat)
    (hw : HeapWF heap)
    (hreads : ∀ o ∈ heap, ∀ p ∈ o.reads, wlocOf heap p.1 = some p.2)
    (hcover : ∀ o ∈ heap, ∀ n ∈ o.srcs, ∃ l, rlookup o.reads n = some l)
    (hclosed : ∀ nd ∈ nodes, ∀ o, findOp heap nd.name = some o → ∀ n ∈ o.srcs, ∃ nd' ∈ nodes, nd'.name = n)
    (hlazy : ∀ nd ∈ nodes, ∀ o, findOp heap nd.name = some o → nd.lazy = o.prim)
    (hnames : ∀ nd ∈ nodes, nd.name < heap.length)
    (hreq : ∀ r ∈ requested, ∃ nd ∈ nodes, nd.name = r) :
    PlanOK heap nodes requested (basePlan heap nodes) := by
  refine ⟨?_, ?_, ?_, ?_, ?_, ?_⟩
  · intro e he
    obtain ⟨o, ho, hp, ⟨nd, hnd, hn⟩, rfl⟩ := mem_basePlan.mp he
    have hfo := findOp_of_mem hw o ho
    refine ⟨⟨o, hfo, hp⟩, ?_, hreads o ho, ?_, HeapWF.srcs_lt hw o ho⟩
    · intro m hm; cases hm
    · intro m hm o' ho' s hs _
      simp only [List.not_mem_nil, or_false] at hm
      subst hm
      rw [hfo] at ho'
      cases ho'
      refine ⟨hs, hcover o ho s hs, ?_⟩
      obtain ⟨nd', hnd', hn'⟩ := hclosed nd hnd o (hn ▸ hfo) s hs
      obtain ⟨os, hos⟩ := findOp_some_of_lt hw s (hn' ▸ hnames nd' hnd')
      by_cases hps : os.prim = true
      · right
        have hmem := (findOp_mem hos)
        refine ⟨{ out := os.out, members := [], reads := os.reads, srcs := os.srcs, fusable := os.fusable }, ?_, hmem.2⟩
        exact mem_basePlan.mpr ⟨os, hmem.1, hps, ⟨nd', hnd', hn'.trans hmem.2.symm⟩, rfl⟩
      · left
        exact ⟨os, hos, by simpa using hps⟩
  · have hs := heap_sorted hw
    unfold basePlan
    rw [List.map_map]
    have : ((fun o : OpObj => ({ out := o.out, members := [], reads := o.reads, srcs := o.srcs, fusable := o.fusable } : XOp).out)) = (fun o => o.out) := rfl
    exact List.Pairwise.sublist (List.Sublist.map _ List.filter_sublist) hs
  · intro r hr ⟨o, hfo, hp⟩
    obtain ⟨nd, hnd, hn⟩ := hreq r hr
    have hmem := findOp_mem hfo
    exact ⟨_, mem_basePlan.mpr ⟨o, hmem.1, hp, ⟨nd, hnd, hn.trans hmem.2.symm⟩, rfl⟩, hmem.2⟩
  · intro e he x hx
    obtain ⟨o, _, _, _, rfl⟩ := mem_basePlan.mp hx
    simp
  · intro nd hnd hl _
    obtain ⟨o, hfo⟩ := findOp_some_of_lt hw nd.name (hnames nd hnd)
    have hmem := findOp_mem hfo
    have hp : o.prim = true := by rw [← hlazy nd hnd o hfo]; exact hl
    exact ⟨_, mem_basePlan.mpr ⟨o, hmem.1, hp, ⟨nd, hnd, hmem.2.symm⟩, rfl⟩, hmem.2⟩
  · intro e he
    obtain ⟨o, _, _, ⟨nd, hnd, hn⟩, rfl⟩ := mem_basePlan.mp he
    exact ⟨nd, hnd, hn⟩

/-! ### one fusion step keeps the plan well-formed -/

theorem mem_predsOf {plan : List XOp} {e p : XOp} :
    p ∈ predsOf plan e ↔ ∃ s ∈ e.srcs, canFuse plan s = true ∧ xopOf plan s = some p := by
  unfold predsOf
  simp only [List.mem_filterMap, List.mem_filter]
  constructor
  · rintro ⟨s, ⟨hs, hc⟩, hx⟩; exact ⟨s, hs, hc, hx⟩
  · rintro ⟨s, hs, hc, hx⟩; exact ⟨s, ⟨hs, hc⟩, hx⟩

theorem mem_fused_members {plan : List XOp} {e : XOp} {m : Nat} :
    m ∈ (fusedXOp plan e).members ↔ m ∈ e.members ∨ ∃ p ∈ predsOf plan e, m = p.out ∨ m ∈ p.members := by
  unfold fusedXOp
  simp only [List.mem_append, List.mem_flatMap, List.mem_cons]

theorem mem_fused_reads {plan : List XOp} {e : XOp} {q : Nat × Loc} :
    q ∈ (fusedXOp plan e).reads ↔ q ∈ e.reads ∨ ∃ p ∈ predsOf plan e, q ∈ p.reads := by
  unfold fusedXOp
  simp only [List.mem_append, List.mem_flatMap, List.mem_reverse]
  constructor
  · rintro (h | h); exact Or.inr h; exact Or.inl h
  · rintro (h | h); exact Or.inr h; exact Or.inl h

theorem rlookup_some_of_segment {r : List (Nat × Loc)} {n : Nat} (h : ∃ l, (n, l) ∈ r) :
    ∃ l, rlookup r n = some l := by
  obtain ⟨l, hl⟩ := h
  exact rlookup_isSome_of_mem hl

theorem fuse_ok (heap : List OpObj) (nodes : List ANode) (requested : List Nat) (plan : List XOp) (e : XOp)
    (h : PlanOK heap nodes requested plan) (he : e ∈ plan) (hreq : ∀ s ∈ e.srcs, s ∉ requested) :
    PlanOK heap nodes requested
      ((plan.filter (fun x => !(canFuse plan x.out && e.srcs.contains x.out))).map
        (fun x => if x.out = e.out then fusedXOp plan e else x)) := by
  have hsorted := h.sorted
  have hE := h.ops e he
  -- the fused op keeps its name
  have hfo : (fusedXOp plan e).out = e.out := rfl
  have hrepl_out : ∀ y : XOp, (if y.out = e.out then fusedXOp plan e else y).out = y.out := by
    intro y; split
    · rename_i hy; rw [hfo, hy]
    · rfl
  -- membership in the new plan
  have hmem : ∀ x', x' ∈ (plan.filter (fun x => !(canFuse plan x.out && e.srcs.contains x.out))).map
        (fun x => if x.out = e.out then fusedXOp plan e else x) ↔
      ∃ y ∈ plan, (canFuse plan y.out = true → y.out ∉ e.srcs) ∧ (if y.out = e.out then fusedXOp plan e else y) = x' := by
    intro x'
    simp only [List.mem_map, List.mem_filter, Bool.not_eq_eq_eq_not, Bool.not_true, Bool.and_eq_false_imp,
      List.contains_eq_mem, decide_eq_false_iff_not]
    constructor
    · rintro ⟨y, ⟨hy, hk⟩, rfl⟩; exact ⟨y, hy, hk, rfl⟩
    · rintro ⟨y, hy, hk, rfl⟩; exact ⟨y, ⟨hy, hk⟩, rfl⟩
  -- absorbed ops
  have hpred : ∀ p ∈ predsOf plan e, p ∈ plan ∧ p.out ∈ e.srcs ∧ canFuse plan p.out = true := by
    intro p hp
    obtain ⟨s, hs, hc, hx⟩ := mem_predsOf.mp hp
    obtain ⟨hpm, hpo⟩ := xopOf_mem hx
    exact ⟨hpm, hpo ▸ hs, hpo ▸ hc⟩
  have hpred_of : ∀ y ∈ plan, canFuse plan y.out = true → y.out ∈ e.srcs → y ∈ predsOf plan e := by
    intro y hy hc hs
    exact mem_predsOf.mpr ⟨y.out, hs, hc, xopOf_of_mem hsorted hy⟩
  have hek : canFuse plan e.out = true → e.out ∉ e.srcs := by
    intro _ hs
    have := hE.srcsLt e.out hs
    omega
  -- availability of sources transfers to the new plan
  have avail : ∀ s, (isInput heap s ∨ ∃ x ∈ plan, x.out = s) → (canFuse plan s = true → s ∉ e.srcs) →
      (isInput heap s ∨ ∃ x ∈ (plan.filter (fun x => !(canFuse plan x.out && e.srcs.contains x.out))).map
        (fun x => if x.out = e.out then fusedXOp plan e else x), x.out = s) := by
    intro s hs hk
    rcases hs with hs | ⟨x, hx, hxs⟩
    · exact Or.inl hs
    · right
      refine ⟨_, (hmem _).mpr ⟨x, hx, ?_, rfl⟩, ?_⟩
      · rw [hxs]; exact hk
      · rw [hrepl_out, hxs]
  refine ⟨?_, ?_, ?_, ?_, ?_, ?_⟩
  · -- every op of the new plan is well-formed
    intro x' hx'
    obtain ⟨y, hy, hky, rfl⟩ := (hmem x').mp hx'
    have hY := h.ops y hy
    by_cases hye : y.out = e.out
    · -- the fused op
      have : y = e := sorted_out_inj hsorted y hy e he hye
      subst this
      simp only [if_true]
      refine ⟨hE.root, ?_, ?_, ?_, ?_⟩
      · intro m hm
        rcases mem_fused_members.mp hm with hm | ⟨p, hp, hm | hm⟩
        · exact hE.mem m hm
        · rw [hm]; exact (h.ops p (hpred p hp).1).root
        · exact (h.ops p (hpred p hp).1).mem m hm
      · intro q hq
        rcases mem_fused_reads.mp hq with hq | ⟨p, hp, hq⟩
        · exact hE.reads q hq
        · exact (h.ops p (hpred p hp).1).reads q hq
      · intro m hm o ho s hs hsm
        have hsm' : s ∉ y.members ∧ ∀ p ∈ predsOf plan y, s ≠ p.out ∧ s ∉ p.members := by
          constructor
          · intro hc; exact hsm (mem_fused_members.mpr (Or.inl hc))
          · intro p hp
            constructor
            · intro hc; exact hsm (mem_fused_members.mpr (Or.inr ⟨p, hp, Or.inl hc⟩))
            · intro hc; exact hsm (mem_fused_members.mpr (Or.inr ⟨p, hp, Or.inr hc⟩))
        -- which original op does `m` belong to?
        have hcase : (m = y.out ∨ m ∈ y.members) ∨ ∃ p ∈ predsOf plan y, m = p.out ∨ m ∈ p.members := by
          rcases hm with hm | hm
          · exact Or.inl (Or.inl hm)
          · rcases mem_fused_members.mp hm with hm | hm
            · exact Or.inl (Or.inr hm)
            · exact Or.inr hm
        rcases hcase with hm | ⟨p, hp, hm⟩
        · obtain ⟨h1, ⟨l, h2⟩, h3⟩ := hE.ext m hm o ho s hs hsm'.1
          have hncf : canFuse plan s = true → s ∉ y.srcs := by
            intro hc _
            obtain ⟨p, hxp, _, _⟩ := canFuse_true hc
            obtain ⟨hpm, hpo⟩ := xopOf_mem hxp
            exact (hsm'.2 p (hpred_of p hpm (hpo ▸ hc) (hpo ▸ h1))).1 hpo.symm
          refine ⟨?_, ?_, avail s h3 hncf⟩
          · unfold fusedXOp
            simp only [List.mem_flatMap]
            refine ⟨s, h1, ?_⟩
            have : canFuse plan s = false := by
              cases hc : canFuse plan s with
              | false => rfl
              | true => exact absurd h1 (hncf hc)
            simp [this]
          · apply rlookup_some_of_segment
            exact ⟨l, mem_fused_reads.mpr (Or.inl (rlookup_mem h2))⟩
        · obtain ⟨hpm, hpo, hpc⟩ := hpred p hp
          have hP := h.ops p hpm
          obtain ⟨h1, ⟨l, h2⟩, h3⟩ := hP.ext m hm o ho s hs (hsm'.2 p hp).2
          have hncf : canFuse plan s = true → s ∉ y.srcs := by
            intro hc hsy
            obtain ⟨p', hxp, _, _⟩ := canFuse_true hc
            obtain ⟨hpm', hpo'⟩ := xopOf_mem hxp
            exact (hsm'.2 p' (hpred_of p' hpm' (hpo' ▸ hc) (hpo' ▸ hsy))).1 hpo'.symm
          refine ⟨?_, ?_, avail s h3 hncf⟩
          · unfold fusedXOp
            simp only [List.mem_flatMap]
            refine ⟨p.out, hpo, ?_⟩
            simp [hpc, xopOf_of_mem hsorted hpm, h1]
          · apply rlookup_some_of_segment
            exact ⟨l, mem_fused_reads.mpr (Or.inr ⟨p, hp, rlookup_mem h2⟩)⟩
      · intro s hs
        unfold fusedXOp at hs
        simp only [List.mem_flatMap] at hs
        obtain ⟨s0, hs0, hs⟩ := hs
        have hlt0 := hE.srcsLt s0 hs0
        rw [hfo]
        by_cases hc : canFuse plan s0 = true
        · obtain ⟨p, hxp, _, _⟩ := canFuse_true hc
          obtain ⟨hpm, hpo⟩ := xopOf_mem hxp
          simp [hc, hxp] at hs
          have := (h.ops p hpm).srcsLt s hs
          omega
        · simp [hc] at hs
          omega
    · -- an op that is kept as it is
      simp only [hye, if_false]
      refine ⟨hY.root, hY.mem, hY.reads, ?_, hY.srcsLt⟩
      intro m hm o ho s hs hsm
      obtain ⟨h1, h2, h3⟩ := hY.ext m hm o ho s hs hsm
      refine ⟨h1, h2, avail s h3 ?_⟩
      intro hc hse
      obtain ⟨_, _, _, hone⟩ := canFuse_true hc
      exact hye (congrArg XOp.out (consumers_one hone hy he h1 hse))
  · -- order
    rw [List.map_map]
    have hfun : ((fun x : XOp => x.out) ∘ fun x => if x.out = e.out then fusedXOp plan e else x) = fun x => x.out := by
      funext y; exact hrepl_out y
    rw [hfun]
    exact List.Pairwise.sublist (List.Sublist.map _ List.filter_sublist) hsorted
  · -- requested arrays are still produced
    intro r hr hp
    obtain ⟨x, hx, hxr⟩ := h.req r hr hp
    refine ⟨_, (hmem _).mpr ⟨x, hx, ?_, rfl⟩, ?_⟩
    · intro _ hs
      exact hreq x.out hs (hxr ▸ hr)
    · rw [hrepl_out, hxr]
  · -- roots are not members
    intro a' ha' b' hb'
    obtain ⟨a, ha, _, rfl⟩ := (hmem a').mp ha'
    obtain ⟨b, hb, _, rfl⟩ := (hmem b').mp hb'
    rw [hrepl_out]
    by_cases hbe : b.out = e.out
    · simp only [hbe, if_true]
      intro hm
      rcases mem_fused_members.mp hm with hm | ⟨p, hp, hm | hm⟩
      · exact h.rootsNotMembers a ha e he hm
      · have hap : a = p := sorted_out_inj hsorted a ha p (hpred p hp).1 hm
        subst hap
        obtain ⟨y, hy, hky, hrep⟩ := (hmem _).mp ha'
        have hya : y = a := by
          apply sorted_out_inj hsorted y hy a ha
          have := congrArg XOp.out hrep
          rw [hrepl_out, hrepl_out] at this
          exact this
        subst hya
        exact hky (hpred y hp).2.2 (hpred y hp).2.1
      · exact h.rootsNotMembers a ha p (hpred p hp).1 hm
    · simp only [hbe, if_false]
      exact h.rootsNotMembers a ha b hb
  · -- lazy nodes that are not fused away still have an op
    intro nd hnd hl hnf
    have hnf' : nd.name ∉ plan.flatMap (·.members) := by
      intro hc
      simp only [List.mem_flatMap] at hc
      obtain ⟨x, hx, hxm⟩ := hc
      apply hnf
      simp only [List.mem_flatMap]
      by_cases hk : canFuse plan x.out = true → x.out ∉ e.srcs
      · refine ⟨_, (hmem _).mpr ⟨x, hx, hk, rfl⟩, ?_⟩
        split
        · rename_i hxe
          have : x = e := sorted_out_inj hsorted x hx e he hxe
          exact mem_fused_members.mpr (Or.inl (this ▸ hxm))
        · exact hxm
      · have hk' : canFuse plan x.out = true ∧ x.out ∈ e.srcs := by
          by_cases h1 : canFuse plan x.out = true
          · by_cases h2 : x.out ∈ e.srcs
            · exact ⟨h1, h2⟩
            · exact absurd (fun _ => h2) hk
          · exact absurd (fun hc => absurd hc h1) hk
        refine ⟨_, (hmem _).mpr ⟨e, he, hek, rfl⟩, ?_⟩
        simp only [if_true]
        exact mem_fused_members.mpr (Or.inr ⟨x, hpred_of x hx hk'.1 hk'.2, Or.inr hxm⟩)
    obtain ⟨x, hx, hxn⟩ := h.nodesCovered nd hnd hl hnf'
    refine ⟨_, (hmem _).mpr ⟨x, hx, ?_, rfl⟩, ?_⟩
    · intro hc hs
      apply hnf
      simp only [List.mem_flatMap]
      refine ⟨_, (hmem _).mpr ⟨e, he, hek, rfl⟩, ?_⟩
      simp only [if_true]
      exact mem_fused_members.mpr (Or.inr ⟨x, hpred_of x hx hc hs, Or.inl hxn.symm⟩)
    · rw [hrepl_out, hxn]
  · intro x' hx'
    obtain ⟨y, hy, _, rfl⟩ := (hmem x').mp hx'
    rw [hrepl_out]
    exact h.inNodes y hy

theorem fuseStep_ok (soft : List OpObj → List XOp → Nat → Bool) (heap : List OpObj) (nodes : List ANode)
    (requested : List Nat) (plan : List XOp) (n : Nat) (h : PlanOK heap nodes requested plan) :
    PlanOK heap nodes requested (fuseStep soft heap requested plan n) := by
  unfold fuseStep
  cases hx : xopOf plan n with
  | none => exact h
  | some e =>
    cases ho : findOp heap n with
    | none => exact h
    | some o =>
      simp only
      split
      · rename_i hc
        simp only [Bool.and_eq_true, Bool.not_eq_eq_eq_not, Bool.not_true, List.any_eq_false,
          decide_eq_true_eq] at hc
        exact fuse_ok heap nodes requested plan e h (xopOf_mem hx).1 hc.1.2
      · exact h

/-- Any number of fusion steps, with any size-limit policy, keeps the plan well-formed. -/
theorem optimize_ok (soft : List OpObj → List XOp → Nat → Bool) (heap : List OpObj) (nodes : List ANode)
    (requested : List Nat) (plan : List XOp) (h : PlanOK heap nodes requested plan) :
    PlanOK heap nodes requested (optimize soft heap requested plan) := by
  unfold optimize
  generalize (plan.map (·.out)).reverse = names
  induction names generalizing plan with
  | nil => exact h
  | cons n rest ih =>
    simp only [List.foldl_cons]
    exact ih _ (fuseStep_ok soft heap nodes requested plan n h)

/-! ### create-arrays -/

theorem createAll_frame (nodes : List ANode) (σ : Store) (l : Loc) :
    createAll nodes σ l = σ l ∨
      (σ l = none ∧ createAll nodes σ l = some Val.fill ∧ ∃ nd ∈ nodes, nd.lazy = true ∧ nd.target = l) := by
  induction nodes with
  | nil => exact Or.inl rfl
  | cons nd rest ih =>
    simp only [createAll]
    by_cases hl : nd.lazy = true
    · simp only [hl, if_true]
      cases hm : createAll rest σ nd.target with
      | some v =>
        simp only []
        rcases ih with h | ⟨h1, h2, nd', hnd', h3⟩
        · exact Or.inl h
        · exact Or.inr ⟨h1, h2, nd', List.mem_cons_of_mem _ hnd', h3⟩
      | none =>
        simp only []
        unfold Store.set
        by_cases hll : l = nd.target
        · subst hll
          rcases ih with h | ⟨h1, _, _⟩
          · right
            exact ⟨by rw [← h]; exact hm, by simp, nd, by simp, hl, rfl⟩
          · right
            exact ⟨h1, by simp, nd, by simp, hl, rfl⟩
        · simp only [hll, if_false]
          rcases ih with h | ⟨h1, h2, nd', hnd', h3⟩
          · exact Or.inl h
          · exact Or.inr ⟨h1, h2, nd', List.mem_cons_of_mem _ hnd', h3⟩
    · simp only [hl]
      rcases ih with h | ⟨h1, h2, nd', hnd', h3⟩
      · exact Or.inl h
      · exact Or.inr ⟨h1, h2, nd', List.mem_cons_of_mem _ hnd', h3⟩

theorem createAll_isSome_mono (nodes : List ANode) (σ : Store) (l : Loc) (h : (σ l).isSome) :
    (createAll nodes σ l).isSome := by
  rcases createAll_frame nodes σ l with h1 | ⟨h1, _, _⟩
  · rw [h1]; exact h
  · rw [h1] at h; cases h

theorem createAll_created (nodes : List ANode) (σ : Store) :
    ∀ nd ∈ nodes, nd.lazy = true → (createAll nodes σ nd.target).isSome := by
  induction nodes with
  | nil => intro nd h; cases h
  | cons x rest ih =>
    intro nd hnd hl
    simp only [createAll]
    rcases List.mem_cons.mp hnd with rfl | hnd'
    · simp only [hl, if_true]
      cases hm : createAll rest σ nd.target with
      | some v => simp only []; rw [hm]; rfl
      | none => simp only []; unfold Store.set; simp
    · have := ih nd hnd' hl
      by_cases hxl : x.lazy = true
      · simp only [hxl, if_true]
        cases hm : createAll rest σ x.target with
        | some v => simp only []; exact this
        | none =>
          simp only []
          unfold Store.set
          by_cases hll : nd.target = x.target
          · simp [hll]
          · simp only [hll, if_false]; exact this
      · simp only [hxl]; exact this

/-! ### running a well-formed plan -/

theorem wlocOf_eq_some {heap : List OpObj} {n : Nat} {l : Loc} :
    wlocOf heap n = some l ↔ ∃ o, findOp heap n = some o ∧ o.wloc = l := by
  unfold wlocOf
  cases findOp heap n with
  | none => simp
  | some o => simp

/-- Store contents while a computation runs: whatever an op's location holds is either nothing yet
(`fill`) or the value the op's output was built to have; inputs hold data. -/
structure StoreMid (heap : List OpObj) (σ : Store) : Prop where
  holds : ∀ o ∈ heap, ∀ v, σ o.wloc = some v → v = Val.fill ∨ denote heap o.out = some v
  inputs : ∀ o ∈ heap, o.prim = false → ∃ v, σ o.wloc = some v ∧ v.isData = true

theorem execPlan_ok (heap : List OpObj) (nodes : List ANode) (requested : List Nat) (plan : List XOp)
    (skip : Nat → Bool) (hw : HeapWF heap) (hinj : WlocInj heap) (hp : PlanOK heap nodes requested plan)
    (σ : Store) (hσ : StoreMid heap σ)
    (hcreated : ∀ e ∈ plan, ∀ l, wlocOf heap e.out = some l → (σ l).isSome)
    (hskip : ∀ e ∈ plan, skip e.out = true → ∀ l, wlocOf heap e.out = some l → ∃ v, σ l = some v ∧ v.isData = true) :
    ∀ es, (∃ pre, plan = pre ++ es) →
      ∃ σ', execPlan heap skip es σ = some σ' ∧ StoreMid heap σ' ∧
        (∀ e ∈ es, ∀ l, wlocOf heap e.out = some l → ∃ v, denote heap e.out = some v ∧ σ' l = some v) ∧
        (∀ l, σ' l = σ l ∨ ∃ e ∈ es, wlocOf heap e.out = some l ∧ ∃ v, denote heap e.out = some v ∧ σ' l = some v) := by
  intro es
  induction es with
  | nil =>
    intro _
    exact ⟨σ, rfl, hσ, fun _ he => (List.not_mem_nil he).elim, fun l => Or.inl rfl⟩
  | cons e es' ih =>
    rintro ⟨pre, hpre⟩
    obtain ⟨σ1, hex, hmid, hdone, hframe⟩ := ih ⟨pre ++ [e], by rw [hpre]; simp⟩
    have he : e ∈ plan := by rw [hpre]; simp
    have hE := hp.ops e he
    obtain ⟨oe, hfoe, hpe⟩ := hE.root
    have hwe : wlocOf heap e.out = some oe.wloc := wlocOf_eq_some.mpr ⟨oe, hfoe, rfl⟩
    have hoe_mem := (findOp_mem hfoe).1
    have hoe_out := (findOp_mem hfoe).2
    obtain ⟨ve, hve⟩ := denote_total hw e.out (findOp_lt hw hfoe)
    -- the location of `e` exists in σ1
    have hsome1 : (σ1 oe.wloc).isSome := by
      rcases hframe oe.wloc with h1 | ⟨_, _, _, v, _, h1⟩
      · rw [h1]; exact hcreated e he _ hwe
      · rw [h1]; rfl
    simp only [execPlan, hex]
    by_cases hsk : skip e.out = true
    · -- resume: the op is skipped, its location already holds the value
      simp only [hsk, if_true]
      refine ⟨σ1, rfl, hmid, ?_, ?_⟩
      · intro x hx l hl
        rcases List.mem_cons.mp hx with rfl | hx'
        · rw [hwe] at hl; cases hl
          obtain ⟨v, hv, hvd⟩ := hskip x he hsk _ hwe
          rcases hframe oe.wloc with h1 | ⟨x', hx', hwx', v', hv', h1⟩
          · rw [h1, hv]
            rcases hσ.holds oe hoe_mem v hv with hf | hd
            · rw [hf] at hvd; cases hvd
            · rw [hoe_out] at hd; exact ⟨v, hd, rfl⟩
          · obtain ⟨ox, hfox, hwx⟩ := wlocOf_eq_some.mp hwx'
            obtain ⟨oxr, hfoxr, hpx⟩ := (hp.ops x' (by rw [hpre]; simp [hx'])).root
            rw [hfox] at hfoxr; cases hfoxr
            have := hinj ox (findOp_mem hfox).1 oe hoe_mem hpx hpe hwx
            rw [(findOp_mem hfox).2, hoe_out] at this
            rw [this] at hv'
            exact ⟨v', hv', h1⟩
        · exact hdone x hx' l hl
      · intro l
        rcases hframe l with h1 | ⟨x, hx, h2⟩
        · exact Or.inl h1
        · exact Or.inr ⟨x, List.mem_cons_of_mem _ hx, h2⟩
    · -- the op runs
      simp only [hsk]
      have heval : evalFused e.members e.reads σ1 heap e.out = some ve := by
        rw [← hve]
        apply evalFused_eq_denote e.members e.reads σ1 e.out heap hw _ e.out (Or.inr rfl)
        intro o ho hom
        have hfo := findOp_of_mem hw o ho
        constructor
        · rcases hom with hom | hom
          · obtain ⟨o', hfo', hp'⟩ := hE.mem _ hom
            rw [hfo] at hfo'; cases hfo'; exact hp'
          · rw [hom, hfoe] at hfo; cases hfo; exact hpe
        · intro s hs hsm
          obtain ⟨hsrc, ⟨l, hl⟩, hav⟩ := hE.ext o.out (hom.symm) o hfo s hs hsm
          have hws := hE.reads (s, l) (rlookup_mem hl)
          obtain ⟨os, hfos, hwos⟩ := wlocOf_eq_some.mp hws
          have hwos : os.wloc = l := hwos
          simp only [hl, Option.bind]
          rcases hav with ⟨os', hfos', hnp⟩ | ⟨x, hx, hxs⟩
          · rw [hfos] at hfos'; cases hfos'
            obtain ⟨v, hv, hvd⟩ := hmid.inputs os (findOp_mem hfos).1 hnp
            rw [← hwos, hv]
            rcases hmid.holds os (findOp_mem hfos).1 v hv with hf | hd
            · rw [hf] at hvd; cases hvd
            · rw [(findOp_mem hfos).2] at hd; exact hd.symm
          · have hlt := hE.srcsLt s hsrc
            have hx' : x ∈ es' := by
              rw [hpre] at hx
              rcases List.mem_append.mp hx with hx1 | hx1
              · exfalso
                have hs := hp.sorted
                rw [hpre, List.map_append, List.pairwise_append] at hs
                have := hs.2.2 x.out (List.mem_map_of_mem hx1) e.out (by simp)
                omega
              · rcases List.mem_cons.mp hx1 with rfl | hx2
                · omega
                · exact hx2
            obtain ⟨v, hv, hv'⟩ := hdone x hx' l (hxs ▸ hws)
            rw [hv', ← hxs, hv]
      simp only [hfoe, heval]
      have hs1 : (σ1 oe.wloc).isSome = true := hsome1
      simp only [hs1, if_true]
      have hvd : ve.isData = true := denote_prim_isData hfoe hpe hve
      refine ⟨σ1.set oe.wloc ve, by simp, ⟨?_, ?_⟩, ?_, ?_⟩
      · intro o ho v hv
        unfold Store.set at hv
        by_cases hl : o.wloc = oe.wloc
        · simp only [hl, if_true] at hv
          cases hv
          right
          by_cases hpo : o.prim = true
          · rw [hinj o ho oe hoe_mem hpo hpe hl, hoe_out]; exact hve
          · obtain ⟨w, hw1, hwd⟩ := hmid.inputs o ho (by simpa using hpo)
            rcases hmid.holds o ho w hw1 with hf | hd
            · rw [hf] at hwd; cases hwd
            · rw [hl] at hw1
              rcases hmid.holds oe hoe_mem w hw1 with hf | hd'
              · rw [hf] at hwd; cases hwd
              · rw [hoe_out, hve] at hd'
                cases hd'
                exact hd
        · simp only [hl, if_false] at hv
          exact hmid.holds o ho v hv
      · intro o ho hnp
        unfold Store.set
        by_cases hl : o.wloc = oe.wloc
        · exact ⟨ve, by simp [hl], hvd⟩
        · simp only [hl, if_false]
          exact hmid.inputs o ho hnp
      · intro x hx l hl
        unfold Store.set
        by_cases hll : l = oe.wloc
        · simp only [hll, if_true]
          rcases List.mem_cons.mp hx with rfl | hx'
          · exact ⟨ve, hve, rfl⟩
          · obtain ⟨ox, hfox, hwx⟩ := wlocOf_eq_some.mp hl
            obtain ⟨oxr, hfoxr, hpx⟩ := (hp.ops x (by rw [hpre]; simp [hx'])).root
            rw [hfox] at hfoxr; cases hfoxr
            have := hinj ox (findOp_mem hfox).1 oe hoe_mem hpx hpe (hwx.trans hll)
            rw [(findOp_mem hfox).2, hoe_out] at this
            rw [this]
            exact ⟨ve, hve, rfl⟩
        · simp only [hll, if_false]
          rcases List.mem_cons.mp hx with rfl | hx'
          · rw [hwe] at hl; cases hl; exact absurd rfl hll
          · exact hdone x hx' l hl
      · intro l
        unfold Store.set
        by_cases hll : l = oe.wloc
        · right
          exact ⟨e, by simp, hll ▸ hwe, ve, hve, by simp [hll]⟩
        · simp only [hll, if_false]
          rcases hframe l with h1 | ⟨x, hx, h2⟩
          · exact Or.inl h1
          · exact Or.inr ⟨x, List.mem_cons_of_mem _ hx, h2⟩

/-! ### `compute` in a state that satisfies the invariant -/

theorem mem_of_mapOpt_getElem? {arrs : List Arr} {idxs : List Nat} {as : List Arr}
    (h : mapOpt (fun i => arrs[i]?) idxs = some as) : ∀ a ∈ as, a ∈ arrs := by
  intro a ha
  obtain ⟨i, _, hi⟩ := mapOpt_mem_result _ _ _ h a ha
  exact List.mem_of_getElem? hi

theorem finalize_ok (soft : List OpObj → List XOp → Nat → Bool) (s : State) (hi : Inv s) (as : List Arr)
    (has : ∀ a ∈ as, a ∈ s.arrs) (opt : Bool) :
    PlanOK s.heap (finalize soft s.heap as opt).nodes (as.map (·.name)) (finalize soft s.heap as opt).plan ∧
    (∀ nd ∈ (finalize soft s.heap as opt).nodes, wlocOf s.heap nd.name = some nd.target) ∧
    (∀ nd ∈ (finalize soft s.heap as opt).nodes, ∀ o, findOp s.heap nd.name = some o → nd.lazy = o.prim) := by
  have hnodes : ∀ nd ∈ compose (as.map (·.dag)), ∃ a ∈ s.arrs, nd ∈ a.dag ∧ a ∈ as := by
    intro nd hnd
    obtain ⟨d, hd, hndd⟩ := mem_compose hnd
    simp only [List.mem_map] at hd
    obtain ⟨a, ha, rfl⟩ := hd
    exact ⟨a, has a ha, hndd, ha⟩
  have hbase : PlanOK s.heap (compose (as.map (·.dag))) (as.map (·.name)) (basePlan s.heap (compose (as.map (·.dag)))) := by
    apply basePlan_ok _ _ _ hi.wf.heap hi.linked.reads hi.wf.readsCover
    · intro nd hnd o ho n hn
      obtain ⟨a, ha, hnda, haas⟩ := hnodes nd hnd
      obtain ⟨nd', hnd', hn'⟩ := hi.wf.dagClosed a ha nd hnda o ho n hn
      obtain ⟨x, hx, hxn⟩ := name_mem_compose (ds := as.map (·.dag)) (List.mem_map_of_mem haas) hnd'
      exact ⟨x, hx, hxn.trans hn'⟩
    · intro nd hnd o ho
      obtain ⟨a, ha, hnda, _⟩ := hnodes nd hnd
      exact hi.wf.dagLazy a ha nd hnda o ho
    · intro nd hnd
      obtain ⟨a, ha, hnda, _⟩ := hnodes nd hnd
      exact hi.wf.dagName a ha nd hnda
    · intro r hr
      simp only [List.mem_map] at hr
      obtain ⟨a, haas, rfl⟩ := hr
      obtain ⟨nd, hnd, hn⟩ := hi.wf.dagSelf a (has a haas)
      obtain ⟨x, hx, hxn⟩ := name_mem_compose (ds := as.map (·.dag)) (List.mem_map_of_mem haas) hnd
      exact ⟨x, hx, hxn.trans hn⟩
  refine ⟨?_, ?_, ?_⟩
  · unfold finalize
    simp only
    cases opt with
    | true => exact optimize_ok soft s.heap _ _ _ hbase
    | false => exact hbase
  · intro nd hnd
    obtain ⟨a, ha, hnda, _⟩ := hnodes nd hnd
    exact hi.linked.nodes a ha nd hnda
  · intro nd hnd o ho
    obtain ⟨a, ha, hnda, _⟩ := hnodes nd hnd
    exact hi.wf.dagLazy a ha nd hnda o ho

/-- In a state satisfying the invariant, `compute` of any arrays (optimized or not, resuming or not, any
fusion size policy) succeeds, returns exactly the values the arrays were built to have, changes no
existing content of any location, and re-establishes the store invariant. -/
theorem compute_ok (soft : List OpObj → List XOp → Nat → Bool) (s : State) (hi : Inv s) (idxs : List Nat)
    (opt resume : Bool) (as : List Arr) (has : mapOpt (fun i => s.arrs[i]?) idxs = some as)
    (hne : as.isEmpty = false) :
    ∃ s' vs, s.compute soft idxs opt resume = some (s', vs) ∧
      mapOpt (fun a => denote s.heap a.name) as = some vs ∧
      s'.heap = s.heap ∧ s'.arrs = s.arrs ∧ s'.used = s.used ∧ StoreOK s' ∧
      (∀ l v, s.store l = some v → s'.store l = some v) := by
  have hmem := mem_of_mapOpt_getElem? has
  obtain ⟨hplan, hnt, hnl⟩ := finalize_ok soft s hi as hmem opt
  have hw := hi.wf.heap
  -- abbreviations
  generalize hf : finalize soft s.heap as opt = f at hplan hnt hnl
  have hcr : f.created = f.nodes.filter (fun nd => !((f.plan.flatMap (·.members)).contains nd.name)) := by
    rw [← hf]; rfl
  -- the store after create-arrays
  have hframe1 := createAll_frame f.created s.store
  have hmid1 : StoreMid s.heap (createAll f.created s.store) := by
    constructor
    · intro o ho v hv
      rcases hframe1 o.wloc with h1 | ⟨_, h2, _⟩
      · rw [h1] at hv; exact Or.inr (hi.store.holds o ho v hv)
      · rw [h2] at hv; cases hv; exact Or.inl rfl
    · intro o ho hnp
      have hsome := hi.store.inputs o ho hnp
      cases hv : s.store o.wloc with
      | none => rw [hv] at hsome; cases hsome
      | some v =>
        rcases hframe1 o.wloc with h1 | ⟨h1, _, _⟩
        · exact ⟨v, by rw [h1, hv], hi.store.noFill _ _ hv⟩
        · rw [hv] at h1; cases h1
  have hcreated : ∀ e ∈ f.plan, ∀ l, wlocOf s.heap e.out = some l → (createAll f.created s.store l).isSome := by
    intro e he l hl
    obtain ⟨nd, hnd, hn⟩ := hplan.inNodes e he
    have ht := hnt nd hnd
    rw [hn, hl] at ht
    cases ht
    obtain ⟨o, hfo, hp⟩ := (hplan.ops e he).root
    have hlz : nd.lazy = true := by rw [hnl nd hnd o (hn ▸ hfo)]; exact hp
    apply createAll_created f.created s.store nd _ hlz
    rw [hcr]
    simp only [List.mem_filter, hnd, true_and, Bool.not_eq_eq_eq_not, Bool.not_true, List.contains_eq_mem,
      decide_eq_false_iff_not, List.mem_flatMap, not_exists, not_and]
    intro x hx
    rw [hn]
    exact hplan.rootsNotMembers e he x hx
  have hskip : ∀ e ∈ f.plan, skipOf resume f.nodes s.store e.out = true → ∀ l, wlocOf s.heap e.out = some l →
      ∃ v, createAll f.created s.store l = some v ∧ v.isData = true := by
    intro e he hsk l hl
    unfold skipOf at hsk
    simp only [Bool.and_eq_true] at hsk
    obtain ⟨_, hsk⟩ := hsk
    cases hno : nodeOf f.nodes e.out with
    | none => rw [hno] at hsk; cases hsk
    | some nd =>
      rw [hno] at hsk
      simp only at hsk
      have hnd : nd ∈ f.nodes := List.mem_of_find?_eq_some hno
      have hn : nd.name = e.out := by
        have := List.find?_some hno
        simpa using this
      have ht := hnt nd hnd
      rw [hn, hl] at ht
      cases ht
      cases hv : s.store nd.target with
      | none => rw [hv] at hsk; cases hsk
      | some v =>
        rw [hv] at hsk
        simp only at hsk
        rcases hframe1 nd.target with h1 | ⟨h1, _, _⟩
        · exact ⟨v, by rw [h1, hv], hsk⟩
        · rw [hv] at h1; cases h1
  obtain ⟨σ2, hex, hmid2, hdone, hframe2⟩ :=
    execPlan_ok s.heap f.nodes (as.map (·.name)) f.plan (skipOf resume f.nodes s.store) hw hi.wf.wlocInj hplan
      (createAll f.created s.store) hmid1 hcreated hskip f.plan ⟨[], rfl⟩
  -- no location is left created-but-empty
  have hnofill : ∀ l v, σ2 l = some v → v.isData = true := by
    intro l v hv
    rcases hframe2 l with h2 | ⟨e, he, hwl, v', hv', h2⟩
    · rw [h2] at hv
      rcases hframe1 l with h1 | ⟨_, _, nd, hnd, hlz, htg⟩
      · rw [h1] at hv; exact hi.store.noFill l v hv
      · rw [hcr] at hnd
        simp only [List.mem_filter, Bool.not_eq_eq_eq_not, Bool.not_true, List.contains_eq_mem,
          decide_eq_false_iff_not] at hnd
        obtain ⟨e, he, hen⟩ := hplan.nodesCovered nd hnd.1 hlz hnd.2
        have hwl : wlocOf s.heap e.out = some l := by rw [hen, ← htg]; exact hnt nd hnd.1
        obtain ⟨v', hv', hs2⟩ := hdone e he l hwl
        rw [← h2, hs2] at hv
        cases hv
        obtain ⟨o, hfo, hp⟩ := (hplan.ops e he).root
        exact denote_prim_isData hfo hp hv'
    · rw [h2] at hv; cases hv
      obtain ⟨o, hfo, hp⟩ := (hplan.ops e he).root
      exact denote_prim_isData hfo hp hv'
  -- every location that is new in σ2 is the write location of some op
  have hnew : ∀ l v, σ2 l = some v → s.store l = none → ∃ o ∈ s.heap, o.wloc = l := by
    intro l v hv hnone
    rcases hframe2 l with h2 | ⟨e, he, hwl, _⟩
    · rw [h2] at hv
      rcases hframe1 l with h1 | ⟨_, _, nd, hnd, _, htg⟩
      · rw [h1, hnone] at hv; cases hv
      · rw [hcr] at hnd
        simp only [List.mem_filter] at hnd
        obtain ⟨o, hfo, hwo⟩ := wlocOf_eq_some.mp (hnt nd hnd.1)
        exact ⟨o, (findOp_mem hfo).1, hwo.trans htg⟩
    · obtain ⟨o, hfo, hwo⟩ := wlocOf_eq_some.mp hwl
      exact ⟨o, (findOp_mem hfo).1, hwo⟩
  have hintact : ∀ l v, s.store l = some v → σ2 l = some v := by
    intro l v hv
    have h1 : createAll f.created s.store l = some v := by
      rcases hframe1 l with h1 | ⟨h1, _, _⟩
      · rw [h1, hv]
      · rw [hv] at h1; cases h1
    rcases hframe2 l with h2 | ⟨e, he, hwl, v', hv', h2⟩
    · rw [h2, h1]
    · obtain ⟨o, hfo, hwo⟩ := wlocOf_eq_some.mp hwl
      have := hi.store.holds o (findOp_mem hfo).1 v (by rw [hwo]; exact hv)
      rw [(findOp_mem hfo).2, hv'] at this
      cases this
      exact h2
  -- the values read back
  have hvals : ∀ a ∈ as, σ2 a.zloc = denote s.heap a.name := by
    intro a ha
    have hself := hi.linked.self a (hmem a ha)
    obtain ⟨o, hfo, hwo⟩ := wlocOf_eq_some.mp hself
    by_cases hp : o.prim = true
    · obtain ⟨x, hx, hxo⟩ := hplan.req a.name (List.mem_map_of_mem ha) ⟨o, hfo, hp⟩
      obtain ⟨v, hv, hs2⟩ := hdone x hx a.zloc (hxo ▸ hself)
      rw [hs2, ← hxo, hv]
    · obtain ⟨v, hv, hvd⟩ := hmid2.inputs o (findOp_mem hfo).1 (by simpa using hp)
      rcases hmid2.holds o (findOp_mem hfo).1 v hv with hfl | hd
      · rw [hfl] at hvd; cases hvd
      · rw [← hwo, hv, ← (findOp_mem hfo).2, hd]
  obtain ⟨vs, hvs⟩ := mapOpt_some_of_forall (fun a : Arr => denote s.heap a.name) as
    (fun a ha => denote_total hw a.name (hi.wf.arrName a (hmem a ha)))
  have hvs2 : mapOpt (fun a => σ2 a.zloc) as = some vs := by
    rw [← hvs]; exact mapOpt_congr _ _ _ hvals
  refine ⟨{ s with store := σ2 }, vs, ?_, hvs, rfl, rfl, rfl, ?_, hintact⟩
  · unfold State.compute
    simp only [has, hne, hf, hex, hvs2]
    rfl
  · constructor
    · intro o ho v hv
      rcases hmid2.holds o ho v hv with hfl | hd
      · have := hnofill _ _ hv; rw [hfl] at this; cases this
      · exact hd
    · intro o ho hnp
      obtain ⟨v, hv, _⟩ := hmid2.inputs o ho hnp
      show (σ2 o.wloc).isSome = true
      rw [hv]; rfl
    · exact hnofill
    · intro n v hv
      show n < s.heap.length
      cases hold : s.store (.inter n) with
      | some v0 => exact hi.store.interUsed n v0 hold
      | none =>
        obtain ⟨o, ho, hwo⟩ := hnew _ _ hv hold
        have hlt := HeapWF.out_lt hw o ho
        by_cases hp : o.prim = true
        · rcases (hi.wf.wlocs o ho).1 hp with h1 | ⟨t, _, h1⟩
          · rw [h1] at hwo; cases hwo; exact hlt
          · rw [h1] at hwo; cases hwo
        · rcases (hi.wf.wlocs o ho).2 (by simpa using hp) with h1 | ⟨t, _, h1⟩
          · rw [h1] at hwo; cases hwo
          · rw [h1] at hwo; cases hwo
    · intro n v hv
      show n < s.heap.length
      cases hold : s.store (.ext n) with
      | some v0 => exact hi.store.extUsed n v0 hold
      | none =>
        obtain ⟨o, ho, hwo⟩ := hnew _ _ hv hold
        have hlt := HeapWF.out_lt hw o ho
        by_cases hp : o.prim = true
        · rcases (hi.wf.wlocs o ho).1 hp with h1 | ⟨t, _, h1⟩
          · rw [h1] at hwo; cases hwo
          · rw [h1] at hwo; cases hwo
        · rcases (hi.wf.wlocs o ho).2 (by simpa using hp) with h1 | ⟨t, _, h1⟩
          · rw [h1] at hwo; cases hwo; exact hlt
          · rw [h1] at hwo; cases hwo
    · intro t v hv
      show t ∈ s.used
      cases hold : s.store (.target t) with
      | some v0 => exact hi.store.targetUsed t v0 hold
      | none =>
        obtain ⟨o, ho, hwo⟩ := hnew _ _ hv hold
        by_cases hp : o.prim = true
        · rcases (hi.wf.wlocs o ho).1 hp with h1 | ⟨t', ht', h1⟩
          · rw [h1] at hwo; cases hwo
          · rw [h1] at hwo; cases hwo; exact ht'
        · rcases (hi.wf.wlocs o ho).2 (by simpa using hp) with h1 | ⟨t', ht', h1⟩
          · rw [h1] at hwo; cases hwo
          · rw [h1] at hwo; cases hwo; exact ht'

/-! ### building a new array keeps the invariant -/

theorem hasDependants_cons (o : OpObj) (heap : List OpObj) (n : Nat) (h : hasDependants heap n = true) :
    hasDependants (o :: heap) n = true := by
  unfold hasDependants at *
  simp only [List.any_cons, Bool.or_eq_true]
  exact Or.inr h

theorem hasDependants_of_src (o : OpObj) (heap : List OpObj) (n : Nat) (h : n ∈ o.srcs) :
    hasDependants (o :: heap) n = true := by
  unfold hasDependants
  simp only [List.any_cons, Bool.or_eq_true, List.contains_eq_mem, decide_eq_true_eq]
  exact Or.inl h

/-- Pushing a new op object `o` and its array `a` (any kind: input, from_zarr, derived, identity store op)
keeps the structural facts and `Linked`. -/
theorem push_wf_linked (s : State) (hi : Inv s) (o : OpObj) (a : Arr) (σ' : Store) (used' : List Nat)
    (hout : o.out = s.heap.length)
    (hsrcs : ∀ n ∈ o.srcs, ∃ b ∈ s.arrs, b.name = n)
    (hrs : ∀ p ∈ o.reads, p.1 ∈ o.srcs)
    (hrc : ∀ n ∈ o.srcs, ∃ l, rlookup o.reads n = some l)
    (hrl : ∀ p ∈ o.reads, wlocOf s.heap p.1 = some p.2)
    (han : a.name = o.out) (haz : a.zloc = o.wloc) (hal : a.lazy = o.prim)
    (hprov : ∀ nd ∈ a.dag, nd = ⟨o.out, o.wloc, o.prim⟩ ∨ ∃ b ∈ s.arrs, b.name ∈ o.srcs ∧ nd ∈ b.dag)
    (hself : (⟨o.out, o.wloc, o.prim⟩ : ANode) ∈ a.dag)
    (hincl : ∀ b ∈ s.arrs, b.name ∈ o.srcs → ∀ nd ∈ b.dag, ∃ nd' ∈ a.dag, nd'.name = nd.name)
    (hwl : (o.prim = true → o.wloc = .inter o.out ∨ ∃ t ∈ used', o.wloc = .target t) ∧
           (o.prim = false → o.wloc = .ext o.out ∨ ∃ t ∈ used', o.wloc = .target t))
    (hused : ∀ t ∈ s.used, t ∈ used')
    (hfresh : o.prim = true → ∀ o' ∈ s.heap, o'.prim = true → o'.wloc ≠ o.wloc) :
    WF (State.mk (o :: s.heap) (s.arrs ++ [a]) σ' used') ∧ Linked (State.mk (o :: s.heap) (s.arrs ++ [a]) σ' used') := by
  have hw := hi.wf.heap
  have hsl : ∀ n ∈ o.srcs, n < s.heap.length := by
    intro n hn
    obtain ⟨b, hb, hbn⟩ := hsrcs n hn
    exact hbn ▸ hi.wf.arrName b hb
  have hfo : ∀ n, n < s.heap.length → findOp (o :: s.heap) n = findOp s.heap n := by
    intro n hn; apply findOp_cons_ne; omega
  have hwo : ∀ n, n < s.heap.length → wlocOf (o :: s.heap) n = wlocOf s.heap n := by
    intro n hn; apply wlocOf_cons_ne; omega
  have hfoo : findOp (o :: s.heap) o.out = some o := by simp [findOp]
  have hwoo : wlocOf (o :: s.heap) o.out = some o.wloc := by simp [wlocOf, findOp]
  -- facts about the nodes of the new dag
  have hnode : ∀ nd ∈ a.dag, nd.name < s.heap.length + 1 ∧ wlocOf (o :: s.heap) nd.name = some nd.target ∧
      (∀ o', findOp (o :: s.heap) nd.name = some o' → nd.lazy = o'.prim) ∧
      (nd.name = a.name ∨ hasDependants (o :: s.heap) nd.name = true) := by
    intro nd hnd
    rcases hprov nd hnd with rfl | ⟨b, hb, hbs, hndb⟩
    · refine ⟨by simp only; omega, hwoo, ?_, Or.inl han.symm⟩
      intro o' ho'; simp only at ho'; rw [hfoo] at ho'; cases ho'; rfl
    · have hlt := hi.wf.dagName b hb nd hndb
      refine ⟨by omega, by rw [hwo _ hlt]; exact hi.linked.nodes b hb nd hndb, ?_, Or.inr ?_⟩
      · intro o' ho'; rw [hfo _ hlt] at ho'; exact hi.wf.dagLazy b hb nd hndb o' ho'
      · rcases hi.wf.dagAnc b hb nd hndb with h1 | h1
        · exact hasDependants_of_src o s.heap nd.name (h1 ▸ hbs)
        · exact hasDependants_cons o s.heap nd.name h1
  constructor
  · constructor
    · exact ⟨hout, fun n hn => by have := hsl n hn; omega, hw⟩
    · intro o' ho' p hp
      rcases List.mem_cons.mp ho' with rfl | ho'
      · exact hrs p hp
      · exact hi.wf.readsSrcs o' ho' p hp
    · intro o' ho' n hn
      rcases List.mem_cons.mp ho' with rfl | ho'
      · exact hrc n hn
      · exact hi.wf.readsCover o' ho' n hn
    · intro b hb
      simp only [List.length_cons]
      rcases List.mem_append.mp hb with hb | hb
      · have := hi.wf.arrName b hb; omega
      · simp only [List.mem_singleton] at hb; subst hb; omega
    · intro b hb o' ho'
      rcases List.mem_append.mp hb with hb | hb
      · rw [hfo _ (hi.wf.arrName b hb)] at ho'
        exact hi.wf.arrLazy b hb o' ho'
      · simp only [List.mem_singleton] at hb; subst hb
        simp only at ho'
        rw [han, hfoo] at ho'; cases ho'; exact hal
    · simp only [List.pairwise_append, List.pairwise_cons, List.not_mem_nil, false_implies, implies_true,
        List.Pairwise.nil, and_self, List.mem_singleton, forall_eq, true_and]
      refine ⟨hi.wf.arrDistinct, fun b hb => ?_⟩
      have := hi.wf.arrName b hb
      omega
    · intro b hb nd hnd
      simp only [List.length_cons]
      rcases List.mem_append.mp hb with hb | hb
      · have := hi.wf.dagName b hb nd hnd; omega
      · simp only [List.mem_singleton] at hb; subst hb
        exact (hnode nd hnd).1
    · intro b hb
      rcases List.mem_append.mp hb with hb | hb
      · exact hi.wf.dagSelf b hb
      · simp only [List.mem_singleton] at hb; subst hb
        exact ⟨_, hself, han.symm⟩
    · intro b hb nd hnd o' ho' n hn
      rcases List.mem_append.mp hb with hb | hb
      · rw [hfo _ (hi.wf.dagName b hb nd hnd)] at ho'
        exact hi.wf.dagClosed b hb nd hnd o' ho' n hn
      · simp only [List.mem_singleton] at hb; subst hb
        rcases hprov nd hnd with rfl | ⟨c, hc, hcs, hndc⟩
        · simp only at ho'
          rw [hfoo] at ho'; cases ho'
          obtain ⟨c, hc, hcn⟩ := hsrcs n hn
          obtain ⟨nd0, hnd0, hn0⟩ := hi.wf.dagSelf c hc
          obtain ⟨nd', hnd', hn'⟩ := hincl c hc (hcn ▸ hn) nd0 hnd0
          exact ⟨nd', hnd', hn'.trans (hn0.trans hcn)⟩
        · rw [hfo _ (hi.wf.dagName c hc nd hndc)] at ho'
          obtain ⟨nd1, hnd1, hn1⟩ := hi.wf.dagClosed c hc nd hndc o' ho' n hn
          obtain ⟨nd', hnd', hn'⟩ := hincl c hc hcs nd1 hnd1
          exact ⟨nd', hnd', hn'.trans hn1⟩
    · intro b hb nd hnd o' ho'
      rcases List.mem_append.mp hb with hb | hb
      · rw [hfo _ (hi.wf.dagName b hb nd hnd)] at ho'
        exact hi.wf.dagLazy b hb nd hnd o' ho'
      · simp only [List.mem_singleton] at hb; subst hb
        exact (hnode nd hnd).2.2.1 o' ho'
    · intro b hb nd hnd
      rcases List.mem_append.mp hb with hb | hb
      · rcases hi.wf.dagAnc b hb nd hnd with h1 | h1
        · exact Or.inl h1
        · exact Or.inr (hasDependants_cons o s.heap nd.name h1)
      · simp only [List.mem_singleton] at hb; subst hb
        exact (hnode nd hnd).2.2.2
    · intro o' ho'
      rcases List.mem_cons.mp ho' with rfl | ho'
      · exact hwl
      · obtain ⟨h1, h2⟩ := hi.wf.wlocs o' ho'
        constructor
        · intro hp
          rcases h1 hp with h | ⟨t, ht, h⟩
          · exact Or.inl h
          · exact Or.inr ⟨t, hused t ht, h⟩
        · intro hp
          rcases h2 hp with h | ⟨t, ht, h⟩
          · exact Or.inl h
          · exact Or.inr ⟨t, hused t ht, h⟩
    · intro o1 ho1 o2 ho2 hp1 hp2 hww
      rcases List.mem_cons.mp ho1 with h1 | h1
      · rcases List.mem_cons.mp ho2 with h2 | h2
        · rw [h1, h2]
        · rw [h1] at hww hp1
          exact absurd hww.symm (hfresh hp1 o2 h2 hp2)
      · rcases List.mem_cons.mp ho2 with h2 | h2
        · rw [h2] at hww hp2
          exact absurd hww (hfresh hp2 o1 h1 hp1)
        · exact hi.wf.wlocInj o1 h1 o2 h2 hp1 hp2 hww
  · constructor
    · intro o' ho' p hp
      rcases List.mem_cons.mp ho' with rfl | ho'
      · rw [hwo _ (hsl _ (hrs p hp))]; exact hrl p hp
      · have hlt : p.1 < s.heap.length := by
          have h1 := HeapWF.srcs_lt hw o' ho' p.1 (hi.wf.readsSrcs o' ho' p hp)
          have h2 := HeapWF.out_lt hw o' ho'
          omega
        rw [hwo _ hlt]; exact hi.linked.reads o' ho' p hp
    · intro b hb nd hnd
      rcases List.mem_append.mp hb with hb | hb
      · rw [hwo _ (hi.wf.dagName b hb nd hnd)]; exact hi.linked.nodes b hb nd hnd
      · simp only [List.mem_singleton] at hb; subst hb
        exact (hnode nd hnd).2.1
    · intro b hb
      rcases List.mem_append.mp hb with hb | hb
      · rw [hwo _ (hi.wf.arrName b hb)]; exact hi.linked.self b hb
      · simp only [List.mem_singleton] at hb; subst hb
        simp only
        rw [han, haz]; exact hwoo

/-- … and the store invariant, when the locations of the older ops are left alone. -/
theorem push_storeOK (s : State) (hi : Inv s) (o : OpObj) (a : Arr) (σ' : Store) (used' : List Nat)
    (hout : o.out = s.heap.length)
    (hσ : ∀ o' ∈ s.heap, σ' o'.wloc = s.store o'.wloc)
    (hσ2 : ∀ l v, σ' l = some v → s.store l = some v ∨ (l = .ext s.heap.length ∧ v.isData = true))
    (hnewv : ∀ v, σ' o.wloc = some v → denote (o :: s.heap) o.out = some v)
    (hinp : o.prim = false → (σ' o.wloc).isSome)
    (hused : ∀ t ∈ s.used, t ∈ used') :
    StoreOK (State.mk (o :: s.heap) (s.arrs ++ [a]) σ' used') := by
  have hw := hi.wf.heap
  constructor
  · intro o' ho' v hv
    rcases List.mem_cons.mp ho' with rfl | ho'
    · exact hnewv v hv
    · have hlt := HeapWF.out_lt hw o' ho'
      rw [denote_cons_ne _ _ _ (by omega)]
      have hv' : σ' o'.wloc = some v := hv
      rw [hσ o' ho'] at hv'
      exact hi.store.holds o' ho' v hv'
  · intro o' ho' hnp
    rcases List.mem_cons.mp ho' with rfl | ho'
    · exact hinp hnp
    · show (σ' o'.wloc).isSome = true
      rw [hσ o' ho']
      exact hi.store.inputs o' ho' hnp
  · intro l v hv
    rcases hσ2 l v hv with h | ⟨_, h⟩
    · exact hi.store.noFill l v h
    · exact h
  · intro n v hv
    simp only [List.length_cons]
    rcases hσ2 _ v hv with h | ⟨h, _⟩
    · have := hi.store.interUsed n v h; omega
    · cases h
  · intro n v hv
    simp only [List.length_cons]
    rcases hσ2 _ v hv with h | ⟨h, _⟩
    · have := hi.store.extUsed n v h; omega
    · cases h; omega
  · intro t v hv
    rcases hσ2 _ v hv with h | ⟨h, _⟩
    · exact hused t (hi.store.targetUsed t v h)
    · cases h

theorem arr_name_inj {arrs : List Arr} (h : arrs.Pairwise (fun a b => a.name ≠ b.name)) :
    ∀ a ∈ arrs, ∀ b ∈ arrs, a.name = b.name → a = b := by
  induction arrs with
  | nil => intro a ha; cases ha
  | cons x rest ih =>
    simp only [List.pairwise_cons] at h
    obtain ⟨h1, h2⟩ := h
    intro a ha b hb hab
    rcases List.mem_cons.mp ha with rfl | ha'
    · rcases List.mem_cons.mp hb with rfl | hb'
      · rfl
      · exact absurd hab (h1 b hb')
    · rcases List.mem_cons.mp hb with rfl | hb'
      · exact absurd hab.symm (h1 a ha')
      · exact ih h2 a ha' b hb' hab

theorem inv_init : Inv ({} : State) := by
  refine ⟨⟨trivial, ?_, ?_, ?_, ?_, List.Pairwise.nil, ?_, ?_, ?_, ?_, ?_, ?_, ?_⟩, ⟨?_, ?_, ?_⟩, ⟨?_, ?_, ?_, ?_, ?_, ?_⟩⟩
  all_goals first
    | (intro o ho; exact (List.not_mem_nil ho).elim)
    | (intro x y hv; exact nomatch hv)

theorem input_inv (s : State) (hi : Inv s) (virt : Bool) (k : Nat) : Inv (s.input virt k) := by
  have hshape : s.input virt k =
      State.mk ({ out := s.heap.length, prim := false, fn := 0, srcs := [], reads := [], wloc := .ext s.heap.length,
                  target := .ext s.heap.length, fusable := false, fusePreds := false, virt := virt, inval := .src k } :: s.heap)
        (s.arrs ++ [{ name := s.heap.length, zloc := .ext s.heap.length, lazy := false,
                      dag := [⟨s.heap.length, .ext s.heap.length, false⟩] }])
        (s.store.set (.ext s.heap.length) (.src k)) s.used := rfl
  rw [hshape]
  have hAB := push_wf_linked s hi (σ' := s.store.set (.ext s.heap.length) (.src k)) (used' := s.used)
    (o := { out := s.heap.length, prim := false, fn := 0, srcs := [], reads := [], wloc := .ext s.heap.length,
            target := .ext s.heap.length, fusable := false, fusePreds := false, virt := virt, inval := .src k })
    (a := { name := s.heap.length, zloc := .ext s.heap.length, lazy := false,
            dag := [⟨s.heap.length, .ext s.heap.length, false⟩] })
    rfl (by intro n hn; cases hn) (by intro p hp; cases hp) (by intro n hn; cases hn) (by intro p hp; cases hp)
    rfl rfl rfl (by intro nd hnd; simp only [List.mem_singleton] at hnd; exact Or.inl hnd) (by simp)
    (by intro b _ hb; cases hb)
    ⟨(by intro h; cases h), fun _ => Or.inl rfl⟩ (fun t ht => ht) (by intro h; cases h)
  refine ⟨hAB.1, hAB.2, ?_⟩
  apply push_storeOK s hi _ _ _ _ rfl
  · intro o' ho'
    unfold Store.set
    have hlt := HeapWF.out_lt hi.wf.heap o' ho'
    have : o'.wloc ≠ .ext s.heap.length := by
      by_cases hp : o'.prim = true
      · rcases (hi.wf.wlocs o' ho').1 hp with h | ⟨t, _, h⟩ <;> rw [h] <;> simp
      · rcases (hi.wf.wlocs o' ho').2 (by simpa using hp) with h | ⟨t, _, h⟩
        · rw [h]; simp; omega
        · rw [h]; simp
    simp [this]
  · intro l v hv
    unfold Store.set at hv
    by_cases hl : l = .ext s.heap.length
    · simp only [hl, if_true] at hv; cases hv
      exact Or.inr ⟨hl, rfl⟩
    · simp only [hl, if_false] at hv; exact Or.inl hv
  · intro v hv
    unfold Store.set at hv
    simp only [if_true] at hv
    cases hv
    simp [denote]
  · intro _; unfold Store.set; simp
  · exact fun t ht => ht

theorem fromZarr_inv (s : State) (hi : Inv s) (t : Nat) (s' : State) (h : s.fromZarr t = some s') : Inv s' := by
  unfold State.fromZarr at h
  cases hv : s.store (.target t) with
  | none => rw [hv] at h; cases h
  | some v =>
    rw [hv] at h
    simp only [Option.some.injEq] at h
    subst h
    have htu := hi.store.targetUsed t v hv
    have hAB := push_wf_linked s hi
      (o := { out := s.heap.length, prim := false, fn := 0, srcs := [], reads := [], wloc := .target t,
              target := .target t, fusable := false, fusePreds := false, virt := false, inval := v })
      (a := { name := s.heap.length, zloc := .target t, lazy := false, dag := [⟨s.heap.length, .target t, false⟩] })
      (σ' := s.store) (used' := s.used)
      rfl (by intro n hn; cases hn) (by intro p hp; cases hp) (by intro n hn; cases hn) (by intro p hp; cases hp)
      rfl rfl rfl (by intro nd hnd; simp only [List.mem_singleton] at hnd; exact Or.inl hnd) (by simp)
      (by intro b _ hb; cases hb)
      ⟨(by intro h; cases h), fun _ => Or.inr ⟨t, htu, rfl⟩⟩ (fun t ht => ht) (by intro h; cases h)
    refine ⟨hAB.1, hAB.2, ?_⟩
    apply push_storeOK s hi _ _ _ _ rfl
    · intro o' _; rfl
    · intro l v' hv'; exact Or.inl hv'
    · intro v' hv'
      simp only at hv'
      rw [hv] at hv'; cases hv'
      simp [denote]
    · intro _; simp only; rw [hv]; rfl
    · exact fun t ht => ht

/-- Where a new derived array may write: its own intermediate location, or a target that was just reserved. -/
def FreshTarget (s : State) (t : Nat) : Prop :=
  t ∈ s.used ∧ (∀ o ∈ s.heap, o.wloc ≠ .target t) ∧ s.store (.target t) = none

theorem derive_inv (s : State) (hi : Inv s) (fn : Nat) (idxs : List Nat) (fp fs : Bool) (wl : Option Loc)
    (hwl : wl = none ∨ ∃ t, wl = some (.target t) ∧ FreshTarget s t)
    (s' : State) (h : s.derive fn idxs fp fs wl = some s') : Inv s' := by
  unfold State.derive at h
  cases hm : mapOpt (fun i => s.arrs[i]?) idxs with
  | none => rw [hm] at h; cases h
  | some srcArrs =>
    rw [hm] at h
    simp only at h
    split at h
    · cases h
    · simp only [Option.some.injEq] at h
      subst h
      have hmem := mem_of_mapOpt_getElem? hm
      have hAB := push_wf_linked s hi
        (o := { out := s.heap.length, prim := true, fn := fn, srcs := srcArrs.map (·.name),
                reads := srcArrs.map (fun a => (a.name, a.zloc)), wloc := wl.getD (.inter s.heap.length),
                target := wl.getD (.inter s.heap.length), fusable := fs, fusePreds := fp, virt := false, inval := .fill })
        (a := { name := s.heap.length, zloc := wl.getD (.inter s.heap.length), lazy := true,
                dag := insertNode (compose (srcArrs.map (·.dag))) ⟨s.heap.length, wl.getD (.inter s.heap.length), true⟩ })
        (σ' := s.store) (used' := s.used) rfl
        (by
          intro n hn
          simp only [List.mem_map] at hn
          obtain ⟨b, hb, rfl⟩ := hn
          exact ⟨b, hmem b hb, rfl⟩)
        (by
          intro p hp
          simp only [List.mem_map] at hp ⊢
          obtain ⟨b, hb, rfl⟩ := hp
          exact ⟨b, hb, rfl⟩)
        (by
          intro n hn
          simp only [List.mem_map] at hn
          obtain ⟨b, hb, rfl⟩ := hn
          exact rlookup_isSome_of_mem (l := b.zloc) (by simp only [List.mem_map]; exact ⟨b, hb, rfl⟩))
        (by
          intro p hp
          simp only [List.mem_map] at hp
          obtain ⟨b, hb, rfl⟩ := hp
          exact hi.linked.self b (hmem b hb))
        rfl rfl rfl
        (by
          intro nd hnd
          rcases mem_insertNode hnd with h1 | h1
          · obtain ⟨d, hd, hndd⟩ := mem_compose h1
            simp only [List.mem_map] at hd
            obtain ⟨b, hb, rfl⟩ := hd
            exact Or.inr ⟨b, hmem b hb, by simp only [List.mem_map]; exact ⟨b, hb, rfl⟩, hndd⟩
          · exact Or.inl h1)
        (self_mem_insertNode _ _)
        (by
          intro b hb hbs nd hnd
          simp only [List.mem_map] at hbs
          obtain ⟨c, hc, hcn⟩ := hbs
          have : c = b := arr_name_inj hi.wf.arrDistinct c (hmem c hc) b hb hcn
          subst this
          obtain ⟨x, hx, hxn⟩ := name_mem_compose (ds := srcArrs.map (·.dag)) (List.mem_map_of_mem hc) hnd
          obtain ⟨y, hy, hyn⟩ := name_mem_insertNode ⟨s.heap.length, wl.getD (.inter s.heap.length), true⟩ hx
          exact ⟨y, hy, hyn.trans hxn⟩)
        ⟨(by
          intro _
          rcases hwl with rfl | ⟨t, rfl, ht, _⟩
          · exact Or.inl rfl
          · exact Or.inr ⟨t, ht, rfl⟩),
         (by intro h; cases h)⟩
        (fun t ht => ht)
        (by
          intro _ o' ho' hp'
          have hlt := HeapWF.out_lt hi.wf.heap o' ho'
          rcases hwl with rfl | ⟨t, rfl, _, hfr, _⟩
          · simp only [Option.getD_none]
            rcases (hi.wf.wlocs o' ho').1 hp' with h | ⟨t, _, h⟩
            · rw [h]; simp; omega
            · rw [h]; simp
          · simp only [Option.getD_some]
            exact hfr o' ho')
      refine ⟨hAB.1, hAB.2, ?_⟩
      apply push_storeOK s hi _ _ _ _ rfl
      · intro o' _; rfl
      · intro l v' hv'; exact Or.inl hv'
      · intro v' hv'
        exfalso
        simp only at hv'
        rcases hwl with rfl | ⟨t, rfl, _, _, hnone⟩
        · simp only [Option.getD_none] at hv'
          have := hi.store.interUsed _ _ hv'
          omega
        · simp only [Option.getD_some] at hv'
          rw [hnone] at hv'; cases hv'
      · intro h; cases h
      · exact fun t ht => ht

/-! ### store / to_zarr -/

theorem reserve_inv (s : State) (hi : Inv s) (t : Nat) (ht : t ∉ s.used) :
    Inv { s with used := t :: s.used } ∧ FreshTarget { s with used := t :: s.used } t := by
  constructor
  · refine ⟨⟨hi.wf.heap, hi.wf.readsSrcs, hi.wf.readsCover, hi.wf.arrName, hi.wf.arrLazy, hi.wf.arrDistinct,
      hi.wf.dagName, hi.wf.dagSelf, hi.wf.dagClosed, hi.wf.dagLazy, hi.wf.dagAnc, ?_, hi.wf.wlocInj⟩,
      ⟨hi.linked.reads, hi.linked.nodes, hi.linked.self⟩,
      ⟨hi.store.holds, hi.store.inputs, hi.store.noFill, hi.store.interUsed, hi.store.extUsed, ?_⟩⟩
    · intro o ho
      obtain ⟨h1, h2⟩ := hi.wf.wlocs o ho
      constructor
      · intro hp
        rcases h1 hp with h | ⟨t', ht', h⟩
        · exact Or.inl h
        · exact Or.inr ⟨t', List.mem_cons_of_mem _ ht', h⟩
      · intro hp
        rcases h2 hp with h | ⟨t', ht', h⟩
        · exact Or.inl h
        · exact Or.inr ⟨t', List.mem_cons_of_mem _ ht', h⟩
    · intro t' v hv
      exact List.mem_cons_of_mem _ (hi.store.targetUsed t' v hv)
  · refine ⟨by simp, ?_, ?_⟩
    · intro o ho hw
      by_cases hp : o.prim = true
      · rcases (hi.wf.wlocs o ho).1 hp with h | ⟨t', ht', h⟩
        · rw [h] at hw; cases hw
        · rw [h] at hw; cases hw; exact ht ht'
      · rcases (hi.wf.wlocs o ho).2 (by simpa using hp) with h | ⟨t', ht', h⟩
        · rw [h] at hw; cases hw
        · rw [h] at hw; cases hw; exact ht ht'
    · show s.store (.target t) = none
      cases hv : s.store (.target t) with
      | none => rfl
      | some v => exact absurd (hi.store.targetUsed t v hv) ht

theorem hasDependants_map (f : OpObj → OpObj) (heap : List OpObj) (h : ∀ o, (f o).srcs = o.srcs) (n : Nat) :
    hasDependants (heap.map f) n = hasDependants heap n := by
  unfold hasDependants
  induction heap with
  | nil => rfl
  | cons x rest ih => simp only [List.map_cons, List.any_cons, h x, ih]

theorem hasDependants_false {heap : List OpObj} {n : Nat} (h : hasDependants heap n = false) :
    ∀ o ∈ heap, n ∉ o.srcs := by
  intro o ho hn
  unfold hasDependants at h
  have : heap.any (fun o => o.srcs.contains n) = true := by
    simp only [List.any_eq_true, List.contains_eq_mem, decide_eq_true_eq]
    exact ⟨o, ho, hn⟩
  rw [h] at this; cases this

theorem mem_set_cases {arrs : List Arr} {i : Nat} {a a' b : Arr} (ha : arrs[i]? = some a)
    (hd : arrs.Pairwise (fun a b => a.name ≠ b.name)) (hb : b ∈ arrs.set i a') :
    b = a' ∨ (b ∈ arrs ∧ b.name ≠ a.name) := by
  obtain ⟨j, hj⟩ := List.mem_iff_getElem?.mp hb
  rw [List.getElem?_set] at hj
  by_cases hij : i = j
  · simp only [hij, if_true] at hj
    split at hj
    · cases hj; exact Or.inl rfl
    · cases hj
  · simp only [hij, if_false] at hj
    right
    refine ⟨List.mem_of_getElem? hj, ?_⟩
    obtain ⟨hi', hai⟩ := List.getElem?_eq_some_iff.mp ha
    obtain ⟨hj', hbj⟩ := List.getElem?_eq_some_iff.mp hj
    have hp := List.pairwise_iff_getElem.mp hd
    rcases Nat.lt_or_gt_of_ne hij with hlt | hlt
    · have := hp i j hi' hj' hlt
      rw [hai, hbj] at this
      exact fun h => this h.symm
    · have := hp j i hj' hi' hlt
      rw [hai, hbj] at this
      exact this

/-- Re-targeting a lazy array **that nothing has been derived from** keeps the invariant. -/
theorem retarget_inv (s : State) (hi : Inv s) (i t : Nat) (a : Arr) (ha : s.arrs[i]? = some a)
    (hlazy : a.lazy = true) (hnodep : hasDependants s.heap a.name = false) (hfresh : FreshTarget s t)
    (s' : State) (h : s.retarget i (.target t) = some s') : Inv s' := by
  unfold State.retarget at h
  rw [ha] at h
  simp only [Option.some.injEq] at h
  subst h
  have hamem : a ∈ s.arrs := List.mem_of_getElem? ha
  have hw := hi.wf.heap
  obtain ⟨ox, hfox⟩ := findOp_some_of_lt hw a.name (hi.wf.arrName a hamem)
  have hoxp : ox.prim = true := by rw [← hi.wf.arrLazy a hamem ox hfox]; exact hlazy
  have hoxm := (findOp_mem hfox).1
  have hoxo := (findOp_mem hfox).2
  obtain ⟨htu, htw, hts⟩ := hfresh
  -- the update of the shared op objects
  generalize hupd : (fun o : OpObj => if o.out = a.name ∧ o.prim = true then
      { o with target := Loc.target t, fusable := false, wloc := Loc.target t } else o) = upd
  have U1 : ∀ o, (upd o).out = o.out ∧ (upd o).prim = o.prim ∧ (upd o).fn = o.fn ∧ (upd o).srcs = o.srcs ∧
      (upd o).inval = o.inval ∧ (upd o).reads = o.reads := by
    intro o; rw [← hupd]; simp only; split <;> simp
  have U2 : ∀ o, o.out ≠ a.name → upd o = o := by
    intro o ho; rw [← hupd]; simp [ho]
  have U3 : ∀ o, o.prim = false → upd o = o := by
    intro o ho; rw [← hupd]; simp [ho]
  have U4 : ∀ o, o.out = a.name → o.prim = true → (upd o).wloc = .target t := by
    intro o h1 h2; rw [← hupd]; simp [h1, h2]
  have hfm : ∀ n, findOp (s.heap.map upd) n = (findOp s.heap n).map upd :=
    fun n => findOp_map upd s.heap (fun o => (U1 o).1) n
  have hwne : ∀ n, n ≠ a.name → wlocOf (s.heap.map upd) n = wlocOf s.heap n := by
    intro n hn
    unfold wlocOf
    rw [hfm]
    cases hf : findOp s.heap n with
    | none => rfl
    | some o =>
      simp only [Option.map_some]
      rw [U2 o (by rw [(findOp_mem hf).2]; exact hn)]
  have hwx : wlocOf (s.heap.map upd) a.name = some (.target t) := by
    unfold wlocOf
    rw [hfm, hfox]
    simp only [Option.map_some]
    rw [U4 ox hoxo hoxp]
  have hdep : ∀ n, hasDependants (s.heap.map upd) n = hasDependants s.heap n :=
    fun n => hasDependants_map upd s.heap (fun o => (U1 o).2.2.2.1) n
  have hnosrc := hasDependants_false hnodep
  have hlen : (s.heap.map upd).length = s.heap.length := List.length_map _
  -- the new array object
  generalize ha' : (Arr.mk a.name (Loc.target t) a.lazy
      (a.dag.map (fun nd => if nd.name = a.name then ANode.mk nd.name (Loc.target t) nd.lazy else nd))) = a'
  have ha'n : a'.name = a.name := by rw [← ha']
  have ha'l : a'.lazy = a.lazy := by rw [← ha']
  have ha'z : a'.zloc = .target t := by rw [← ha']
  have hdag' : ∀ nd' ∈ a'.dag, ∃ nd ∈ a.dag, nd'.name = nd.name ∧ nd'.lazy = nd.lazy ∧
      ((nd.name = a.name ∧ nd'.target = .target t) ∨ (nd.name ≠ a.name ∧ nd'.target = nd.target)) := by
    intro nd' hnd'
    rw [← ha'] at hnd'
    simp only [List.mem_map] at hnd'
    obtain ⟨nd, hnd, rfl⟩ := hnd'
    refine ⟨nd, hnd, ?_⟩
    by_cases hn : nd.name = a.name
    · simp [hn]
    · simp [hn]
  have hdag'' : ∀ nd ∈ a.dag, ∃ nd' ∈ a'.dag, nd'.name = nd.name := by
    intro nd hnd
    rw [← ha']
    simp only [List.mem_map]
    refine ⟨_, ⟨nd, hnd, rfl⟩, ?_⟩
    split <;> rfl
  have hcases : ∀ b ∈ s.arrs.set i a', b = a' ∨ (b ∈ s.arrs ∧ b.name ≠ a.name) :=
    fun b hb => mem_set_cases ha hi.wf.arrDistinct hb
  refine ⟨⟨?_, ?_, ?_, ?_, ?_, ?_, ?_, ?_, ?_, ?_, ?_, ?_, ?_⟩, ⟨?_, ?_, ?_⟩, ⟨?_, ?_, ?_, ?_, ?_, ?_⟩⟩
  · exact HeapWF_map upd s.heap (fun o => ⟨(U1 o).1, (U1 o).2.2.2.1⟩) hw
  · intro o' ho' p hp
    simp only [List.mem_map] at ho'
    obtain ⟨o, ho, rfl⟩ := ho'
    rw [(U1 o).2.2.2.2.2] at hp
    rw [(U1 o).2.2.2.1]
    exact hi.wf.readsSrcs o ho p hp
  · intro o' ho' n hn
    simp only [List.mem_map] at ho'
    obtain ⟨o, ho, rfl⟩ := ho'
    rw [(U1 o).2.2.2.1] at hn
    rw [(U1 o).2.2.2.2.2]
    exact hi.wf.readsCover o ho n hn
  · intro b hb
    show b.name < (s.heap.map upd).length
    rw [hlen]
    rcases hcases b hb with rfl | ⟨hb', _⟩
    · rw [ha'n]; exact hi.wf.arrName a hamem
    · exact hi.wf.arrName b hb'
  · intro b hb o' ho'
    have ho'' : findOp (s.heap.map upd) b.name = some o' := ho'
    rw [hfm] at ho''
    cases hf : findOp s.heap b.name with
    | none => rw [hf] at ho''; cases ho''
    | some o =>
      rw [hf] at ho''
      simp only [Option.map_some, Option.some.injEq] at ho''
      subst ho''
      rw [(U1 o).2.1]
      rcases hcases b hb with rfl | ⟨hb', _⟩
      · rw [ha'l]; rw [ha'n] at hf; exact hi.wf.arrLazy a hamem o hf
      · exact hi.wf.arrLazy b hb' o hf
  · show (s.arrs.set i a').Pairwise (fun a b => a.name ≠ b.name)
    have h1 : (s.arrs.set i a').map (·.name) = s.arrs.map (·.name) := by
      rw [List.map_set, ha'n]
      obtain ⟨hi', hai⟩ := List.getElem?_eq_some_iff.mp ha
      apply List.ext_getElem?
      intro j
      rw [List.getElem?_set]
      by_cases hij : i = j
      · subst hij
        simp only [if_true, List.length_map, hi']
        rw [List.getElem?_map, ha]; rfl
      · simp [hij]
    have h2 : (s.arrs.map (·.name)).Pairwise (· ≠ ·) := List.pairwise_map.mpr hi.wf.arrDistinct
    rw [← h1] at h2
    exact List.pairwise_map.mp h2
  · intro b hb nd hnd
    show nd.name < (s.heap.map upd).length
    rw [hlen]
    rcases hcases b hb with rfl | ⟨hb', _⟩
    · obtain ⟨nd0, hnd0, hn, _⟩ := hdag' nd hnd
      rw [hn]; exact hi.wf.dagName a hamem nd0 hnd0
    · exact hi.wf.dagName b hb' nd hnd
  · intro b hb
    rcases hcases b hb with rfl | ⟨hb', _⟩
    · obtain ⟨nd, hnd, hn⟩ := hi.wf.dagSelf a hamem
      obtain ⟨nd', hnd', hn'⟩ := hdag'' nd hnd
      exact ⟨nd', hnd', by rw [hn', hn, ha'n]⟩
    · exact hi.wf.dagSelf b hb'
  · intro b hb nd hnd o' ho' n hn
    have ho'' : findOp (s.heap.map upd) nd.name = some o' := ho'
    rw [hfm] at ho''
    cases hf : findOp s.heap nd.name with
    | none => rw [hf] at ho''; cases ho''
    | some o =>
      rw [hf] at ho''
      simp only [Option.map_some, Option.some.injEq] at ho''
      subst ho''
      rw [(U1 o).2.2.2.1] at hn
      rcases hcases b hb with rfl | ⟨hb', _⟩
      · obtain ⟨nd0, hnd0, hn0, _⟩ := hdag' nd hnd
        obtain ⟨nd1, hnd1, hn1⟩ := hi.wf.dagClosed a hamem nd0 hnd0 o (hn0 ▸ hf) n hn
        obtain ⟨nd2, hnd2, hn2⟩ := hdag'' nd1 hnd1
        exact ⟨nd2, hnd2, hn2.trans hn1⟩
      · exact hi.wf.dagClosed b hb' nd hnd o hf n hn
  · intro b hb nd hnd o' ho'
    have ho'' : findOp (s.heap.map upd) nd.name = some o' := ho'
    rw [hfm] at ho''
    cases hf : findOp s.heap nd.name with
    | none => rw [hf] at ho''; cases ho''
    | some o =>
      rw [hf] at ho''
      simp only [Option.map_some, Option.some.injEq] at ho''
      subst ho''
      rw [(U1 o).2.1]
      rcases hcases b hb with rfl | ⟨hb', _⟩
      · obtain ⟨nd0, hnd0, hn0, hl0, _⟩ := hdag' nd hnd
        rw [hl0]
        exact hi.wf.dagLazy a hamem nd0 hnd0 o (hn0 ▸ hf)
      · exact hi.wf.dagLazy b hb' nd hnd o hf
  · intro b hb nd hnd
    show nd.name = b.name ∨ hasDependants (s.heap.map upd) nd.name = true
    rw [hdep]
    rcases hcases b hb with rfl | ⟨hb', _⟩
    · obtain ⟨nd0, hnd0, hn0, _⟩ := hdag' nd hnd
      rw [hn0, ha'n]
      exact hi.wf.dagAnc a hamem nd0 hnd0
    · exact hi.wf.dagAnc b hb' nd hnd
  · intro o' ho'
    simp only [List.mem_map] at ho'
    obtain ⟨o, ho, rfl⟩ := ho'
    rw [(U1 o).1, (U1 o).2.1]
    by_cases hx : o.out = a.name ∧ o.prim = true
    · rw [U4 o hx.1 hx.2]
      exact ⟨fun _ => Or.inr ⟨t, htu, rfl⟩, fun hp => by rw [hx.2] at hp; cases hp⟩
    · have : upd o = o := by
        rw [← hupd]; simp only [hx, if_false]
      rw [this]
      exact hi.wf.wlocs o ho
  · intro o1' ho1' o2' ho2' hp1 hp2 hww
    simp only [List.mem_map] at ho1' ho2'
    obtain ⟨o1, ho1, rfl⟩ := ho1'
    obtain ⟨o2, ho2, rfl⟩ := ho2'
    rw [(U1 o1).2.1] at hp1
    rw [(U1 o2).2.1] at hp2
    rw [(U1 o1).1, (U1 o2).1]
    by_cases h1 : o1.out = a.name
    · by_cases h2 : o2.out = a.name
      · rw [h1, h2]
      · exfalso
        rw [U4 o1 h1 hp1, U2 o2 h2] at hww
        exact htw o2 ho2 hww.symm
    · by_cases h2 : o2.out = a.name
      · exfalso
        rw [U4 o2 h2 hp2, U2 o1 h1] at hww
        exact htw o1 ho1 hww
      · rw [U2 o1 h1, U2 o2 h2] at hww
        exact hi.wf.wlocInj o1 ho1 o2 ho2 hp1 hp2 hww
  · -- Linked: reads
    intro o' ho' p hp
    simp only [List.mem_map] at ho'
    obtain ⟨o, ho, rfl⟩ := ho'
    rw [(U1 o).2.2.2.2.2] at hp
    have hne : p.1 ≠ a.name := by
      intro hc
      exact hnosrc o ho (hc ▸ hi.wf.readsSrcs o ho p hp)
    show wlocOf (s.heap.map upd) p.1 = some p.2
    rw [hwne _ hne]
    exact hi.linked.reads o ho p hp
  · -- Linked: nodes
    intro b hb nd hnd
    show wlocOf (s.heap.map upd) nd.name = some nd.target
    rcases hcases b hb with rfl | ⟨hb', hbn⟩
    · obtain ⟨nd0, hnd0, hn0, _, hc⟩ := hdag' nd hnd
      rcases hc with ⟨h1, h2⟩ | ⟨h1, h2⟩
      · rw [hn0, h1, h2]; exact hwx
      · rw [hn0, hwne _ h1, h2]; exact hi.linked.nodes a hamem nd0 hnd0
    · have hne : nd.name ≠ a.name := by
        intro hc
        rcases hi.wf.dagAnc b hb' nd hnd with h1 | h1
        · exact hbn (h1 ▸ hc)
        · rw [hc, hnodep] at h1; cases h1
      rw [hwne _ hne]
      exact hi.linked.nodes b hb' nd hnd
  · -- Linked: self
    intro b hb
    show wlocOf (s.heap.map upd) b.name = some b.zloc
    rcases hcases b hb with rfl | ⟨hb', hbn⟩
    · rw [ha'n, ha'z]; exact hwx
    · rw [hwne _ hbn]; exact hi.linked.self b hb'
  · -- StoreOK
    intro o' ho' v hv
    simp only [List.mem_map] at ho'
    obtain ⟨o, ho, rfl⟩ := ho'
    show denote (s.heap.map upd) (upd o).out = some v
    rw [denote_map_congr upd s.heap (fun o => ⟨(U1 o).1, (U1 o).2.1, (U1 o).2.2.1, (U1 o).2.2.2.1, (U1 o).2.2.2.2.1⟩), (U1 o).1]
    have hv' : s.store (upd o).wloc = some v := hv
    by_cases hx : o.out = a.name ∧ o.prim = true
    · rw [U4 o hx.1 hx.2, hts] at hv'; cases hv'
    · have : upd o = o := by
        rw [← hupd]; simp only [hx, if_false]
      rw [this] at hv'
      exact hi.store.holds o ho v hv'
  · intro o' ho' hnp
    simp only [List.mem_map] at ho'
    obtain ⟨o, ho, rfl⟩ := ho'
    rw [(U1 o).2.1] at hnp
    rw [U3 o hnp]
    exact hi.store.inputs o ho hnp
  · exact hi.store.noFill
  · intro n v hv
    show n < (s.heap.map upd).length
    rw [hlen]; exact hi.store.interUsed n v hv
  · intro n v hv
    show n < (s.heap.map upd).length
    rw [hlen]; exact hi.store.extUsed n v hv
  · exact hi.store.targetUsed

theorem hasDependants_ge {heap : List OpObj} (hw : HeapWF heap) (n : Nat) (hn : heap.length ≤ n) :
    hasDependants heap n = false := by
  cases h : hasDependants heap n with
  | false => rfl
  | true =>
    unfold hasDependants at h
    simp only [List.any_eq_true, List.contains_eq_mem, decide_eq_true_eq] at h
    obtain ⟨o, ho, hs⟩ := h
    have h1 := HeapWF.srcs_lt hw o ho n hs
    have h2 := HeapWF.out_lt hw o ho
    omega

def SafePairs (s : State) (pairs : List (Nat × Nat)) : Prop :=
  ∀ p ∈ pairs, ∀ a, s.arrs[p.1]? = some a → a.lazy = true → hasDependants s.heap a.name = false

theorem wf_congr {s s' : State} (h1 : s'.heap = s.heap) (h2 : s'.arrs = s.arrs) (h3 : s'.used = s.used)
    (h : WF s) : WF s' := by
  cases s; cases s'
  simp only at h1 h2 h3
  subst h1 h2 h3
  exact ⟨h.heap, h.readsSrcs, h.readsCover, h.arrName, h.arrLazy, h.arrDistinct, h.dagName, h.dagSelf,
    h.dagClosed, h.dagLazy, h.dagAnc, h.wlocs, h.wlocInj⟩

theorem linked_congr {s s' : State} (h1 : s'.heap = s.heap) (h2 : s'.arrs = s.arrs) (h : Linked s) : Linked s' := by
  cases s; cases s'
  simp only at h1 h2
  subst h1 h2
  exact ⟨h.reads, h.nodes, h.self⟩

theorem retarget_shape (s : State) (i : Nat) (l : Loc) (s' : State) (h : s.retarget i l = some s') :
    s'.store = s.store ∧ s'.used = s.used ∧ s'.arrs.length = s.arrs.length ∧ s'.heap.length = s.heap.length ∧
    (∀ n, denote s'.heap n = denote s.heap n) ∧ (∀ n, hasDependants s'.heap n = hasDependants s.heap n) ∧
    (∀ j, j ≠ i → s'.arrs[j]? = s.arrs[j]?) ∧
    (∀ a, s.arrs[i]? = some a → ∃ a', s'.arrs[i]? = some a' ∧ a'.name = a.name ∧ a'.lazy = a.lazy) := by
  unfold State.retarget at h
  cases ha : s.arrs[i]? with
  | none => rw [ha] at h; cases h
  | some a =>
    rw [ha] at h
    simp only [Option.some.injEq] at h
    subst h
    refine ⟨rfl, rfl, by simp, by simp, ?_, ?_, ?_, ?_⟩
    · intro n
      apply denote_map_congr
      intro o; split <;> simp
    · intro n
      apply hasDependants_map
      intro o; split <;> simp
    · intro j hj
      simp only
      rw [List.getElem?_set]
      simp [Ne.symm hj]
    · intro a0 ha0
      cases ha0
      obtain ⟨hi', _⟩ := List.getElem?_eq_some_iff.mp ha
      refine ⟨Arr.mk a.name l a.lazy (a.dag.map fun nd => if nd.name = a.name then ANode.mk nd.name l nd.lazy else nd), ?_, rfl, rfl⟩
      simp only
      rw [List.getElem?_set]
      simp [hi']

theorem derive_shape (s : State) (fn : Nat) (idxs : List Nat) (fp fs : Bool) (wl : Option Loc) (s' : State)
    (h : s.derive fn idxs fp fs wl = some s') :
    s'.store = s.store ∧ s'.used = s.used ∧
    ∃ srcArrs o a, mapOpt (fun i => s.arrs[i]?) idxs = some srcArrs ∧ s'.heap = o :: s.heap ∧ s'.arrs = s.arrs ++ [a] ∧
      o.out = s.heap.length ∧ o.srcs = srcArrs.map (·.name) ∧ a.name = s.heap.length ∧ a.lazy = true := by
  unfold State.derive at h
  cases hm : mapOpt (fun i => s.arrs[i]?) idxs with
  | none => rw [hm] at h; cases h
  | some srcArrs =>
    rw [hm] at h
    simp only at h
    split at h
    · cases h
    · simp only [Option.some.injEq] at h
      subst h
      exact ⟨rfl, rfl, srcArrs, _, _, rfl, rfl, rfl, rfl, rfl, rfl, rfl⟩

theorem storePairs_inv : ∀ (pairs : List (Nat × Nat)) (s : State), Inv s → SafePairs s pairs →
    ∀ s' js, s.storePairs pairs = some (s', js) →
      Inv s' ∧ s'.store = s.store ∧ js.length = pairs.length ∧ s.arrs.length ≤ s'.arrs.length ∧
      (∀ j ∈ js, j < s'.arrs.length) := by
  intro pairs
  induction pairs with
  | nil =>
    intro s hi _ s' js h
    simp only [State.storePairs, Option.some.injEq, Prod.mk.injEq] at h
    obtain ⟨rfl, rfl⟩ := h
    exact ⟨hi, rfl, rfl, Nat.le_refl _, fun j hj => by cases hj⟩
  | cons p rest ih =>
    obtain ⟨i, t⟩ := p
    intro s hi hsafe s' js h
    simp only [State.storePairs] at h
    split at h
    · cases h
    · rename_i htu
      cases ha : s.arrs[i]? with
      | none => rw [ha] at h; cases h
      | some a =>
        rw [ha] at h
        simp only at h
        obtain ⟨hi0, hfr⟩ := reserve_inv s hi t htu
        have hamem : a ∈ s.arrs := List.mem_of_getElem? ha
        by_cases hl : a.lazy = true
        · -- in-place re-targeting of a lazy source
          simp only [hl, if_true] at h
          cases hr : State.retarget { s with used := t :: s.used } i (.target t) with
          | none => rw [hr] at h; cases h
          | some s1 =>
            rw [hr] at h
            simp only [Option.map_some] at h
            have hnd := hsafe (i, t) (by simp) a ha hl
            have hi1 := retarget_inv { s with used := t :: s.used } hi0 i t a ha hl hnd hfr s1 hr
            obtain ⟨hst, hus, hal, hhl, hden, hdep, hoth, hsame⟩ := retarget_shape _ i _ s1 hr
            have hsafe1 : SafePairs s1 rest := by
              intro p hp a1 ha1 hl1
              rw [hdep]
              by_cases hpi : p.1 = i
              · obtain ⟨a', ha', hn', hl'⟩ := hsame a ha
                rw [hpi, ha'] at ha1
                cases ha1
                rw [hn']
                exact hnd
              · rw [hoth _ hpi] at ha1
                exact hsafe p (List.mem_cons_of_mem _ hp) a1 ha1 hl1
            cases hrest : State.storePairs s1 rest with
            | none => rw [hrest] at h; cases h
            | some r =>
              obtain ⟨s2, js2⟩ := r
              rw [hrest] at h
              simp only [Option.some.injEq, Prod.mk.injEq] at h
              obtain ⟨rfl, rfl⟩ := h
              obtain ⟨hi2, hst2, hlen2, hal2, hjs2⟩ := ih s1 hi1 hsafe1 s2 js2 hrest
              refine ⟨hi2, hst2.trans hst, by simp [hlen2], ?_, ?_⟩
              · have : s1.arrs.length = s.arrs.length := hal
                omega
              · intro j hj
                rcases List.mem_cons.mp hj with rfl | hj'
                · obtain ⟨hi', _⟩ := List.getElem?_eq_some_iff.mp ha
                  have : s1.arrs.length = s.arrs.length := hal
                  omega
                · exact hjs2 j hj'
        · -- identity blockwise op into the target for a non-lazy source
          have hl' : a.lazy = false := by simpa using hl
          simp only [hl', Bool.false_eq_true, if_false] at h
          cases hr : State.derive { s with used := t :: s.used } 0 [i] true false (some (.target t)) with
          | none => rw [hr] at h; cases h
          | some s1 =>
            rw [hr] at h
            simp only [Option.map_some] at h
            have hi1 := derive_inv { s with used := t :: s.used } hi0 0 [i] true false (some (.target t))
              (Or.inr ⟨t, rfl, hfr⟩) s1 hr
            obtain ⟨hst, hus, srcArrs, o, anew, hm, hheap, harrs, hoo, hos, han, hanl⟩ := derive_shape _ _ _ _ _ _ s1 hr
            have hsrc : srcArrs = [a] := by
              simp only [mapOpt] at hm
              rw [ha] at hm
              simp only [Option.some.injEq] at hm
              exact hm.symm
            have hsafe1 : SafePairs s1 rest := by
              intro p hp a1 ha1 hl1
              rw [hheap]
              rw [harrs] at ha1
              have hold : ∀ n, hasDependants s.heap n = false → n ≠ a.name → hasDependants (o :: s.heap) n = false := by
                intro n h1 h2
                unfold hasDependants at h1 ⊢
                simp only [List.any_cons, hos, hsrc, List.map_cons, List.map_nil, Bool.or_eq_false_iff]
                exact ⟨by simp [h2], h1⟩
              by_cases hlt : p.1 < s.arrs.length
              · rw [List.getElem?_append_left hlt] at ha1
                apply hold
                · exact hsafe p (List.mem_cons_of_mem _ hp) a1 ha1 hl1
                · intro hc
                  have : a1 = a := arr_name_inj hi.wf.arrDistinct a1 (List.mem_of_getElem? ha1) a hamem hc
                  rw [this] at hl1
                  exact hl hl1
              · have hge : s.arrs.length ≤ p.1 := by omega
                rw [List.getElem?_append_right hge] at ha1
                have : a1 = anew := by
                  cases hk : p.1 - s.arrs.length with
                  | zero => rw [hk] at ha1; simpa using ha1.symm
                  | succ k => rw [hk] at ha1; simp at ha1
                have han' : anew.name = s.heap.length := han
                rw [this, han']
                apply hold
                · exact hasDependants_ge hi.wf.heap _ (Nat.le_refl _)
                · have := hi.wf.arrName a hamem
                  omega
            cases hrest : State.storePairs s1 rest with
            | none => rw [hrest] at h; cases h
            | some r =>
              obtain ⟨s2, js2⟩ := r
              rw [hrest] at h
              simp only [Option.some.injEq, Prod.mk.injEq] at h
              obtain ⟨rfl, rfl⟩ := h
              obtain ⟨hi2, hst2, hlen2, hal2, hjs2⟩ := ih s1 hi1 hsafe1 s2 js2 hrest
              have hl1 : s1.arrs.length = s.arrs.length + 1 := by rw [harrs]; simp
              refine ⟨hi2, hst2.trans hst, by simp [hlen2], by omega, ?_⟩
              intro j hj
              rcases List.mem_cons.mp hj with rfl | hj'
              · omega
              · exact hjs2 j hj'

theorem safePairs_of_notLate (s : State) (pairs : List (Nat × Nat)) (eager opt : Bool)
    (h : (Step.store pairs eager opt).lateRetarget s = false) : SafePairs s pairs := by
  intro p hp a ha hl
  unfold Step.lateRetarget at h
  simp only [List.any_eq_false] at h
  have := h p hp
  rw [ha] at this
  simp only [hl, Bool.true_and] at this
  cases hd : hasDependants s.heap a.name with
  | false => rfl
  | true => rw [hd] at this; exact absurd rfl this

theorem inv_of_compute_ok {s s' : State} (hi : Inv s) (h1 : s'.heap = s.heap) (h2 : s'.arrs = s.arrs)
    (h3 : s'.used = s.used) (h4 : StoreOK s') : Inv s' :=
  ⟨wf_congr h1 h2 h3 hi.wf, linked_congr h1 h2 hi.linked, h4⟩

theorem getElem?_mapOpt_of_lt {arrs : List Arr} {js : List Nat} (h : ∀ j ∈ js, j < arrs.length) :
    ∃ as, mapOpt (fun j => arrs[j]?) js = some as :=
  mapOpt_some_of_forall _ _ (fun j hj => ⟨arrs[j]'(h j hj), by simp [h j hj]⟩)

theorem isEmpty_false_of_length {α : Type} {l : List α} (h : 0 < l.length) : l.isEmpty = false := by
  cases l with
  | nil => simp at h
  | cons a as => rfl

/-- Every API call other than a late re-targeting keeps the invariant and behaves as C10 demands. -/
theorem step_inv (soft : List OpObj → List XOp → Nat → Bool) (s : State) (hi : Inv s) (st : Step)
    (hsafe : st.lateRetarget s = false) : Inv (s.step soft st).1 ∧ GoodStep soft s st := by
  cases st with
  | input virt k =>
    refine ⟨input_inv s hi virt k, ?_, trivial⟩
    intro l v hv
    show (s.store.set (.ext s.heap.length) (.src k)) l = some v
    unfold Store.set
    by_cases hl : l = .ext s.heap.length
    · subst hl
      have := hi.store.extUsed _ _ hv
      omega
    · simp only [hl, if_false]; exact hv
  | fromZarr t =>
    simp only [GoodStep, State.step]
    cases h : s.fromZarr t with
    | none => exact ⟨hi, fun l v hv => hv, trivial⟩
    | some s' =>
      refine ⟨fromZarr_inv s hi t s' h, ?_, trivial⟩
      intro l v hv
      unfold State.fromZarr at h
      cases hv' : s.store (.target t) with
      | none => rw [hv'] at h; cases h
      | some v' =>
        rw [hv'] at h
        simp only [Option.some.injEq] at h
        subst h
        exact hv
  | derive fn idxs fp fs =>
    simp only [GoodStep, State.step]
    cases h : s.derive fn idxs fp fs with
    | none => exact ⟨hi, fun l v hv => hv, trivial⟩
    | some s' =>
      refine ⟨derive_inv s hi fn idxs fp fs none (Or.inl rfl) s' h, ?_, trivial⟩
      intro l v hv
      have := (derive_shape s fn idxs fp fs none s' h).1
      simp only
      rw [this]; exact hv
  | compute idxs opt resume =>
    simp only [GoodStep, State.step]
    cases hm : mapOpt (fun i => s.arrs[i]?) idxs with
    | none =>
      simp only [Option.isNone_none, Bool.true_or, if_true]
      refine ⟨hi, fun l v hv => hv, ?_⟩
      intro as has; cases has
    | some as =>
      by_cases he : idxs = []
      · subst he
        simp only [Option.isNone_some, List.isEmpty_nil, Bool.or_true, if_true]
        exact ⟨hi, fun l v hv => hv, fun as _ hne => absurd rfl hne⟩
      · have hlen := mapOpt_length _ _ _ hm
        have hne : as.isEmpty = false := by
          apply isEmpty_false_of_length
          rw [hlen]
          cases idxs with
          | nil => exact absurd rfl he
          | cons _ _ => simp
        have hie : idxs.isEmpty = false := by
          cases idxs with
          | nil => exact absurd rfl he
          | cons _ _ => rfl
        obtain ⟨s', vs, hc, hvs, h1, h2, h3, h4, h5⟩ := compute_ok soft s hi idxs opt resume as hm hne
        simp only [Option.isNone_some, hie, Bool.or_self, Bool.false_eq_true, if_false, hc]
        refine ⟨inv_of_compute_ok hi h1 h2 h3 h4, h5, ?_⟩
        intro as' has' _
        cases has'
        exact ⟨vs, rfl, hvs⟩
  | store pairs eager opt =>
    simp only [GoodStep, State.step]
    by_cases hpe : pairs.isEmpty = true
    · simp only [hpe, if_true]
      exact ⟨hi, fun l v hv => hv, by simp⟩
    · simp only [hpe, Bool.false_eq_true, if_false]
      cases hsp : s.storePairs pairs with
      | none => exact ⟨hi, fun l v hv => hv, by simp⟩
      | some r =>
        obtain ⟨s1, js⟩ := r
        obtain ⟨hi1, hst1, hjl, _, hjs⟩ := storePairs_inv pairs s hi (safePairs_of_notLate s pairs eager opt hsafe) s1 js hsp
        simp only
        cases eager with
        | false =>
          simp only [Bool.false_eq_true, if_false]
          refine ⟨hi1, ?_, by simp⟩
          intro l v hv; rw [hst1]; exact hv
        | true =>
          simp only [if_true]
          obtain ⟨as, has⟩ := getElem?_mapOpt_of_lt hjs
          have hne : as.isEmpty = false := by
            apply isEmpty_false_of_length
            rw [mapOpt_length _ _ _ has, hjl]
            cases pairs with
            | nil => simp at hpe
            | cons _ _ => simp
          obtain ⟨s2, vs, hc, _, h1, h2, h3, h4, h5⟩ := compute_ok soft s1 hi1 js opt false as has hne
          simp only [hc]
          refine ⟨inv_of_compute_ok hi1 h1 h2 h3 h4, ?_, by simp⟩
          intro l v hv
          apply h5
          rw [hst1]; exact hv
  | noop => exact ⟨hi, fun l v hv => hv, trivial⟩

/-- A history without late re-targeting behaves as C10 demands at every call. -/
theorem allGood_of_noLate (soft : List OpObj → List XOp → Nat → Bool) :
    ∀ (hist : List Step) (s : State), Inv s → NoLate soft s hist = true → AllGood soft s hist := by
  intro hist
  induction hist with
  | nil => intro _ _ _; trivial
  | cons st rest ih =>
    intro s hi hn
    simp only [NoLate, Bool.and_eq_true, Bool.not_eq_eq_eq_not, Bool.not_true] at hn
    obtain ⟨h1, h2⟩ := step_inv soft s hi st hn.1
    exact ⟨h2, ih _ h1 hn.2⟩

/-! ### facts that hold for *every* history, late re-targeting or not -/

theorem compute_shape (soft : List OpObj → List XOp → Nat → Bool) (s : State) (idxs : List Nat) (opt resume : Bool)
    (s' : State) (vs : List Val) (h : s.compute soft idxs opt resume = some (s', vs)) :
    s'.heap = s.heap ∧ s'.arrs = s.arrs ∧ s'.used = s.used ∧
    ∃ as σ2, mapOpt (fun i => s.arrs[i]?) idxs = some as ∧ s'.store = σ2 ∧
      execPlan s.heap (skipOf resume (finalize soft s.heap as opt).nodes s.store) (finalize soft s.heap as opt).plan
        (createAll (finalize soft s.heap as opt).created s.store) = some σ2 := by
  unfold State.compute at h
  cases hm : mapOpt (fun i => s.arrs[i]?) idxs with
  | none => rw [hm] at h; cases h
  | some as =>
    rw [hm] at h
    simp only at h
    split at h
    · cases h
    · cases hx : execPlan s.heap (skipOf resume (finalize soft s.heap as opt).nodes s.store)
          (finalize soft s.heap as opt).plan (createAll (finalize soft s.heap as opt).created s.store) with
      | none => rw [hx] at h; cases h
      | some σ2 =>
        rw [hx] at h
        simp only at h
        cases hv : mapOpt (fun a => σ2 a.zloc) as with
        | none => rw [hv] at h; cases h
        | some vs' =>
          rw [hv] at h
          simp only [Option.some.injEq, Prod.mk.injEq] at h
          obtain ⟨rfl, rfl⟩ := h
          exact ⟨rfl, rfl, rfl, as, σ2, rfl, rfl, hx⟩

theorem PoolStable.refl (s : State) : PoolStable s s :=
  ⟨Nat.le_refl _, fun _ _ => rfl, fun _ a ha => ⟨a, ha, rfl⟩⟩

theorem PoolStable.trans {s1 s2 s3 : State} (h1 : PoolStable s1 s2) (h2 : PoolStable s2 s3) : PoolStable s1 s3 := by
  refine ⟨Nat.le_trans h1.1 h2.1, ?_, ?_⟩
  · intro n hn
    rw [h2.2.1 n (by have := h1.1; omega), h1.2.1 n hn]
  · intro i a ha
    obtain ⟨a', ha', hn'⟩ := h1.2.2 i a ha
    obtain ⟨a'', ha'', hn''⟩ := h2.2.2 i a' ha'
    exact ⟨a'', ha'', hn''.trans hn'⟩

theorem poolStable_push (s s' : State) (o : OpObj) (a : Arr) (ho : o.out = s.heap.length)
    (h1 : s'.heap = o :: s.heap) (h2 : s'.arrs = s.arrs ++ [a]) : PoolStable s s' := by
  refine ⟨by rw [h1]; simp, ?_, ?_⟩
  · intro n hn
    rw [h1, denote_cons_ne]
    omega
  · intro i b hb
    refine ⟨b, ?_, rfl⟩
    rw [h2]
    obtain ⟨hi, _⟩ := List.getElem?_eq_some_iff.mp hb
    rw [List.getElem?_append_left hi]
    exact hb

theorem poolStable_same (s s' : State) (h1 : s'.heap = s.heap) (h2 : s'.arrs = s.arrs) : PoolStable s s' := by
  refine ⟨by rw [h1]; exact Nat.le_refl _, fun n _ => by rw [h1], fun i a ha => ⟨a, by rw [h2]; exact ha, rfl⟩⟩

theorem poolStable_retarget (s : State) (i : Nat) (l : Loc) (s' : State) (h : s.retarget i l = some s') :
    PoolStable s s' := by
  obtain ⟨_, _, _, hhl, hden, _, hoth, hsame⟩ := retarget_shape s i l s' h
  refine ⟨by omega, fun n _ => hden n, ?_⟩
  intro j a ha
  by_cases hj : j = i
  · subst hj
    obtain ⟨a', ha', hn', _⟩ := hsame a ha
    exact ⟨a', ha', hn'⟩
  · exact ⟨a, by rw [hoth j hj]; exact ha, rfl⟩

theorem poolStable_derive (s : State) (fn : Nat) (idxs : List Nat) (fp fs : Bool) (wl : Option Loc) (s' : State)
    (h : s.derive fn idxs fp fs wl = some s') : PoolStable s s' := by
  obtain ⟨_, _, _, o, a, _, hheap, harrs, hoo, _, _, _⟩ := derive_shape s fn idxs fp fs wl s' h
  exact poolStable_push s s' o a hoo hheap harrs

theorem poolStable_storePairs : ∀ (pairs : List (Nat × Nat)) (s s' : State) (js : List Nat),
    s.storePairs pairs = some (s', js) → PoolStable s s' := by
  intro pairs
  induction pairs with
  | nil =>
    intro s s' js h
    simp only [State.storePairs, Option.some.injEq, Prod.mk.injEq] at h
    obtain ⟨rfl, rfl⟩ := h
    exact PoolStable.refl s
  | cons p rest ih =>
    obtain ⟨i, t⟩ := p
    intro s s' js h
    simp only [State.storePairs] at h
    split at h
    · cases h
    · cases ha : s.arrs[i]? with
      | none => rw [ha] at h; cases h
      | some a =>
        rw [ha] at h
        simp only at h
        have h0 : PoolStable s { s with used := t :: s.used } := poolStable_same _ _ rfl rfl
        by_cases hl : a.lazy = true
        · simp only [hl, if_true] at h
          cases hr : State.retarget { s with used := t :: s.used } i (.target t) with
          | none => rw [hr] at h; cases h
          | some s1 =>
            rw [hr] at h
            simp only [Option.map_some] at h
            cases hrest : State.storePairs s1 rest with
            | none => rw [hrest] at h; cases h
            | some r =>
              obtain ⟨s2, js2⟩ := r
              rw [hrest] at h
              simp only [Option.some.injEq, Prod.mk.injEq] at h
              obtain ⟨rfl, rfl⟩ := h
              exact (h0.trans (poolStable_retarget _ i _ s1 hr)).trans (ih s1 s2 js2 hrest)
        · have hl' : a.lazy = false := by simpa using hl
          simp only [hl', Bool.false_eq_true, if_false] at h
          cases hr : State.derive { s with used := t :: s.used } 0 [i] true false (some (.target t)) with
          | none => rw [hr] at h; cases h
          | some s1 =>
            rw [hr] at h
            simp only [Option.map_some] at h
            cases hrest : State.storePairs s1 rest with
            | none => rw [hrest] at h; cases h
            | some r =>
              obtain ⟨s2, js2⟩ := r
              rw [hrest] at h
              simp only [Option.some.injEq, Prod.mk.injEq] at h
              obtain ⟨rfl, rfl⟩ := h
              exact (h0.trans (poolStable_derive _ _ _ _ _ _ s1 hr)).trans (ih s1 s2 js2 hrest)

/-- No API call whatsoever (including a late re-targeting) changes what any existing array was built
to be. -/
theorem poolStable_step (soft : List OpObj → List XOp → Nat → Bool) (s : State) (st : Step) :
    PoolStable s (s.step soft st).1 := by
  cases st with
  | input virt k => exact poolStable_push s _ _ _ rfl rfl rfl
  | fromZarr t =>
    simp only [State.step]
    cases h : s.fromZarr t with
    | none => exact PoolStable.refl s
    | some s' =>
      unfold State.fromZarr at h
      cases hv : s.store (.target t) with
      | none => rw [hv] at h; cases h
      | some v =>
        rw [hv] at h
        simp only [Option.some.injEq] at h
        subst h
        exact poolStable_push s _ _ _ rfl rfl rfl
  | derive fn idxs fp fs =>
    simp only [State.step]
    cases h : s.derive fn idxs fp fs with
    | none => exact PoolStable.refl s
    | some s' => exact poolStable_derive s fn idxs fp fs none s' h
  | compute idxs opt resume =>
    simp only [State.step]
    split
    · exact PoolStable.refl s
    · cases h : s.compute soft idxs opt resume with
      | none => exact PoolStable.refl s
      | some r =>
        obtain ⟨s', vs⟩ := r
        obtain ⟨h1, h2, _⟩ := compute_shape soft s idxs opt resume s' vs h
        exact poolStable_same s s' h1 h2
  | store pairs eager opt =>
    simp only [State.step]
    split
    · exact PoolStable.refl s
    · cases hsp : s.storePairs pairs with
      | none => exact PoolStable.refl s
      | some r =>
        obtain ⟨s1, js⟩ := r
        have h1 := poolStable_storePairs pairs s s1 js hsp
        simp only
        cases eager with
        | false => exact h1
        | true =>
          simp only [if_true]
          cases hc : s1.compute soft js opt false with
          | none => exact h1
          | some r2 =>
            obtain ⟨s2, vs⟩ := r2
            obtain ⟨h2, h3, _⟩ := compute_shape soft s1 js opt false s2 vs hc
            exact h1.trans (poolStable_same s1 s2 h2 h3)
  | noop => exact PoolStable.refl s

theorem poolStable_run (soft : List OpObj → List XOp → Nat → Bool) :
    ∀ (hist : List Step) (s : State), PoolStable s (s.run soft hist).1 := by
  intro hist
  induction hist with
  | nil => intro s; exact PoolStable.refl s
  | cons st rest ih =>
    intro s
    simp only [State.run]
    exact (poolStable_step soft s st).trans (ih _)

/-! ### which locations a computation can change (unconditionally) -/

theorem fuseStep_outs (soft : List OpObj → List XOp → Nat → Bool) (heap : List OpObj) (req : List Nat)
    (plan : List XOp) (n : Nat) : ∀ e ∈ fuseStep soft heap req plan n, ∃ e0 ∈ plan, e0.out = e.out := by
  intro e he
  unfold fuseStep at he
  cases hx : xopOf plan n with
  | none => rw [hx] at he; exact ⟨e, he, rfl⟩
  | some x =>
    cases ho : findOp heap n with
    | none => rw [hx, ho] at he; exact ⟨e, he, rfl⟩
    | some o =>
      rw [hx, ho] at he
      simp only at he
      split at he
      · simp only [List.mem_map, List.mem_filter] at he
        obtain ⟨y, ⟨hy, _⟩, rfl⟩ := he
        refine ⟨y, hy, ?_⟩
        split
        · rename_i h; rw [h]; rfl
        · rfl
      · exact ⟨e, he, rfl⟩

theorem optimize_outs (soft : List OpObj → List XOp → Nat → Bool) (heap : List OpObj) (req : List Nat)
    (plan : List XOp) : ∀ e ∈ optimize soft heap req plan, ∃ e0 ∈ plan, e0.out = e.out := by
  unfold optimize
  generalize (plan.map (·.out)).reverse = names
  induction names generalizing plan with
  | nil => intro e he; exact ⟨e, he, rfl⟩
  | cons n rest ih =>
    intro e he
    simp only [List.foldl_cons] at he
    obtain ⟨e1, he1, h1⟩ := ih _ e he
    obtain ⟨e0, he0, h0⟩ := fuseStep_outs soft heap req plan n e1 he1
    exact ⟨e0, he0, h0.trans h1⟩

theorem execPlan_frame (heap : List OpObj) (skip : Nat → Bool) :
    ∀ (es : List XOp) (σ σ' : Store), execPlan heap skip es σ = some σ' →
      ∀ l, σ' l = σ l ∨ ∃ e ∈ es, skip e.out = false ∧ wlocOf heap e.out = some l := by
  intro es
  induction es with
  | nil =>
    intro σ σ' h l
    simp only [execPlan, Option.some.injEq] at h
    subst h; exact Or.inl rfl
  | cons e es ih =>
    intro σ σ' h l
    simp only [execPlan] at h
    cases h1 : execPlan heap skip es σ with
    | none => rw [h1] at h; cases h
    | some σ1 =>
      rw [h1] at h
      simp only at h
      have hrest : σ1 l = σ l ∨ ∃ e' ∈ e :: es, skip e'.out = false ∧ wlocOf heap e'.out = some l := by
        rcases ih σ σ1 h1 l with h2 | ⟨e', he', h2⟩
        · exact Or.inl h2
        · exact Or.inr ⟨e', List.mem_cons_of_mem _ he', h2⟩
      by_cases hsk : skip e.out = true
      · simp only [hsk, if_true, Option.some.injEq] at h
        subst h; exact hrest
      · have hsk' : skip e.out = false := by simpa using hsk
        simp only [hsk', Bool.false_eq_true, if_false] at h
        cases hf : findOp heap e.out with
        | none => rw [hf] at h; cases h
        | some o =>
          rw [hf] at h
          cases hv : evalFused e.members e.reads σ1 heap e.out with
          | none => rw [hv] at h; cases h
          | some v =>
            rw [hv] at h
            simp only at h
            by_cases hs : (σ1 o.wloc).isSome = true
            · simp only [hs, if_true, Option.some.injEq] at h
              subst h
              unfold Store.set
              by_cases hl : l = o.wloc
              · right
                exact ⟨e, by simp, by simpa using hsk, wlocOf_eq_some.mpr ⟨o, hf, hl.symm⟩⟩
              · simp only [hl, if_false]; exact hrest
            · simp only [hs] at h
              cases h

/-- `writes_subset_targets`: a computation changes only locations that the create step of its plan creates
(lazy targets in the merged dag of the computed arrays) or that an op of its plan writes. -/
theorem compute_frame (soft : List OpObj → List XOp → Nat → Bool) (s : State) (idxs : List Nat) (opt resume : Bool)
    (s' : State) (vs : List Val) (h : s.compute soft idxs opt resume = some (s', vs)) :
    ∃ as, mapOpt (fun i => s.arrs[i]?) idxs = some as ∧ ∀ l, s'.store l = s.store l ∨
      (∃ a ∈ as, ∃ nd ∈ a.dag, nd.lazy = true ∧ nd.target = l ∧ s.store l = none ∧ s'.store l ≠ none) ∨
      (∃ e ∈ (finalize soft s.heap as opt).plan, ∃ o ∈ s.heap, o.prim = true ∧ o.out = e.out ∧
          wlocOf s.heap e.out = some l) := by
  obtain ⟨_, _, _, as, σ2, hm, hst, hex⟩ := compute_shape soft s idxs opt resume s' vs h
  refine ⟨as, hm, fun l => ?_⟩
  rw [hst]
  rcases execPlan_frame _ _ _ _ _ hex l with h2 | ⟨e, he, _, hw⟩
  · rcases createAll_frame (finalize soft s.heap as opt).created s.store l with h1 | ⟨h0, h1, nd, hnd, hl, ht⟩
    · exact Or.inl (h2.trans h1)
    · right; left
      have hnd' : nd ∈ compose (as.map (·.dag)) := by
        unfold finalize at hnd
        simp only [List.mem_filter] at hnd
        exact hnd.1
      obtain ⟨d, hd, hndd⟩ := mem_compose hnd'
      simp only [List.mem_map] at hd
      obtain ⟨a, ha, rfl⟩ := hd
      exact ⟨a, ha, nd, hndd, hl, ht, h0, by rw [h2, h1]; simp⟩
  · right; right
    have : ∃ e0 ∈ basePlan s.heap (compose (as.map (·.dag))), e0.out = e.out := by
      unfold finalize at he
      simp only at he
      cases opt with
      | true => exact optimize_outs soft s.heap _ _ e he
      | false => exact ⟨e, he, rfl⟩
    obtain ⟨e0, he0, h0⟩ := this
    obtain ⟨o, ho, hp, _, rfl⟩ := mem_basePlan.mp he0
    exact ⟨e, he, o, ho, hp, h0, hw⟩

theorem basic_init : Basic ({} : State) := by
  refine ⟨trivial, ?_, ?_, ?_, ?_⟩
  all_goals first
    | (intro o ho; exact (List.not_mem_nil ho).elim)
    | (intro x y hv; exact nomatch hv)

theorem basic_push (s : State) (hb : Basic s) (o : OpObj) (a : Arr) (σ' : Store) (used' : List Nat)
    (ho : o.out = s.heap.length) (hs : ∀ n ∈ o.srcs, n < s.heap.length) (hw : o.prim = true → ∀ k, o.wloc ≠ .ext k)
    (han : a.name = s.heap.length)
    (hd : ∀ nd ∈ a.dag, nd.lazy = true → ∀ k, nd.target ≠ .ext k)
    (hσ : ∀ k v, σ' (.ext k) = some v → s.store (.ext k) = some v ∨ k = s.heap.length) :
    Basic (State.mk (o :: s.heap) (s.arrs ++ [a]) σ' used') := by
  refine ⟨⟨ho, fun n hn => by have := hs n hn; omega, hb.heap⟩, ?_, ?_, ?_, ?_⟩
  · intro b hb'
    simp only [List.length_cons]
    rcases List.mem_append.mp hb' with h | h
    · have := hb.arrName b h; omega
    · simp only [List.mem_singleton] at h; subst h; omega
  · intro o' ho' hp
    rcases List.mem_cons.mp ho' with rfl | h
    · exact hw hp
    · exact hb.opsNoExt o' h hp
  · intro b hb' nd hnd hl
    rcases List.mem_append.mp hb' with h | h
    · exact hb.nodesNoExt b h nd hnd hl
    · simp only [List.mem_singleton] at h; subst h; exact hd nd hnd hl
  · intro k v hv
    simp only [List.length_cons]
    rcases hσ k v hv with h | h
    · have := hb.extBound k v h; omega
    · omega

theorem basic_derive (s : State) (hb : Basic s) (fn : Nat) (idxs : List Nat) (fp fs : Bool) (wl : Option Loc)
    (hwl : ∀ k, wl ≠ some (.ext k)) (s' : State) (h : s.derive fn idxs fp fs wl = some s') : Basic s' := by
  unfold State.derive at h
  cases hm : mapOpt (fun i => s.arrs[i]?) idxs with
  | none => rw [hm] at h; cases h
  | some srcArrs =>
    rw [hm] at h
    simp only at h
    split at h
    · cases h
    · simp only [Option.some.injEq] at h
      subst h
      have hmem := mem_of_mapOpt_getElem? hm
      have hl : ∀ k, wl.getD (.inter s.heap.length) ≠ .ext k := by
        intro k
        cases wl with
        | none => simp
        | some l => simp only [Option.getD_some]; intro hc; exact hwl k (by rw [hc])
      apply basic_push s hb _ _ _ _ rfl
      · intro n hn
        simp only [List.mem_map] at hn
        obtain ⟨b, hb', rfl⟩ := hn
        exact hb.arrName b (hmem b hb')
      · intro _; exact hl
      · rfl
      · intro nd hnd hlz
        rcases mem_insertNode hnd with h1 | h1
        · obtain ⟨d, hd, hndd⟩ := mem_compose h1
          simp only [List.mem_map] at hd
          obtain ⟨b, hb', rfl⟩ := hd
          exact hb.nodesNoExt b (hmem b hb') nd hndd hlz
        · subst h1; exact hl
      · intro k v hv; exact Or.inl hv

theorem basic_retarget (s : State) (hb : Basic s) (i t : Nat) (s' : State)
    (h : s.retarget i (.target t) = some s') : Basic s' := by
  unfold State.retarget at h
  cases ha : s.arrs[i]? with
  | none => rw [ha] at h; cases h
  | some a =>
    rw [ha] at h
    simp only [Option.some.injEq] at h
    subst h
    have hamem : a ∈ s.arrs := List.mem_of_getElem? ha
    refine ⟨?_, ?_, ?_, ?_, ?_⟩
    · apply HeapWF_map _ _ _ hb.heap
      intro o; split <;> simp
    · intro b hb'
      simp only [List.length_map]
      rcases List.mem_or_eq_of_mem_set hb' with h1 | h1
      · exact hb.arrName b h1
      · subst h1; exact hb.arrName a hamem
    · intro o' ho' hp k
      simp only [List.mem_map] at ho'
      obtain ⟨o, ho, rfl⟩ := ho'
      split
      · simp
      · rename_i hc
        simp only [hc, if_false] at hp
        exact hb.opsNoExt o ho hp k
    · intro b hb' nd hnd hl k
      rcases List.mem_or_eq_of_mem_set hb' with h1 | h1
      · exact hb.nodesNoExt b h1 nd hnd hl k
      · subst h1
        simp only [List.mem_map] at hnd
        obtain ⟨nd0, hnd0, rfl⟩ := hnd
        split
        · simp
        · rename_i hc
          simp only [hc, if_false] at hl
          exact hb.nodesNoExt a hamem nd0 hnd0 hl k
    · intro k v hv
      simp only [List.length_map]
      exact hb.extBound k v hv

theorem basic_storePairs : ∀ (pairs : List (Nat × Nat)) (s s' : State) (js : List Nat), Basic s →
    s.storePairs pairs = some (s', js) → Basic s' ∧ s'.store = s.store := by
  intro pairs
  induction pairs with
  | nil =>
    intro s s' js hb h
    simp only [State.storePairs, Option.some.injEq, Prod.mk.injEq] at h
    obtain ⟨rfl, rfl⟩ := h
    exact ⟨hb, rfl⟩
  | cons p rest ih =>
    obtain ⟨i, t⟩ := p
    intro s s' js hb h
    simp only [State.storePairs] at h
    split at h
    · cases h
    · cases ha : s.arrs[i]? with
      | none => rw [ha] at h; cases h
      | some a =>
        rw [ha] at h
        simp only at h
        have hb0 : Basic { s with used := t :: s.used } := ⟨hb.heap, hb.arrName, hb.opsNoExt, hb.nodesNoExt, hb.extBound⟩
        by_cases hl : a.lazy = true
        · simp only [hl, if_true] at h
          cases hr : State.retarget { s with used := t :: s.used } i (.target t) with
          | none => rw [hr] at h; cases h
          | some s1 =>
            rw [hr] at h
            simp only [Option.map_some] at h
            cases hrest : State.storePairs s1 rest with
            | none => rw [hrest] at h; cases h
            | some r =>
              obtain ⟨s2, js2⟩ := r
              rw [hrest] at h
              simp only [Option.some.injEq, Prod.mk.injEq] at h
              obtain ⟨rfl, rfl⟩ := h
              obtain ⟨h1, h2⟩ := ih s1 s2 js2 (basic_retarget _ hb0 i t s1 hr) hrest
              exact ⟨h1, h2.trans (retarget_shape _ i _ s1 hr).1⟩
        · have hl' : a.lazy = false := by simpa using hl
          simp only [hl', Bool.false_eq_true, if_false] at h
          cases hr : State.derive { s with used := t :: s.used } 0 [i] true false (some (.target t)) with
          | none => rw [hr] at h; cases h
          | some s1 =>
            rw [hr] at h
            simp only [Option.map_some] at h
            cases hrest : State.storePairs s1 rest with
            | none => rw [hrest] at h; cases h
            | some r =>
              obtain ⟨s2, js2⟩ := r
              rw [hrest] at h
              simp only [Option.some.injEq, Prod.mk.injEq] at h
              obtain ⟨rfl, rfl⟩ := h
              obtain ⟨h1, h2⟩ := ih s1 s2 js2
                (basic_derive _ hb0 0 [i] true false _ (by intro k hc; cases hc) s1 hr) hrest
              exact ⟨h1, h2.trans (derive_shape _ _ _ _ _ _ s1 hr).1⟩

theorem basic_compute (soft : List OpObj → List XOp → Nat → Bool) (s : State) (hb : Basic s) (idxs : List Nat)
    (opt resume : Bool) (s' : State) (vs : List Val) (h : s.compute soft idxs opt resume = some (s', vs)) :
    Basic s' ∧ ∀ k, s'.store (.ext k) = s.store (.ext k) := by
  obtain ⟨h1, h2, _, _⟩ := compute_shape soft s idxs opt resume s' vs h
  obtain ⟨as, hm, hfr⟩ := compute_frame soft s idxs opt resume s' vs h
  have hmem := mem_of_mapOpt_getElem? hm
  have hext : ∀ k, s'.store (.ext k) = s.store (.ext k) := by
    intro k
    rcases hfr (.ext k) with h0 | ⟨a, ha, nd, hnd, hl, ht, _⟩ | ⟨e, _, o, ho, hp, hoe, hw⟩
    · exact h0
    · exact absurd ht (hb.nodesNoExt a (hmem a ha) nd hnd hl k)
    · obtain ⟨o', hfo', hwo'⟩ := wlocOf_eq_some.mp hw
      have hfo : findOp s.heap e.out = some o := hoe ▸ findOp_of_mem hb.heap o ho
      rw [hfo] at hfo'
      cases hfo'
      exact absurd hwo' (hb.opsNoExt o ho hp k)
  refine ⟨⟨by rw [h1]; exact hb.heap, by rw [h1, h2]; exact hb.arrName, by rw [h1]; exact hb.opsNoExt,
    by rw [h2]; exact hb.nodesNoExt, ?_⟩, hext⟩
  intro k v hv
  rw [h1]
  rw [hext] at hv
  exact hb.extBound k v hv

/-- Whatever the call (late re-targeting included): source data is never modified. -/
theorem basic_step (soft : List OpObj → List XOp → Nat → Bool) (s : State) (hb : Basic s) (st : Step) :
    Basic (s.step soft st).1 ∧ ∀ k v, s.store (.ext k) = some v → (s.step soft st).1.store (.ext k) = some v := by
  cases st with
  | input virt k =>
    constructor
    · apply basic_push s hb _ _ _ _ rfl (by intro n hn; cases hn) (by intro h; cases h) rfl
      · intro nd hnd hl
        simp only [List.mem_singleton] at hnd
        subst hnd; cases hl
      · intro k' v hv
        unfold Store.set at hv
        by_cases hk : (Loc.ext k') = .ext s.heap.length
        · right; cases hk; rfl
        · simp only [hk, if_false] at hv; exact Or.inl hv
    · intro k' v hv
      show (s.store.set (.ext s.heap.length) (.src k)) (.ext k') = some v
      unfold Store.set
      have := hb.extBound k' v hv
      have hne : (Loc.ext k') ≠ .ext s.heap.length := by
        intro hc; cases hc; omega
      simp only [hne, if_false]; exact hv
  | fromZarr t =>
    simp only [State.step]
    cases h : s.fromZarr t with
    | none => exact ⟨hb, fun k v hv => hv⟩
    | some s' =>
      unfold State.fromZarr at h
      cases hv : s.store (.target t) with
      | none => rw [hv] at h; cases h
      | some v =>
        rw [hv] at h
        simp only [Option.some.injEq] at h
        subst h
        constructor
        · apply basic_push s hb _ _ _ _ rfl (by intro n hn; cases hn) (by intro h; cases h) rfl
          · intro nd hnd hl
            simp only [List.mem_singleton] at hnd
            subst hnd; cases hl
          · intro k' v' hv'; exact Or.inl hv'
        · intro k' v' hv'; exact hv'
  | derive fn idxs fp fs =>
    simp only [State.step]
    cases h : s.derive fn idxs fp fs with
    | none => exact ⟨hb, fun k v hv => hv⟩
    | some s' =>
      refine ⟨basic_derive s hb fn idxs fp fs none (by intro k hc; cases hc) s' h, ?_⟩
      intro k v hv
      simp only
      rw [(derive_shape s fn idxs fp fs none s' h).1]; exact hv
  | compute idxs opt resume =>
    simp only [State.step]
    split
    · exact ⟨hb, fun k v hv => hv⟩
    · cases h : s.compute soft idxs opt resume with
      | none => exact ⟨hb, fun k v hv => hv⟩
      | some r =>
        obtain ⟨s', vs⟩ := r
        obtain ⟨h1, h2⟩ := basic_compute soft s hb idxs opt resume s' vs h
        exact ⟨h1, fun k v hv => by simp only; rw [h2]; exact hv⟩
  | store pairs eager opt =>
    simp only [State.step]
    split
    · exact ⟨hb, fun k v hv => hv⟩
    · cases hsp : s.storePairs pairs with
      | none => exact ⟨hb, fun k v hv => hv⟩
      | some r =>
        obtain ⟨s1, js⟩ := r
        obtain ⟨hb1, hst1⟩ := basic_storePairs pairs s s1 js hb hsp
        simp only
        cases eager with
        | false => exact ⟨hb1, fun k v hv => by simp only [Bool.false_eq_true, if_false]; rw [hst1]; exact hv⟩
        | true =>
          simp only [if_true]
          cases hc : s1.compute soft js opt false with
          | none => exact ⟨hb1, fun k v hv => by simp only; rw [hst1]; exact hv⟩
          | some r2 =>
            obtain ⟨s2, vs⟩ := r2
            obtain ⟨h1, h2⟩ := basic_compute soft s1 hb1 js opt false s2 vs hc
            exact ⟨h1, fun k v hv => by simp only; rw [h2, hst1]; exact hv⟩
  | noop => exact ⟨hb, fun k v hv => hv⟩

theorem sources_intact_run (soft : List OpObj → List XOp → Nat → Bool) :
    ∀ (hist : List Step) (s : State), Basic s →
      ∀ k v, s.store (.ext k) = some v → (s.run soft hist).1.store (.ext k) = some v := by
  intro hist
  induction hist with
  | nil => intro s _ k v hv; exact hv
  | cons st rest ih =>
    intro s hb k v hv
    simp only [State.run]
    obtain ⟨h1, h2⟩ := basic_step soft s hb st
    exact ih _ h1 k v (h2 k v hv)

/-- … and so does the invariant at the end of such a history. -/
theorem inv_run_of_noLate (soft : List OpObj → List XOp → Nat → Bool) :
    ∀ (hist : List Step) (s : State), Inv s → NoLate soft s hist = true → Inv (s.run soft hist).1 := by
  intro hist
  induction hist with
  | nil => intro s hs _; exact hs
  | cons st rest ih =>
    intro s hs hn
    simp only [NoLate, Bool.and_eq_true, Bool.not_eq_eq_eq_not, Bool.not_true] at hn
    exact ih _ (step_inv soft s hs st hn.1).1 hn.2

end Cubed.History
