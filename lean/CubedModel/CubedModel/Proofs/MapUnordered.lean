/-
  Invariants of `async_map_unordered` (model: `Model/MapUnordered.lean`) and their preservation by every phase of the
  loop body.  Used by `Properties/C08.lean`.

  `Inv cfg ok n st w` is the invariant of the state `st` while the work list `w` (the not yet processed part of
  `finished`) is being iterated; between rounds `w = []`.  A future is *active* (`Act`) when it is pending or still in
  the work list.  The clauses:
    b*  every key of every dict / set is a created future; `tasks` and `start_times` are defined on all of them
    w*  the work list has no duplicates, its members are done and no longer pending
    k*  `backups` is a symmetric matching between submissions of the same input; an inactive member of a pair has failed
    s*  a superseded future is not pending and its input has been emitted
    e*  at most one result per input; an emitted input has no active non-superseded future; results are successes
    g*  two submissions of one input are twins (or the input is emitted); never three
    p*  the inputs not yet handed out are exactly `batches.flatten`; every other input is emitted or has an active future
-/
import CubedModel.Model.MapUnordered

namespace Cubed.MapUnordered

/-! ### small list facts -/

theorem mem_dedup (l : List Nat) (x : Nat) : x ∈ dedup l ↔ x ∈ l := by
  induction l with
  | nil => simp [dedup]
  | cons a r ih =>
    simp only [dedup]
    split
    · rename_i h
      have : a ∈ r := by simpa using h
      constructor
      · intro hx; exact List.mem_cons_of_mem _ (ih.mp hx)
      · intro hx
        cases List.mem_cons.mp hx with
        | inl h1 => subst h1; exact ih.mpr this
        | inr h1 => exact ih.mpr h1
    · simp [ih]

theorem nodup_dedup (l : List Nat) : (dedup l).Nodup := by
  induction l with
  | nil => simp [dedup]
  | cons a r ih =>
    simp only [dedup]
    split
    · exact ih
    · rename_i h
      have : a ∉ r := by simpa using h
      exact List.nodup_cons.mpr ⟨fun hx => this ((mem_dedup r a).mp hx), ih⟩

theorem insertSorted_length (a : Int) (l : List Int) : (insertSorted a l).length = l.length + 1 := by
  induction l with
  | nil => simp [insertSorted]
  | cons b r ih => simp only [insertSorted]; split <;> simp [ih]

theorem isort_length (l : List Int) : (isort l).length = l.length := by
  induction l with
  | nil => simp [isort]
  | cons a r ih => simp [isort, insertSorted_length, ih]

theorem allSome_of_all {α : Type} (l : List (Option α)) (h : ∀ x ∈ l, x.isSome = true) :
    ∃ r, allSome l = some r ∧ r.length = l.length := by
  induction l with
  | nil => exact ⟨[], rfl, rfl⟩
  | cons a r ih =>
    have ha := h a (by simp)
    obtain ⟨r', hr, hl⟩ := ih (fun x hx => h x (List.mem_cons_of_mem _ hx))
    cases a with
    | none => simp at ha
    | some v => exact ⟨v :: r', by simp [allSome, hr], by simp [hl]⟩

theorem mem_keys (n : Nat) (p : Nat → Bool) (f : Nat) : f ∈ keys n p ↔ f < n ∧ p f = true := by
  simp [keys]

theorem nodup_keys (n : Nat) (p : Nat → Bool) : (keys n p).Nodup :=
  List.Pairwise.filter _ List.nodup_range

/-- a duplicate-free list without three pairwise different members has at most two -/
theorem length_le_two_of_no_three (l : List Nat) (hnd : l.Nodup)
    (h : ∀ a b c, a ∈ l → b ∈ l → c ∈ l → a ≠ b → b ≠ c → a ≠ c → False) : l.length ≤ 2 := by
  match l, hnd, h with
  | [], _, _ => simp
  | [_], _, _ => simp
  | [_, _], _, _ => simp
  | a :: b :: c :: r, hnd, h =>
    exfalso
    simp only [List.nodup_cons, List.mem_cons] at hnd
    refine h a b c (by simp) (by simp) (by simp) ?_ ?_ ?_
    · intro e; exact hnd.1 (Or.inl e)
    · intro e; exact hnd.2.1 (Or.inl e)
    · intro e; exact hnd.1 (Or.inr (Or.inl e))

/-! ### the invariant -/

/-- pending, or finished in this round and not yet processed -/
def Act (st : St) (w : List Nat) (f : Nat) : Prop := st.pending f = true ∨ f ∈ w

structure Inv (cfg : Cfg) (ok : Nat → Bool) (n : Nat) (st : St) (w : List Nat) : Prop where
  b1 : ∀ f, st.pending f = true → f < st.nextId
  b2 : ∀ f, f ∈ w → f < st.nextId
  b3 : ∀ f, f < st.nextId ↔ (st.tasks f).isSome = true
  b4 : ∀ f, f < st.nextId → (st.start f).isSome = true
  b5 : ∀ f, (st.end_ f).isSome = true → f < st.nextId
  b7 : ∀ f, st.superseded f = true → f < st.nextId
  b8 : ∀ f, f ∈ st.emitted → f < st.nextId
  b9 : ∀ f, st.done f = true → f < st.nextId
  w1 : w.Nodup
  w2 : ∀ f, f ∈ w → st.pending f = false ∧ st.done f = true
  k0 : cfg.useBackups = false → ∀ f, st.backups f = none
  k1 : ∀ f t, st.backups f = some t →
        st.backups t = some f ∧ t ≠ f ∧ st.tasks t = st.tasks f ∧ f < st.nextId
  k3 : ∀ f t, st.backups f = some t → ¬ Act st w f → st.done f = true ∧ ok f = false
  k4 : ∀ f t, st.backups f = some t → st.superseded f = false
  s1 : ∀ f, st.superseded f = true →
        st.pending f = false ∧ ∃ e, e ∈ st.emitted ∧ st.tasks e = st.tasks f
  e1 : (st.emitted.map st.tasks).Nodup
  e2 : ∀ e f, e ∈ st.emitted → Act st w f → st.tasks f = st.tasks e → st.superseded f = true
  e3 : ∀ e, e ∈ st.emitted → ok e = true ∧ st.done e = true
  g1 : ∀ f g, Act st w f → Act st w g → st.superseded f = false → st.superseded g = false →
        st.tasks f = st.tasks g → f ≠ g → st.backups f = some g
  g2 : ∀ f g, f < st.nextId → g < st.nextId → st.tasks f = st.tasks g → f ≠ g →
        st.backups f = some g ∨ ∃ e, e ∈ st.emitted ∧ st.tasks e = st.tasks f
  g3 : ∀ f g h, f < st.nextId → g < st.nextId → h < st.nextId → st.tasks f = st.tasks g →
        st.tasks g = st.tasks h → f ≠ g → g ≠ h → f ≠ h → False
  p0 : st.batches.flatten.Nodup
  p1 : ∀ f p, st.tasks f = some p → p < n ∧ p ∉ st.batches.flatten
  p2 : ∀ p, p < n → p ∈ st.batches.flatten ∨ (∃ e, e ∈ st.emitted ∧ st.tasks e = some p) ∨
        (∃ f, Act st w f ∧ st.superseded f = false ∧ st.tasks f = some p)
  p5 : ∀ p, p ∈ st.batches.flatten → p < n

/-- tactic used for every clause of every preservation lemma: unfold the updates, then `grind` -/
macro "inv_field" : tactic =>
  `(tactic| ((try simp only [Act, upd, List.mem_append, List.mem_singleton, List.map_append, List.map_cons, List.map_nil,
                        List.mem_cons, List.nodup_cons, List.not_mem_nil, or_false, false_or]); grind))

/-! ### `asyncio.wait` -/

theorem inv_wait (cfg : Cfg) (ok : Nat → Bool) (n : Nat) (st : St) (w : List Nat)
    (hw : ∀ f, f ∈ w → st.pending f = true) (hnd : w.Nodup) (h : Inv cfg ok n st []) :
    Inv cfg ok n { st with pending := fun f => st.pending f && !w.contains f,
                           done := fun f => st.done f || w.contains f } w := by
  obtain ⟨b1,b2,b3,b4,b5,b7,b8,b9,w1,w2,k0,k1,k3,k4,s1,e1,e2,e3,g1,g2,g3,p0,p1,p2,p5⟩ := h
  simp only [Act, List.not_mem_nil, or_false] at *
  refine ⟨?_,?_,?_,?_,?_,?_,?_,?_,?_,?_,?_,?_,?_,?_,?_,?_,?_,?_,?_,?_,?_,?_,?_,?_,?_⟩
  all_goals ((try simp only [Act, Bool.and_eq_true, Bool.or_eq_true, Bool.not_eq_true', List.contains_eq_mem,
                        decide_eq_true_eq, decide_eq_false_iff_not, Bool.and_eq_false_iff]); grind)



/-! ### the loop over `finished` -/

/-- `if task in superseded: continue` -/
theorem inv_skip_sup (cfg : Cfg) (ok : Nat → Bool) (n : Nat) (st : St) (f : Nat) (w : List Nat)
    (h : Inv cfg ok n st (f :: w)) (hs : st.superseded f = true) : Inv cfg ok n st w := by
  obtain ⟨b1,b2,b3,b4,b5,b7,b8,b9,w1,w2,k0,k1,k3,k4,s1,e1,e2,e3,g1,g2,g3,p0,p1,p2,p5⟩ := h
  simp only [Act, List.mem_cons, List.nodup_cons] at *
  refine ⟨?_,?_,?_,?_,?_,?_,?_,?_,?_,?_,?_,?_,?_,?_,?_,?_,?_,?_,?_,?_,?_,?_,?_,?_,?_⟩
  all_goals inv_field

/-- a failed task whose twin is not done, or done without exception: `continue` -/
theorem inv_skip_failed (cfg : Cfg) (ok : Nat → Bool) (n : Nat) (st : St) (f b : Nat) (w : List Nat)
    (h : Inv cfg ok n st (f :: w)) (hf : ok f = false) (hb : st.backups f = some b)
    (hd : st.done b = false ∨ ok b = true) : Inv cfg ok n st w := by
  obtain ⟨b1,b2,b3,b4,b5,b7,b8,b9,w1,w2,k0,k1,k3,k4,s1,e1,e2,e3,g1,g2,g3,p0,p1,p2,p5⟩ := h
  simp only [Act, List.mem_cons, List.nodup_cons] at *
  have hbk := k1 f b hb
  have hact : st.pending b = true ∨ b ∈ w := by
    have := k3 b f hbk.1
    grind
  refine ⟨?_,?_,?_,?_,?_,?_,?_,?_,?_,?_,?_,?_,?_,?_,?_,?_,?_,?_,?_,?_,?_,?_,?_,?_,?_⟩
  all_goals inv_field



/-- a successful task without a twin entry -/
theorem inv_emit_plain (cfg : Cfg) (ok : Nat → Bool) (n : Nat) (st : St) (f : Nat) (w : List Nat) (t : Int)
    (h : Inv cfg ok n st (f :: w)) (hok : ok f = true) (hs : st.superseded f = false) (hb : st.backups f = none) :
    Inv cfg ok n { st with end_ := upd st.end_ f (some t), emitted := st.emitted ++ [f] } w := by
  obtain ⟨b1,b2,b3,b4,b5,b7,b8,b9,w1,w2,k0,k1,k3,k4,s1,e1,e2,e3,g1,g2,g3,p0,p1,p2,p5⟩ := h
  simp only [Act, List.mem_cons, List.nodup_cons] at *
  refine ⟨?_,?_,?_,?_,?_,?_,?_,?_,?_,?_,?_,?_,?_,?_,?_,?_,?_,?_,?_,?_,?_,?_,?_,?_,?_⟩
  all_goals inv_field

/-- a successful task with a twin: the twin leaves `pending`, both `backups` entries go, the twin is superseded -/
theorem inv_emit_twin (cfg : Cfg) (ok : Nat → Bool) (n : Nat) (st : St) (f b : Nat) (w : List Nat) (t : Int)
    (h : Inv cfg ok n st (f :: w)) (hok : ok f = true) (hs : st.superseded f = false) (hb : st.backups f = some b) :
    Inv cfg ok n { st with end_ := upd st.end_ f (some t), emitted := st.emitted ++ [f],
                           pending := upd st.pending b false,
                           backups := upd (upd st.backups f none) b none,
                           superseded := upd st.superseded b true } w := by
  obtain ⟨b1,b2,b3,b4,b5,b7,b8,b9,w1,w2,k0,k1,k3,k4,s1,e1,e2,e3,g1,g2,g3,p0,p1,p2,p5⟩ := h
  simp only [Act, List.mem_cons, List.nodup_cons] at *
  have hbk := k1 f b hb
  have hbn := k1 b f hbk.1
  refine ⟨?_,?_,?_,?_,?_,?_,?_,?_,?_,?_,?_,?_,?_,?_,?_,?_,?_,?_,?_,?_,?_,?_,?_,?_,?_⟩
  all_goals inv_field



theorem map_upd_of_ne {α : Type} (l : List Nat) (d : Nat → α) (k : Nat) (v : α) (h : ∀ e, e ∈ l → e ≠ k) :
    l.map (upd d k v) = l.map d := by
  apply List.map_congr_left
  intro e he
  simp [upd, h e he]

/-- launching a backup for a pending task that has none -/
theorem inv_addBackup (cfg : Cfg) (ok : Nat → Bool) (n : Nat) (st : St) (f i : Nat) (t : Int)
    (hub : cfg.useBackups = true)
    (h : Inv cfg ok n st []) (hp : st.pending f = true) (hb : st.backups f = none) (hi : st.tasks f = some i) :
    Inv cfg ok n (addBackup st f i t) [] := by
  obtain ⟨b1,b2,b3,b4,b5,b7,b8,b9,w1,w2,k0,k1,k3,k4,s1,e1,e2,e3,g1,g2,g3,p0,p1,p2,p5⟩ := h
  simp only [Act, List.not_mem_nil, or_false] at *
  have hf := b1 f hp
  have hsup : st.superseded f = false := by grind
  have hfresh : ∀ g, g < st.nextId → g ≠ f → st.tasks g ≠ st.tasks f := by
    intro g hg hne heq
    have := g2 f g hf hg heq.symm (Ne.symm hne)
    grind
  have hnone : st.backups st.nextId = none := by
    cases hx : st.backups st.nextId with
    | none => rfl
    | some t => have := k1 _ _ hx; omega
  have hnt : st.tasks st.nextId = none := by
    have := b3 st.nextId
    cases hx : st.tasks st.nextId with
    | none => rfl
    | some v => rw [hx] at this; simp at this
  have he1 : (st.emitted.map (upd st.tasks st.nextId (some i))).Nodup := by
    rw [map_upd_of_ne _ _ _ _ (fun e he => Nat.ne_of_lt (b8 e he))]; exact e1
  unfold addBackup
  refine ⟨?_,?_,?_,?_,?_,?_,?_,?_,?_,?_,?_,?_,?_,?_,?_,?_,?_,?_,?_,?_,?_,?_,?_,?_,?_⟩
  all_goals first | exact he1 | inv_field

/-- one future of a new batch -/
theorem inv_submitOne (cfg : Cfg) (ok : Nat → Bool) (n : Nat) (st : St) (p : Nat) (t : Int) (bs' : List (List Nat))
    (h : Inv cfg ok n st []) (hb : st.batches.flatten = p :: bs'.flatten) :
    Inv cfg ok n (submitOne t { st with batches := bs' } p) [] := by
  obtain ⟨b1,b2,b3,b4,b5,b7,b8,b9,w1,w2,k0,k1,k3,k4,s1,e1,e2,e3,g1,g2,g3,p0,p1,p2,p5⟩ := h
  simp only [Act, List.not_mem_nil, or_false] at *
  rw [hb] at p0 p1 p2 p5
  simp only [List.nodup_cons, List.mem_cons] at p0 p1 p2 p5
  have hnone : st.backups st.nextId = none := by
    cases hx : st.backups st.nextId with
    | none => rfl
    | some t => have := k1 _ _ hx; omega
  have hnt : st.tasks st.nextId = none := by
    have := b3 st.nextId
    cases hx : st.tasks st.nextId with
    | none => rfl
    | some v => rw [hx] at this; simp at this
  have hfresh : ∀ g, st.tasks g ≠ some p := by
    intro g hg
    have := p1 g p hg
    grind
  have he1 : (st.emitted.map (upd st.tasks st.nextId (some p))).Nodup := by
    rw [map_upd_of_ne _ _ _ _ (fun e he => Nat.ne_of_lt (b8 e he))]; exact e1
  unfold submitOne
  refine ⟨?_,?_,?_,?_,?_,?_,?_,?_,?_,?_,?_,?_,?_,?_,?_,?_,?_,?_,?_,?_,?_,?_,?_,?_,?_⟩
  all_goals first | exact he1 | inv_field



theorem inv_procOne (cfg : Cfg) (ok : Nat → Bool) (n : Nat) (rd : Round) (st st' : St) (f : Nat) (w : List Nat)
    (hv : cfg.variant.skipSuperseded = true)
    (h : Inv cfg ok n st (f :: w)) (hr : procOne cfg ok rd st f = .ok st') : Inv cfg ok n st' w := by
  unfold procOne at hr
  simp only [hv, Bool.true_and] at hr
  split at hr
  · cases hr; exact inv_skip_sup cfg ok n st f w h (by assumption)
  · rename_i hs
    have hs : st.superseded f = false := by simpa using hs
    split at hr
    · rename_i hf
      have hf : ok f = false := by simpa using hf
      split at hr
      · rename_i b hb
        split at hr
        · rename_i hd
          cases hr
          refine inv_skip_failed cfg ok n st f b w h hf hb ?_
          simp only [isDone, Bool.or_eq_true, Bool.not_eq_true', Bool.or_eq_false_iff] at hd
          cases hd with
          | inl h1 => exact Or.inl h1.1
          | inr h1 => exact Or.inr h1
        · cases hr
      · cases hr
    · rename_i hf
      have hf : ok f = true := by simpa using hf
      cases hr
      unfold succeed
      by_cases hub : cfg.useBackups = true
      · simp only [hub, if_true, hv]
        cases hb : st.backups f with
        | none => exact inv_emit_plain cfg ok n st f w _ h hf hs hb
        | some b => exact inv_emit_twin cfg ok n st f b w _ h hf hs hb
      · have hub : cfg.useBackups = false := by simpa using hub
        simp only [hub]
        exact inv_emit_plain cfg ok n st f w _ h hf hs (h.k0 hub f)

/-- The loop over `finished` raises exactly for a failed, not superseded task all of whose fellow submissions of the same
input are done and failed (there is at most one); the exception is that task's. -/
theorem procOne_error_iff (cfg : Cfg) (ok : Nat → Bool) (n : Nat) (rd : Round) (st : St) (f : Nat) (w : List Nat)
    (hv : cfg.variant.skipSuperseded = true) (h : Inv cfg ok n st (f :: w)) (o : Outcome) :
    procOne cfg ok rd st f = .error o ↔
      (o = .raised f ∧ st.superseded f = false ∧ ok f = false ∧
        ∀ g, g < st.nextId → st.tasks g = st.tasks f → g ≠ f → (isDone st rd g = true ∧ ok g = false)) := by
  obtain ⟨b1,b2,b3,b4,b5,b7,b8,b9,w1,w2,k0,k1,k3,k4,s1,e1,e2,e3,g1,g2,g3,p0,p1,p2,p5⟩ := h
  simp only [Act, List.mem_cons, List.nodup_cons] at *
  have hfl : f < st.nextId := b2 f (Or.inl rfl)
  constructor
  · intro hr
    unfold procOne at hr
    simp only [hv, Bool.true_and] at hr
    split at hr
    · cases hr
    · rename_i hs
      have hs : st.superseded f = false := by simpa using hs
      split at hr
      · rename_i hf
        have hf : ok f = false := by simpa using hf
        split at hr
        · rename_i b hb
          split at hr
          · cases hr
          · rename_i hd
            cases hr
            refine ⟨rfl, hs, hf, ?_⟩
            intro g hg hgt hne
            have hd' : isDone st rd b = true ∧ ok b = false := by
              cases h1 : isDone st rd b <;> cases h2 : ok b <;> simp [h1, h2] at hd ⊢
            have := g2 f g hfl hg hgt.symm (Ne.symm hne)
            grind
        · rename_i hb
          cases hr
          refine ⟨rfl, hs, hf, ?_⟩
          intro g hg hgt hne
          have := g2 f g hfl hg hgt.symm (Ne.symm hne)
          grind
      · cases hr
  · rintro ⟨rfl, hs, hf, hall⟩
    unfold procOne
    simp only [hv, hs, hf, Bool.true_and, Bool.false_eq_true, if_false, Bool.not_false, if_true]
    cases hb : st.backups f with
    | none => rfl
    | some b =>
      have hbk := k1 f b hb
      have hbb := k1 b f hbk.1
      have := hall b hbb.2.2.2 hbk.2.2.1 hbk.2.1
      simp [this.1, this.2]


end Cubed.MapUnordered
