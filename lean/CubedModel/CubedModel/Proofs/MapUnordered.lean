/-
  Invariants of `async_map_unordered` (model: `Model/MapUnordered.lean`) and their preservation by every phase of the
  loop body.  Used by `Properties/C08.lean`.

  `Inv cfg ok n st w` is the invariant of the state `st` while the work list `w` (the not yet processed part of
  `finished`) is being iterated; between rounds `w = []`.  A future is *active* (`Act`) when it is pending or still in
  the work list.  The clauses:
    b*  every key of every dict / set is a created future; `tasks` and `start_times` are defined on all of them
    w*  the work list has no duplicates, its members are done and no longer pending
    k*  `backups` is a symmetric matching between submissions of the same input; an inactive member of a pair has failed
    s*  a superseded future is not pending and its input has been emitted
    e*  at most one result per input; an emitted input has no active non-superseded future; results are successes
    g*  two submissions of one input are twins (or the input is emitted); never three
    p*  the inputs not yet handed out are exactly `batches.flatten`; every other input is emitted or has an active future
-/
import CubedModel.Model.MapUnordered

namespace Cubed.MapUnordered

/-! ### small list facts -/

theorem mem_dedup (l : List Nat) (x : Nat) : x ∈ dedup l ↔ x ∈ l := by
  induction l with
  | nil => simp [dedup]
  | cons a r ih =>
    simp only [dedup]
    split
    · rename_i h
      have : a ∈ r := by simpa using h
      constructor
      · intro hx; exact List.mem_cons_of_mem _ (ih.mp hx)
      · intro hx
        cases List.mem_cons.mp hx with
        | inl h1 => subst h1; exact ih.mpr this
        | inr h1 => exact ih.mpr h1
    · simp [ih]

theorem nodup_dedup (l : List Nat) : (dedup l).Nodup := by
  induction l with
  | nil => simp [dedup]
  | cons a r ih =>
    simp only [dedup]
    split
    · exact ih
    · rename_i h
      have : a ∉ r := by simpa using h
      exact List.nodup_cons.mpr ⟨fun hx => this ((mem_dedup r a).mp hx), ih⟩

theorem insertSorted_length (a : Int) (l : List Int) : (insertSorted a l).length = l.length + 1 := by
  induction l with
  | nil => simp [insertSorted]
  | cons b r ih => simp only [insertSorted]; split <;> simp [ih]

theorem isort_length (l : List Int) : (isort l).length = l.length := by
  induction l with
  | nil => simp [isort]
  | cons a r ih => simp [isort, insertSorted_length, ih]

theorem allSome_of_all {α : Type} (l : List (Option α)) (h : ∀ x ∈ l, x.isSome = true) :
    ∃ r, allSome l = some r ∧ r.length = l.length := by
  induction l with
  | nil => exact ⟨[], rfl, rfl⟩
  | cons a r ih =>
    have ha := h a (by simp)
    obtain ⟨r', hr, hl⟩ := ih (fun x hx => h x (List.mem_cons_of_mem _ hx))
    cases a with
    | none => simp at ha
    | some v => exact ⟨v :: r', by simp [allSome, hr], by simp [hl]⟩

theorem mem_keys (n : Nat) (p : Nat → Bool) (f : Nat) : f ∈ keys n p ↔ f < n ∧ p f = true := by
  simp [keys]

theorem nodup_keys (n : Nat) (p : Nat → Bool) : (keys n p).Nodup :=
  List.Pairwise.filter _ List.nodup_range

/-- a duplicate-free list without three pairwise different members has at most two -/
theorem length_le_two_of_no_three (l : List Nat) (hnd : l.Nodup)
    (h : ∀ a b c, a ∈ l → b ∈ l → c ∈ l → a ≠ b → b ≠ c → a ≠ c → False) : l.length ≤ 2 := by
  match l, hnd, h with
  | [], _, _ => simp
  | [_], _, _ => simp
  | [_, _], _, _ => simp
  | a :: b :: c :: r, hnd, h =>
    exfalso
    simp only [List.nodup_cons, List.mem_cons] at hnd
    refine h a b c (by simp) (by simp) (by simp) ?_ ?_ ?_
    · intro e; exact hnd.1 (Or.inl e)
    · intro e; exact hnd.2.1 (Or.inl e)
    · intro e; exact hnd.1 (Or.inr (Or.inl e))

/-! ### the invariant -/

/-- pending, or finished in this round and not yet processed -/
def Act (st : St) (w : List Nat) (f : Nat) : Prop := st.pending f = true ∨ f ∈ w

structure Inv (cfg : Cfg) (ok : Nat → Bool) (n : Nat) (st : St) (w : List Nat) : Prop where
  b1 : ∀ f, st.pending f = true → f < st.nextId
  b2 : ∀ f, f ∈ w → f < st.nextId
  b3 : ∀ f, f < st.nextId ↔ (st.tasks f).isSome = true
  b4 : ∀ f, f < st.nextId → (st.start f).isSome = true
  b5 : ∀ f, (st.end_ f).isSome = true → f < st.nextId
  b7 : ∀ f, st.superseded f = true → f < st.nextId
  b8 : ∀ f, f ∈ st.emitted → f < st.nextId
  b9 : ∀ f, st.done f = true → f < st.nextId
  w1 : w.Nodup
  w2 : ∀ f, f ∈ w → st.pending f = false ∧ st.done f = true
  k0 : cfg.useBackups = false → ∀ f, st.backups f = none
  k1 : ∀ f t, st.backups f = some t →
        st.backups t = some f ∧ t ≠ f ∧ st.tasks t = st.tasks f ∧ f < st.nextId
  k3 : ∀ f t, st.backups f = some t → ¬ Act st w f → st.done f = true ∧ ok f = false
  k4 : ∀ f t, st.backups f = some t → st.superseded f = false
  s1 : ∀ f, st.superseded f = true →
        st.pending f = false ∧ ∃ e, e ∈ st.emitted ∧ st.tasks e = st.tasks f
  e1 : (st.emitted.map st.tasks).Nodup
  e2 : ∀ e f, e ∈ st.emitted → Act st w f → st.tasks f = st.tasks e → st.superseded f = true
  e3 : ∀ e, e ∈ st.emitted → ok e = true ∧ st.done e = true
  g1 : ∀ f g, Act st w f → Act st w g → st.superseded f = false → st.superseded g = false →
        st.tasks f = st.tasks g → f ≠ g → st.backups f = some g
  g2 : ∀ f g, f < st.nextId → g < st.nextId → st.tasks f = st.tasks g → f ≠ g →
        st.backups f = some g ∨ ∃ e, e ∈ st.emitted ∧ st.tasks e = st.tasks f
  g3 : ∀ f g h, f < st.nextId → g < st.nextId → h < st.nextId → st.tasks f = st.tasks g →
        st.tasks g = st.tasks h → f ≠ g → g ≠ h → f ≠ h → False
  p0 : st.batches.flatten.Nodup
  p1 : ∀ f p, st.tasks f = some p → p < n ∧ p ∉ st.batches.flatten
  p2 : ∀ p, p < n → p ∈ st.batches.flatten ∨ (∃ e, e ∈ st.emitted ∧ st.tasks e = some p) ∨
        (∃ f, Act st w f ∧ st.superseded f = false ∧ st.tasks f = some p)
  p5 : ∀ p, p ∈ st.batches.flatten → p < n

/-- tactic used for every clause of every preservation lemma: unfold the updates, then `grind` -/
macro "inv_field" : tactic =>
  `(tactic| ((try simp only [Act, upd, List.mem_append, List.mem_singleton, List.map_append, List.map_cons, List.map_nil,
                        List.mem_cons, List.nodup_cons, List.not_mem_nil, or_false, false_or]); grind))

/-! ### `asyncio.wait` -/

theorem inv_wait (cfg : Cfg) (ok : Nat → Bool) (n : Nat) (st : St) (w : List Nat)
    (hw : ∀ f, f ∈ w → st.pending f = true) (hnd : w.Nodup) (h : Inv cfg ok n st []) :
    Inv cfg ok n { st with pending := fun f => st.pending f && !w.contains f,
                           done := fun f => st.done f || w.contains f } w := by
  obtain ⟨b1,b2,b3,b4,b5,b7,b8,b9,w1,w2,k0,k1,k3,k4,s1,e1,e2,e3,g1,g2,g3,p0,p1,p2,p5⟩ := h
  simp only [Act, List.not_mem_nil, or_false] at *
  refine ⟨?_,?_,?_,?_,?_,?_,?_,?_,?_,?_,?_,?_,?_,?_,?_,?_,?_,?_,?_,?_,?_,?_,?_,?_,?_⟩
  all_goals ((try simp only [Act, Bool.and_eq_true, Bool.or_eq_true, Bool.not_eq_true', List.contains_eq_mem,
                        decide_eq_true_eq, decide_eq_false_iff_not, Bool.and_eq_false_iff]); grind)



/-! ### the loop over `finished` -/

/-- `if task in superseded: continue` -/
theorem inv_skip_sup (cfg : Cfg) (ok : Nat → Bool) (n : Nat) (st : St) (f : Nat) (w : List Nat)
    (h : Inv cfg ok n st (f :: w)) (hs : st.superseded f = true) : Inv cfg ok n st w := by
  obtain ⟨b1,b2,b3,b4,b5,b7,b8,b9,w1,w2,k0,k1,k3,k4,s1,e1,e2,e3,g1,g2,g3,p0,p1,p2,p5⟩ := h
  simp only [Act, List.mem_cons, List.nodup_cons] at *
  refine ⟨?_,?_,?_,?_,?_,?_,?_,?_,?_,?_,?_,?_,?_,?_,?_,?_,?_,?_,?_,?_,?_,?_,?_,?_,?_⟩
  all_goals inv_field

/-- a failed task whose twin is not done, or done without exception: `continue` -/
theorem inv_skip_failed (cfg : Cfg) (ok : Nat → Bool) (n : Nat) (st : St) (f b : Nat) (w : List Nat)
    (h : Inv cfg ok n st (f :: w)) (hf : ok f = false) (hb : st.backups f = some b)
    (hd : st.done b = false ∨ ok b = true) : Inv cfg ok n st w := by
  obtain ⟨b1,b2,b3,b4,b5,b7,b8,b9,w1,w2,k0,k1,k3,k4,s1,e1,e2,e3,g1,g2,g3,p0,p1,p2,p5⟩ := h
  simp only [Act, List.mem_cons, List.nodup_cons] at *
  have hbk := k1 f b hb
  have hact : st.pending b = true ∨ b ∈ w := by
    have := k3 b f hbk.1
    grind
  refine ⟨?_,?_,?_,?_,?_,?_,?_,?_,?_,?_,?_,?_,?_,?_,?_,?_,?_,?_,?_,?_,?_,?_,?_,?_,?_⟩
  all_goals inv_field



/-- a successful task without a twin entry -/
theorem inv_emit_plain (cfg : Cfg) (ok : Nat → Bool) (n : Nat) (st : St) (f : Nat) (w : List Nat) (t : Int)
    (h : Inv cfg ok n st (f :: w)) (hok : ok f = true) (hs : st.superseded f = false) (hb : st.backups f = none) :
    Inv cfg ok n { st with end_ := upd st.end_ f (some t), emitted := st.emitted ++ [f] } w := by
  obtain ⟨b1,b2,b3,b4,b5,b7,b8,b9,w1,w2,k0,k1,k3,k4,s1,e1,e2,e3,g1,g2,g3,p0,p1,p2,p5⟩ := h
  simp only [Act, List.mem_cons, List.nodup_cons] at *
  refine ⟨?_,?_,?_,?_,?_,?_,?_,?_,?_,?_,?_,?_,?_,?_,?_,?_,?_,?_,?_,?_,?_,?_,?_,?_,?_⟩
  all_goals inv_field

/-- a successful task with a twin: the twin leaves `pending`, both `backups` entries go, the twin is superseded -/
theorem inv_emit_twin (cfg : Cfg) (ok : Nat → Bool) (n : Nat) (st : St) (f b : Nat) (w : List Nat) (t : Int)
    (h : Inv cfg ok n st (f :: w)) (hok : ok f = true) (hs : st.superseded f = false) (hb : st.backups f = some b) :
    Inv cfg ok n { st with end_ := upd st.end_ f (some t), emitted := st.emitted ++ [f],
                           pending := upd st.pending b false,
                           backups := upd (upd st.backups f none) b none,
                           superseded := upd st.superseded b true } w := by
  obtain ⟨b1,b2,b3,b4,b5,b7,b8,b9,w1,w2,k0,k1,k3,k4,s1,e1,e2,e3,g1,g2,g3,p0,p1,p2,p5⟩ := h
  simp only [Act, List.mem_cons, List.nodup_cons] at *
  have hbk := k1 f b hb
  have hbn := k1 b f hbk.1
  refine ⟨?_,?_,?_,?_,?_,?_,?_,?_,?_,?_,?_,?_,?_,?_,?_,?_,?_,?_,?_,?_,?_,?_,?_,?_,?_⟩
  all_goals inv_field



theorem map_upd_of_ne {α : Type} (l : List Nat) (d : Nat → α) (k : Nat) (v : α) (h : ∀ e, e ∈ l → e ≠ k) :
    l.map (upd d k v) = l.map d := by
  apply List.map_congr_left
  intro e he
  simp [upd, h e he]

/-- launching a backup for a pending task that has none -/
theorem inv_addBackup (cfg : Cfg) (ok : Nat → Bool) (n : Nat) (st : St) (f i : Nat) (t : Int)
    (hub : cfg.useBackups = true)
    (h : Inv cfg ok n st []) (hp : st.pending f = true) (hb : st.backups f = none) (hi : st.tasks f = some i) :
    Inv cfg ok n (addBackup st f i t) [] := by
  obtain ⟨b1,b2,b3,b4,b5,b7,b8,b9,w1,w2,k0,k1,k3,k4,s1,e1,e2,e3,g1,g2,g3,p0,p1,p2,p5⟩ := h
  simp only [Act, List.not_mem_nil, or_false] at *
  have hf := b1 f hp
  have hsup : st.superseded f = false := by grind
  have hfresh : ∀ g, g < st.nextId → g ≠ f → st.tasks g ≠ st.tasks f := by
    intro g hg hne heq
    have := g2 f g hf hg heq.symm (Ne.symm hne)
    grind
  have hnone : st.backups st.nextId = none := by
    cases hx : st.backups st.nextId with
    | none => rfl
    | some t => have := k1 _ _ hx; omega
  have hnt : st.tasks st.nextId = none := by
    have := b3 st.nextId
    cases hx : st.tasks st.nextId with
    | none => rfl
    | some v => rw [hx] at this; simp at this
  have he1 : (st.emitted.map (upd st.tasks st.nextId (some i))).Nodup := by
    rw [map_upd_of_ne _ _ _ _ (fun e he => Nat.ne_of_lt (b8 e he))]; exact e1
  unfold addBackup
  refine ⟨?_,?_,?_,?_,?_,?_,?_,?_,?_,?_,?_,?_,?_,?_,?_,?_,?_,?_,?_,?_,?_,?_,?_,?_,?_⟩
  all_goals first | exact he1 | inv_field

/-- one future of a new batch -/
theorem inv_submitOne (cfg : Cfg) (ok : Nat → Bool) (n : Nat) (st : St) (p : Nat) (t : Int) (bs' : List (List Nat))
    (h : Inv cfg ok n st []) (hb : st.batches.flatten = p :: bs'.flatten) :
    Inv cfg ok n (submitOne t { st with batches := bs' } p) [] := by
  obtain ⟨b1,b2,b3,b4,b5,b7,b8,b9,w1,w2,k0,k1,k3,k4,s1,e1,e2,e3,g1,g2,g3,p0,p1,p2,p5⟩ := h
  simp only [Act, List.not_mem_nil, or_false] at *
  rw [hb] at p0 p1 p2 p5
  simp only [List.nodup_cons, List.mem_cons] at p0 p1 p2 p5
  have hnone : st.backups st.nextId = none := by
    cases hx : st.backups st.nextId with
    | none => rfl
    | some t => have := k1 _ _ hx; omega
  have hnt : st.tasks st.nextId = none := by
    have := b3 st.nextId
    cases hx : st.tasks st.nextId with
    | none => rfl
    | some v => rw [hx] at this; simp at this
  have hfresh : ∀ g, st.tasks g ≠ some p := by
    intro g hg
    have := p1 g p hg
    grind
  have he1 : (st.emitted.map (upd st.tasks st.nextId (some p))).Nodup := by
    rw [map_upd_of_ne _ _ _ _ (fun e he => Nat.ne_of_lt (b8 e he))]; exact e1
  unfold submitOne
  refine ⟨?_,?_,?_,?_,?_,?_,?_,?_,?_,?_,?_,?_,?_,?_,?_,?_,?_,?_,?_,?_,?_,?_,?_,?_,?_⟩
  all_goals first | exact he1 | inv_field



theorem inv_procOne (cfg : Cfg) (ok : Nat → Bool) (n : Nat) (rd : Round) (st st' : St) (f : Nat) (w : List Nat)
    (hv : cfg.variant.skipSuperseded = true)
    (h : Inv cfg ok n st (f :: w)) (hr : procOne cfg ok rd st f = .ok st') : Inv cfg ok n st' w := by
  unfold procOne at hr
  simp only [hv, Bool.true_and] at hr
  split at hr
  · cases hr; exact inv_skip_sup cfg ok n st f w h (by assumption)
  · rename_i hs
    have hs : st.superseded f = false := by simpa using hs
    split at hr
    · rename_i hf
      have hf : ok f = false := by simpa using hf
      split at hr
      · rename_i b hb
        split at hr
        · rename_i hd
          cases hr
          refine inv_skip_failed cfg ok n st f b w h hf hb ?_
          simp only [isDone, Bool.or_eq_true, Bool.not_eq_true', Bool.or_eq_false_iff] at hd
          cases hd with
          | inl h1 => exact Or.inl h1.1
          | inr h1 => exact Or.inr h1
        · cases hr
      · cases hr
    · rename_i hf
      have hf : ok f = true := by simpa using hf
      cases hr
      unfold succeed
      by_cases hub : cfg.useBackups = true
      · simp only [hub, if_true, hv]
        cases hb : st.backups f with
        | none => exact inv_emit_plain cfg ok n st f w _ h hf hs hb
        | some b => exact inv_emit_twin cfg ok n st f b w _ h hf hs hb
      · have hub : cfg.useBackups = false := by simpa using hub
        simp only [hub]
        exact inv_emit_plain cfg ok n st f w _ h hf hs (h.k0 hub f)

/-- The loop over `finished` raises exactly for a failed, not superseded task all of whose fellow submissions of the same
input are done and failed (there is at most one); the exception is that task's. -/
theorem procOne_error_iff (cfg : Cfg) (ok : Nat → Bool) (n : Nat) (rd : Round) (st : St) (f : Nat) (w : List Nat)
    (hv : cfg.variant.skipSuperseded = true) (h : Inv cfg ok n st (f :: w)) (o : Outcome) :
    procOne cfg ok rd st f = .error o ↔
      (o = .raised f ∧ st.superseded f = false ∧ ok f = false ∧
        ∀ g, g < st.nextId → st.tasks g = st.tasks f → g ≠ f → (isDone st rd g = true ∧ ok g = false)) := by
  obtain ⟨b1,b2,b3,b4,b5,b7,b8,b9,w1,w2,k0,k1,k3,k4,s1,e1,e2,e3,g1,g2,g3,p0,p1,p2,p5⟩ := h
  simp only [Act, List.mem_cons, List.nodup_cons] at *
  have hfl : f < st.nextId := b2 f (Or.inl rfl)
  constructor
  · intro hr
    unfold procOne at hr
    simp only [hv, Bool.true_and] at hr
    split at hr
    · cases hr
    · rename_i hs
      have hs : st.superseded f = false := by simpa using hs
      split at hr
      · rename_i hf
        have hf : ok f = false := by simpa using hf
        split at hr
        · rename_i b hb
          split at hr
          · cases hr
          · rename_i hd
            cases hr
            refine ⟨rfl, hs, hf, ?_⟩
            intro g hg hgt hne
            have hd' : isDone st rd b = true ∧ ok b = false := by
              cases h1 : isDone st rd b <;> cases h2 : ok b <;> simp [h1, h2] at hd ⊢
            have := g2 f g hfl hg hgt.symm (Ne.symm hne)
            grind
        · rename_i hb
          cases hr
          refine ⟨rfl, hs, hf, ?_⟩
          intro g hg hgt hne
          have := g2 f g hfl hg hgt.symm (Ne.symm hne)
          grind
      · cases hr
  · rintro ⟨rfl, hs, hf, hall⟩
    unfold procOne
    simp only [hv, hs, hf, Bool.true_and, Bool.false_eq_true, if_false, Bool.not_false, if_true]
    cases hb : st.backups f with
    | none => rfl
    | some b =>
      have hbk := k1 f b hb
      have hbb := k1 b f hbk.1
      have := hall b hbb.2.2.2 hbk.2.2.1 hbk.2.1
      simp [this.1, this.2]



theorem procOne_batches (cfg : Cfg) (ok : Nat → Bool) (rd : Round) (st st' : St) (f : Nat)
    (hr : procOne cfg ok rd st f = .ok st') : st'.batches = st.batches := by
  unfold procOne at hr
  split at hr
  · cases hr; rfl
  · split at hr
    · split at hr
      · split at hr
        · cases hr; rfl
        · cases hr
      · cases hr
    · cases hr
      unfold succeed
      simp only
      split
      · split <;> rfl
      · rfl

theorem inv_procAll (cfg : Cfg) (ok : Nat → Bool) (n : Nat) (rd : Round) (hv : cfg.variant.skipSuperseded = true) :
    ∀ (w : List Nat) (st st' : St), Inv cfg ok n st w → procAll cfg ok rd st w = .ok st' →
      Inv cfg ok n st' [] ∧ st'.batches = st.batches := by
  intro w
  induction w with
  | nil => intro st st' h hr; simp only [procAll] at hr; cases hr; exact ⟨h, rfl⟩
  | cons f w ih =>
    intro st st' h hr
    simp only [procAll] at hr
    split at hr
    · rename_i st1 h1
      have := ih st1 st' (inv_procOne cfg ok n rd st st1 f w hv h h1) hr
      exact ⟨this.1, this.2.trans (procOne_batches cfg ok rd st st1 f h1)⟩
    · cases hr

/-- an exception leaves the loop over `finished` only from `procOne`, in a state satisfying the invariant -/
theorem procAll_error (cfg : Cfg) (ok : Nat → Bool) (n : Nat) (rd : Round) (hv : cfg.variant.skipSuperseded = true) :
    ∀ (w : List Nat) (st st' : St) (o : Outcome), Inv cfg ok n st w → procAll cfg ok rd st w = .error (o, st') →
      ∃ f w', Inv cfg ok n st' (f :: w') ∧ procOne cfg ok rd st' f = .error o := by
  intro w
  induction w with
  | nil => intro st st' o h hr; simp only [procAll] at hr; cases hr
  | cons f w ih =>
    intro st st' o h hr
    simp only [procAll] at hr
    split at hr
    · rename_i st1 h1
      exact ih st1 st' o (inv_procOne cfg ok n rd st st1 f w hv h h1) hr
    · rename_i o1 h1
      cases hr
      exact ⟨f, w, h, h1⟩

/-! ### `should_launch_backup` never misses a key -/

def ThrOK (t : Thresholds) : Prop := 1 ≤ t.minTasks ∧ 1 ≤ t.fracNum ∧ 1 ≤ t.fracDen

theorem ceilDiv_pos (a b : Nat) (ha : 1 ≤ a) (hb : 1 ≤ b) : 1 ≤ ceilDiv a b := by
  unfold ceilDiv
  exact (Nat.le_div_iff_mul_le (by omega)).mpr (by omega)

theorem shouldLaunch_ne_none (cfg : Cfg) (ok : Nat → Bool) (n : Nat) (thr : Thresholds) (st : St) (f : Nat) (now : Int)
    (hthr : ThrOK thr) (h : Inv cfg ok n st []) (hp : st.pending f = true) :
    shouldLaunch thr st f now ≠ none := by
  unfold shouldLaunch
  simp only
  split
  · simp
  · rename_i hls
    have hls : thr.minTasks ≤ lenDict st.nextId st.start := by omega
    have hpos : 1 ≤ lenDict st.nextId st.start * thr.fracNum :=
      Nat.mul_le_mul (Nat.le_trans hthr.1 hls) hthr.2.1
    have hc := ceilDiv_pos _ thr.fracDen hpos hthr.2.2
    split
    · omega
    · split
      · simp
      · rename_i hle
        have hall : ∀ x ∈ (keys st.nextId (fun t => (st.end_ t).isSome)).map (durOf st), x.isSome = true := by
          intro x hx
          obtain ⟨t, ht, rfl⟩ := List.mem_map.mp hx
          have ht' := (mem_keys _ _ _).mp ht
          have hs := h.b4 t ht'.1
          unfold durOf
          cases he : st.end_ t with
          | none => simp [he] at ht'
          | some e =>
            cases hs' : st.start t with
            | none => simp [hs'] at hs
            | some s => simp
        obtain ⟨ds, hds, hlen⟩ := allSome_of_all _ hall
        simp only [durations, hds]
        have hsf := h.b4 f (h.b1 f hp)
        cases hs' : st.start f with
        | none => simp [hs'] at hsf
        | some s =>
          simp only
          have he : lenDict st.nextId st.end_ = (keys st.nextId (fun t => (st.end_ t).isSome)).length := rfl
          have hl : ceilDiv (lenDict st.nextId st.start * thr.fracNum) thr.fracDen - 1 < (isort ds).length := by
            rw [isort_length, hlen, List.length_map, ← he]
            omega
          rw [List.getElem?_eq_getElem hl]
          simp

/-! ### the backup-launch loop -/

theorem launchOne_spec (cfg : Cfg) (ok : Nat → Bool) (n : Nat) (rd : Round) (st : St) (f : Nat)
    (hub : cfg.useBackups = true) (hg : cfg.variant.guardNotInBackups = true) (hthr : ThrOK cfg.thr)
    (h : Inv cfg ok n st []) (hp : st.pending f = true) :
    ∃ st', launchOne cfg rd st f = .ok st' ∧ Inv cfg ok n st' [] ∧ st'.batches = st.batches ∧
      (∀ g, st.pending g = true → st'.pending g = true) := by
  unfold launchOne
  simp only [hg, Bool.true_and]
  split
  · exact ⟨st, rfl, h, rfl, fun _ hg => hg⟩
  · rename_i hb
    have hb : st.backups f = none := by
      cases hx : st.backups f with
      | none => rfl
      | some t => simp [hx] at hb
    have hne := shouldLaunch_ne_none cfg ok n cfg.thr st f rd.clkNow hthr h hp
    cases hsl : shouldLaunch cfg.thr st f rd.clkNow with
    | none => exact absurd hsl hne
    | some r =>
      cases r with
      | false => exact ⟨st, rfl, h, rfl, fun _ hg => hg⟩
      | true =>
        have hlt := h.b1 f hp
        have hts := (h.b3 f).mp hlt
        cases hi : st.tasks f with
        | none => simp [hi] at hts
        | some i =>
          refine ⟨addBackup st f i (rd.clkBackup f), rfl, inv_addBackup cfg ok n st f i _ hub h hp hb hi, rfl, ?_⟩
          intro g hgp
          have := h.b1 g hgp
          simp only [addBackup, upd]
          split
          · rfl
          · exact hgp

theorem launchAll_spec (cfg : Cfg) (ok : Nat → Bool) (n : Nat) (rd : Round)
    (hub : cfg.useBackups = true) (hg : cfg.variant.guardNotInBackups = true) (hthr : ThrOK cfg.thr) :
    ∀ (l : List Nat) (st : St), Inv cfg ok n st [] → (∀ f, f ∈ l → st.pending f = true) →
      ∃ st', launchAll cfg rd st l = .ok st' ∧ Inv cfg ok n st' [] ∧ st'.batches = st.batches := by
  intro l
  induction l with
  | nil => intro st h _; exact ⟨st, rfl, h, rfl⟩
  | cons f l ih =>
    intro st h hl
    obtain ⟨st1, h1, hinv, hbat, hmono⟩ := launchOne_spec cfg ok n rd st f hub hg hthr h (hl f (by simp))
    obtain ⟨st2, h2, hinv2, hbat2⟩ := ih st1 hinv (fun g hgl => hmono g (hl g (List.mem_cons_of_mem _ hgl)))
    refine ⟨st2, ?_, hinv2, hbat2.trans hbat⟩
    simp only [launchAll, h1, h2]

theorem pendOrderOf_pending (st : St) (rd : Round) (f : Nat) (hf : f ∈ pendOrderOf st rd) : st.pending f = true := by
  unfold pendOrderOf at hf
  rcases List.mem_append.mp hf with h1 | h1
  · have := (mem_dedup _ _).mp h1
    exact (List.mem_filter.mp this).2
  · have := (List.mem_filter.mp h1).1
    exact ((mem_keys _ _ _).mp this).2

/-! ### submitting a batch -/

theorem inv_batches_congr (cfg : Cfg) (ok : Nat → Bool) (n : Nat) (st : St) (w : List Nat) (bs' : List (List Nat))
    (h : Inv cfg ok n st w) (hb : bs'.flatten = st.batches.flatten) : Inv cfg ok n { st with batches := bs' } w := by
  obtain ⟨b1,b2,b3,b4,b5,b7,b8,b9,w1,w2,k0,k1,k3,k4,s1,e1,e2,e3,g1,g2,g3,p0,p1,p2,p5⟩ := h
  refine ⟨b1,b2,b3,b4,b5,b7,b8,b9,w1,w2,k0,k1,k3,k4,s1,e1,e2,e3,g1,g2,g3,?_,?_,?_,?_⟩
  · simpa [hb] using p0
  · simpa [hb] using p1
  · simpa [hb, Act] using p2
  · simpa [hb] using p5

theorem inv_submitBatch (cfg : Cfg) (ok : Nat → Bool) (n : Nat) (t : Int) (bs' : List (List Nat)) :
    ∀ (b : List Nat) (st : St), Inv cfg ok n st [] → st.batches.flatten = b ++ bs'.flatten →
      Inv cfg ok n (submitBatch t { st with batches := bs' } b) [] := by
  intro b
  induction b with
  | nil =>
    intro st h hb
    exact inv_batches_congr cfg ok n st [] bs' h (by simpa using hb.symm)
  | cons p q ih =>
    intro st h hb
    have h1 := inv_submitOne cfg ok n st p t (q :: bs') h (by simpa using hb)
    have h2 := ih (submitOne t { st with batches := q :: bs' } p) h1 (by simp [submitOne])
    exact h2

theorem submitOne_facts (t : Int) (st : St) (p : Nat) :
    (submitOne t st p).nextId = st.nextId + 1 ∧ (submitOne t st p).batches = st.batches ∧
    (submitOne t st p).pending st.nextId = true ∧
    (∀ g, st.pending g = true → (submitOne t st p).pending g = true) := by
  refine ⟨rfl, rfl, by simp [submitOne, upd], ?_⟩
  intro g hg
  simp only [submitOne, upd]
  split
  · rfl
  · exact hg

theorem submitBatch_facts (t : Int) : ∀ (b : List Nat) (st : St),
    st.nextId ≤ (submitBatch t st b).nextId ∧ (submitBatch t st b).batches = st.batches ∧
    (∀ g, st.pending g = true → (submitBatch t st b).pending g = true) ∧
    (b ≠ [] → ∃ g, g < (submitBatch t st b).nextId ∧ (submitBatch t st b).pending g = true) := by
  intro b
  induction b with
  | nil => intro st; exact ⟨Nat.le_refl _, rfl, fun _ h => h, fun h => absurd rfl h⟩
  | cons p q ih =>
    intro st
    obtain ⟨h1, h2, h3, h4⟩ := submitOne_facts t st p
    obtain ⟨i1, i2, i3, _⟩ := ih (submitOne t st p)
    refine ⟨by simp only [submitBatch, List.foldl_cons] at i1 ⊢; omega, by simpa [submitBatch] using i2.trans h2,
            fun g hg => by simpa [submitBatch] using i3 g (h4 g hg), fun _ => ⟨st.nextId, ?_, ?_⟩⟩
    · simp only [submitBatch, List.foldl_cons] at i1 ⊢; omega
    · simpa [submitBatch] using i3 _ h3

theorem anyPending_of (st : St) (g : Nat) (hg : g < st.nextId) (hp : st.pending g = true) : anyPending st = true := by
  unfold anyPending pendingList
  have : g ∈ keys st.nextId st.pending := (mem_keys _ _ _).mpr ⟨hg, hp⟩
  cases hk : keys st.nextId st.pending with
  | nil => simp [hk] at this
  | cons a r => rfl

/-- what holds at the head of the `while` loop besides `Inv` -/
structure Head (cfg : Cfg) (st : St) : Prop where
  nobatch : cfg.batchSize = none → st.batches = []
  nonempty : ∀ b, b ∈ st.batches → b ≠ []
  exhausted : anyPending st = false → st.batches = []

theorem refill_spec (cfg : Cfg) (ok : Nat → Bool) (n : Nat) (rd : Round) (st : St)
    (hv : cfg.variant.refillUpdates = true) (h0 : cfg.batchSize ≠ some 0)
    (h : Inv cfg ok n st []) (hn : cfg.batchSize = none → st.batches = []) (hne : ∀ b, b ∈ st.batches → b ≠ []) :
    Inv cfg ok n (refill cfg rd st) [] ∧ Head cfg (refill cfg rd st) := by
  unfold refill
  cases hbs : cfg.batchSize with
  | none =>
    simp only
    exact ⟨h, ⟨fun _ => hn hbs, hne, fun _ => hn hbs⟩⟩
  | some bs =>
    simp only
    split
    · cases hb : st.batches with
      | nil =>
        simp only
        exact ⟨h, ⟨fun _ => hb, by simp [hb], fun _ => hb⟩⟩
      | cons b rest =>
        simp only [hv, if_true]
        have hinv := inv_submitBatch cfg ok n rd.clkRefill rest b st h (by simp [hb])
        obtain ⟨f1, f2, f3, f4⟩ := submitBatch_facts rd.clkRefill b { st with batches := rest }
        refine ⟨hinv, ⟨fun hc => by simp [hbs] at hc, ?_, ?_⟩⟩
        · intro b' hb'
          rw [f2] at hb'
          exact hne b' (by simp [hb]; exact Or.inr hb')
        · intro hany
          obtain ⟨g, hg, hgp⟩ := f4 (hne b (by simp [hb]))
          rw [anyPending_of _ g hg hgp] at hany
          cases hany
    · rename_i hlen
      refine ⟨h, ⟨fun hc => by simp [hbs] at hc, hne, ?_⟩⟩
      intro hany
      exfalso
      have hbs0 : bs ≠ 0 := by intro e; subst e; exact h0 hbs
      have : (pendingList st).length ≠ 0 := by omega
      unfold anyPending at hany
      cases hp : pendingList st with
      | nil => simp [hp] at this
      | cons a r => simp [hp] at hany

/-! ### `batched` and the code before the loop -/

theorem batchedAux_spec (k : Nat) : ∀ (fuel : Nat) (l : List Nat), l.length ≤ fuel →
    (batchedAux (k + 1) fuel l).flatten = l ∧ ∀ b, b ∈ batchedAux (k + 1) fuel l → b ≠ [] := by
  intro fuel
  induction fuel with
  | zero =>
    intro l hl
    have : l = [] := List.eq_nil_of_length_eq_zero (by omega)
    subst this
    simp [batchedAux]
  | succ fuel ih =>
    intro l hl
    cases l with
    | nil => simp [batchedAux]
    | cons x xs =>
      simp only [batchedAux]
      have hlen : ((x :: xs).drop (k + 1)).length ≤ fuel := by
        simp only [List.length_drop, List.length_cons] at hl ⊢; omega
      obtain ⟨i1, i2⟩ := ih _ hlen
      constructor
      · simp only [List.flatten_cons, i1]
        exact List.take_append_drop _ _
      · intro b hb
        rcases List.mem_cons.mp hb with h1 | h1
        · subst h1; simp
        · exact i2 b h1

theorem batched_spec (k : Nat) (l : List Nat) :
    (batched (k + 1) l).flatten = l ∧ ∀ b, b ∈ batched (k + 1) l → b ≠ [] :=
  batchedAux_spec k l.length l (Nat.le_refl _)

theorem inv_empty (cfg : Cfg) (ok : Nat → Bool) (n : Nat) (bs0 : List (List Nat)) (hflat : bs0.flatten = List.range n) :
    Inv cfg ok n { St.empty with batches := bs0 } [] := by
  refine ⟨?_,?_,?_,?_,?_,?_,?_,?_,?_,?_,?_,?_,?_,?_,?_,?_,?_,?_,?_,?_,?_,?_,?_,?_,?_⟩
  all_goals ((try simp only [St.empty, Act, hflat]); try simp)
  all_goals first | exact List.nodup_range | (intro p hp; exact hp)

theorem init_spec (cfg : Cfg) (ok : Nat → Bool) (n : Nat) (t0 : Int)
    (h0 : cfg.batchSize ≠ some 0) (hv : cfg.variant.emptyFirstBatchOk = true) :
    ∃ st, init cfg n t0 = .ok st ∧ Inv cfg ok n st [] ∧ Head cfg st := by
  unfold init
  cases hbs : cfg.batchSize with
  | none =>
    simp only
    have h0 := inv_empty cfg ok n [List.range n] (by simp)
    have h1 := inv_submitBatch cfg ok n t0 [] (List.range n) _ h0 (by simp)
    obtain ⟨f1, f2, f3, f4⟩ := submitBatch_facts t0 (List.range n) St.empty
    refine ⟨_, rfl, h1, ⟨fun _ => f2, ?_, fun _ => f2⟩⟩
    intro b hb
    rw [f2] at hb
    simp [St.empty] at hb
  | some bs =>
    cases bs with
    | zero => exact absurd hbs h0
    | succ k =>
      obtain ⟨s1, s2⟩ := batched_spec k (List.range n)
      simp only
      cases hb : batched (k + 1) (List.range n) with
      | nil =>
        -- empty input: no future is created, the loop is not entered
        rw [hb] at s1
        simp only [hv, if_true]
        have hn : List.range n = [] := by rw [← s1]; rfl
        have hi := inv_empty cfg ok n [] (by simp [hn])
        exact ⟨_, rfl, hi, ⟨fun hc => by simp [hbs] at hc, by simp [submitBatch, St.empty],
                            fun _ => by simp [submitBatch, St.empty]⟩⟩
      | cons b rest =>
        simp only
        rw [hb] at s1 s2
        have h0 := inv_empty cfg ok n (b :: rest) s1
        have h1 := inv_submitBatch cfg ok n t0 rest b _ h0 (by simp)
        obtain ⟨f1, f2, f3, f4⟩ := submitBatch_facts t0 b { St.empty with batches := rest }
        refine ⟨_, rfl, h1, ⟨fun hc => by simp [hbs] at hc, ?_, ?_⟩⟩
        · intro b' hb'
          rw [f2] at hb'
          exact s2 b' (List.mem_cons_of_mem _ hb')
        · intro hany
          obtain ⟨g, hg, hgp⟩ := f4 (s2 b (by simp))
          rw [anyPending_of _ g hg hgp] at hany
          cases hany

/-! ### one round, and the whole loop -/

/-- the facts about the code as it is that the proofs use (all four variant flags, sane thresholds, `batch_size ≥ 1`) -/
structure IsFixed (cfg : Cfg) : Prop where
  v : cfg.variant = Variant.fixed
  thr : ThrOK cfg.thr
  bs : cfg.batchSize ≠ some 0

theorem stepRound_spec (cfg : Cfg) (ok : Nat → Bool) (n : Nat) (rd : Round) (st : St) (hfx : IsFixed cfg)
    (h : Inv cfg ok n st []) (hh : Head cfg st) :
    (∃ st', stepRound cfg ok rd st = .ok st' ∧ Inv cfg ok n st' [] ∧ Head cfg st') ∨
    (∃ f w st', stepRound cfg ok rd st = .error (.raised f, st') ∧ Inv cfg ok n st' (f :: w) ∧
        procOne cfg ok rd st' f = .error (.raised f)) := by
  have hv1 : cfg.variant.skipSuperseded = true := by rw [hfx.v]; rfl
  have hv2 : cfg.variant.guardNotInBackups = true := by rw [hfx.v]; rfl
  have hv3 : cfg.variant.refillUpdates = true := by rw [hfx.v]; rfl
  unfold stepRound
  have hw := inv_wait cfg ok n st (dedup (rd.fin.filter st.pending))
    (fun f hf => (List.mem_filter.mp ((mem_dedup _ _).mp hf)).2) (nodup_dedup _) h
  simp only [waitPhase]
  cases hp : procAll cfg ok rd _ (dedup (rd.fin.filter st.pending)) with
  | error e =>
    obtain ⟨o, st'⟩ := e
    obtain ⟨f, w', hi, he⟩ := procAll_error cfg ok n rd hv1 _ _ st' o hw hp
    have ho := ((procOne_error_iff cfg ok n rd st' f w' hv1 hi o).mp he).1
    subst ho
    exact Or.inr ⟨f, w', st', rfl, hi, he⟩
  | ok st2 =>
    obtain ⟨h2, hb2⟩ := inv_procAll cfg ok n rd hv1 _ _ st2 hw hp
    simp only at hb2
    left
    simp only
    by_cases hub : cfg.useBackups = true
    · simp only [hub, if_true]
      obtain ⟨st3, h3, hi3, hb3⟩ := launchAll_spec cfg ok n rd hub hv2 hfx.thr (pendOrderOf st2 rd) st2 h2
        (pendOrderOf_pending st2 rd)
      simp only [h3]
      have hbat : st3.batches = st.batches := hb3.trans hb2
      obtain ⟨r1, r2⟩ := refill_spec cfg ok n rd st3 hv3 hfx.bs hi3
        (fun hc => by rw [hbat]; exact hh.nobatch hc) (fun b hb => hh.nonempty b (by rw [← hbat]; exact hb))
      exact ⟨_, rfl, r1, r2⟩
    · have hub : cfg.useBackups = false := by simpa using hub
      simp only [hub]
      obtain ⟨r1, r2⟩ := refill_spec cfg ok n rd st2 hv3 hfx.bs h2
        (fun hc => by rw [hb2]; exact hh.nobatch hc) (fun b hb => hh.nonempty b (by rw [← hb2]; exact hb))
      exact ⟨_, rfl, r1, r2⟩

/-- what is known about every way the loop can stand or end after any number of rounds -/
def Post (cfg : Cfg) (ok : Nat → Bool) (n : Nat) (rounds : List Round) : Status → Prop
  | .running st => Inv cfg ok n st [] ∧ Head cfg st
  | .finished (.done res) st => Inv cfg ok n st [] ∧ res = st.emitted ∧ anyPending st = false ∧ st.batches = []
  | .finished (.raised f) st => ∃ w rd, rd ∈ rounds ∧ Inv cfg ok n st (f :: w) ∧
      procOne cfg ok rd st f = .error (.raised f)
  | .finished (.crash _) _ => False

theorem Post_mono (cfg : Cfg) (ok : Nat → Bool) (n : Nat) (rd : Round) (rds : List Round) (s : Status)
    (h : Post cfg ok n rds s) : Post cfg ok n (rd :: rds) s := by
  cases s with
  | running s => exact h
  | finished o s =>
    cases o with
    | done res => exact h
    | raised f =>
      obtain ⟨w, r, hr, x⟩ := h
      exact ⟨w, r, List.mem_cons_of_mem _ hr, x⟩
    | crash y => exact h

theorem runLoop_post (cfg : Cfg) (ok : Nat → Bool) (n : Nat) (hfx : IsFixed cfg) :
    ∀ (rounds : List Round) (st : St), Inv cfg ok n st [] → Head cfg st →
      Post cfg ok n rounds (runLoop cfg ok rounds st) := by
  intro rounds
  induction rounds with
  | nil =>
    intro st h hh
    simp only [runLoop]
    cases ha : anyPending st with
    | true => exact ⟨h, hh⟩
    | false => exact ⟨h, rfl, ha, hh.exhausted ha⟩
  | cons rd rds ih =>
    intro st h hh
    simp only [runLoop]
    cases ha : anyPending st with
    | false => exact ⟨h, rfl, ha, hh.exhausted ha⟩
    | true =>
      simp only [if_true]
      rcases stepRound_spec cfg ok n rd st hfx h hh with ⟨st', hs, hi, hh'⟩ | ⟨f, w, st', hs, hi, he⟩
      · rw [hs]
        exact Post_mono cfg ok n rd rds _ (ih st' hi hh')
      · rw [hs]
        exact ⟨w, rd, by simp, hi, he⟩

theorem run_post (cfg : Cfg) (ok : Nat → Bool) (n : Nat) (t0 : Int) (rounds : List Round) (hfx : IsFixed cfg) :
    Post cfg ok n rounds (run cfg ok n t0 rounds) := by
  obtain ⟨st, hs, hi, hh⟩ := init_spec cfg ok n t0 hfx.bs (by rw [hfx.v]; rfl)
  unfold run
  rw [hs]
  exact runLoop_post cfg ok n hfx rounds st hi hh


/-! ### the retry wrapper -/

theorem retrying_spec (succ : Nat → Bool) : ∀ (budget k : Nat),
    k ≤ (retrying succ budget k).2 ∧ (retrying succ budget k).2 ≤ k + budget ∧
    (∀ j, k ≤ j → j < (retrying succ budget k).2 → succ j = false) ∧
    (retrying succ budget k).1 = succ (retrying succ budget k).2 ∧
    ((retrying succ budget k).1 = false → (retrying succ budget k).2 = k + budget) := by
  intro budget
  induction budget with
  | zero =>
    intro k
    refine ⟨Nat.le_refl _, Nat.le_refl _, ?_, rfl, fun _ => rfl⟩
    intro j h1 h2
    simp only [retrying] at h2
    omega
  | succ b ih =>
    intro k
    simp only [retrying]
    cases hk : succ k with
    | true =>
      simp only [if_true]
      refine ⟨Nat.le_refl _, by omega, ?_, hk.symm, fun h => by cases h⟩
      intro j h1 h2; omega
    | false =>
      simp only [Bool.false_eq_true, if_false]
      obtain ⟨i1, i2, i3, i4, i5⟩ := ih (k + 1)
      refine ⟨by omega, by omega, ?_, i4, fun h => by have := i5 h; omega⟩
      intro j h1 h2
      by_cases hj : j = k
      · subst hj; exact hk
      · exact i3 j (by omega) h2

end Cubed.MapUnordered
