/-
  Helper lemmas for C09 (crash / resume).  Core tactics only.
-/
import CubedModel.Model.Resume

namespace Cubed.Resume

set_option linter.unusedSectionVars false

variable {K V : Type} [DecidableEq K]

/-! ## facts regenerated from the source (each breaks when the source changes) -/

/-- `create_zarr_array` opens with mode "a". -/
theorem genMode_eq_a : genMode = Mode.a := by decide

/-- cubed forces `array.write_empty_chunks = True`. -/
theorem genCfg_writeEmpty (isFill : V → Bool) : (genCfg isFill).writeEmpty = true := by
  simp [genCfg, GeneratedC09.writeEmptyChunks]

/-- the completeness test of `already_computed` is `ndim == 0 or initialized != nchunks`. -/
theorem notComplete_spec (ndim i n : Nat) : notComplete ndim i n = false ↔ (ndim ≠ 0 ∧ i = n) := by
  simp [notComplete, cmpOf, GeneratedC09.alreadyComputedNdim0, GeneratedC09.alreadyComputedCmp]

/-! ## store basics -/

@[simp] theorem get_set (s : Store K V) (k k' : K) (v : V) :
    (s.set k v).get k' = if k' = k then some v else s.get k' := by
  simp [Store.get, Store.set, lookup]

@[simp] theorem docs_set (s : Store K V) (k : K) (v : V) : (s.set k v).docs = s.docs := rfl

theorem put_eq_set (c : WriteCfg V) (hc : c.writeEmpty = true) (s : Store K V) (k : K) (v : V) :
    s.put c k v = s.set k v := by
  simp [Store.put, hc]

@[simp] theorem get_addDoc (s : Store K V) (d k : K) : (s.addDoc d).get k = s.get k := by
  unfold Store.addDoc; split <;> rfl

@[simp] theorem chunks_addDoc (s : Store K V) (d : K) : (s.addDoc d).chunks = s.chunks := by
  unfold Store.addDoc; split <;> rfl

@[simp] theorem chunks_addDocs (s : Store K V) (ds : List K) : (s.addDocs ds).chunks = s.chunks := by
  induction ds generalizing s with
  | nil => rfl
  | cons d ds ih => simp [Store.addDocs, List.foldl_cons] at ih ⊢; rw [ih]; simp

@[simp] theorem get_addDocs (s : Store K V) (ds : List K) (k : K) : (s.addDocs ds).get k = s.get k := by
  simp [Store.get]

@[simp] theorem present_addDocs (s : Store K V) (ds : List K) (k : K) : (s.addDocs ds).present k = s.present k := by
  simp [Store.present]

theorem mem_docs_addDoc (s : Store K V) (d x : K) : x ∈ (s.addDoc d).docs ↔ x ∈ s.docs ∨ x = d := by
  unfold Store.addDoc
  split
  · constructor
    · intro h; exact Or.inl h
    · rintro (h | h)
      · exact h
      · subst h; assumption
  · simp

theorem mem_docs_addDocs (s : Store K V) (ds : List K) (x : K) : x ∈ (s.addDocs ds).docs ↔ x ∈ s.docs ∨ x ∈ ds := by
  induction ds generalizing s with
  | nil => simp [Store.addDocs]
  | cons d ds ih =>
    simp only [Store.addDocs, List.foldl_cons] at ih ⊢
    rw [ih, mem_docs_addDoc]
    simp only [List.mem_cons]
    constructor
    · rintro ((h | h) | h)
      · exact Or.inl h
      · exact Or.inr (Or.inl h)
      · exact Or.inr (Or.inr h)
    · rintro (h | h | h)
      · exact Or.inl (Or.inl h)
      · exact Or.inl (Or.inr h)
      · exact Or.inr h

theorem addDocs_append (s : Store K V) (xs ys : List K) : s.addDocs (xs ++ ys) = (s.addDocs xs).addDocs ys := by
  simp [Store.addDocs, List.foldl_append]

@[simp] theorem chunks_createA (s : Store K V) (a : Arr K) : (s.createA a).chunks = s.chunks := by
  simp [Store.createA]

@[simp] theorem chunks_createAllA (s : Store K V) (arrs : List (Arr K)) : (createAllA s arrs).chunks = s.chunks := by
  induction arrs generalizing s with
  | nil => rfl
  | cons a as ih => simp only [createAllA, List.foldl_cons] at ih ⊢; rw [ih]; simp

@[simp] theorem get_createAllA (s : Store K V) (arrs : List (Arr K)) (k : K) : (createAllA s arrs).get k = s.get k := by
  simp [Store.get]

@[simp] theorem present_createAllA (s : Store K V) (arrs : List (Arr K)) (k : K) :
    (createAllA s arrs).present k = s.present k := by
  simp [Store.present]

/-! ## sequential execution: what a task / task list leaves in the store -/

theorem get_foldl_put (c : WriteCfg V) (hc : c.writeEmpty = true) (f : K → V) (outs : List K) (acc : Store K V) (k : K) :
    ((outs.map (fun k => (k, f k))).foldl (fun acc w => acc.put c w.1 w.2) acc).get k
      = if k ∈ outs then some (f k) else acc.get k := by
  induction outs generalizing acc with
  | nil => simp
  | cons o outs ih =>
    simp only [List.map_cons, List.foldl_cons, List.mem_cons]
    rw [ih, put_eq_set c hc, get_set]
    by_cases h1 : k ∈ outs
    · simp [h1]
    · by_cases h2 : k = o
      · subst h2; simp [h1]
      · simp [h1, h2]

theorem docs_foldl_put (c : WriteCfg V) (hc : c.writeEmpty = true) (ws : List (K × V)) (acc : Store K V) :
    (ws.foldl (fun acc w => acc.put c w.1 w.2) acc).docs = acc.docs := by
  induction ws generalizing acc with
  | nil => rfl
  | cons w ws ih => simp only [List.foldl_cons]; rw [ih, put_eq_set c hc]; rfl

theorem get_runTask (c : WriteCfg V) (hc : c.writeEmpty = true) (s : Store K V) (t : Task K V) (k : K) :
    (runTask c s t).get k = if k ∈ t.outs then some (t.fn (t.reads.map s.get) k) else s.get k := by
  unfold runTask applyWrites taskWrites
  exact get_foldl_put c hc _ _ _ _

theorem docs_runTask (c : WriteCfg V) (hc : c.writeEmpty = true) (s : Store K V) (t : Task K V) :
    (runTask c s t).docs = s.docs := by
  unfold runTask applyWrites
  exact docs_foldl_put c hc _ _

theorem docs_runTasks (c : WriteCfg V) (hc : c.writeEmpty = true) (s : Store K V) (ts : List (Task K V)) :
    (runTasks c s ts).docs = s.docs := by
  induction ts generalizing s with
  | nil => rfl
  | cons t ts ih => simp only [runTasks, List.foldl_cons] at ih ⊢; rw [ih, docs_runTask c hc]

theorem present_runTask_mono (c : WriteCfg V) (hc : c.writeEmpty = true) (s : Store K V) (t : Task K V) (k : K)
    (h : s.present k = true) : (runTask c s t).present k = true := by
  simp only [Store.present, get_runTask c hc] at h ⊢
  split <;> simp_all

theorem present_runTasks_mono (c : WriteCfg V) (hc : c.writeEmpty = true) (s : Store K V) (ts : List (Task K V)) (k : K)
    (h : s.present k = true) : (runTasks c s ts).present k = true := by
  induction ts generalizing s with
  | nil => exact h
  | cons t ts ih =>
    simp only [runTasks, List.foldl_cons] at ih ⊢
    exact ih _ (present_runTask_mono c hc s t k h)

/-- keys no task of the list writes are untouched. -/
theorem get_runTasks_of_not_mem (c : WriteCfg V) (hc : c.writeEmpty = true) (s : Store K V) (ts : List (Task K V)) (k : K)
    (h : k ∉ ts.flatMap (·.outs)) : (runTasks c s ts).get k = s.get k := by
  induction ts generalizing s with
  | nil => rfl
  | cons t ts ih =>
    simp only [List.flatMap_cons, List.mem_append, not_or] at h
    simp only [runTasks, List.foldl_cons] at ih ⊢
    rw [ih _ h.2, get_runTask c hc, if_neg h.1]

/-- a task list without internal dependencies (no task reads what the list writes) and with a single writer per key:
every written key ends up holding the task's function of the *initial* store. -/
theorem get_runTasks_of_mem (c : WriteCfg V) (hc : c.writeEmpty = true) (s : Store K V) (ts : List (Task K V))
    (hnd : (ts.flatMap (·.outs)).Nodup)
    (hnr : ∀ t ∈ ts, ∀ r ∈ t.reads, r ∉ ts.flatMap (·.outs))
    (t : Task K V) (ht : t ∈ ts) (k : K) (hk : k ∈ t.outs) :
    (runTasks c s ts).get k = some (t.fn (t.reads.map s.get) k) := by
  induction ts generalizing s with
  | nil => cases ht
  | cons t0 ts ih =>
    simp only [List.flatMap_cons, List.nodup_append] at hnd
    simp only [runTasks, List.foldl_cons] at ih ⊢
    rcases List.mem_cons.mp ht with rfl | ht'
    · have hk' : k ∉ ts.flatMap (·.outs) := fun h => hnd.2.2 k hk k h rfl
      have := get_runTasks_of_not_mem c hc (runTask c s t) ts k hk'
      simp only [runTasks] at this
      rw [this, get_runTask c hc, if_pos hk]
    · have hnr' : ∀ t ∈ ts, ∀ r ∈ t.reads, r ∉ ts.flatMap (·.outs) := by
        intro t1 ht1 r hr hmem
        exact hnr t1 (List.mem_cons_of_mem _ ht1) r hr (by simp [List.flatMap_cons, hmem])
      rw [ih (runTask c s t0) hnd.2.1 hnr' ht']
      congr 2
      apply List.map_congr_left
      intro r hr
      rw [get_runTask c hc, if_neg]
      intro hmem
      exact hnr t (List.mem_cons_of_mem _ ht') r hr (by simp [List.flatMap_cons, hmem])

theorem present_runTasks_of_mem (c : WriteCfg V) (hc : c.writeEmpty = true) (s : Store K V) (ts : List (Task K V)) (k : K)
    (h : k ∈ ts.flatMap (·.outs)) : (runTasks c s ts).present k = true := by
  induction ts generalizing s with
  | nil => simp at h
  | cons t ts ih =>
    simp only [List.flatMap_cons, List.mem_append] at h
    simp only [runTasks, List.foldl_cons] at ih ⊢
    by_cases h2 : k ∈ ts.flatMap (·.outs)
    · exact ih _ h2
    · have h1 : k ∈ t.outs := by rcases h with h | h; exact h; exact absurd h h2
      have := present_runTasks_mono c hc (runTask c s t) ts k (by simp [Store.present, get_runTask c hc, h1])
      simpa [runTasks] using this

/-! ## operations -/

theorem mem_outKeys_cons (o : Op K V) (os : List (Op K V)) (k : K) :
    k ∈ outKeys (o :: os) ↔ k ∈ opOuts o ∨ k ∈ outKeys os := by
  simp [outKeys, List.flatMap_cons]

theorem mem_outKeys_append (xs ys : List (Op K V)) (k : K) :
    k ∈ outKeys (xs ++ ys) ↔ k ∈ outKeys xs ∨ k ∈ outKeys ys := by
  simp [outKeys, List.flatMap_append]

theorem mem_outKeys_of_mem (ops : List (Op K V)) (o : Op K V) (ho : o ∈ ops) (k : K) (hk : k ∈ opOuts o) :
    k ∈ outKeys ops := by
  simp only [outKeys, List.mem_flatMap]; exact ⟨o, ho, hk⟩

theorem mem_opOuts_of_mem (o : Op K V) (t : Task K V) (ht : t ∈ o.tasks) (k : K) (hk : k ∈ t.outs) : k ∈ opOuts o := by
  simp only [opOuts, List.mem_flatMap]; exact ⟨t, ht, hk⟩

theorem get_runOpA_of_not_mem (c : WriteCfg V) (hc : c.writeEmpty = true) (s : Store K V) (o : Op K V) (k : K)
    (h : k ∉ opOuts o) : (runOpA c s o).get k = s.get k := by
  unfold runOpA
  rw [get_runTasks_of_not_mem c hc _ _ _ h, get_createAllA]

theorem present_runOpA_mono (c : WriteCfg V) (hc : c.writeEmpty = true) (s : Store K V) (o : Op K V) (k : K)
    (h : s.present k = true) : (runOpA c s o).present k = true := by
  unfold runOpA
  exact present_runTasks_mono c hc _ _ _ (by simpa using h)

theorem present_runOpA_of_mem (c : WriteCfg V) (hc : c.writeEmpty = true) (s : Store K V) (o : Op K V) (k : K)
    (h : k ∈ opOuts o) : (runOpA c s o).present k = true := by
  unfold runOpA
  exact present_runTasks_of_mem c hc _ _ _ h

theorem get_runOpsA_of_not_mem (c : WriteCfg V) (hc : c.writeEmpty = true) (s : Store K V) (ops : List (Op K V)) (k : K)
    (h : k ∉ outKeys ops) : (runOpsA c s ops).get k = s.get k := by
  induction ops generalizing s with
  | nil => rfl
  | cons o os ih =>
    rw [mem_outKeys_cons, not_or] at h
    simp only [runOpsA, List.foldl_cons] at ih ⊢
    rw [ih _ h.2, get_runOpA_of_not_mem c hc _ _ _ h.1]

theorem present_runOpsA_mono (c : WriteCfg V) (hc : c.writeEmpty = true) (s : Store K V) (ops : List (Op K V)) (k : K)
    (h : s.present k = true) : (runOpsA c s ops).present k = true := by
  induction ops generalizing s with
  | nil => exact h
  | cons o os ih =>
    simp only [runOpsA, List.foldl_cons] at ih ⊢
    exact ih _ (present_runOpA_mono c hc s o k h)

theorem den_cons (c : WriteCfg V) (s0 : Store K V) (o : Op K V) (os : List (Op K V)) :
    den c s0 (o :: os) = den c (runOpA c s0 o) os := by
  simp [den, runOpsA]

/-- The final store satisfies the dataflow equations: the chunk a task writes is the task's function of the
*final* values of the chunks it reads (single writer + topological order). -/
theorem den_fix (c : WriteCfg V) (hc : c.writeEmpty = true) (s0 : Store K V) (ops : List (Op K V))
    (hnd : (outKeys ops).Nodup) (htopo : OpTopo ops)
    (o : Op K V) (ho : o ∈ ops) (t : Task K V) (ht : t ∈ o.tasks) (k : K) (hk : k ∈ t.outs) :
    den c s0 ops k = some (t.fn (t.reads.map (den c s0 ops)) k) := by
  induction ops generalizing s0 with
  | nil => cases ho
  | cons o0 os ih =>
    have hnd' : (opOuts o0 ++ outKeys os).Nodup := by simpa [outKeys, List.flatMap_cons] using hnd
    rw [List.nodup_append] at hnd'
    rcases List.mem_cons.mp ho with rfl | ho'
    · have hko : k ∈ opOuts o := mem_opOuts_of_mem o t ht k hk
      have hk' : k ∉ outKeys os := fun h => hnd'.2.2 k hko k h rfl
      have hreads : ∀ r ∈ t.reads, den c s0 (o :: os) r = s0.get r := by
        intro r hr
        have := htopo.1 t ht r hr
        simp only [den, runOpsA, List.foldl_cons]
        have h1 := get_runOpsA_of_not_mem c hc (runOpA c s0 o) os r this.2
        simp only [runOpsA] at h1
        rw [h1, get_runOpA_of_not_mem c hc _ _ _ this.1]
      have hmap : t.reads.map (den c s0 (o :: os)) = t.reads.map s0.get := List.map_congr_left hreads
      rw [hmap]
      simp only [den, runOpsA, List.foldl_cons]
      have h1 := get_runOpsA_of_not_mem c hc (runOpA c s0 o) os k hk'
      simp only [runOpsA] at h1
      rw [h1]
      unfold runOpA
      have hnr : ∀ t ∈ o.tasks, ∀ r ∈ t.reads, r ∉ o.tasks.flatMap (·.outs) := fun t ht r hr => (htopo.1 t ht r hr).1
      rw [get_runTasks_of_mem c hc _ o.tasks hnd'.1 hnr t ht k hk]
      congr 2
      apply List.map_congr_left
      intro r _
      simp
    · rw [den_cons]
      exact ih (runOpA c s0 o0) hnd'.2.1 htopo.2 ho'

/-! ## soundness of single steps -/

theorem reads_den (c : WriteCfg V) (s0 : Store K V) (ops : List (Op K V)) (s : Store K V) (t : Task K V)
    (hs : Sound c s0 ops s) (hr : Ready ops s t) : t.reads.map s.get = t.reads.map (den c s0 ops) := by
  apply List.map_congr_left
  intro r hrm
  rcases hs r with h | ⟨hmem, hnone⟩
  · exact h
  · have := hr r hrm hmem
    simp [Store.present, hnone] at this

theorem sound_set (c : WriteCfg V) (s0 : Store K V) (ops : List (Op K V)) (s : Store K V) (k : K) (v : V)
    (hs : Sound c s0 ops s) (hv : den c s0 ops k = some v) : Sound c s0 ops (s.set k v) := by
  intro k'
  rw [get_set]
  by_cases h : k' = k
  · subst h; simp [hv]
  · simp only [h, if_false]; exact hs k'

theorem sound_addDocs (c : WriteCfg V) (s0 : Store K V) (ops : List (Op K V)) (s : Store K V) (ds : List K)
    (hs : Sound c s0 ops s) : Sound c s0 ops (s.addDocs ds) := by
  intro k; rw [get_addDocs]; exact hs k

theorem sound_createAllA (c : WriteCfg V) (s0 : Store K V) (ops : List (Op K V)) (s : Store K V) (arrs : List (Arr K))
    (hs : Sound c s0 ops s) : Sound c s0 ops (createAllA s arrs) := by
  intro k; rw [get_createAllA]; exact hs k

/-- the value a ready task of the plan writes from a sound store is the final value. -/
theorem task_value (c : WriteCfg V) (hc : c.writeEmpty = true) (s0 : Store K V) (ops : List (Op K V))
    (hnd : (outKeys ops).Nodup) (htopo : OpTopo ops) (s : Store K V) (t : Task K V)
    (hs : Sound c s0 ops s) (hr : Ready ops s t) (ht : ∃ o ∈ ops, t ∈ o.tasks) (k : K) (hk : k ∈ t.outs) :
    den c s0 ops k = some (t.fn (t.reads.map s.get) k) := by
  obtain ⟨o, ho, hto⟩ := ht
  rw [reads_den c s0 ops s t hs hr]
  exact den_fix c hc s0 ops hnd htopo o ho t hto k hk

theorem sound_chunkStep (c : WriteCfg V) (hc : c.writeEmpty = true) (s0 : Store K V) (ops : List (Op K V))
    (hnd : (outKeys ops).Nodup) (htopo : OpTopo ops) (s : Store K V) (t : Task K V)
    (hs : Sound c s0 ops s) (hr : Ready ops s t) (ht : ∃ o ∈ ops, t ∈ o.tasks) (k : K) (hk : k ∈ t.outs) :
    Sound c s0 ops (chunkStep c s t k) := by
  unfold chunkStep
  rw [put_eq_set c hc]
  exact sound_set c s0 ops s k _ hs (task_value c hc s0 ops hnd htopo s t hs hr ht k hk)

theorem sound_runTask (c : WriteCfg V) (hc : c.writeEmpty = true) (s0 : Store K V) (ops : List (Op K V))
    (hnd : (outKeys ops).Nodup) (htopo : OpTopo ops) (s : Store K V) (t : Task K V)
    (hs : Sound c s0 ops s) (hr : Ready ops s t) (ht : ∃ o ∈ ops, t ∈ o.tasks) :
    Sound c s0 ops (runTask c s t) := by
  intro k
  rw [get_runTask c hc]
  by_cases hk : k ∈ t.outs
  · simp only [hk, if_true]
    exact Or.inl (task_value c hc s0 ops hnd htopo s t hs hr ht k hk).symm
  · simp only [hk, if_false]; exact hs k

theorem ready_mono (ops : List (Op K V)) (s s' : Store K V) (t : Task K V)
    (hmono : ∀ k, s.present k = true → s'.present k = true) (hr : Ready ops s t) : Ready ops s' t :=
  fun r hrm hmem => hmono r (hr r hrm hmem)

theorem sound_runTasks (c : WriteCfg V) (hc : c.writeEmpty = true) (s0 : Store K V) (ops : List (Op K V))
    (hnd : (outKeys ops).Nodup) (htopo : OpTopo ops) (s : Store K V) (ts : List (Task K V))
    (hs : Sound c s0 ops s) (hr : ∀ t ∈ ts, Ready ops s t) (ht : ∀ t ∈ ts, ∃ o ∈ ops, t ∈ o.tasks) :
    Sound c s0 ops (runTasks c s ts) := by
  induction ts generalizing s with
  | nil => exact hs
  | cons t ts ih =>
    simp only [runTasks, List.foldl_cons] at ih ⊢
    apply ih
    · exact sound_runTask c hc s0 ops hnd htopo s t hs (hr t (List.mem_cons_self ..)) (ht t (List.mem_cons_self ..))
    · intro t' ht'
      exact ready_mono ops s _ t' (fun k => present_runTask_mono c hc s t k) (hr t' (List.mem_cons_of_mem _ ht'))
    · intro t' ht'; exact ht t' (List.mem_cons_of_mem _ ht')

/-! ## schedules: any interleaving, any prefix -/

theorem sound_runSched (c : WriteCfg V) (hc : c.writeEmpty = true) (s0 : Store K V) (ops : List (Op K V))
    (hnd : (outKeys ops).Nodup) (htopo : OpTopo ops) (s : Store K V) (σ : Sched K V)
    (hs : Sound c s0 ops s) (hv : ValidSched c ops s σ) : Sound c s0 ops (runSched c s σ) := by
  induction σ generalizing s with
  | nil => exact hs
  | cons st rest ih =>
    obtain ⟨ht, hk, hr, hrest⟩ := hv
    simp only [runSched, List.foldl_cons] at ih ⊢
    exact ih _ (sound_chunkStep c hc s0 ops hnd htopo s st.1 hs hr ht st.2 hk) hrest

theorem validSched_take (c : WriteCfg V) (ops : List (Op K V)) (s : Store K V) (σ : Sched K V) (n : Nat)
    (hv : ValidSched c ops s σ) : ValidSched c ops s (σ.take n) := by
  induction σ generalizing s n with
  | nil => simpa using hv
  | cons st rest ih =>
    cases n with
    | zero => simp [ValidSched]
    | succ n =>
      obtain ⟨ht, hk, hr, hrest⟩ := hv
      simp only [List.take_succ_cons]
      exact ⟨ht, hk, hr, ih _ n hrest⟩

/-- in a sound store a complete array holds its final values. -/
theorem complete_final (c : WriteCfg V) (s0 : Store K V) (ops : List (Op K V)) (s : Store K V) (a : Arr K)
    (hs : Sound c s0 ops s) (ha : a.complete s) : ∀ k ∈ a.grid, s.get k = den c s0 ops k := by
  intro k hk
  rcases hs k with h | ⟨_, hnone⟩
  · exact h
  · have := ha k hk
    simp [Store.present, hnone] at this

/-- a store in which no chunk of the plan exists yet is sound. -/
theorem sound_fresh (c : WriteCfg V) (hc : c.writeEmpty = true) (s0 : Store K V) (ops : List (Op K V))
    (hfresh : ∀ k ∈ outKeys ops, s0.get k = none) : Sound c s0 ops s0 := by
  intro k
  by_cases hk : k ∈ outKeys ops
  · exact Or.inr ⟨hk, hfresh k hk⟩
  · exact Or.inl (get_runOpsA_of_not_mem c hc s0 ops k hk).symm

/-! ## write sequences -/

/-- a write that stores the final value (document writes carry no value). -/
def DenW (c : WriteCfg V) (s0 : Store K V) (ops : List (Op K V)) : Write K V → Prop
  | .doc _ => True
  | .chunk k v => den c s0 ops k = some v

theorem sound_applyAll (c : WriteCfg V) (hc : c.writeEmpty = true) (s0 : Store K V) (ops : List (Op K V))
    (s : Store K V) (ws : List (Write K V))
    (hs : Sound c s0 ops s) (hw : ∀ w ∈ ws, DenW c s0 ops w) : Sound c s0 ops (s.applyAll c ws) := by
  induction ws generalizing s with
  | nil => exact hs
  | cons w ws ih =>
    simp only [Store.applyAll, List.foldl_cons] at ih ⊢
    apply ih
    · cases w with
      | doc d => intro k; simp only [Store.apply, get_addDoc]; exact hs k
      | chunk k v =>
        simp only [Store.apply]
        rw [put_eq_set c hc]
        exact sound_set c s0 ops s k v hs (hw _ (List.mem_cons_self ..))
    · intro w' hw'; exact hw w' (List.mem_cons_of_mem _ hw')

theorem applyAll_append (c : WriteCfg V) (s : Store K V) (xs ys : List (Write K V)) :
    s.applyAll c (xs ++ ys) = (s.applyAll c xs).applyAll c ys := by
  simp [Store.applyAll, List.foldl_append]

theorem applyAll_docs (c : WriteCfg V) (s : Store K V) (ds : List K) :
    s.applyAll c (ds.map Write.doc) = s.addDocs ds := by
  simp [Store.applyAll, Store.addDocs, List.foldl_map, Store.apply]

theorem applyAll_taskWrites (c : WriteCfg V) (s acc : Store K V) (t : Task K V) :
    acc.applyAll c ((taskWrites s t).map (fun w => Write.chunk w.1 w.2)) = applyWrites c acc (taskWrites s t) := by
  simp [Store.applyAll, applyWrites, List.foldl_map, Store.apply]

theorem applyAll_taskTrace (c : WriteCfg V) (s : Store K V) (ts : List (Task K V)) :
    s.applyAll c (taskTrace c s ts) = runTasks c s ts := by
  induction ts generalizing s with
  | nil => rfl
  | cons t ts ih =>
    simp only [taskTrace, applyAll_append, applyAll_taskWrites]
    rw [show applyWrites c s (taskWrites s t) = runTask c s t from rfl, ih]
    simp [runTasks]

theorem applyAll_docTrace (c : WriteCfg V) (s : Store K V) (arrs : List (Arr K)) :
    s.applyAll c (docTrace s arrs) = createAllA s arrs := by
  induction arrs generalizing s with
  | nil => rfl
  | cons a as ih =>
    simp only [docTrace, applyAll_append, applyAll_docs]
    rw [show s.addDocs (createDocs s a) = s.createA a from rfl, ih]
    simp [createAllA]

theorem docTrace_docs (s : Store K V) (arrs : List (Arr K)) (k : K) (v : V) : Write.chunk k v ∉ docTrace s arrs := by
  induction arrs generalizing s with
  | nil => intro h; cases h
  | cons a as ih =>
    intro h
    simp only [docTrace, List.mem_append, List.mem_map] at h
    rcases h with ⟨d, _, hd⟩ | h
    · cases hd
    · exact ih _ h

/-- the write sequence is faithful: applying all of it gives the store of the sequential run. -/
theorem applyAll_trace (c : WriteCfg V) (s : Store K V) (ops : List (Op K V)) :
    s.applyAll c (trace c s ops) = runOpsA c s ops := by
  induction ops generalizing s with
  | nil => rfl
  | cons o os ih =>
    simp only [trace, applyAll_append, applyAll_docTrace, applyAll_taskTrace, ih]
    simp [runOpsA, runOpA]

theorem taskTrace_den (c : WriteCfg V) (hc : c.writeEmpty = true) (s0 : Store K V) (ops : List (Op K V))
    (hnd : (outKeys ops).Nodup) (htopo : OpTopo ops) (s : Store K V) (ts : List (Task K V))
    (hs : Sound c s0 ops s) (hr : ∀ t ∈ ts, Ready ops s t) (ht : ∀ t ∈ ts, ∃ o ∈ ops, t ∈ o.tasks) :
    ∀ w ∈ taskTrace c s ts, DenW c s0 ops w := by
  induction ts generalizing s with
  | nil => intro w hw; cases hw
  | cons t ts ih =>
    intro w hw
    simp only [taskTrace, List.mem_append, List.mem_map] at hw
    rcases hw with ⟨p, hp, rfl⟩ | hw
    · simp only [taskWrites, List.mem_map] at hp
      obtain ⟨k, hk, rfl⟩ := hp
      exact task_value c hc s0 ops hnd htopo s t hs (hr t (List.mem_cons_self ..)) (ht t (List.mem_cons_self ..)) k hk
    · apply ih (runTask c s t) _ _ _ w hw
      · exact sound_runTask c hc s0 ops hnd htopo s t hs (hr t (List.mem_cons_self ..)) (ht t (List.mem_cons_self ..))
      · intro t' ht'
        exact ready_mono ops s _ t' (fun k => present_runTask_mono c hc s t k) (hr t' (List.mem_cons_of_mem _ ht'))
      · intro t' ht'; exact ht t' (List.mem_cons_of_mem _ ht')

theorem taskTrace_keys (c : WriteCfg V) (s : Store K V) (ts : List (Task K V)) (k : K) (v : V)
    (h : Write.chunk k v ∈ taskTrace c s ts) : k ∈ ts.flatMap (·.outs) := by
  induction ts generalizing s with
  | nil => cases h
  | cons t ts ih =>
    simp only [taskTrace, List.mem_append, List.mem_map] at h
    simp only [List.flatMap_cons, List.mem_append]
    rcases h with ⟨p, hp, heq⟩ | h
    · simp only [taskWrites, List.mem_map] at hp
      obtain ⟨k', hk', rfl⟩ := hp
      cases heq
      exact Or.inl hk'
    · exact Or.inr (ih _ h)

/-- a sequential run only writes chunks of the operations it runs. -/
theorem trace_keys (c : WriteCfg V) (s : Store K V) (ops : List (Op K V)) (k : K) (v : V)
    (h : Write.chunk k v ∈ trace c s ops) : k ∈ outKeys ops := by
  induction ops generalizing s with
  | nil => cases h
  | cons o os ih =>
    simp only [trace, List.mem_append] at h
    rw [mem_outKeys_cons]
    rcases h with (h | h) | h
    · exact absurd h (docTrace_docs s o.creates k v)
    · exact Or.inl (taskTrace_keys c _ _ k v h)
    · exact Or.inr (ih _ h)

/-! ## create -/

theorem createArr_a (s : Store K V) (a : Arr K) : createArr Mode.a s a = .ok (s.createA a) := rfl

theorem createAll_a (s : Store K V) (arrs : List (Arr K)) :
    createAll Mode.a s arrs = .ok (createAllA s arrs) := by
  induction arrs generalizing s with
  | nil => rfl
  | cons a as ih => simp only [createAll, createArr_a, ih, createAllA, List.foldl_cons]

theorem runOp_a (c : WriteCfg V) (s : Store K V) (o : Op K V) : runOp Mode.a c s o = .ok (runOpA c s o) := by
  simp [runOp, createAll_a, runOpA]

theorem runOps_a (c : WriteCfg V) (s : Store K V) (ops : List (Op K V)) :
    runOps Mode.a c s ops = .ok (runOpsA c s ops) := by
  induction ops generalizing s with
  | nil => rfl
  | cons o os ih => simp [runOps, runOp_a, ih, runOpsA]

/-! ## already_computed -/

theorem all_present_of_initialized (s : Store K V) (a : Arr K) (h : initialized s a = a.grid.length) :
    ∀ k ∈ a.grid, s.present k = true := by
  unfold initialized at h
  exact List.length_filter_eq_length_iff.mp h

theorem initialized_of_all_present (s : Store K V) (a : Arr K) (h : ∀ k ∈ a.grid, s.present k = true) :
    initialized s a = a.grid.length := by
  unfold initialized
  exact List.length_filter_eq_length_iff.mpr h

/-- one output passes the loop body iff it is a plain array whose metadata exists, is not 0-d, and has every
chunk present. -/
theorem outputComplete_true_iff (s : Store K V) (a : Arr K) :
    outputComplete s a = .ok true ↔
      (a.structured = false ∧ a.openable s = true ∧ a.ndim ≠ 0 ∧ ∀ k ∈ a.grid, s.present k = true) := by
  unfold outputComplete
  by_cases hst : a.structured = true
  · simp only [hst, if_true]
    constructor
    · intro h; split at h <;> cases h
    · intro h; simp at h
  · have hst' : a.structured = false := by simpa using hst
    simp only [hst', Bool.false_eq_true, if_false]
    by_cases hop : a.openable s = true
    · simp only [hop, Bool.not_true, Bool.false_eq_true, if_false]
      constructor
      · intro h
        have h2 : notComplete a.ndim (initialized s a) a.grid.length = false := by
          injection h with h; simpa using h
        have := (notComplete_spec _ _ _).mp h2
        exact ⟨trivial, trivial, this.1, all_present_of_initialized s a this.2⟩
      · intro ⟨_, _, hnd, hall⟩
        have := (notComplete_spec a.ndim (initialized s a) a.grid.length).mpr ⟨hnd, initialized_of_all_present s a hall⟩
        simp [this]
    · have hop' : a.openable s = false := by simpa using hop
      simp only [hop', Bool.not_false, if_true, GeneratedC09.arrayNotFoundIsIncomplete]
      constructor
      · intro h; cases h
      · intro h; simp at h

theorem outputsComplete_true_iff (s : Store K V) (as : List (Arr K)) :
    outputsComplete s as = .ok true ↔ ∀ a ∈ as, outputComplete s a = .ok true := by
  induction as with
  | nil => simp [outputsComplete]
  | cons a as ih =>
    simp only [outputsComplete, GeneratedC09.allOutputsChecked, if_true, List.mem_cons, forall_eq_or_imp]
    cases h : outputComplete s a with
    | error e => simp
    | ok b =>
      cases b with
      | false => simp
      | true => simp [ih]

/-- an operation with a pipeline is marked computed iff it has an output with a target and every such output is a
created plain array, not 0-d, with all chunks present. -/
theorem alreadyComputed_true_iff (s : Store K V) (o : Op K V) (hp : o.hasPipeline = true) :
    alreadyComputed s o = .ok true ↔
      (o.outputs ≠ [] ∧ ∀ a ∈ o.outputs,
        a.structured = false ∧ a.openable s = true ∧ a.ndim ≠ 0 ∧ ∀ k ∈ a.grid, s.present k = true) := by
  unfold alreadyComputed
  simp only [hp, Bool.not_true, Bool.false_eq_true, if_false, GeneratedC09.createArraysNeverComputed, Bool.true_and]
  by_cases he : o.outputs = []
  · simp [he]
  · have : o.outputs.isEmpty = false := by simpa using he
    simp only [this, Bool.false_eq_true, if_false, outputsComplete_true_iff, outputComplete_true_iff]
    simp [he]

theorem skipNode_iff (s : Store K V) (o : Op K V) :
    skipNode s o = true ↔ (o.hasPipeline = false ∨ alreadyComputed s o = .ok true) := by
  unfold skipNode
  simp only [GeneratedC09.skipHonoursComputed, GeneratedC09.computedOnlyOnResume, Bool.true_and, Bool.or_eq_true,
    Bool.not_eq_true']
  constructor
  · rintro (h | h)
    · exact Or.inl h
    · right
      cases h2 : alreadyComputed s o with
      | error e => simp [h2] at h
      | ok b => simp [h2] at h; simp [h]
  · rintro (h | h)
    · exact Or.inl h
    · right; simp [h]

/-! ## the sequential run of a selection of the operations, from a sound store -/

/-- Run, in plan order, the operations selected by `sel`, starting from `acc`; the operations not selected already have
all their chunks in `s` (and `acc` has at least the chunks of `s`).  Then the store stays sound, ends with every chunk
of the plan present, and every chunk written on the way carries its final value. -/
theorem seq_main (c : WriteCfg V) (hc : c.writeEmpty = true) (s0 : Store K V) (ops : List (Op K V))
    (hnd : (outKeys ops).Nodup) (htopo : OpTopo ops) (s : Store K V) (sel : Op K V → Bool)
    (hskip : ∀ o ∈ ops, sel o = false → ∀ k ∈ opOuts o, s.present k = true)
    (pre rest : List (Op K V)) (acc : Store K V)
    (hsplit : ops = pre ++ rest)
    (hacc : Sound c s0 ops acc)
    (hmono : ∀ k, s.present k = true → acc.present k = true)
    (hpre : ∀ k ∈ outKeys pre, acc.present k = true)
    (hrest : OpTopo rest) :
    Sound c s0 ops (runOpsA c acc (rest.filter sel)) ∧
    (∀ k ∈ outKeys ops, (runOpsA c acc (rest.filter sel)).present k = true) ∧
    (∀ w ∈ trace c acc (rest.filter sel), DenW c s0 ops w) := by
  induction rest generalizing pre acc with
  | nil =>
    refine ⟨hacc, ?_, ?_⟩
    · intro k hk
      rw [hsplit, List.append_nil] at hk
      exact hpre k hk
    · intro w hw; cases hw
  | cons o os ih =>
    have ho : o ∈ ops := by rw [hsplit]; simp
    have hsplit' : ops = (pre ++ [o]) ++ os := by rw [hsplit]; simp
    by_cases hsel : sel o = true
    · simp only [List.filter_cons, hsel, if_true]
      have hready : ∀ t ∈ o.tasks, Ready ops (createAllA acc o.creates) t := by
        intro t ht r hr hmem
        rw [present_createAllA]
        have hno := hrest.1 t ht r hr
        rw [hsplit, mem_outKeys_append, mem_outKeys_cons] at hmem
        rcases hmem with h | h | h
        · exact hpre r h
        · exact absurd h hno.1
        · exact absurd h hno.2
      have hacc' : Sound c s0 ops (runOpA c acc o) := by
        unfold runOpA
        exact sound_runTasks c hc s0 ops hnd htopo _ o.tasks (sound_createAllA c s0 ops acc _ hacc) hready
          (fun t ht => ⟨o, ho, ht⟩)
      have hmono' : ∀ k, s.present k = true → (runOpA c acc o).present k = true :=
        fun k hk => present_runOpA_mono c hc acc o k (hmono k hk)
      have hpre' : ∀ k ∈ outKeys (pre ++ [o]), (runOpA c acc o).present k = true := by
        intro k hk
        rw [mem_outKeys_append] at hk
        rcases hk with h | h
        · exact present_runOpA_mono c hc acc o k (hpre k h)
        · have : k ∈ opOuts o := by simpa [outKeys] using h
          exact present_runOpA_of_mem c hc acc o k this
      have ih' := ih (pre ++ [o]) (runOpA c acc o) hsplit' hacc' hmono' hpre' hrest.2
      have hrun : runOpsA c acc (o :: os.filter sel) = runOpsA c (runOpA c acc o) (os.filter sel) := by
        simp [runOpsA]
      rw [hrun]
      refine ⟨ih'.1, ih'.2.1, ?_⟩
      intro w hw
      simp only [trace, List.mem_append] at hw
      rcases hw with (hw | hw) | hw
      · cases w with
        | doc d => trivial
        | chunk k v => exact absurd hw (docTrace_docs acc o.creates k v)
      · exact taskTrace_den c hc s0 ops hnd htopo _ o.tasks (sound_createAllA c s0 ops acc _ hacc) hready
          (fun t ht => ⟨o, ho, ht⟩) w hw
      · exact ih'.2.2 w hw
    · have hsel' : sel o = false := by simpa using hsel
      simp only [List.filter_cons, hsel', Bool.false_eq_true, if_false]
      have hpre' : ∀ k ∈ outKeys (pre ++ [o]), acc.present k = true := by
        intro k hk
        rw [mem_outKeys_append] at hk
        rcases hk with h | h
        · exact hpre k h
        · have : k ∈ opOuts o := by simpa [outKeys] using h
          exact hmono k (hskip o ho hsel' k this)
      exact ih (pre ++ [o]) acc hsplit' hacc hmono hpre' hrest.2

/-- a sound store in which every chunk of the plan is present is the final store. -/
theorem eq_den_of_sound_present (c : WriteCfg V) (s0 : Store K V) (ops : List (Op K V)) (s : Store K V)
    (hs : Sound c s0 ops s) (hp : ∀ k ∈ outKeys ops, s.present k = true) : ∀ k, s.get k = den c s0 ops k := by
  intro k
  rcases hs k with h | ⟨hmem, hnone⟩
  · exact h
  · have := hp k hmem
    simp [Store.present, hnone] at this

/-! ## what is skipped on resume -/

/-- an operation skipped on resume has every one of its chunks in the store. -/
theorem skipped_present (ops : List (Op K V)) (hwf : WF ops) (s : Store K V) (o : Op K V) (ho : o ∈ ops)
    (hskip : skipNode s o = true) : ∀ k ∈ opOuts o, s.present k = true := by
  intro k hk
  by_cases hp : o.hasPipeline = true
  · rcases (skipNode_iff s o).mp hskip with h | h
    · rw [hp] at h; cases h
    · have := ((alreadyComputed_true_iff s o hp).mp h).2
      obtain ⟨a, ha, hka⟩ := (hwf.exact o ho k).mp hk
      exact (this a ha).2.2.2 k hka
  · have hp' : o.hasPipeline = false := by simpa using hp
    have := (hwf.nopipe o ho hp').1
    simp [opOuts, this] at hk

/-! ## refusal -/

theorem outputComplete_error (s : Store K V) (a : Arr K) (r : Refusal) (h : outputComplete s a = .error r) :
    a.structured = true ∧ (r = .noInitializedCount ∨ r = .structuredNotCreated) := by
  unfold outputComplete at h
  by_cases hst : a.structured = true
  · refine ⟨hst, ?_⟩
    simp only [hst, if_true, GeneratedC09.refusesWithoutCount] at h
    split at h
    · injection h with h; exact Or.inl h.symm
    · injection h with h; exact Or.inr h.symm
  · have hst' : a.structured = false := by simpa using hst
    simp only [hst', Bool.false_eq_true, if_false, GeneratedC09.arrayNotFoundIsIncomplete, if_true] at h
    split at h <;> cases h

theorem outputsComplete_error (s : Store K V) (as : List (Arr K)) (r : Refusal) (h : outputsComplete s as = .error r) :
    ∃ a ∈ as, a.structured = true ∧ (r = .noInitializedCount ∨ r = .structuredNotCreated) := by
  induction as with
  | nil => cases h
  | cons a as ih =>
    simp only [outputsComplete, GeneratedC09.allOutputsChecked, if_true] at h
    cases h2 : outputComplete s a with
    | error e =>
      simp only [h2] at h
      injection h with h; subst h
      exact ⟨a, List.mem_cons_self .., outputComplete_error s a e h2⟩
    | ok b =>
      cases b with
      | false => simp [h2] at h
      | true =>
        simp only [h2] at h
        obtain ⟨a', ha', h'⟩ := ih h
        exact ⟨a', List.mem_cons_of_mem _ ha', h'⟩

theorem alreadyComputed_error (s : Store K V) (o : Op K V) (r : Refusal) (h : alreadyComputed s o = .error r) :
    ∃ a ∈ o.outputs, a.structured = true ∧ (r = .noInitializedCount ∨ r = .structuredNotCreated) := by
  unfold alreadyComputed at h
  split at h
  · cases h
  · split at h
    · cases h
    · exact outputsComplete_error s o.outputs r h

theorem firstRefusal_some (s : Store K V) (ops : List (Op K V)) (r : Refusal) (h : firstRefusal s ops = some r) :
    ∃ o ∈ ops, ∃ a ∈ o.outputs, a.structured = true ∧ (r = .noInitializedCount ∨ r = .structuredNotCreated) := by
  induction ops with
  | nil => cases h
  | cons o os ih =>
    simp only [firstRefusal] at h
    cases h2 : alreadyComputed s o with
    | error e =>
      simp only [h2] at h
      injection h with h; subst h
      obtain ⟨a, ha, h'⟩ := alreadyComputed_error s o e h2
      exact ⟨o, List.mem_cons_self .., a, ha, h'⟩
    | ok b =>
      simp only [h2] at h
      obtain ⟨o', ho', h'⟩ := ih h
      exact ⟨o', List.mem_cons_of_mem _ ho', h'⟩

theorem firstRefusal_none_of_plain (s : Store K V) (ops : List (Op K V))
    (hplain : ∀ o ∈ ops, ∀ a ∈ o.outputs, a.structured = false) : firstRefusal s ops = none := by
  cases h : firstRefusal s ops with
  | none => rfl
  | some r =>
    obtain ⟨o, ho, a, ha, hst, _⟩ := firstRefusal_some s ops r h
    rw [hplain o ho a ha] at hst; cases hst

/-! ## resume -/

theorem resume_a_of_no_refusal (c : WriteCfg V) (ops : List (Op K V)) (s : Store K V) (h : firstRefusal s ops = none) :
    resume Mode.a c ops s = .done (runOpsA c s (toRun s ops)) := by
  simp [resume, h, runOps_a]

theorem resume_of_refusal (m : Mode) (c : WriteCfg V) (ops : List (Op K V)) (s : Store K V) (r : Refusal)
    (h : firstRefusal s ops = some r) : resume m c ops s = .refused r := by
  simp [resume, h]

/-- the store after a resumed run from a sound store is the final store of an uninterrupted run, on every key. -/
theorem resumed_store_eq_den (c : WriteCfg V) (hc : c.writeEmpty = true) (s0 : Store K V) (ops : List (Op K V))
    (hwf : WF ops) (s : Store K V) (hs : Sound c s0 ops s) :
    (∀ k, (runOpsA c s (toRun s ops)).get k = den c s0 ops k) ∧
    (∀ w ∈ trace c s (toRun s ops), DenW c s0 ops w) := by
  have hskip : ∀ o ∈ ops, (fun o => !skipNode s o) o = false → ∀ k ∈ opOuts o, s.present k = true := by
    intro o ho hsel
    have : skipNode s o = true := by simpa using hsel
    exact skipped_present ops hwf s o ho this
  have := seq_main c hc s0 ops hwf.single hwf.topo s (fun o => !skipNode s o) hskip [] ops s (by simp) hs
    (fun _ h => h) (by intro k hk; simp [outKeys] at hk) hwf.topo
  exact ⟨eq_den_of_sound_present c s0 ops _ this.1 this.2.1, this.2.2⟩

theorem eq_of_mem_flatMap_nodup {α β : Type} (f : α → List β) (l : List α) (h : (l.flatMap f).Nodup)
    (a b : α) (ha : a ∈ l) (hb : b ∈ l) (k : β) (hka : k ∈ f a) (hkb : k ∈ f b) : a = b := by
  induction l with
  | nil => cases ha
  | cons x xs ih =>
    simp only [List.flatMap_cons, List.nodup_append] at h
    rcases List.mem_cons.mp ha with rfl | ha'
    · rcases List.mem_cons.mp hb with rfl | hb'
      · rfl
      · exact absurd rfl (h.2.2 k hka k (List.mem_flatMap.mpr ⟨b, hb', hkb⟩))
    · rcases List.mem_cons.mp hb with rfl | hb'
      · exact absurd rfl (h.2.2 k hkb k (List.mem_flatMap.mpr ⟨a, ha', hka⟩))
      · exact ih h.2.1 ha' hb'

/-- chunks of an operation that is not re-run are not written by the resumed run. -/
theorem not_rewritten (c : WriteCfg V) (ops : List (Op K V)) (hnd : (outKeys ops).Nodup) (s : Store K V) (o : Op K V)
    (ho : o ∈ ops) (hnot : o ∉ toRun s ops) (k : K) (v : V) (hk : k ∈ opOuts o) :
    Write.chunk k v ∉ trace c s (toRun s ops) := by
  intro hw
  have := trace_keys c s (toRun s ops) k v hw
  simp only [outKeys, List.mem_flatMap] at this
  obtain ⟨o', ho', hk'⟩ := this
  have ho'ops : o' ∈ ops := (List.mem_filter.mp ho').1
  have : o = o' := eq_of_mem_flatMap_nodup opOuts ops hnd o o' ho ho'ops k hk hk'
  subst this
  exact hnot ho'

theorem createArr_gen (s : Store K V) (a : Arr K) : createArr genMode s a = .ok (s.createA a) := by
  rw [genMode_eq_a]; rfl

theorem openable_createA (s : Store K V) (a : Arr K) : a.openable (s.createA a) = true := by
  have hmem : ∀ d, d ∈ (s.createA a).docs ↔ d ∈ s.docs ∨ d ∈ createDocs s a := mem_docs_addDocs s _
  unfold Arr.openable
  simp only [Bool.and_eq_true, List.all_eq_true, Store.hasDoc, decide_eq_true_eq]
  by_cases h : s.hasDoc a.doc = true
  · have hd : a.doc ∈ s.docs := by simpa [Store.hasDoc] using h
    refine ⟨(hmem _).mpr (Or.inl hd), fun f hf => (hmem _).mpr (Or.inr ?_)⟩
    simp [createDocs, h, hf]
  · refine ⟨(hmem _).mpr (Or.inr ?_), fun f hf => (hmem _).mpr (Or.inr ?_)⟩
    · simp [createDocs, h, Arr.allDocs]
    · simp [createDocs, h, Arr.allDocs, hf]

/-- every chunk write of the uninterrupted sequential run from a sound store carries the final value. -/
theorem trace_den (c : WriteCfg V) (hc : c.writeEmpty = true) (s0 : Store K V) (ops : List (Op K V)) (hwf : WF ops)
    (hs : Sound c s0 ops s0) : ∀ w ∈ trace c s0 ops, DenW c s0 ops w := by
  have h := (seq_main c hc s0 ops hwf.single hwf.topo s0 (fun _ => true) (by intro _ _ h; cases h) [] ops s0
    (by simp) hs (fun _ h => h) (by intro k hk; simp [outKeys] at hk) hwf.topo).2.2
  have hf : ops.filter (fun _ => true) = ops := List.filter_eq_self.mpr (by simp)
  rw [hf] at h
  exact h

end Cubed.Resume
