import CubedModel.Model.Optimize

namespace Cubed.Opt

/-- state of the MemoryModeller fold -/
def mmStep (st : Int × Int) (p : OpRec) : Int × Int :=
  let cur := st.1 + p.projMem
  let peak := max st.2 cur
  let cur' := cur - ((p.projMem : Int) - p.targetChunkMem)
  (cur', max peak cur')

theorem peakProjected_eq (ps : List OpRec) : peakProjected ps = (ps.foldl mmStep (0, 0)).2 := rfl

theorem mm_invariant (ps : List OpRec) (st : Int × Int) (h0 : 0 ≤ st.1) :
    0 ≤ (ps.foldl mmStep st).1 ∧ st.2 ≤ (ps.foldl mmStep st).2 ∧
    ∀ p ∈ ps, (p.projMem : Int) ≤ (ps.foldl mmStep st).2 := by
  induction ps generalizing st with
  | nil => simp [h0]
  | cons q rest ih =>
    simp only [List.foldl_cons]
    have hq1 : 0 ≤ (mmStep st q).1 := by simp [mmStep]; omega
    have hq2 : st.2 ≤ (mmStep st q).2 := by simp [mmStep]; omega
    have hq3 : (q.projMem : Int) ≤ (mmStep st q).2 := by simp [mmStep]; omega
    obtain ⟨i1, i2, i3⟩ := ih (mmStep st q) hq1
    refine ⟨i1, by omega, ?_⟩
    intro p hp
    rcases List.mem_cons.mp hp with rfl | hp
    · omega
    · exact i3 p hp

/-- `peak_projected_mem` dominates the projected memory of every op it ranges over. -/
theorem peak_ge_each (ps : List OpRec) (p : OpRec) (hp : p ∈ ps) : (p.projMem : Int) ≤ peakProjected ps := by
  rw [peakProjected_eq]
  exact (mm_invariant ps (0, 0) (by simp)).2.2 p hp

theorem peak_nonneg (ps : List OpRec) : 0 ≤ peakProjected ps := by
  rw [peakProjected_eq]
  exact (mm_invariant ps (0, 0) (by simp)).2.1

/-- `fuse_multiple` never reports less memory than the successor or any op it replaced. -/
theorem fused_mem_ge (o : OpRec) (preds : List (Option OpRec)) :
    o.projMem ≤ (fuseRec o preds).projMem ∧
    ∀ p, some p ∈ preds → p.projMem ≤ (fuseRec o preds).projMem := by
  have hgen : Generated.fusedMemIsMax = true := by decide
  simp only [fuseRec, hgen, if_true]
  constructor
  · omega
  · intro p hp
    have : p ∈ preds.filterMap id := by
      simp only [List.mem_filterMap, id]; exact ⟨some p, hp, rfl⟩
    have := peak_ge_each _ p this
    omega

theorem memRefuses_false (peak : Int) (allowed : Nat) (h : memRefuses peak allowed = false) :
    peak ≤ allowed := by
  have hgen : Generated.fuseMemRefuseOp = "gt" := by decide
  simp only [memRefuses, hgen] at h
  simpa using h

/-- A fusion accepted by `can_fuse_multiple_primitive_ops` keeps the fused op within `allowed_mem`
if the successor was. -/
theorem canFuseMultiple_fits (o : OpRec) (preds : List (Option OpRec)) (mb : Option Nat)
    (h : canFuseMultiple o preds mb = some true) (hfit : o.projMem ≤ o.allowedMem) :
    (fuseRec o preds).projMem ≤ (fuseRec o preds).allowedMem := by
  have hgen : Generated.fusedMemIsMax = true := by decide
  unfold canFuseMultiple at h
  by_cases hc : (candidate o && allCandidates preds) = true
  · rw [if_pos hc] at h
    by_cases hm : memRefuses (peakProjected (preds.filterMap id)) o.allowedMem = true
    · simp [hm] at h
    · have hpeak := memRefuses_false _ _ (by simpa using hm)
      simp only [fuseRec, hgen, if_true]
      omega
  · rw [if_neg hc] at h
    simp at h

/-- With no forced fusion, `can_fuse_predecessors` = true comes from `can_fuse_multiple_primitive_ops`. -/
theorem canFuse_unforced (d : DagRec) (o : OpRec) (ps : Params) (hal : ps.always = none)
    (h : canFuse d o ps = some true) :
    ∃ triples, poa d o = some triples ∧
      canFuseMultiple o (triples.map (fun t => if t.2.2 then some t.1 else none)) ps.maxBlocks = some true := by
  unfold canFuse at h
  by_cases c0 : (!(o.isPrim && o.fusPred)) = true
  · rw [if_pos c0] at h; simp at h
  rw [if_neg c0] at h
  cases htr : poa d o with
  | none => simp [htr] at h
  | some triples =>
    refine ⟨triples, rfl, ?_⟩
    simp only [htr, hal] at h
    by_cases c1 : (triples.all fun t => !t.2.2) = true
    · rw [if_pos c1] at h; simp at h
    rw [if_neg c1] at h
    by_cases c2 : (triples.any fun t => ps.arrayNames.contains t.2.1) = true
    · rw [if_pos c2] at h; simp at h
    rw [if_neg c2] at h
    by_cases c3 : (triples.any fun t => decide (t.1.outputs.length > 1)) = true
    · rw [if_pos c3] at h; simp at h
    rw [if_neg c3] at h
    by_cases c4 : optContains ps.never o.name = true
    · rw [if_pos c4] at h; simp at h
    rw [if_neg c4] at h
    have c5 : optContains none o.name = false := rfl
    simp only [c5, Bool.false_eq_true, if_false] at h
    by_cases c6 : (decide (triples.length > 1) &&
        decide ((triples.map (fun t => if t.2.2 then numSourceArrays d t.1 else 1)).sum > ps.maxSrc)) = true
    · rw [if_pos c6] at h; simp at h
    rw [if_neg c6] at h
    exact h

theorem poaAux_spec (d : DagRec) (srcs : List String) (triples : List (OpRec × String × Bool))
    (h : poaAux d srcs = some triples) :
    ∀ t ∈ triples, ∃ pre, producer d t.2.1 = some pre ∧ t = poaEntry d pre t.2.1 := by
  induction srcs generalizing triples with
  | nil => simp [poaAux] at h; subst h; simp
  | cons a rest ih =>
    unfold poaAux at h
    cases hp : producer d a with
    | none => simp [hp] at h
    | some pre =>
      cases hr : poaAux d rest with
      | none => simp [hp, hr] at h
      | some r =>
        simp only [hp, hr, Option.some.injEq] at h
        subst h
        intro t ht
        rcases List.mem_cons.mp ht with rfl | ht'
        · exact ⟨pre, by simpa [poaEntry] using hp, rfl⟩
        · exact ih r hr t ht'

/-- Guards of `can_fuse_predecessors`: whenever it answers True, none of the input arrays is among
the arrays being computed, every predecessor has at most one output, and every predecessor flagged
for fusion is a primitive op that allows fusion with successors and whose array has exactly one
consumer op. -/
theorem canFuse_guards (d : DagRec) (o : OpRec) (ps : Params) (h : canFuse d o ps = some true) :
    ∃ triples, poa d o = some triples ∧
      (∀ t ∈ triples, ps.arrayNames.contains t.2.1 = false) ∧
      (∀ t ∈ triples, t.1.outputs.length ≤ 1) ∧
      (∀ t ∈ triples, t.2.2 = true → producer d t.2.1 = some t.1 ∧
          t.1.isPrim = true ∧ t.1.fusSucc = true ∧ outDegreeUnique d t.2.1 = 1) := by
  unfold canFuse at h
  by_cases c0 : (!(o.isPrim && o.fusPred)) = true
  · rw [if_pos c0] at h; simp at h
  rw [if_neg c0] at h
  cases htr : poa d o with
  | none => simp [htr] at h
  | some triples =>
    refine ⟨triples, rfl, ?_⟩
    simp only [htr] at h
    by_cases c1 : (triples.all fun t => !t.2.2) = true
    · rw [if_pos c1] at h; simp at h
    rw [if_neg c1] at h
    by_cases c2 : (triples.any fun t => ps.arrayNames.contains t.2.1) = true
    · rw [if_pos c2] at h; simp at h
    rw [if_neg c2] at h
    by_cases c3 : (triples.any fun t => decide (t.1.outputs.length > 1)) = true
    · rw [if_pos c3] at h; simp at h
    refine ⟨?_, ?_, ?_⟩
    · intro t ht
      simp only [List.any_eq_true, not_exists, not_and, Bool.not_eq_true] at c2
      exact c2 t ht
    · intro t ht
      simp only [List.any_eq_true, not_exists, not_and, decide_eq_true_eq] at c3
      have := c3 t ht
      omega
    · intro t ht hflag
      obtain ⟨pre, hp, ht'⟩ := poaAux_spec d o.sources triples htr t ht
      have h1 : t.1 = pre := by rw [ht']; rfl
      have h2 : t.2.2 = (pre.isPrim && pre.fusSucc && outDegreeUnique d t.2.1 == 1) := by
        conv => lhs; rw [ht']
        rfl
      rw [h2] at hflag
      simp only [Bool.and_eq_true, beq_iff_eq] at hflag
      rw [h1]
      exact ⟨hp, hflag.1.1, hflag.1.2, hflag.2⟩

theorem exceeds_iff (o : OpRec) : exceeds o = true ↔ o.projMem > o.allowedMem := by
  have hgen : Generated.admitRefuseOp = "gt" := by decide
  simp [exceeds, hgen]

/-- admission: a plan is admitted iff no primitive op projects more than its allowed memory. -/
theorem admit_iff (d : DagRec) :
    admits d = true ↔ ∀ o ∈ d.ops, o.isPrim = true → o.projMem ≤ o.allowedMem := by
  unfold admits exceeding
  simp only [List.isEmpty_iff, List.map_eq_nil_iff, List.filter_eq_nil_iff, Bool.and_eq_true, not_and]
  constructor
  · intro h o ho hp
    have := h o ho hp
    rw [exceeds_iff] at this
    omega
  · intro h o ho hp
    rw [exceeds_iff]
    have := h o ho hp
    omega


/-- `out_degree_unique(dag, a) == 1` means: any two op nodes of the dag that read array `a` are the
same node — the array a fusable predecessor produces has no consumer other than the op it is fused into. -/
theorem single_consumer (d : DagRec) (a : String) (s o : OpRec) (hs : s ∈ d.ops) (ho : o ∈ d.ops)
    (hsa : s.inEdges.contains a = true) (hoa : o.inEdges.contains a = true)
    (h1 : outDegreeUnique d a = 1) : o = s := by
  unfold outDegreeUnique at h1
  obtain ⟨x, hx⟩ := List.length_eq_one_iff.mp h1
  have h_s : s ∈ d.ops.filter (fun o => o.inEdges.contains a) := List.mem_filter.mpr ⟨hs, hsa⟩
  have h_o : o ∈ d.ops.filter (fun o => o.inEdges.contains a) := List.mem_filter.mpr ⟨ho, hoa⟩
  rw [hx] at h_s h_o
  simp at h_s h_o
  rw [h_s, h_o]

def AllFit (d : DagRec) : Prop := ∀ q ∈ d.ops, q.isPrim = true → q.projMem ≤ q.allowedMem

theorem canFuse_isPrim (d : DagRec) (o : OpRec) (ps : Params) (h : canFuse d o ps = some true) :
    o.isPrim = true := by
  unfold canFuse at h
  by_cases c0 : (!(o.isPrim && o.fusPred)) = true
  · rw [if_pos c0] at h; simp at h
  · simp at c0; exact c0.1

/-- One `fuse_predecessors` call (no forced fusion) keeps every op within its memory budget. -/
theorem fusePreds_fits (d d' : DagRec) (name : String) (ps : Params) (hal : ps.always = none)
    (hfit : AllFit d) (h : fusePreds d name ps = some d') : AllFit d' := by
  unfold fusePreds at h
  cases hf : findOp d name with
  | none => simp [hf] at h; subst h; exact hfit
  | some o =>
    simp only [hf] at h
    have ho : o ∈ d.ops := List.mem_of_find?_eq_some hf
    cases hc : canFuse d o ps with
    | none => simp [hc] at h
    | some b =>
      cases b with
      | false => simp [hc] at h; subst h; exact hfit
      | true =>
        simp only [hc] at h
        obtain ⟨triples, htr, hm⟩ := canFuse_unforced d o ps hal hc
        simp only [htr, Option.some.injEq] at h
        subst h
        have hfused := canFuseMultiple_fits o _ ps.maxBlocks hm (hfit o ho (canFuse_isPrim d o ps hc))
        intro q' hq' hprim
        simp only [List.mem_map, List.mem_filter] at hq'
        obtain ⟨q, ⟨hq, _⟩, rfl⟩ := hq'
        by_cases hn : (q.name == name) = true
        · simp only [hn, if_true] at hprim ⊢
          exact hfused
        · simp only [hn] at hprim ⊢
          exact hfit q hq hprim

theorem optimize_fits (order : List String) (d d' : DagRec) (ps : Params) (hal : ps.always = none)
    (hfit : AllFit d) (h : optimize d order ps = some d') : AllFit d' := by
  unfold optimize at h
  induction order generalizing d with
  | nil =>
    rw [List.foldlM_nil] at h
    cases h; exact hfit
  | cons n rest ih =>
    rw [List.foldlM_cons] at h
    cases h1 : (if n.startsWith "array-" = true then some d else fusePreds d n ps) with
    | none => rw [h1] at h; cases h
    | some d1 =>
      rw [h1] at h
      have h2 : List.foldlM (fun d name => if name.startsWith "array-" = true then some d else fusePreds d name ps) d1 rest = some d' := h
      by_cases hn : n.startsWith "array-" = true
      · rw [if_pos hn] at h1; cases h1; exact ih d hfit h2
      · rw [if_neg hn] at h1; exact ih d1 (fusePreds_fits d d1 n ps hal hfit h1) h2

end Cubed.Opt
