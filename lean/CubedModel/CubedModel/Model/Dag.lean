/-
  Semantic model of a cubed plan (cubed/core/plan.py, cubed/core/optimization.py):

  A plan is a topologically ordered list of operations; arrays are identified by name; the store is a
  function from chunk keys to block values.  Running an op writes, for every out coordinate, the
  result of its blockwise spec (`apply_blockwise`) to each of its output arrays.

    PrimitiveOperation / dag op node                 ↦ `Op`
    apply_blockwise over all tasks of one op         ↦ `writeOp`
    executing the dag in topological order           ↦ `denote`
    fuse_predecessors (dag rewrite)                  ↦ `fuseStep`
-/
import CubedModel.Model.Fusion

namespace Cubed.Dag

open Cubed

/-- An operation node.  `spec.fn` returns a block, or — for multi-output ops — the tuple of blocks,
encoded in `V`; `proj i` selects the block written to the `i`-th output
(`zip(results, config.writes_map.values())`; `none` = not written). -/
structure Op (V : Type) where
  name : String
  sources : List String
  outputs : List String
  spec : BSpec V V
  proj : Nat → V → Option V

/-- Position of a name in a list. -/
def idxOf? (n : String) : List String → Option Nat
  | [] => none
  | x :: xs => if x = n then some 0 else (idxOf? n xs).map (· + 1)

/-- The store after all tasks of `o` ran on store `env`. -/
def writeOp {V : Type} (o : Op V) (env : CK → V) : CK → V := fun k =>
  match idxOf? k.name o.outputs with
  | some i =>
    match o.proj i (evalSpec o.spec env k.coords) with
    | some v => v
    | none => env k
  | none => env k

/-- Executing a plan. -/
def denote {V : Type} (ops : List (Op V)) (base : CK → V) : CK → V :=
  ops.foldl (fun env o => writeOp o env) base

/-- All array names written by a list of ops. -/
def outs {V : Type} (ops : List (Op V)) : List String := ops.flatMap (·.outputs)

/-- The key function of `o` only designates blocks of its declared source arrays. -/
def ReadsFrom {V : Type} (o : Op V) : Prop :=
  ∀ (c : List Nat) (k : CK), k ∈ Tree.leavesL (o.spec.keyfn ⟨"out", c⟩).args → k.name ∈ o.sources

/-- Topological order: no op reads an array written by itself or a later op. -/
def Topo {V : Type} : List (Op V) → Prop
  | [] => True
  | o :: rest => (∀ n ∈ o.sources, n ∉ outs (o :: rest)) ∧ Topo rest

/-- A single-output op whose result is written as is. -/
def SingleOut {V : Type} (p : Op V) (n : String) : Prop :=
  p.outputs = [n] ∧ ∀ v, p.proj 0 v = some v

/-- Predecessor table used by `fuse_blockwise_specs`, keyed by the written array name. -/
def predsOf {V : Type} (P : List (Op V)) : Preds V := fun n =>
  (P.find? (fun p => p.outputs == [n])).map (·.spec)

/-- `fuse_multiple` on the op level: same outputs, fused spec. (`sources` are recomputed by the
structural model; they are irrelevant for the denotation.) -/
def fuseOp {V : Type} (s : Op V) (P : List (Op V)) (newSources : List String) : Op V :=
  { s with sources := newSources, spec := fuseMultiple s.spec (predsOf P) }

/-- `fuse_predecessors`: the ops selected by `inP` (all located before `s`) are removed and `s` is
replaced by the fused op. -/
def fuseStep {V : Type} (pre : List (Op V)) (s : Op V) (post : List (Op V)) (inP : Op V → Bool)
    (newSources : List String) : List (Op V) :=
  pre.filter (fun o => !inP o) ++ fuseOp s (pre.filter inP) newSources :: post

/-- Two stores agree outside the arrays named in `S`. -/
def Agree {V : Type} (S : List String) (env env' : CK → V) : Prop :=
  ∀ k : CK, k.name ∉ S → env k = env' k

end Cubed.Dag
