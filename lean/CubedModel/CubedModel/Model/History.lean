/-
  History layer (C10): lazy arrays, their plans, the shared mutable operation objects and the store,
  under sequences of API calls.  Core Lean only.

  What is modelled (Python ↦ Lean):

    array / op names `array-NNN`, `op-NNN` (gensym, one producer op per array)   ↦ `Name` = position in the heap
    storage locations                                                            ↦ `Loc`
        <work_dir>/<CONTEXT_ID>/<array name>  (plan.py intermediate_store, blockwise target_names)  ↦ `Loc.inter n`
        a path handed to store / to_zarr                                          ↦ `Loc.target t`
        source data (NumPy array held by a Virtual*Array, Zarr array opened by from_zarr)  ↦ `Loc.ext n`
    contents of a location: absent | created, nothing written (fill) | written    ↦ `Store` (lookup function `Loc → Option Val`)
    `PrimitiveOperation` objects shared (by reference) between all plans          ↦ `OpObj` in `State.heap`
        .source_array_names ↦ srcs      .pipeline.config.reads_map (CubedArrayProxy captured at build) ↦ reads
        .pipeline.config.writes_map[out].array ↦ wloc     .target_array ↦ target
        .fusable_with_successors ↦ fusable (mutable)      .fusable_with_predecessors ↦ fusePreds
      op nodes without a primitive op (asarray / from_zarr / virtual helper arrays) ↦ `prim = false`, `inval`
    `CoreArray` (name, `_zarray`, `_plan.dag`)                                    ↦ `Arr` (name, zloc/lazy, dag)
        dag array-node attribute dicts are *per dag* (nx.compose_all copies them)  ↦ `ANode` inside `Arr.dag`
    `nx.compose_all` in `arrays_to_dag` (merge by name, later graph wins)         ↦ `compose`
    `Plan._new` (general_blockwise + arrays_to_dag + add node)                    ↦ `State.derive`
    `from_array`/`asarray`/`from_zarr`                                            ↦ `State.input`, `State.fromZarr`
    `_store_array`: lazy-source branch (in-place re-targeting)                    ↦ `State.retarget`
                    other branch (identity blockwise into the target)             ↦ `State.derive … (wl := target t)`
    `store` / `to_zarr` (compute=True|False)                                      ↦ `State.storePairs`, `Step.store`
    `multiple_inputs_optimize_dag` / `fuse_predecessors` / `can_fuse_predecessors` ↦ `optimize` / `fuseStep` / `canFuse`
        (hard conditions — producer fusable with successors, single consumer, no requested predecessor — are in
        `fuseStep`; the size limits are the parameter `soft`, `softDefault` is the shipped policy)
    `fuse_multiple` / `fuse_blockwise_specs`: a fused op = predecessor functions applied in memory, `reads_map`
        merged by array name (later wins), in-edges inherited, `fusable_with_successors` back to the default True
                                                                                  ↦ `XOp`, `predsOf`, `fusedXOp`, `evalFused`
    `Plan._finalize` / `_create_lazy_zarr_arrays` (create every lazy target of the optimized dag, mode "a") ↦ `createAll`
    `FinalizedPlan.execute` resume marking (`already_computed`: all chunks of the node's target present) ↦ `skipOf`
    executor run in topological order (`visit_nodes`)                             ↦ `execPlan`
    `compute(*arrays)` / `CoreArray.compute` / `_read_stored`                     ↦ `State.compute`
    `visualize`, `plan`, changing the default executor: no effect on the modelled state ↦ `Step.noop`
    one API call / a history of calls                                             ↦ `State.step` / `State.run`

  Predicates used by the theorems: `HeapWF`, `WF` (structure of heap, pool and dags), `Linked` (every read location
  = the producer's current write location = the location the dag creates), `StoreOK` (stored contents are built
  values), `Inv` = all three; `Basic` (facts of every reachable state, defect or not); `PoolStable`; `GoodStep`,
  `AllGood`, `NoLate`, `Step.lateRetarget` (statement of the property along a history).
-/
namespace Cubed.History

/-- Array names are natural numbers (heap positions).  Declarations below say `Nat` directly because
`omega` does not look through abbreviations. -/
abbrev Name := Nat

/-- Storage locations. -/
inductive Loc where
  | inter (n : Nat)
  | target (t : Nat)
  | ext (n : Nat)
deriving DecidableEq, Repr, Inhabited

/-- Symbolic values.  `fill` is what a created but unwritten Zarr array reads as. -/
inductive Val where
  | fill
  | src (k : Nat)
  | app (f : Nat) (args : List Val)
deriving Repr, Inhabited

mutual
def Val.decEq : (a b : Val) → Decidable (a = b)
  | .fill, .fill => isTrue rfl
  | .fill, .src _ => isFalse (by intro h; cases h)
  | .fill, .app _ _ => isFalse (by intro h; cases h)
  | .src _, .fill => isFalse (by intro h; cases h)
  | .src k, .src k' =>
    if h : k = k' then isTrue (by rw [h]) else isFalse (by intro h'; cases h'; exact h rfl)
  | .src _, .app _ _ => isFalse (by intro h; cases h)
  | .app _ _, .fill => isFalse (by intro h; cases h)
  | .app _ _, .src _ => isFalse (by intro h; cases h)
  | .app f as, .app g bs =>
    if h : f = g then
      match Val.decEqList as bs with
      | isTrue h2 => isTrue (by rw [h, h2])
      | isFalse h2 => isFalse (by intro h'; cases h'; exact h2 rfl)
    else isFalse (by intro h'; cases h'; exact h rfl)
def Val.decEqList : (as bs : List Val) → Decidable (as = bs)
  | [], [] => isTrue rfl
  | [], _ :: _ => isFalse (by intro h; cases h)
  | _ :: _, [] => isFalse (by intro h; cases h)
  | a :: as, b :: bs =>
    match Val.decEq a b, Val.decEqList as bs with
    | isTrue h1, isTrue h2 => isTrue (by rw [h1, h2])
    | isFalse h1, _ => isFalse (by intro h'; cases h'; exact h1 rfl)
    | _, isFalse h2 => isFalse (by intro h'; cases h'; exact h2 rfl)
end

instance : DecidableEq Val := Val.decEq

/-- Was anything written (`nchunks_initialized = nchunks` in `already_computed`)? -/
def Val.isData : Val → Bool
  | .fill => false
  | _ => true

/-- Contents of the storage.  A structure around the lookup function (rather than a bare function type) so
that the compiled driver builds each store once instead of re-running the code that produced it on every
lookup. -/
structure Store where
  get : Loc → Option Val

instance : CoeFun Store (fun _ => Loc → Option Val) := ⟨Store.get⟩

instance : Inhabited Store := ⟨⟨fun _ => none⟩⟩

def Store.empty : Store := ⟨fun _ => none⟩

def Store.set (σ : Store) (l : Loc) (v : Val) : Store := ⟨fun l' => if l' = l then some v else σ l'⟩

@[simp] theorem Store.set_get (σ : Store) (l : Loc) (v : Val) (l' : Loc) :
    (σ.set l v) l' = if l' = l then some v else σ l' := rfl

@[simp] theorem Store.empty_get (l : Loc) : Store.empty l = none := rfl

/-- `mapM` in `Option`. -/
def mapOpt {α β : Type} (f : α → Option β) : List α → Option (List β)
  | [] => some []
  | a :: as =>
    match f a, mapOpt f as with
    | some b, some bs => some (b :: bs)
    | _, _ => none

/-- A `PrimitiveOperation` object (or, with `prim = false`, the op node of an input array). -/
structure OpObj where
  out : Nat
  prim : Bool
  fn : Nat
  srcs : List Nat
  reads : List (Nat × Loc)
  wloc : Loc
  target : Loc
  fusable : Bool
  fusePreds : Bool
  virt : Bool
  inval : Val
deriving Repr, Inhabited

/-- Array node attributes of one dag. -/
structure ANode where
  name : Nat
  target : Loc
  lazy : Bool
deriving DecidableEq, Repr, Inhabited

structure Arr where
  name : Nat
  zloc : Loc
  lazy : Bool
  dag : List ANode
deriving Repr, Inhabited

structure State where
  heap : List OpObj := []        -- newest first; the op producing array `n` is at distance `n` from the end
  arrs : List Arr := []          -- every array object ever built, in creation order (pool index)
  store : Store := Store.empty
  used : List Nat := []          -- target ids already handed to store / to_zarr
deriving Inhabited

def findOp : List OpObj → Nat → Option OpObj
  | [], _ => none
  | o :: rest, n => if o.out = n then some o else findOp rest n

def rlookup : List (Nat × Loc) → Nat → Option Loc
  | [], _ => none
  | (m, l) :: rest, n => if m = n then some l else rlookup rest n

/-- The location the producer of array `n` currently writes. -/
def wlocOf (heap : List OpObj) (n : Nat) : Option Loc := (findOp heap n).map (·.wloc)

/-- The value an array is *built* to have: depends only on `fn`, `srcs`, `inval`, never on the
mutable fields. -/
def denote : List OpObj → Nat → Option Val
  | [], _ => none
  | o :: rest, n =>
    if o.out = n then
      if o.prim then (mapOpt (denote rest) o.srcs).map (Val.app o.fn) else some o.inval
    else denote rest n

/-! ### dags -/

def insertNode (d : List ANode) (nd : ANode) : List ANode :=
  if d.any (fun x => x.name == nd.name) then d.map (fun x => if x.name == nd.name then nd else x)
  else d ++ [nd]

/-- `nx.compose_all`: union of the node maps, attributes of later graphs win. -/
def compose (ds : List (List ANode)) : List ANode :=
  ds.foldl (fun acc d => d.foldl insertNode acc) []

def nodeOf (d : List ANode) (n : Nat) : Option ANode := d.find? (fun x => x.name == n)

/-! ### building arrays -/

/-- An input array: `asarray` of a small NumPy array (`virt`, held by a `VirtualInMemoryArray`), a
hidden helper array (`virt`: `empty`, `block_ids`) or a pre-existing Zarr array opened by `from_zarr`. -/
def State.pushInput (s : State) (virt : Bool) (v : Val) : State × Arr :=
  let n := s.heap.length
  let o : OpObj := { out := n, prim := false, fn := 0, srcs := [], reads := [], wloc := .ext n, target := .ext n,
                     fusable := false, fusePreds := false, virt := virt, inval := v }
  let a : Arr := { name := n, zloc := .ext n, lazy := false, dag := [⟨n, .ext n, false⟩] }
  ({ s with heap := o :: s.heap, store := s.store.set (.ext n) v }, a)

def State.input (s : State) (virt : Bool) (k : Nat) : State :=
  let (s', a) := s.pushInput virt (.src k)
  { s' with arrs := s'.arrs ++ [a] }

/-- `from_zarr` of a path handed to an earlier store call: works iff the array exists there; the new
array is what the path holds now. -/
def State.fromZarr (s : State) (t : Nat) : Option State :=
  match s.store (.target t) with
  | some v =>
    let n := s.heap.length
    let o : OpObj := { out := n, prim := false, fn := 0, srcs := [], reads := [], wloc := .target t, target := .target t,
                       fusable := false, fusePreds := false, virt := false, inval := v }
    let a : Arr := { name := n, zloc := .target t, lazy := false, dag := [⟨n, .target t, false⟩] }
    some { s with heap := o :: s.heap, arrs := s.arrs ++ [a] }
  | none => none

/-- `Plan._new` after `general_blockwise`: a new lazy array computed by `fn` from existing arrays
(hidden helper arrays such as `block_ids` are ordinary `virt` inputs built just before).
`wl = none`: the intermediate location of the new array. -/
def State.derive (s : State) (fn : Nat) (idxs : List Nat) (fusePreds fusable : Bool)
    (wl : Option Loc := none) : Option State :=
  match mapOpt (fun i => s.arrs[i]?) idxs with
  | none => none
  | some srcArrs =>
    if srcArrs.isEmpty then none else
    let n := s.heap.length
    let l := wl.getD (.inter n)
    let o : OpObj := { out := n, prim := true, fn := fn, srcs := srcArrs.map (·.name),
                       reads := srcArrs.map (fun a => (a.name, a.zloc)), wloc := l, target := l,
                       fusable := fusable, fusePreds := fusePreds, virt := false, inval := .fill }
    let dag := insertNode (compose (srcArrs.map (·.dag))) ⟨n, l, true⟩
    let a : Arr := { name := n, zloc := l, lazy := true, dag := dag }
    some { s with heap := o :: s.heap, arrs := s.arrs ++ [a] }

/-- `_store_array`, lazy-source branch: the array object, the node of *its own* dag and the shared
producer op are re-pointed at the new target in place. -/
def State.retarget (s : State) (i : Nat) (l : Loc) : Option State :=
  match s.arrs[i]? with
  | none => none
  | some a =>
    let a' : Arr := { a with zloc := l,
                             dag := a.dag.map (fun nd => if nd.name = a.name then { nd with target := l } else nd) }
    let heap' := s.heap.map (fun o =>
      if o.out = a.name ∧ o.prim then { o with target := l, fusable := false, wloc := l } else o)
    some { s with arrs := s.arrs.set i a', heap := heap' }

/-! ### finalized plans -/

/-- An executable operation of a finalized plan: `out` with the predecessor ops `members` fused in. -/
structure XOp where
  out : Nat
  members : List Nat
  reads : List (Nat × Loc)
  srcs : List Nat
  fusable : Bool      -- fusable_with_successors of the (possibly fused) PrimitiveOperation
deriving Repr, Inhabited

/-- Value produced by a (fused) operation: member ops are evaluated in memory, every other source
is read from the location the merged `reads_map` gives for its *name*. -/
def evalFused (members : List Nat) (reads : List (Nat × Loc)) (σ : Store) : List OpObj → Nat → Option Val
  | [], _ => none
  | o :: rest, n =>
    if o.out = n then
      (mapOpt (fun s => if s ∈ members then evalFused members reads σ rest s
                        else (rlookup reads s).bind σ) o.srcs).map (Val.app o.fn)
    else evalFused members reads σ rest n

/-- The ops of the merged dag, unfused, newest first. -/
def basePlan (heap : List OpObj) (nodes : List ANode) : List XOp :=
  (heap.filter (fun o => o.prim && nodes.any (fun nd => nd.name == o.out))).map
    (fun o => { out := o.out, members := [], reads := o.reads, srcs := o.srcs, fusable := o.fusable })

def xopOf (plan : List XOp) (n : Nat) : Option XOp := plan.find? (fun e => e.out == n)

/-- `out_degree_unique(dag, s)` -/
def consumers (plan : List XOp) (s : Nat) : Nat := (plan.filter (fun e => s ∈ e.srcs)).length

/-- `can_fuse` of `predecessor_ops_and_arrays`: the producer is a primitive op of the current dag that
is fusable with successors and has a single consumer. -/
def canFuse (plan : List XOp) (s : Nat) : Bool :=
  match xopOf plan s with
  | some p => p.fusable && consumers plan s == 1
  | none => false

/-- The predecessor ops that `fuse_predecessors` absorbs into `e` (with repeats, in source order). -/
def predsOf (plan : List XOp) (e : XOp) : List XOp := (e.srcs.filter (canFuse plan)).filterMap (xopOf plan)

/-- `fuse_multiple`: the absorbed ops run in memory; `reads_map` is the successor's dict updated with each
predecessor's in turn (later wins); the in-edges of the absorbed ops become in-edges of the fused op. -/
def fusedXOp (plan : List XOp) (e : XOp) : XOp :=
  { out := e.out
    members := e.members ++ (predsOf plan e).flatMap (fun p => p.out :: p.members)
    reads := (predsOf plan e).reverse.flatMap (·.reads) ++ e.reads
    srcs := e.srcs.flatMap (fun s => if canFuse plan s then ((xopOf plan s).map (·.srcs)).getD [s] else [s])
    -- `fuse_multiple` builds a new PrimitiveOperation with the default fusable_with_successors=True:
    -- a re-targeted op that absorbed its predecessors can itself be absorbed again
    fusable := true }

/-- `fuse_predecessors(dag, n)`.  `soft heap plan n` stands for the size limits of `can_fuse_predecessors`
(`max_total_source_arrays`, `max_total_num_input_blocks`, peak projected memory). -/
def fuseStep (soft : List OpObj → List XOp → Nat → Bool) (heap : List OpObj) (requested : List Nat)
    (plan : List XOp) (n : Nat) : List XOp :=
  match xopOf plan n, findOp heap n with
  | some e, some o =>
    if o.fusePreds && e.srcs.any (canFuse plan) && !(e.srcs.any (fun s => s ∈ requested)) && soft heap plan n then
      (plan.filter (fun x => !(canFuse plan x.out && e.srcs.contains x.out))).map
        (fun x => if x.out = e.out then fusedXOp plan e else x)
    else plan
  | _, _ => plan

/-- `multiple_inputs_optimize_dag`: ops visited in topological (= creation) order. -/
def optimize (soft : List OpObj → List XOp → Nat → Bool) (heap : List OpObj) (requested : List Nat) (plan : List XOp) : List XOp :=
  ((plan.map (·.out)).reverse).foldl (fuseStep soft heap requested) plan

/-- The shipped limits (all block counts of fusable ops are 1 in the modelled op family):
`max_total_source_arrays` counts non-virtual inputs, `max_total_num_input_blocks` counts inputs. -/
def softDefault (maxSrc maxBlocks : Nat) (heap : List OpObj) (plan : List XOp) (n : Nat) : Bool :=
  match xopOf plan n with
  | none => false
  | some e =>
    let cf := fun s => canFuse plan s
    let psrcs := fun s => ((xopOf plan s).map (·.srcs)).getD []
    let isVirt := fun s => ((findOp heap s).map (·.virt)).getD false
    let a := if e.srcs.length > 1 then
               (e.srcs.map (fun s => if cf s then ((psrcs s).filter (fun t => !isVirt t)).length else 1)).sum ≤ maxSrc
             else true
    let b := ((e.srcs.filter cf).map (fun s => (psrcs s).length)).sum ≤ maxBlocks
    a && b

/-- `create-arrays`: `LazyZarrArray.create(mode="a")` for every lazy target of the optimized dag. -/
def createAll : List ANode → Store → Store
  | [], σ => σ
  | nd :: rest, σ =>
    let σ' := createAll rest σ
    if nd.lazy then (match σ' nd.target with | some _ => σ' | none => σ'.set nd.target .fill) else σ'

/-- resume: an op is skipped when the target *of its output node in this dag* is fully written. -/
def skipOf (resume : Bool) (nodes : List ANode) (σ : Store) (n : Nat) : Bool :=
  resume && (match nodeOf nodes n with
             | some nd => (match σ nd.target with | some v => v.isData | none => false)
             | none => false)

/-- Run the ops, oldest first (`plan` is newest first).  `none`: a task failed because a location it
reads or writes does not exist. -/
def execPlan (heap : List OpObj) (skip : Nat → Bool) : List XOp → Store → Option Store
  | [], σ => some σ
  | e :: es, σ =>
    match execPlan heap skip es σ with
    | none => none
    | some σ1 =>
      if skip e.out then some σ1 else
      match findOp heap e.out, evalFused e.members e.reads σ1 heap e.out with
      | some o, some v => if (σ1 o.wloc).isSome then some (σ1.set o.wloc v) else none
      | _, _ => none

structure Finalized where
  nodes : List ANode        -- merged dag
  plan : List XOp           -- after optimization
  created : List ANode      -- array nodes left in the optimized dag
deriving Inhabited

def finalize (soft : List OpObj → List XOp → Nat → Bool) (heap : List OpObj) (as : List Arr) (opt : Bool) : Finalized :=
  let nodes := compose (as.map (·.dag))
  let requested := as.map (·.name)
  let plan0 := basePlan heap nodes
  let plan := if opt then optimize soft heap requested plan0 else plan0
  let fused := plan.flatMap (·.members)
  { nodes := nodes, plan := plan, created := nodes.filter (fun nd => !(fused.contains nd.name)) }

/-- `compute(*arrays, optimize_graph, resume)`; the second component are the values read back
(`_read_stored` of each array's *current* `_zarray`). -/
def State.compute (soft : List OpObj → List XOp → Nat → Bool) (s : State) (idxs : List Nat) (opt resume : Bool) :
    Option (State × List Val) :=
  match mapOpt (fun i => s.arrs[i]?) idxs with
  | none => none
  | some as =>
    if as.isEmpty then none else
    let f := finalize soft s.heap as opt
    let σ1 := createAll f.created s.store
    match execPlan s.heap (skipOf resume f.nodes s.store) f.plan σ1 with
    | none => none
    | some σ2 =>
      match mapOpt (fun a => σ2 a.zloc) as with
      | none => none
      | some vs => some ({ s with store := σ2 }, vs)

/-! ### API steps -/

inductive Step where
  | input (virt : Bool) (k : Nat)
  | fromZarr (t : Nat)
  | derive (fn : Nat) (idxs : List Nat) (fusePreds fusable : Bool)
  | compute (idxs : List Nat) (opt resume : Bool)
  | store (pairs : List (Nat × Nat)) (eager opt : Bool)
  | noop
deriving Repr, Inhabited

/-- `_store_array` for each pair in turn; returns the state and the pool indices of the arrays that
`store` goes on to compute (the re-targeted source itself, or the new identity array). -/
def State.storePairs (s : State) : List (Nat × Nat) → Option (State × List Nat)
  | [] => some (s, [])
  | (i, t) :: rest =>
    if t ∈ s.used then none else
    match s.arrs[i]? with
    | none => none
    | some a =>
      let s0 := { s with used := t :: s.used }
      let r := if a.lazy then (s0.retarget i (.target t)).map (fun s1 => (s1, i))
               else (s0.derive 0 [i] true false (some (.target t))).map (fun s1 => (s1, s1.arrs.length - 1))
      match r with
      | none => none
      | some (s1, j) =>
        match State.storePairs s1 rest with
        | none => none
        | some (s2, js) => some (s2, j :: js)

/-- What an API call returns / shows. -/
inductive Obs where
  | built                       -- a lazy call returned
  | invalid                     -- not a well-formed call in this state
  | failed                      -- the computation raised
  | values (vs : List Val)      -- compute returned these
  | stored                      -- eager store finished
deriving Repr, Inhabited, DecidableEq

/-- One API call.  An invalid call or a failed computation leaves the state as it was before the
call's computation started (the harness stops a history at the first failure). -/
def State.step (soft : List OpObj → List XOp → Nat → Bool) (s : State) : Step → State × Obs
  | .input virt k => (s.input virt k, .built)
  | .fromZarr t => match s.fromZarr t with | some s' => (s', .built) | none => (s, .invalid)
  | .derive fn idxs fp fs =>
    match s.derive fn idxs fp fs with | some s' => (s', .built) | none => (s, .invalid)
  | .compute idxs opt resume =>
    if (mapOpt (fun i => s.arrs[i]?) idxs).isNone || idxs.isEmpty then (s, .invalid) else
    match s.compute soft idxs opt resume with
    | some (s', vs) => (s', .values vs)
    | none => (s, .failed)
  | .store pairs eager opt =>
    if pairs.isEmpty then (s, .invalid) else
    match s.storePairs pairs with
    | none => (s, .invalid)
    | some (s1, js) =>
      if eager then
        match s1.compute soft js opt false with
        | some (s2, _) => (s2, .stored)
        | none => (s1, .failed)
      else (s1, .built)
  | .noop => (s, .built)

def State.run (soft : List OpObj → List XOp → Nat → Bool) (s : State) : List Step → State × List Obs
  | [] => (s, [])
  | st :: rest =>
    let (s1, o) := s.step soft st
    let (s2, os) := State.run soft s1 rest
    (s2, o :: os)

/-! ### the invariant -/

/-- Structural well-formedness of the heap (never changes once an op is built): names are heap
positions and sources are older than their consumer. -/
def HeapWF : List OpObj → Prop
  | [] => True
  | o :: rest => o.out = rest.length ∧ (∀ s ∈ o.srcs, s < o.out) ∧ HeapWF rest

/-- `Linked`: every consumer's read location is its producer's *current* write location, and every
live dag creates exactly that location; an array object reads back from it. -/
structure Linked (s : State) : Prop where
  reads : ∀ o ∈ s.heap, ∀ p ∈ o.reads, wlocOf s.heap p.1 = some p.2
  nodes : ∀ a ∈ s.arrs, ∀ nd ∈ a.dag, wlocOf s.heap nd.name = some nd.target
  self : ∀ a ∈ s.arrs, wlocOf s.heap a.name = some a.zloc

instance (s : State) : Decidable (Linked s) :=
  if h1 : ∀ o ∈ s.heap, ∀ p ∈ o.reads, wlocOf s.heap p.1 = some p.2 then
    if h2 : ∀ a ∈ s.arrs, ∀ nd ∈ a.dag, wlocOf s.heap nd.name = some nd.target then
      if h3 : ∀ a ∈ s.arrs, wlocOf s.heap a.name = some a.zloc then isTrue ⟨h1, h2, h3⟩
      else isFalse (fun h => h3 h.self)
    else isFalse (fun h => h2 h.nodes)
  else isFalse (fun h => h1 h.reads)

/-- Distinct primitive ops write distinct locations (intermediate paths are per array name, store targets
are fresh per call). -/
def WlocInj (heap : List OpObj) : Prop :=
  ∀ o ∈ heap, ∀ o' ∈ heap, o.prim = true → o'.prim = true → o.wloc = o'.wloc → o.out = o'.out

/-- Does any op read array `n`?  (An array "has dependants".) -/
def hasDependants (heap : List OpObj) (n : Nat) : Bool := heap.any (fun o => o.srcs.contains n)

/-- Structural facts about a state that no API call ever changes once they hold. -/
structure WF (s : State) : Prop where
  heap : HeapWF s.heap
  readsSrcs : ∀ o ∈ s.heap, ∀ p ∈ o.reads, p.1 ∈ o.srcs
  readsCover : ∀ o ∈ s.heap, ∀ n ∈ o.srcs, ∃ l, rlookup o.reads n = some l
  arrName : ∀ a ∈ s.arrs, a.name < s.heap.length
  arrLazy : ∀ a ∈ s.arrs, ∀ o, findOp s.heap a.name = some o → a.lazy = o.prim
  arrDistinct : s.arrs.Pairwise (fun a b => a.name ≠ b.name)
  dagName : ∀ a ∈ s.arrs, ∀ nd ∈ a.dag, nd.name < s.heap.length
  dagSelf : ∀ a ∈ s.arrs, ∃ nd ∈ a.dag, nd.name = a.name
  dagClosed : ∀ a ∈ s.arrs, ∀ nd ∈ a.dag, ∀ o, findOp s.heap nd.name = some o →
    ∀ n ∈ o.srcs, ∃ nd' ∈ a.dag, nd'.name = n
  dagLazy : ∀ a ∈ s.arrs, ∀ nd ∈ a.dag, ∀ o, findOp s.heap nd.name = some o → nd.lazy = o.prim
  dagAnc : ∀ a ∈ s.arrs, ∀ nd ∈ a.dag, nd.name = a.name ∨ hasDependants s.heap nd.name = true
  wlocs : ∀ o ∈ s.heap, (o.prim = true → o.wloc = .inter o.out ∨ ∃ t ∈ s.used, o.wloc = .target t) ∧
                         (o.prim = false → o.wloc = .ext o.out ∨ ∃ t ∈ s.used, o.wloc = .target t)
  wlocInj : WlocInj s.heap

/-- What the store holds between API calls: every location an op writes (or an input lives at) holds
either nothing or exactly the value that array was built to have; nothing is left created-but-empty. -/
structure StoreOK (s : State) : Prop where
  holds : ∀ o ∈ s.heap, ∀ v, s.store o.wloc = some v → denote s.heap o.out = some v
  inputs : ∀ o ∈ s.heap, o.prim = false → (s.store o.wloc).isSome
  noFill : ∀ l v, s.store l = some v → v.isData = true
  interUsed : ∀ n v, s.store (.inter n) = some v → n < s.heap.length
  extUsed : ∀ n v, s.store (.ext n) = some v → n < s.heap.length
  targetUsed : ∀ t v, s.store (.target t) = some v → t ∈ s.used

structure Inv (s : State) : Prop where
  wf : WF s
  linked : Linked s
  store : StoreOK s

/-- The one kind of call the unchanged code gets wrong: `store`/`to_zarr` of a lazy array from which
another array has already been derived (in-place re-targeting behind the dependant's back). -/
def Step.lateRetarget (s : State) : Step → Bool
  | .store pairs _ _ =>
    pairs.any (fun p => match s.arrs[p.1]? with
                        | some a => a.lazy && hasDependants s.heap a.name
                        | none => false)
  | _ => false

/-- The pool only grows, names stay, and the built value of every existing array stays. -/
def PoolStable (s s' : State) : Prop :=
  s.heap.length ≤ s'.heap.length ∧ (∀ n, n < s.heap.length → denote s'.heap n = denote s.heap n) ∧
  (∀ (i : Nat) (a : Arr), s.arrs[i]? = some a → ∃ a' : Arr, s'.arrs[i]? = some a' ∧ a'.name = a.name)


/-- Facts that every reachable state has, whatever the history. -/
structure Basic (s : State) : Prop where
  heap : HeapWF s.heap
  arrName : ∀ a ∈ s.arrs, a.name < s.heap.length
  opsNoExt : ∀ o ∈ s.heap, o.prim = true → ∀ k, o.wloc ≠ .ext k
  nodesNoExt : ∀ a ∈ s.arrs, ∀ nd ∈ a.dag, nd.lazy = true → ∀ k, nd.target ≠ .ext k
  extBound : ∀ k v, s.store (.ext k) = some v → k < s.heap.length


/-- A fusion size policy that never refuses (the theorems hold for every policy). -/
def softAll : List OpObj → List XOp → Nat → Bool := fun _ _ _ => true

/-! ### what the property demands of every call of a history -/

/-- One call behaves as C10 demands:
  * nothing that is stored anywhere (source data, earlier store targets, intermediates) is modified;
  * `compute` returns exactly the values the arrays were *built* to have (`denote` never looks at the
    mutable parts of the state);
  * an eager `store`/`to_zarr` does not fail. -/
def GoodStep (soft : List OpObj → List XOp → Nat → Bool) (s : State) (st : Step) : Prop :=
  (∀ l v, s.store l = some v → (s.step soft st).1.store l = some v) ∧
  (match st with
   | .compute idxs _ _ =>
     ∀ as, mapOpt (fun i => s.arrs[i]?) idxs = some as → idxs ≠ [] →
       ∃ vs, (s.step soft st).2 = .values vs ∧ mapOpt (fun a => denote s.heap a.name) as = some vs
   | .store _ _ _ => (s.step soft st).2 ≠ .failed
   | _ => True)

def AllGood (soft : List OpObj → List XOp → Nat → Bool) : State → List Step → Prop
  | _, [] => True
  | s, st :: rest => GoodStep soft s st ∧ AllGood soft (s.step soft st).1 rest

/-- No call of the history is a late re-targeting (decidable, evaluated along the run). -/
def NoLate (soft : List OpObj → List XOp → Nat → Bool) : State → List Step → Bool
  | _, [] => true
  | s, st :: rest => !(st.lateRetarget s) && NoLate soft (s.step soft st).1 rest

end Cubed.History
