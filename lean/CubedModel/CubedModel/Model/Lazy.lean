/-
  Model layer `Lazy` (property C16): laziness of building / planning / visualizing, the
  `LazyZarrArray` lifecycle and the execution-site table.

  Python                                                         model
  ------------------------------------------------------------   -----------------------------------------
  cubed/storage/stores/zarr_python_v3.py `open_zarr_v3_array`     `modeCreates`   (mode ∈ read-only modes ⇒ open only,
      (`if mode in ("r","r+"): return zarr.open_array`,                            otherwise `zarr.create_array`)
       else `zarr.create_array`, `ContainsArrayError` + "a" ⇒ open)
  cubed/storage/zarr.py `LazyZarrArray.__init__`/`lazy_zarr_array` `Api.build` with a `Target.lazy` (state *constructed*:
                                                                   declared in `St.ops`, not in `St.created`)
  `LazyZarrArray.create(mode)` / `plan.create_zarr_array`          `Task.create`, `applyCreate`  (→ *created*)
  `LazyZarrArray.open()` (`mode="r+"`)                             `openLazy` (fails unless created; no store effect)
  cubed/core/plan.py `Plan._new` (every array constructor / op)    `Api.build`  (appends a node to the dag, nothing else)
  `Plan._finalize` → `_create_lazy_zarr_arrays`                    `finalize`  (create list = lazy targets of the
                                                                   (optimized) dag; create-arrays is a predecessor of
                                                                   every pipeline node: `preds`)
  `cubed.plan` / `arr.plan()`, `cubed.visualize`/`arr.visualize()` `Api.plan`, `Api.visualize` (compute `finalize`, discard)
  `ops.from_zarr` (`open_storage_array(mode="r")`)                 `Api.fromZarr`
  `FinalizedPlan.execute` → `executor.execute_dag`                 `Api.execute sched` (the executor chooses `sched`;
                                                                   its contract is the hypothesis `Barrier`)
  store mutations seen by a tracing store                          `Ev.mkmeta a` (`set a/zarr.json`), `Ev.chunk a i`
  the table written by harness/extract_c16.py                      `Site`, `allowTable`, `siteAllowed`
  what the harness observes around API calls                       `Obs`, `traceOk` (executable acceptor, used by the driver)
-/
namespace Cubed.Lazy

/-! ## Storage modes -/

/-- `open_zarr_v3_array`: for the read-only modes (generated: `["r","r+"]`) the array is only opened,
for every other mode `zarr.create_array` is attempted, i.e. metadata may be written. -/
def modeCreates (readOnly : List String) (mode : String) : Bool := !(readOnly.contains mode)

/-! ## The execution-site table -/

structure Site where
  file : String
  enclosing : String
  callee : String
  mode : String
  guard : String
  deriving DecidableEq, Repr

def Site.ofTuple (t : String × String × String × String × String) : Site :=
  ⟨t.1, t.2.1, t.2.2.1, t.2.2.2.1, t.2.2.2.2⟩

/-- One admissible shape of a site.  `guard = "*"` admits any guard. -/
structure Allow where
  file : String
  enclosing : String
  callee : String
  mode : String
  guard : String

def Allow.admits (a : Allow) (s : Site) : Bool :=
  a.file == s.file && a.enclosing == s.enclosing && a.callee == s.callee && a.mode == s.mode
    && (a.guard == "*" || a.guard == s.guard)

/-- Callees that start an execution when called. -/
def execCallees : List String := [".compute", "compute", "compute (ref)", ".execute", ".execute_dag", ".persist"]

/-- The property's list of public functions that may trigger execution (first block), the plan's own
execute path (second block) and the storage layer (third block). -/
def allowTable : List Allow := [
  -- (1) public entry points that are allowed to execute
  ⟨"cubed/array_api/array_object.py", "Array.__array__", ".compute", "", ""⟩,
  ⟨"cubed/array_api/array_object.py", "Array.__bool__", ".compute", "", ""⟩,
  ⟨"cubed/array_api/array_object.py", "Array.__complex__", ".compute", "", ""⟩,
  ⟨"cubed/array_api/array_object.py", "Array.__float__", ".compute", "", ""⟩,
  ⟨"cubed/array_api/array_object.py", "Array.__index__", ".compute", "", ""⟩,
  ⟨"cubed/array_api/array_object.py", "Array.__int__", ".compute", "", ""⟩,
  ⟨"cubed/core/array.py", "CoreArray.compute", "compute", "", ""⟩,
  ⟨"cubed/core/array.py", "measure_reserved_mem", ".compute", "", ""⟩,
  ⟨"cubed/core/indexing.py", "index", ".compute", "", "isinstance(dim_sel, CoreArray)"⟩,   -- only for a cubed-array key
  ⟨"cubed/core/ops.py", "store", "compute", "", "compute"⟩,                                -- only under `if compute:`
  ⟨"cubed/core/ops.py", "to_zarr", ".compute", "", "compute"⟩,                             -- only under `if compute:`
  ⟨"cubed/icechunk.py", "store_icechunk", "compute", "", ""⟩,                              -- eager store (icechunk variant)
  -- (2) the plan's own execute path: compute → FinalizedPlan.execute → executor → create-arrays op
  ⟨"cubed/core/array.py", "compute", ".execute", "", ""⟩,
  ⟨"cubed/core/plan.py", "FinalizedPlan.execute", ".execute_dag", "", ""⟩,
  ⟨"cubed/core/plan.py", "Plan._create_lazy_zarr_arrays", "create_zarr_arrays", "", "*"⟩,  -- builds the op, does not run it
  ⟨"cubed/core/plan.py", "create_zarr_arrays", "create_zarr_array (ref)", "", "*"⟩,        -- as the op's task function
  ⟨"cubed/core/plan.py", "create_zarr_array", ".create", "a", "*"⟩,
  -- (3) storage layer
  ⟨"cubed/storage/zarr.py", "LazyZarrArray.create", "open_storage_array", "param:mode", "*"⟩,
  ⟨"cubed/storage/zarr.py", "LazyZarrArray.open", "open_storage_array", "r+", "*"⟩,
  ⟨"cubed/core/ops.py", "from_zarr", "open_storage_array", "r", "*"⟩,
  ⟨"cubed/storage/store.py", "open_storage_array", "open_zarr_v3_array (ref)", "", "*"⟩,
  ⟨"cubed/storage/stores/zarr_python_v3.py", "open_zarr_v3_array", "zarr.open_array", "", "*"⟩,
  ⟨"cubed/storage/stores/zarr_python_v3.py", "open_zarr_v3_array", "zarr.create_array", "", "*"⟩,
  ⟨"cubed/storage/stores/zarr_python_v3.py", "open_zarr_v3_array", "zarr.open_group", "param:mode", "*"⟩,
  ⟨"cubed/storage/stores/zarr_python_v3.py", "open_zarr_v3_array", ".create_array", "", "*"⟩
]

def siteAllowed (s : Site) : Bool := allowTable.any (·.admits s)

/-- Public names (as the harness calls them) that the model says may trigger execution.  Everything
else in `cubed` / `cubed.array_api` is lazy. -/
def publicExec : List String := [
  "compute", "Array.compute", "store", "to_zarr", "measure_reserved_mem",
  "Array.__array__", "Array.__bool__", "Array.__complex__", "Array.__float__", "Array.__index__", "Array.__int__",
  "Array.__getitem__[cubed-key]", "take[cubed-indices]"]

def insertStr (x : String) : List String → List String
  | [] => [x]
  | y :: ys => if x < y then x :: y :: ys else if x == y then y :: ys else y :: insertStr x ys

/-- Sorted, without repeats (so that statements do not depend on the order of definitions in a file). -/
def sortStrs (l : List String) : List String := l.foldr insertStr []

/-- Enclosing functions of the sites that start an execution, sorted, without repeats. -/
def execEnclosing (sites : List Site) : List String :=
  sortStrs ((sites.filter (fun s => execCallees.contains s.callee)).map (·.enclosing))

/-! ## Plans, tasks, store events -/

inductive Target where
  | virt                      -- virtual array (`cubed/storage/virtual.py`): never stored
  | lazy (a : String)         -- `LazyZarrArray`: intermediate array or a path/store target of `store`/`to_zarr`
  | existing (a : String)     -- a `zarr.Array` handed in by the user (already created outside cubed)
  deriving DecidableEq, Repr

def Target.lazyName? : Target → Option String
  | .lazy a => some a
  | _ => none

def Target.storeName? : Target → Option String
  | .lazy a => some a
  | .existing a => some a
  | .virt => none

/-- A dag op node with its output array nodes (`Plan._new`). -/
structure Op where
  name : String
  targets : List Target       -- one entry per output array node
  pipeline : Bool             -- `"primitive_op" in node`
  ntasks : Nat
  srcs : List String          -- names of the ops producing its inputs (data edges through array nodes)
  deriving DecidableEq, Repr

inductive Node where
  | createArrays
  | op (name : String)
  deriving DecidableEq, Repr

/-- `FinalizedPlan`: what `_finalize` leaves in the dag. -/
structure FPlan where
  creates : List String       -- `pipeline.mappable` of the create-arrays op
  ops : List Op               -- all nodes of the (optimized) dag
  deriving Repr

def FPlan.pipes (fp : FPlan) : List Op := fp.ops.filter (·.pipeline)

/-- `_create_lazy_zarr_arrays` after the (arbitrary) optimizer `opt`: every `LazyZarrArray` target in
the dag is collected for the create-arrays op. -/
def finalize (opt : List Op → List Op) (ops : List Op) : FPlan :=
  let dag := opt ops
  { creates := dag.flatMap (fun o => o.targets.filterMap Target.lazyName?), ops := dag }

/-- Predecessors in the finalized dag: "make create arrays node a predecessor of all pipeline nodes"
(only when there is something to create), plus the data edges. -/
def preds (fp : FPlan) : Node → List Node
  | .createArrays => []
  | .op n =>
    match fp.pipes.find? (·.name == n) with
    | none => []
    | some o => (if fp.creates.isEmpty then [] else [Node.createArrays]) ++ o.srcs.map Node.op

inductive Task where
  | create (a : String)             -- `create_zarr_array(lazy_zarr_array)` → `lazy_zarr_array.create(mode="a")`
  | run (op : String) (i : Nat)     -- task `i` of pipeline op `op`
  deriving DecidableEq, Repr

def tasksOf (fp : FPlan) : Node → List Task
  | .createArrays => fp.creates.map Task.create
  | .op n =>
    match fp.pipes.find? (·.name == n) with
    | none => []
    | some o => (List.range o.ntasks).map (Task.run n)

inductive Ev where
  | mkmeta (a : String)               -- array metadata ensured in storage (`set <a>/zarr.json` when absent)
  | chunk (a : String) (i : Nat)    -- a chunk of `a` written by task `i`
  deriving DecidableEq, Repr

/-- Store events of one task. -/
def taskEvents (fp : FPlan) : Task → List Ev
  | .create a => [Ev.mkmeta a]
  | .run n i =>
    match fp.pipes.find? (·.name == n) with
    | none => []
    | some o => (o.targets.filterMap Target.storeName?).map (fun a => Ev.chunk a i)

def schedEvents (fp : FPlan) (sched : List Task) : List Ev := sched.flatMap (taskEvents fp)

/-- The executor contract that C16 relies on (it is C07's property, proved there for the executors'
model): when a task of node `n` starts, every task of every predecessor of `n` has already run. -/
def Barrier (fp : FPlan) (sched : List Task) : Prop :=
  ∀ (j : Nat) (t : Task), sched[j]? = some t →
    ∀ n, t ∈ tasksOf fp n → ∀ p ∈ preds fp n, ∀ t' ∈ tasksOf fp p, t' ∈ sched.take j

/-- Nodes of the finalized dag that have tasks. -/
def nodesOf (fp : FPlan) : List Node := Node.createArrays :: fp.pipes.map (fun o => Node.op o.name)

/-- Executable check of `Barrier` (sound: `Proofs/Lazy.lean: barrierOk_sound`). -/
def barrierOk (fp : FPlan) (sched : List Task) : Bool :=
  (List.range sched.length).all fun j =>
    match sched[j]? with
    | none => true
    | some t =>
      (nodesOf fp).all fun n =>
        !((tasksOf fp n).contains t) ||
          (preds fp n).all fun p => (tasksOf fp p).all fun t' => (sched.take j).contains t'

/-! ## Sessions: a history of API calls acting on a store -/

inductive Api where
  | build (o : Op)                              -- any array constructor / operation
  | fromZarr (a : String)                       -- `from_zarr`: opens with the generated mode "r"
  | plan (optimize : Bool)                      -- `plan()` / `arr.plan()`
  | visualize (optimize : Bool)                 -- `visualize()` / `arr.visualize()`
  | execute (optimize : Bool) (sched : List Task)   -- compute / eager store / conversions / cubed-array key
  deriving Repr

def Api.isExecute : Api → Bool
  | .execute _ _ => true
  | _ => false

structure St where
  ops : List Op               -- the dag built so far
  created : List String       -- arrays whose metadata is in storage
  log : List Ev               -- store mutation log (what a tracing store records), oldest first
  deriving Repr

/-- mode "a": metadata is written only when the array does not exist yet. -/
def applyEvent (s : St) : Ev → St
  | .mkmeta a => if s.created.contains a then s else { s with created := s.created ++ [a], log := s.log ++ [Ev.mkmeta a] }
  | .chunk a i => { s with log := s.log ++ [Ev.chunk a i] }

/-- `LazyZarrArray.open()`: `mode="r+"` — "fail if it doesn't exist"; no store effect. -/
def openLazy (s : St) (a : String) : Except String Unit :=
  if s.created.contains a then .ok () else .error "ArrayNotFoundError"

def optOf (opt : List Op → List Op) (optimize : Bool) : List Op → List Op :=
  if optimize then opt else id

/-- One API call.  `opt` is the optimizer (any function on dags). -/
def step (opt : List Op → List Op) (s : St) : Api → St
  | .build o => { s with ops := s.ops ++ [o] }
  | .fromZarr _ => s
  | .plan optimize => let _fp := finalize (optOf opt optimize) s.ops; s
  | .visualize optimize => let _fp := finalize (optOf opt optimize) s.ops; s
  | .execute optimize sched =>
    let fp := finalize (optOf opt optimize) s.ops
    (schedEvents fp sched).foldl applyEvent s

def run (opt : List Op → List Op) (s : St) (h : List Api) : St := h.foldl (step opt) s

/-- Lifecycle state of a declared lazy array. -/
inductive Life where
  | undeclared | constructed | created
  deriving DecidableEq, Repr

def life (s : St) (a : String) : Life :=
  if s.created.contains a then .created
  else if s.ops.any (fun o => o.targets.contains (Target.lazy a)) then .constructed
  else .undeclared

/-! ## Observed traces (what the harness records around real API calls) -/

inductive Obs where
  | enter (exec : Bool)       -- a public call starts; `exec` = the model lists it in `publicExec`
  | exit
  | pre (a : String)          -- array `a` existed before the session (user-created target / input)
  | mkmeta (a : String)         -- `set <a>/zarr.json`
  | chunk (a : String)        -- `set <a>/c/...`
  | del (k : String)          -- any delete
  deriving DecidableEq, Repr

structure Scan where
  depthExec : Nat := 0        -- number of enclosing executing calls
  stack : List Bool := []
  created : List String := []
  deriving Repr

/-- Accept a trace iff every store mutation (set / delete) happens inside an executing call and
every chunk write follows the creation of its array.  Returns the index of the first offending event. -/
def scanTrace : List Obs → Scan → Nat → Option (Nat × String)
  | [], _, _ => none
  | o :: rest, sc, i =>
    match o with
    | .enter e => scanTrace rest { sc with depthExec := sc.depthExec + (if e then 1 else 0), stack := e :: sc.stack } (i + 1)
    | .exit =>
      match sc.stack with
      | [] => some (i, "unbalanced-exit")
      | e :: st => scanTrace rest { sc with depthExec := sc.depthExec - (if e then 1 else 0), stack := st } (i + 1)
    | .pre a => scanTrace rest { sc with created := a :: sc.created } (i + 1)
    | .mkmeta a =>
      if sc.depthExec == 0 then some (i, "create-outside-execution")
      else scanTrace rest { sc with created := a :: sc.created } (i + 1)
    | .chunk a =>
      if sc.depthExec == 0 then some (i, "write-outside-execution")
      else if !(sc.created.contains a) then some (i, "write-before-create")
      else scanTrace rest sc (i + 1)
    | .del _ =>
      if sc.depthExec == 0 then some (i, "delete-outside-execution") else scanTrace rest sc (i + 1)

def traceOk (tr : List Obs) : Bool := (scanTrace tr {} 0).isNone

end Cubed.Lazy
