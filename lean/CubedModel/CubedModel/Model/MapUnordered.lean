/-
  Model of the parallel map that runs one operation (property C08).

    cubed/runtime/asyncio.py   async_map_unordered
        code before the loop (first batch, bookkeeping)      ↦ `init`, `submitBatch`, `submitOne`
        `finished, pending = await asyncio.wait(...)`        ↦ `waitPhase` (+ `dedup`)
        `for task in finished:` body                         ↦ `procOne` (`succeed` = end_times / yield / remove backup), `procAll`
        `backup.done()`                                      ↦ `isDone`
        `for task in copy.copy(pending):` body               ↦ `launchOne` (`addBackup` = "launch backup task"), `launchAll`,
                                                               iteration order `pendOrderOf`
        `if batch_size is not None and len(pending) < …`     ↦ `refill`
        one iteration of `while pending:` / the whole loop   ↦ `stepRound` / `runLoop`, `run`
    cubed/runtime/backup.py    should_launch_backup          ↦ `shouldLaunch` (`durations`, `durOf`, `isort` = `sorted`, `ceilDiv`)
    cubed/runtime/utils.py     batched                       ↦ `batched`
    cubed/runtime/executors/local.py
        threads_create_futures_func (tenacity Retrying(reraise=True, stop=stop_after_attempt(retries+1)))
                                                             ↦ `retrying`, `callWithRetries`

  Modelling decisions
  * Futures are named by their creation index (`nextId` counts `create_futures_func` / `create_backup_futures_func`
    results).  `async_map_unordered` never inspects an input value, so inputs are named by their position in `input`.
  * Python dicts / sets keyed by futures are finite maps `Nat → Option _` / `Nat → Bool` whose domain is inside
    `[0, nextId)`; `len(d)` counts over that range.  **Every dictionary lookup returns `Option`; a miss is the outcome
    `crash`** (that is how the `KeyError` of the repaired batch-refill defect shows up).
  * The environment supplies, per `asyncio.wait` round (`Round`): the finished futures *in iteration order* (`fin`; entries
    that are not pending are ignored, so every list is a legal round and `[]` is a timeout), which further futures have
    completed by the time `backup.done()` is asked (`lateDone`: the generator is suspended at every `yield`, the loop may
    run), the iteration order over `copy(pending)` (`pendOrder`), and every reading of `time.monotonic()` (`clk*`).
    The eventual outcome of each future is the function `ok : Nat → Bool` (result value of future `f` is `f` itself).
  * `done` is ghost state: the futures some `asyncio.wait` has returned so far.  Nothing else in the model reads it
    except `backup.done()`.
  * `Variant` selects the code as it is (`generated`: facts regenerated from the source) or the behaviour before the
    `fix:` commits (start_times on refill, superseded twins, empty first batch), so that the historical witnesses stay
    checkable.
  * `backup.cancel()` is not modelled: a future is cancelled only after it has been removed from `pending` and from
    `backups`, and the model never touches such a future again (it can reappear only in the same `finished` set, where it
    is already done and `cancel()` is a no-op).
-/
import CubedModel.Model.GeneratedC08

namespace Cubed.MapUnordered

/-! ### options -/

/-- thresholds of `should_launch_backup` (rationals as numerator / denominator) -/
structure Thresholds where
  minTasks : Nat
  fracNum : Nat
  fracDen : Nat
  slowNum : Nat
  slowDen : Nat
deriving DecidableEq, Repr

/-- the defaults found in the source -/
def Thresholds.generated : Thresholds :=
  { minTasks := GeneratedC08.minTasks, fracNum := GeneratedC08.fracNum, fracDen := GeneratedC08.fracDen,
    slowNum := GeneratedC08.slowNum, slowDen := GeneratedC08.slowDen }

structure Variant where
  /-- batch refill does `start_times.update(...)`; `false` = `start_times = {...}` (before the first fix) -/
  refillUpdates : Bool
  /-- `if task in superseded: continue` and `superseded.add(backup)` (second fix) -/
  skipSuperseded : Bool
  /-- the backup launch is guarded by `task not in backups` -/
  guardNotInBackups : Bool
  /-- the first batch is taken with `next(input_batches, ())`; `false` = `next(input_batches)` (third fix) -/
  emptyFirstBatchOk : Bool
deriving DecidableEq, Repr

def Variant.fixed : Variant := ⟨true, true, true, true⟩
/-- what the extractor found in the tree under test -/
def Variant.generated : Variant :=
  ⟨GeneratedC08.refillUsesUpdate, GeneratedC08.skipsSuperseded, GeneratedC08.checksNotInBackups,
   GeneratedC08.emptyFirstBatchOk⟩

structure Cfg where
  useBackups : Bool
  batchSize : Option Nat
  variant : Variant := Variant.generated
  thr : Thresholds := Thresholds.generated
deriving DecidableEq, Repr

/-! ### outcomes -/

inductive Outcome where
  /-- the generator finished normally; the futures whose results were yielded, in order -/
  | done (results : List Nat)
  /-- `raise task.exception()` for future `f` -/
  | raised (f : Nat)
  /-- any other exception (`KeyError`, `StopIteration` → `RuntimeError`, `ValueError`) -/
  | crash (why : String)
deriving DecidableEq, Repr

/-! ### state -/

structure St where
  /-- what `input_batches` will still produce (input positions) -/
  batches : List (List Nat)
  nextId : Nat
  /-- `tasks` : future ↦ input -/
  tasks : Nat → Option Nat
  pending : Nat → Bool
  start : Nat → Option Int
  end_ : Nat → Option Int
  backups : Nat → Option Nat
  superseded : Nat → Bool
  /-- futures whose result has been yielded, in order -/
  emitted : List Nat
  /-- ghost: returned by some `asyncio.wait` so far -/
  done : Nat → Bool

def St.empty : St :=
  { batches := [], nextId := 0, tasks := fun _ => none, pending := fun _ => false, start := fun _ => none,
    end_ := fun _ => none, backups := fun _ => none, superseded := fun _ => false, emitted := [],
    done := fun _ => false }

/-- `d[k] = v` -/
def upd {α : Type} (d : Nat → α) (k : Nat) (v : α) : Nat → α := fun x => if x = k then v else d x

/-- the keys `< n` satisfying `p`, increasing -/
def keys (n : Nat) (p : Nat → Bool) : List Nat := (List.range n).filter p

/-- `len(d)` -/
def lenDict {α : Type} (n : Nat) (d : Nat → Option α) : Nat := (keys n (fun f => (d f).isSome)).length

def pendingList (st : St) : List Nat := keys st.nextId st.pending

/-! ### `batched` -/

/-- `batched(iterable, n)` for `n ≥ 1` (fuel = length of the rest; every batch is non-empty) -/
def batchedAux (n : Nat) : Nat → List Nat → List (List Nat)
  | 0, _ => []
  | _, [] => []
  | fuel + 1, x :: xs => ((x :: xs).take n) :: batchedAux n fuel ((x :: xs).drop n)

def batched (n : Nat) (l : List Nat) : List (List Nat) := batchedAux n l.length l

/-! ### submitting futures -/

/-- `create_futures_func([i])` + bookkeeping of one new future at clock reading `t` -/
def submitOne (t : Int) (st : St) (i : Nat) : St :=
  { st with
    nextId := st.nextId + 1
    tasks := upd st.tasks st.nextId (some i)
    pending := upd st.pending st.nextId true
    start := upd st.start st.nextId (some t) }

/-- one batch: `tasks.update`, `pending.update`, `start_times.update` -/
def submitBatch (t : Int) (st : St) (b : List Nat) : St := b.foldl (submitOne t) st

/-- The code before the generator's loop.  `n` inputs, clock reading `t0`. -/
def init (cfg : Cfg) (n : Nat) (t0 : Int) : Except Outcome St :=
  match cfg.batchSize with
  | none => .ok (submitBatch t0 St.empty (List.range n))
  | some 0 => .error (.crash "ValueError: n must be at least one")
  | some (bs + 1) =>
    match batched (bs + 1) (List.range n) with
    | [] =>
      -- empty input: `next(input_batches, ())` gives no inputs (no futures, the loop is not entered);
      -- `next(input_batches)` raised StopIteration inside the async generator
      if cfg.variant.emptyFirstBatchOk then .ok (submitBatch t0 St.empty [])
      else .error (.crash "StopIteration")
    | b :: rest => .ok (submitBatch t0 { St.empty with batches := rest } b)

/-! ### one `asyncio.wait` round -/

structure Round where
  fin : List Nat
  lateDone : Nat → Bool := fun _ => false
  pendOrder : List Nat := []
  clkEnd : Nat → Int := fun _ => 0
  clkNow : Int := 0
  clkBackup : Nat → Int := fun _ => 0
  clkRefill : Int := 0

/-- drop repeated entries (a `set` has none) -/
def dedup : List Nat → List Nat
  | [] => []
  | x :: xs => if xs.contains x then dedup xs else x :: dedup xs

/-- `finished, pending = await asyncio.wait(pending, …)` : the work list and the state after the assignment -/
def waitPhase (st : St) (rd : Round) : St × List Nat :=
  let w := dedup (rd.fin.filter st.pending)
  ({ st with pending := fun f => st.pending f && !w.contains f, done := fun f => st.done f || w.contains f }, w)

/-- `backup.done()` -/
def isDone (st : St) (rd : Round) (f : Nat) : Bool := st.done f || rd.lateDone f

/-- a successful task: `end_times[task] = time.monotonic()`, `yield task.result()`, then "remove any backup task" -/
def succeed (cfg : Cfg) (st : St) (f : Nat) (t : Int) : St :=
  let st := { st with end_ := upd st.end_ f (some t), emitted := st.emitted ++ [f] }
  if cfg.useBackups then
    match st.backups f with
    | some b =>
      { st with
        pending := upd st.pending b false
        backups := upd (upd st.backups f none) b none
        superseded := if cfg.variant.skipSuperseded then upd st.superseded b true else st.superseded }
    | none => st
  else st

/-- body of `for task in finished` for one task -/
def procOne (cfg : Cfg) (ok : Nat → Bool) (rd : Round) (st : St) (f : Nat) : Except Outcome St :=
  if cfg.variant.skipSuperseded && st.superseded f then .ok st
  else if !ok f then
    -- `if task.exception():`
    match st.backups f with
    | some b => if !isDone st rd b || ok b then .ok st else .error (.raised f)
    | none => .error (.raised f)
  else .ok (succeed cfg st f (rd.clkEnd f))

/-- `for task in finished: …` ; an exception is reported together with the state in which it was raised -/
def procAll (cfg : Cfg) (ok : Nat → Bool) (rd : Round) : St → List Nat → Except (Outcome × St) St
  | st, [] => .ok st
  | st, f :: w => match procOne cfg ok rd st f with
    | .ok st' => procAll cfg ok rd st' w
    | .error o => .error (o, st)

/-! ### `should_launch_backup` -/

/-- all `some`, in order; `none` if any lookup missed -/
def allSome {α : Type} : List (Option α) → Option (List α)
  | [] => some []
  | none :: _ => none
  | some a :: r => (allSome r).map (a :: ·)

/-- `end_times[t] - start_times[t]` -/
def durOf (st : St) (t : Nat) : Option Int :=
  match st.end_ t, st.start t with
  | some e, some s => some (e - s)
  | _, _ => none

/-- `[end_times[t] - start_times[t] for t in end_times]` -/
def durations (st : St) : Option (List Int) :=
  allSome ((keys st.nextId (fun t => (st.end_ t).isSome)).map (durOf st))

/-- `sorted(…)` (insertion sort: structural, so that closed instances reduce in the kernel) -/
def insertSorted (a : Int) : List Int → List Int
  | [] => [a]
  | b :: r => if a ≤ b then a :: b :: r else b :: insertSorted a r

def isort : List Int → List Int
  | [] => []
  | a :: r => insertSorted a (isort r)

/-- `math.ceil(a / b)` for naturals -/
def ceilDiv (a b : Nat) : Nat := (a + b - 1) / b

/-- `should_launch_backup(task, now, start_times, end_times)`; `none` = `KeyError` / `IndexError` -/
def shouldLaunch (thr : Thresholds) (st : St) (f : Nat) (now : Int) : Option Bool :=
  let ls := lenDict st.nextId st.start
  if ls < thr.minTasks then some false else
  let c := ceilDiv (ls * thr.fracNum) thr.fracDen
  if c = 0 then none else       -- n = -1 : outside the modelled range (cannot happen when min_tasks, fraction > 0)
  let n := c - 1
  if lenDict st.nextId st.end_ ≤ n then some false else
  match durations st with
  | none => none
  | some ds =>
    match st.start f with
    | none => none
    | some s =>
      match (isort ds)[n]? with
      | none => none
      | some d => some (decide ((now - s) * (thr.slowDen : Int) > d * (thr.slowNum : Int)))

/-- "launch backup task": `create_backup_futures_func([i])`, `tasks[new_task] = i`, `start_times[new_task] = …`,
`pending.add(new_task)`, `backups[task] = new_task`, `backups[new_task] = task` -/
def addBackup (st : St) (f i : Nat) (t : Int) : St :=
  let n := st.nextId
  { st with
    nextId := n + 1
    tasks := upd st.tasks n (some i)
    start := upd st.start n (some t)
    pending := upd st.pending n true
    backups := upd (upd st.backups f (some n)) n (some f) }

/-- body of `for task in copy.copy(pending)` for one task -/
def launchOne (cfg : Cfg) (rd : Round) (st : St) (f : Nat) : Except Outcome St :=
  if cfg.variant.guardNotInBackups && (st.backups f).isSome then .ok st
  else match shouldLaunch cfg.thr st f rd.clkNow with
    | none => .error (.crash "KeyError: start_times")
    | some false => .ok st
    | some true =>
      match st.tasks f with
      | none => .error (.crash "KeyError: tasks")
      | some i => .ok (addBackup st f i (rd.clkBackup f))

def launchAll (cfg : Cfg) (rd : Round) : St → List Nat → Except (Outcome × St) St
  | st, [] => .ok st
  | st, f :: w => match launchOne cfg rd st f with
    | .ok st' => launchAll cfg rd st' w
    | .error o => .error (o, st)

/-- iteration order over `copy.copy(pending)`: the environment's preference first, the rest in creation order -/
def pendOrderOf (st : St) (rd : Round) : List Nat :=
  dedup (rd.pendOrder.filter st.pending) ++ (pendingList st).filter (fun f => !rd.pendOrder.contains f)

/-! ### batch refill -/

def refill (cfg : Cfg) (rd : Round) (st : St) : St :=
  match cfg.batchSize with
  | none => st
  | some bs =>
    if (pendingList st).length < bs then
      match st.batches with
      | [] => st
      | b :: rest =>
        let st1 := submitBatch rd.clkRefill { st with batches := rest } b
        if cfg.variant.refillUpdates then st1
        else { st1 with start := fun f => if st.nextId ≤ f && f < st1.nextId then some rd.clkRefill else none }
    else st

/-! ### the loop -/

/-- one iteration of `while pending:` -/
def stepRound (cfg : Cfg) (ok : Nat → Bool) (rd : Round) (st : St) : Except (Outcome × St) St :=
  let (st1, w) := waitPhase st rd
  match procAll cfg ok rd st1 w with
  | .error o => .error o
  | .ok st2 =>
    let r := if cfg.useBackups then launchAll cfg rd st2 (pendOrderOf st2 rd) else .ok st2
    match r with
    | .error o => .error o
    | .ok st3 => .ok (refill cfg rd st3)

def anyPending (st : St) : Bool := (pendingList st) != []

inductive Status where
  /-- still inside the loop after the given rounds -/
  | running (st : St)
  /-- the generator ended with outcome `o`; `st` is the state when it ended -/
  | finished (o : Outcome) (st : St)

/-- `while pending: …` driven by the environment's rounds -/
def runLoop (cfg : Cfg) (ok : Nat → Bool) : List Round → St → Status
  | [], st => if anyPending st then .running st else .finished (.done st.emitted) st
  | rd :: rds, st =>
    if anyPending st then
      match stepRound cfg ok rd st with
      | .error (o, st') => .finished o st'
      | .ok st' => runLoop cfg ok rds st'
    else .finished (.done st.emitted) st

def run (cfg : Cfg) (ok : Nat → Bool) (n : Nat) (t0 : Int) (rounds : List Round) : Status :=
  match init cfg n t0 with
  | .error o => .finished o St.empty
  | .ok st => runLoop cfg ok rounds st

/-! ### the retry wrapper -/

/-- tenacity's loop: attempt number `k` (1-based) with `budget` further attempts allowed after it.
`succ k` = the `k`-th call of the function succeeds.  Returns (succeeded, number of calls made). -/
def retrying (succ : Nat → Bool) : Nat → Nat → Bool × Nat
  | 0, k => (succ k, k)
  | budget + 1, k => if succ k then (true, k) else retrying succ budget (k + 1)

/-- what one submitted future does with `retries`: `Retrying(reraise=True, stop=stop_after_attempt(retries + extra))`
when `retries != 0`, the bare function otherwise.  Threads: `threads_create_futures_func`; processes: the same policy inside
the worker (`unpickle_and_call_with_retries`) — `Properties/C08.lean` checks that the regenerated facts of both agree. -/
def callWithRetries (retries : Nat) (succ : Nat → Bool) : Bool × Nat :=
  if retries = 0 && GeneratedC08.retriesZeroSkipsWrapper then (succ 1, 1)
  else retrying succ (retries + GeneratedC08.retryExtraAttempts - 1) 1

end Cubed.MapUnordered
