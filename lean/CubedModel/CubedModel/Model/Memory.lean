/-
  Memory layer (property C03): the projected-memory accounting of cubed and an abstract allocation
  trace of one `apply_blockwise` task.  Core Lean only.

  Python                                                   Lean
  ------------------------------------------------------   ------------------------------------------
  cubed/primitive/memory.py  BufferCopies                   `BufferCopies`
  cubed/primitive/memory.py  get_buffer_copies              `getBufferCopies`   (cloud = scheme in {gs,s3})
  cubed/primitive/memory.py  calculate_projected_mem        `projectedMem`      (same fold, same order)
  cubed/primitive/memory.py  MemoryModeller                 `Modeller`, `.allocate`, `.free` (Python ints → `Int`)
  cubed/primitive/blockwise.py peak_projected_mem           `peakProjected`     (`None` entries already dropped)
  cubed/primitive/blockwise.py fuse_multiple (projected)    `fusedProjected` = max(op, peak preds)
  cubed/primitive/blockwise.py fuse (projected)             `fusedPairProjected` = max(op1, op2)
  cubed/utils.py array_memory / largest_chunk               `arrayMemory`, `Chunks`, `largestChunk`
  cubed/utils.py chunk_memory (storage arrays)              `chunkMemory`
  cubed/primitive/blockwise.py general_blockwise            `blockwiseProjected` (inputs = array_memory(dtype,
                                                              largest_chunk(chunks)) per source array, output =
                                                              max over outputs, operation = extra_projected_mem)
  cubed/core/plan.py create_zarr_arrays                     `createArraysProjected`
  extra_projected_mem declarations
    core/ops.py partial_reduce                              `partialReduceExtra`
    core/ops.py _rechunk                                    `rechunkExtra`
    core/ops.py scan (last general_blockwise)               `scanExtra`
    array_api/manipulation_functions.py permute_dims        `permuteExtra`
    array_api/manipulation_functions.py repeat              `repeatExtra`
    array_api/linalg.py _qr_first_step / _qr_second_step    `qrExtra`
  apply_blockwise / get_results_in_different_scope /
    get_chunk / map_nested (what one task allocates)        `Ev`, `net`, `peak`, `loadBlock`, `streamBlock`,
                                                              `Task`, `taskTrace`
  fused task (make_fused_function: predecessors evaluated
    first, their results retained, then the function)       `PredRun`, `fusedTrace`

  What is *not* modelled (it is measured by the harness instead): what NumPy / zarr codecs / the
  allocator really allocate for one "read" or one kernel call.
-/

namespace Cubed.Memory

/-! ## accounting -/

structure BufferCopies where
  read : Nat
  write : Nat
deriving DecidableEq, Repr

/-- `get_buffer_copies`: `cloud = some true` iff spec and work_dir are present and the work_dir is a
cloud path (`urlsplit(path).scheme in ("gs", "s3")`); anything else gives (1,1). -/
def getBufferCopies (cloud : Option Bool) : BufferCopies :=
  match cloud with
  | some true => ⟨2, 2⟩
  | _ => ⟨1, 1⟩

/-- `is_cloud_storage_path` on the scheme of the path. -/
def isCloudScheme (scheme : String) : Bool := scheme == "gs" || scheme == "s3"

/-- `calculate_projected_mem`: literally the loop of the Python function. -/
def projectedMem (reserved : Nat) (inputs : List Nat) (operation output : Nat) (c : BufferCopies) : Nat :=
  let m := inputs.foldl (fun acc i => acc + i * c.read + i) reserved
  let m := m + operation
  let m := m + output
  m + output * c.write

/-- `MemoryModeller`. -/
structure Modeller where
  current : Int := 0
  peak : Int := 0
deriving DecidableEq, Repr

def Modeller.allocate (m : Modeller) (n : Int) : Modeller :=
  let c := m.current + n
  ⟨c, max m.peak c⟩

def Modeller.free (m : Modeller) (n : Int) : Modeller :=
  let c := m.current - n
  ⟨c, max m.peak c⟩

/-- What `peak_projected_mem` reads of a predecessor: its `projected_mem` and
`chunk_memory(p.target_array)`. -/
structure POp where
  projected : Nat
  chunkmem : Nat
deriving DecidableEq, Repr

def stepPred (m : Modeller) (p : POp) : Modeller :=
  (m.allocate p.projected).free ((p.projected : Int) - p.chunkmem)

/-- `peak_projected_mem`. -/
def peakProjected (ps : List POp) : Int := (ps.foldl stepPred {}).peak

/-- `fuse_multiple`: `max(primitive_op.projected_mem, peak_projected_mem(preds))`. -/
def fusedProjected (op : Nat) (preds : List POp) : Int := max (op : Int) (peakProjected preds)

/-- `fuse`: `max(op1.projected_mem, op2.projected_mem)`. -/
def fusedPairProjected (op1 op2 : Nat) : Nat := max op1 op2

/-! ## chunk sizes -/

def prod (l : List Nat) : Nat := l.foldl (· * ·) 1

/-- `array_memory(dtype, shape) = itemsize * prod(shape)`. -/
def arrayMemory (itemsize : Nat) (shape : List Nat) : Nat := itemsize * prod shape

/-- `.chunks` of a source array: a zarr array has regular chunks (tuple of ints), a lazy/virtual one may
have rectangular chunks (tuple of tuples). -/
inductive Chunks where
  | regular (c : List Nat)
  | rect (cs : List (List Nat))
deriving DecidableEq, Repr

def maxD (l : List Nat) (dflt : Nat) : Nat :=
  match l with
  | [] => dflt
  | x :: xs => xs.foldl max x

/-- `largest_chunk`: regular chunks are returned as they are, otherwise `max(c, default=1)` per axis. -/
def largestChunk : Chunks → List Nat
  | .regular c => c
  | .rect cs => cs.map (fun c => maxD c 1)

/-- `chunk_memory(arr)` for an array without a `chunkmem` attribute. -/
def chunkMemory (itemsize : Nat) (ch : Chunks) : Nat := arrayMemory itemsize (largestChunk ch)

structure Source where
  itemsize : Nat
  chunks : Chunks
deriving DecidableEq, Repr

/-- `general_blockwise`: projected memory of an unfused blockwise op.  `outs` = (itemsize, chunksize) of
each output; only the largest output chunk is counted. -/
def blockwiseProjected (reserved : Nat) (srcs : List Source) (outs : List (Nat × List Nat)) (extra : Nat)
    (c : BufferCopies) : Nat :=
  projectedMem reserved (srcs.map (fun s => chunkMemory s.itemsize s.chunks)) extra
    (outs.foldl (fun acc o => max acc (arrayMemory o.1 o.2)) 0) c

/-- `create_zarr_arrays`: the largest itemsize (for a fill value) + reserved. -/
def createArraysProjected (reserved : Nat) (itemsizes : List Nat) : Nat := maxD itemsizes 0 + reserved

/-! ## declared extras -/

/-- `partial_reduce`: `x.chunkmem + 2 * array_memory(dtype, to_chunksize(chunks))`. -/
def partialReduceExtra (xChunk reducedChunk : Nat) : Nat := xChunk + 2 * reducedChunk
/-- `_rechunk`: `array_memory(x.dtype, copy_chunks)`. -/
def rechunkExtra (copyChunk : Nat) : Nat := copyChunk
/-- `scan`: `scanned.chunkmem * 2`. -/
def scanExtra (scannedChunk : Nat) : Nat := scannedChunk * 2
/-- `permute_dims`: `x.chunkmem`. -/
def permuteExtra (xChunk : Nat) : Nat := xChunk
/-- `repeat`: `x.chunkmem * repeats`. -/
def repeatExtra (xChunk repeats : Nat) : Nat := xChunk * repeats
/-- `qr` steps: `chunkmem * 4`. -/
def qrExtra (chunk : Nat) : Nat := chunk * 4

/-! ## abstract allocation traces -/

inductive Ev where
  | alloc (n : Nat)
  | free (n : Nat)
deriving DecidableEq, Repr

def Ev.delta : Ev → Int
  | .alloc n => n
  | .free n => -(n : Int)

/-- bytes held after the trace (relative to its start). -/
def net : List Ev → Int
  | [] => 0
  | e :: es => e.delta + net es

/-- highest number of bytes held at any point of the trace (relative to its start; ≥ 0). -/
def peak : List Ev → Int
  | [] => 0
  | e :: es => max 0 (e.delta + peak es)

/-- `get_chunk`: reading one block of `b` bytes goes through `r` storage buffers of the same size
(compressed / fetched bytes) which are dropped once the decoded block exists. -/
def loadBlock (r b : Nat) : List Ev := [.alloc (b * r), .alloc b, .free (b * r)]

/-- one block of a stream argument: loaded, consumed by the kernel, dropped before the next one. -/
def streamBlock (r b : Nat) : List Ev := loadBlock r b ++ [.free b]

/-- What one task of an (unfused) blockwise op does, in bytes.
* `eager`: the blocks of all argument leaves that the key function returns as single keys or inside
  lists — `map_nested` loads them all before the function is called and they stay referenced by
  `fargs` until `get_results_in_different_scope` returns;
* `streams`: for each iterator argument the blocks it yields — loaded lazily, one at a time, while
  the function runs;
* `work`: the function's own working set (temporaries, blocks of a stream it keeps, accumulators);
* `out`: the result block(s) handed to the writer. -/
structure Task where
  eager : List Nat
  streams : List (List Nat)
  work : Nat
  out : Nat
deriving Repr

def taskTrace (c : BufferCopies) (t : Task) : List Ev :=
  t.eager.flatMap (loadBlock c.read)                              -- map_nested(get_chunk, keys): eager leaves
    ++ [.alloc t.work]                                            -- config.function(*args) starts
    ++ t.streams.flatten.flatMap (streamBlock c.read)             -- iterator arguments, one block at a time
    ++ [.alloc t.out, .free t.work]                               -- result exists, temporaries die
    ++ t.eager.map .free                                          -- args go out of scope
    ++ [.alloc (t.out * c.write), .free (t.out * c.write), .free t.out]   -- write_proxy.open()[key] = result

/-- "Every loaded leaf is accounted for by one entry of `inputs` of its own": each element of `blocks`
is matched with a *distinct* entry of `inputs` that is at least as large. -/
inductive Accounts : List Nat → List Nat → Prop where
  | nil (ins : List Nat) : Accounts [] ins
  | cons {b i : Nat} {bs ins : List Nat} : i ∈ ins → b ≤ i → Accounts bs (ins.erase i) → Accounts (b :: bs) ins

/-- every block a stream yields is at most `m`. -/
def StreamBound (bs : List Nat) (m : Nat) : Prop := ∀ b ∈ bs, b ≤ m

/-- one bound per stream argument. -/
inductive StreamsBound : List (List Nat) → List Nat → Prop where
  | nil : StreamsBound [] []
  | cons {bs : List Nat} {m : Nat} {ss : List (List Nat)} {ms : List Nat} :
      StreamBound bs m → StreamsBound ss ms → StreamsBound (bs :: ss) (m :: ms)

/-- smallest entry of `ins` that is at least `b`. -/
def pick (b : Nat) : List Nat → Option Nat
  | [] => none
  | i :: is =>
    match pick b is with
    | none => if b ≤ i then some i else none
    | some j => if b ≤ i ∧ i ≤ j then some i else some j

/-- executable, sufficient test for `Accounts`: match each block with the smallest sufficient remaining
entry (sound — `accountsGreedy_sound`; used by the driver and as the decidable hypothesis of the
`_partial` theorem). -/
def accountsGreedy : List Nat → List Nat → Bool
  | [], _ => true
  | b :: bs, ins =>
    match pick b ins with
    | none => false
    | some i => accountsGreedy bs (ins.erase i)

/-- a block (its extent along every axis is one of the chunk sizes of that axis). -/
inductive BlockOf : List Nat → List (List Nat) → Prop where
  | nil : BlockOf [] []
  | cons {s : Nat} {c : List Nat} {ss : List Nat} {cs : List (List Nat)} :
      s ∈ c → BlockOf ss cs → BlockOf (s :: ss) (c :: cs)

/-! ## fused tasks -/

/-- One predecessor evaluated inside a fused task: its allocation trace (which ends holding exactly its
result), the `projected_mem` and `chunk_memory(target)` that `peak_projected_mem` uses for it. -/
structure PredRun where
  trace : List Ev
  op : POp
deriving Repr

/-- `make_fused_function.fused_func_single`: `func_args = [apply_blockwise_func(a, …) for a in args]`
evaluates the predecessors in order, keeping each result, then calls the function; afterwards the
results go out of scope and the output is written. -/
def fusedTrace (c : BufferCopies) (preds : List PredRun) (work out : Nat) : List Ev :=
  preds.flatMap (·.trace)
    ++ [.alloc work, .alloc out, .free work]
    ++ preds.map (fun p => .free (net p.trace).toNat)
    ++ [.alloc (out * c.write), .free (out * c.write), .free out]

/-- What the code does for an *iterator* argument of a fused op (`apply_blockwise_func` returns a generator):
the function has started — its working set `work` (e.g. the output buffer of `_assemble_index_chunk`) exists —
and each predecessor is evaluated inside it when the iterator is advanced; its result is consumed at once. -/
def lazyFusedTrace (c : BufferCopies) (preds : List PredRun) (work out : Nat) : List Ev :=
  [.alloc work]
    ++ preds.flatMap (fun p => p.trace ++ [.free (net p.trace).toNat])
    ++ [.alloc out, .free work]
    ++ [.alloc (out * c.write), .free (out * c.write), .free out]

end Cubed.Memory
