/-
  Model/TaskStore — the chunk store, tasks as store transformers, schedules; block offsets of random arrays.
  (property C06; core Lean only)

  Python                                                         | here
  ---------------------------------------------------------------+------------------------------------------
  a zarr store: key (`<array>/c/i/j`, `<array>/zarr.json`) ↦ bytes | `Store K V = K → Option V` (absent = `none`)
  one task = the call `pipeline.function(m, config=pipeline.config)`|
    (`SingleThreadedExecutor.execute_dag`, `run_func_threads`,      |
     `run_func_processes` via `unpickle_and_call`)                  | `run t : Store → Store`
  `apply_blockwise` / `get_results_in_different_scope`:             |
     `get_chunk` of every key designated by `back_key_function`     | `t.reads`  (keys whose *values* feed the function)
     `config.function(*fargs.args)`                                 | `t.f (t.reads.map s)` (pure function of the read values;
                                                                    |    may produce "absent": zarr deletes an all-fill chunk)
     `write_proxy.open()[key_to_slices(out_coords)] = result`       | `t.writes` (whole chunks of the op's output arrays)
  `create_zarr_array` : `lazy_zarr_array.create(mode="a")`          | a task with `ifAbsent = true`, `reads = []`:
     (open-or-create, never truncate)                               |    writes its metadata key only when the key is absent
  the tasks of one op (`pipeline.mappable`)                         | `List (Task K V)`
  the individual chunk writes of the tasks of one op                | `splitOp`
  the ops of a plan in `visit_nodes` order                          | `List (List (Task K V))`
  what an executor / retries / backups / the adversarial executor   |
     actually run: per op a shuffled task list with repetitions,    |
     then re-executions of tasks of completed ops                   | `Phase`, `execPhases`
  `cubed.utils.block_id_to_offset` = `np.ravel_multi_index`         | `ravel?`     (row-major, `none` = ValueError)
  `cubed.utils.offset_to_block_id` = `np.unravel_index`             | `unravel?`
  `map_blocks(..., block_id)` : offsets virtual array read at the   |
     out coords, `offset_to_block_id(offset, numblocks)`            | `blockIdOf`
  `cubed.random._random`: `Philox(key=root_seed + block_id_to_offset(block_id, numblocks))` | `philoxKey`
-/
namespace Cubed.TaskStore

/-! ## store and tasks -/

abbrev Store (K V : Type) := K → Option V

structure Task (K V : Type) where
  /-- keys whose stored values are passed to the task's function -/
  reads : List K
  /-- keys the task writes (whole chunks) -/
  writes : List K
  /-- value written at a key, given the values read (in the order of `reads`); `none` = key deleted -/
  f : List (Option V) → K → Option V
  /-- `mode="a"` creation: a key that is already present is left alone -/
  ifAbsent : Bool := false

variable {K V : Type} [DecidableEq K]

/-- the value task `t` leaves at one of the keys it writes, when run on store `s` -/
def Task.val (t : Task K V) (s : Store K V) (k : K) : Option V :=
  if t.ifAbsent && (s k).isSome then s k else t.f (t.reads.map s) k

/-- one execution of a task -/
def run (t : Task K V) (s : Store K V) : Store K V :=
  fun k => if k ∈ t.writes then t.val s k else s k

/-- a sequence of executions -/
def runAll (l : List (Task K V)) (s : Store K V) : Store K V :=
  l.foldl (fun s t => run t s) s

/-! ## hypotheses on one op and on a plan -/

/-- (i) single writer: a key is written by at most one task of the op (C05);
    (ii) no task of the op reads a key that a task of the op writes. -/
structure OpOK (o : List (Task K V)) : Prop where
  single : ∀ t₁ ∈ o, ∀ t₂ ∈ o, ∀ k, k ∈ t₁.writes → k ∈ t₂.writes → t₁ = t₂
  noSelfRead : ∀ t₁ ∈ o, ∀ t₂ ∈ o, ∀ k, k ∈ t₁.reads → k ∉ t₂.writes

/-- (iii) inputs and outputs of an op are final once it ran: no task of a *later* op writes a key that a
    task of an earlier op reads or writes (arrays are written by one op only, producers come first). -/
def Final (a b : List (Task K V)) : Prop :=
  ∀ u ∈ b, ∀ t ∈ a, ∀ k, k ∈ u.writes → k ∉ t.reads ∧ k ∉ t.writes

structure PlanOK (ops : List (List (Task K V))) : Prop where
  ops_ok : ∀ o ∈ ops, OpOK o
  final : ops.Pairwise Final

/-- the single-key writes of one task execution: `apply_blockwise` stores its results one `set` at a time
    (one per output array of a multi-output op), and a backup or retry may overlap with, or stop between, them -/
def Task.split (t : Task K V) : List (Task K V) :=
  t.writes.map (fun k => { t with writes := [k] })

def splitOp (o : List (Task K V)) : List (Task K V) := o.flatMap Task.split

/-- `sched` runs exactly the tasks of `o`: any order, any repetitions, none missing. -/
def Covers (sched o : List (Task K V)) : Prop :=
  (∀ t ∈ sched, t ∈ o) ∧ (∀ t ∈ o, t ∈ sched)

/-- what happens for one op in an adversarial execution: its tasks in some order with repetitions, then
    re-executions of tasks of ops completed so far. -/
structure Phase (K V : Type) where
  op : List (Task K V)
  sched : List (Task K V)
  late : List (Task K V)

def execPhases (ps : List (Phase K V)) : List (Task K V) :=
  ps.flatMap (fun p => p.sched ++ p.late)

/-- validity of the phases that follow the already completed ops `pre` -/
def PhasesOK : List (List (Task K V)) → List (Phase K V) → Prop
  | _, [] => True
  | pre, p :: ps =>
    Covers p.sched p.op ∧ (∀ t ∈ p.late, t ∈ (pre ++ [p.op]).flatten) ∧ PhasesOK (pre ++ [p.op]) ps

/-! ## placement: a task body that could look at process-global state `G` -/

structure PTask (G K V : Type) where
  reads : List K
  writes : List K
  body : G → List (Option V) → K → Option V
  ifAbsent : Bool := false

/-- the task as executed in a process whose global state is `g` -/
def PTask.at {G : Type} (p : PTask G K V) (g : G) : Task K V :=
  { reads := p.reads, writes := p.writes, f := p.body g, ifAbsent := p.ifAbsent }

/-- the task body ignores process-global state -/
def PTask.Pure {G : Type} (p : PTask G K V) : Prop := ∀ g g', p.body g = p.body g'

/-! ## executable store (association list) used by the driver -/

abbrev StoreL (K V : Type) := List (K × V)

def lookupL (l : StoreL K V) (k : K) : Option V :=
  match l with
  | [] => none
  | (k', v) :: r => if k = k' then some v else lookupL r k

def eraseL (l : StoreL K V) (k : K) : StoreL K V := l.filter (fun p => !(p.1 == k))

def setL (l : StoreL K V) (k : K) (v : Option V) : StoreL K V :=
  match v with
  | some v => (k, v) :: eraseL l k
  | none => eraseL l k

def runL (t : Task K V) (l : StoreL K V) : StoreL K V :=
  t.writes.foldl (fun acc k => setL acc k (t.val (lookupL l) k)) l

def runAllL (ts : List (Task K V)) (l : StoreL K V) : StoreL K V :=
  ts.foldl (fun l t => runL t l) l

/-- decidable versions of the hypotheses, on the footprints only (used on observed traces) -/
def disjointB (a b : List K) : Bool := a.all (fun k => !b.contains k)

/-! ## block offsets (random arrays, `map_blocks` block ids) -/

def prod : List Nat → Nat
  | [] => 1
  | n :: ns => n * prod ns

/-- `np.ravel_multi_index(block_id, numblocks)` (C order); `none` where NumPy raises ValueError
    (length mismatch, entry out of range, empty shape). -/
def ravel? : List Nat → List Nat → Option Nat
  | [], [] => some 0
  | i :: is, n :: ns =>
    if i < n then
      match ravel? is ns with
      | some r => some (i * prod ns + r)
      | none => none
    else none
  | _, _ => none

/-- `np.unravel_index(offset, numblocks)`; `none` where NumPy raises (offset ≥ size). -/
def unravel? (off : Nat) : List Nat → Option (List Nat)
  | [] => if off = 0 then some [] else none
  | n :: ns =>
    if off < n * prod ns then
      match unravel? (off % prod ns) ns with
      | some r => some (off / prod ns :: r)
      | none => none
    else none

/-- the block lies in the grid -/
def InGrid : List Nat → List Nat → Prop
  | [], [] => True
  | i :: is, n :: ns => i < n ∧ InGrid is ns
  | _, _ => False

/-- `block_id` handed to a `map_blocks` function for the task at `coords`:
    `offset_to_block_id(int(offsets[coords]), numblocks)` with `offsets = VirtualOffsetsArray(numblocks)`. -/
def blockIdOf (coords nbs : List Nat) : Option (List Nat) :=
  match ravel? coords nbs with
  | some off => unravel? off nbs
  | none => none

/-- stream id of a random block: `block_id_to_offset(block_id, numblocks)`. -/
def streamId (coords nbs : List Nat) : Option Nat :=
  match blockIdOf coords nbs with
  | some b => ravel? b nbs
  | none => none

/-- `Philox(key=root_seed + stream_id)`; NumPy rejects keys ≥ 2^128. -/
def philoxKey (root : Nat) (coords nbs : List Nat) : Option Nat :=
  match streamId coords nbs with
  | some o => if root + o < 2 ^ 128 then some (root + o) else none
  | none => none

/-- integer front ends for the driver: negative entries make NumPy raise. -/
def ravelInt? (ids : List Int) (nbs : List Nat) : Option Nat :=
  if ids.all (fun i => 0 ≤ i) then ravel? (ids.map Int.toNat) nbs else none

def unravelInt? (off : Int) (nbs : List Nat) : Option (List Nat) :=
  if 0 ≤ off then unravel? off.toNat nbs else none

end Cubed.TaskStore
