/-
  Model of the nested key / argument structures of `cubed/primitive/blockwise.py`:

    ChunkKey(name, coords)                      ↦ `CK`
    ChunkKey | list[..] | Iterator[..]          ↦ `Tree.leaf | Tree.list | Tree.iter`
    FunctionArgs(*args, output_name=o)          ↦ `Tree.fargs o args`  (nested), or `FArgs` (top level)
    map_nested / _map_nested_impl               ↦ `Tree.map`

  Core Lean only (no imports) so that drivers can be interpreted quickly.
-/
namespace Cubed

/-- `ChunkKey` : a chunk of a named array addressed by chunk coordinates. -/
structure CK where
  name : String
  coords : List Nat
deriving DecidableEq, Repr, Inhabited

/-- Nested argument structure.  `list` is a Python `list`, `iter` is a Python iterator (a stream of
blocks that is consumed one at a time), `fargs o ts` is a nested `FunctionArgs(*ts, output_name=o)`. -/
inductive Tree (α : Type) where
  | leaf (a : α)
  | list (ts : List (Tree α))
  | iter (ts : List (Tree α))
  | fargs (out : String) (ts : List (Tree α))
deriving Repr, Inhabited

namespace Tree

mutual
/-- `_map_nested_impl`: apply `f` at the leaves, preserving nesting and collection kind. -/
def map {α β : Type} (f : α → β) : Tree α → Tree β
  | .leaf a => .leaf (f a)
  | .list ts => .list (mapL f ts)
  | .iter ts => .iter (mapL f ts)
  | .fargs o ts => .fargs o (mapL f ts)
def mapL {α β : Type} (f : α → β) : List (Tree α) → List (Tree β)
  | [] => []
  | t :: ts => map f t :: mapL f ts
end

mutual
/-- Leaves in left-to-right order. -/
def leaves {α : Type} : Tree α → List α
  | .leaf a => [a]
  | .list ts => leavesL ts
  | .iter ts => leavesL ts
  | .fargs _ ts => leavesL ts
def leavesL {α : Type} : List (Tree α) → List α
  | [] => []
  | t :: ts => leaves t ++ leavesL ts
end

/-- A tree as produced by an *unfused* key function: a single key, a list of keys or a stream of keys
(`ChunkKeyCollection` in the source). -/
def Unfused {α : Type} : Tree α → Prop
  | .leaf _ => True
  | .list ts => ∀ t ∈ ts, ∃ a, t = .leaf a
  | .iter ts => ∀ t ∈ ts, ∃ a, t = .leaf a
  | .fargs _ _ => False

/-- Executable version of `Unfused`. -/
def isLeaf {α : Type} : Tree α → Bool
  | .leaf _ => true
  | _ => false

def unfusedB {α : Type} : Tree α → Bool
  | .leaf _ => true
  | .list ts => ts.all isLeaf
  | .iter ts => ts.all isLeaf
  | .fargs _ _ => false

end Tree

/-- Top-level `FunctionArgs`: output name and positional arguments. -/
structure FArgs (α : Type) where
  out : String
  args : List (Tree α)
deriving Repr, Inhabited

end Cubed
