/-
  Model of blockwise fusion in `cubed/primitive/blockwise.py`:

    BlockwiseSpec (back_key_function, function)            ↦ `BSpec`
    get_results_in_different_scope                         ↦ `evalSpec`
    _apply_blockwise_key_func_to_chunk_key                 ↦ `keyToFArgs`
    apply_blockwise_key_func                               ↦ `fuseKeyArg`
    make_fused_back_key_function                           ↦ `fusedKeyFn`
    apply_blockwise_func                                   ↦ `applyFunc`
    make_fused_function                                    ↦ `fusedFn`
    fuse_blockwise_specs / fuse_multiple                   ↦ `fuseMultiple`
    fuse (legacy pairwise fusion)                          ↦ `fusePair`

  The two dictionaries `predecessor_back_key_functions_dict` / `predecessor_functions_dict` are
  built from the same `writes_map` keys, so they are modelled by one finite map `Preds`
  (`none` = the null spec / array not produced by a fused predecessor).
-/
import CubedModel.Model.KeyTree

namespace Cubed

/-- A blockwise spec: key function and block function.  `V` is the type of a block value, `R` the
type of the function's result (a block, or a tuple/stream of blocks for multi-output ops). -/
structure BSpec (V R : Type) where
  keyfn : CK → FArgs CK
  fn : List (Tree V) → R

/-- Predecessor specs keyed by the name of the array they write. -/
abbrev Preds (V : Type) := String → Option (BSpec V V)

/-- `get_results_in_different_scope`: the key function is called on `ChunkKey("out", coords)`,
every leaf is read from storage (`map_nested(get_chunk, …)`), the function is applied to the args. -/
def evalSpec {V R : Type} (s : BSpec V R) (read : CK → V) (coords : List Nat) : R :=
  s.fn (Tree.mapL read (s.keyfn ⟨"out", coords⟩).args)

/-- `_apply_blockwise_key_func_to_chunk_key`. -/
def keyToFArgs {V : Type} (preds : Preds V) (k : CK) : FArgs CK :=
  match preds k.name with
  | none => ⟨k.name, [.leaf k]⟩
  | some p => p.keyfn k

/-- One element of a list / stream argument: `FunctionArgs(*keyfunc(a).args, output_name=a.name)`.
A non-key element makes the Python code raise `AttributeError`; the model leaves it unchanged and
every theorem carries the `Unfused` hypothesis that excludes it. -/
def relabel {V : Type} (preds : Preds V) : Tree CK → Tree CK
  | .leaf k => .fargs k.name (keyToFArgs preds k).args
  | t => t

/-- `apply_blockwise_key_func`. -/
def fuseKeyArg {V : Type} (preds : Preds V) : Tree CK → Tree CK
  | .leaf k => .fargs (keyToFArgs preds k).out (keyToFArgs preds k).args
  | .list ts => .list (ts.map (relabel preds))
  | .iter ts => .iter (ts.map (relabel preds))
  | .fargs o ts => .fargs o ts

/-- `make_fused_back_key_function`. -/
def fusedKeyFn {V : Type} (keyfn : CK → FArgs CK) (preds : Preds V) (out : CK) : FArgs CK :=
  ⟨(keyfn out).out, (keyfn out).args.map (fuseKeyArg preds)⟩

mutual
/-- `apply_blockwise_func`. -/
def applyFunc {V : Type} (preds : Preds V) : Tree V → Tree V
  | .fargs o args =>
    match preds o with
    | none => (match args with
               | [a] => a              -- `arg.args[0] if len(arg.args) == 1`
               | _ => .list args)      -- `else list(arg.args)`
    | some p => .leaf (p.fn args)
  | .list ts => .list (applyFuncL preds ts)
  | .iter ts => .iter (applyFuncL preds ts)
  | .leaf v => .leaf v
def applyFuncL {V : Type} (preds : Preds V) : List (Tree V) → List (Tree V)
  | [] => []
  | t :: ts => applyFunc preds t :: applyFuncL preds ts
end

/-- `make_fused_function` (the generator variant only differs in `R`). -/
def fusedFn {V R : Type} (fn : List (Tree V) → R) (preds : Preds V) (args : List (Tree V)) : R :=
  fn (applyFuncL preds args)

/-- `fuse_blockwise_specs`. -/
def fuseMultiple {V R : Type} (s : BSpec V R) (preds : Preds V) : BSpec V R :=
  { keyfn := fusedKeyFn s.keyfn preds, fn := fusedFn s.fn preds }

/-- What the unfused successor reads for key `k`: the stored block, or — if `k`'s array is produced by
a predecessor that is being fused away — the block that predecessor would have written. -/
def readThrough {V : Type} (preds : Preds V) (read : CK → V) (k : CK) : V :=
  match preds k.name with
  | some p => evalSpec p read k.coords
  | none => read k

/-- Key functions ignore the name of the out key except to label their result with it
(`output_name=out_key.name`). -/
def NameIndep {V R : Type} (s : BSpec V R) : Prop :=
  ∀ k : CK, (s.keyfn k).out = k.name ∧ (s.keyfn k).args = (s.keyfn ⟨"out", k.coords⟩).args

/-- Legacy pairwise `fuse(op1, op2)`: `key1(key2(out).args[0])`, `f2(f1(*args))`.  `args[0]` must be a
single key; anything else makes the Python code fail inside the task (`none` here). -/
def fusePairKey (k1 k2 : CK → FArgs CK) (out : CK) : Option (FArgs CK) :=
  match (k2 out).args with
  | .leaf k :: _ => some (k1 k)
  | _ => none

end Cubed
