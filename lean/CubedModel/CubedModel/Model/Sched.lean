/-
  Model of cubed's local scheduling layer (C07, C13).  Core Lean only.

  Python                                                         Lean
  ------------------------------------------------------------   -------------------------------------------
  networkx MultiDiGraph of a FinalizedPlan (ops and arrays)       `Dag` (edges, pipeline?, computed?, task counts)
  cubed/runtime/pipeline.py  skip_node                            `Dag.skip`
  cubed/runtime/pipeline.py  visit_nodes                          `visitNodes`, `seqSchedule`
  cubed/runtime/pipeline.py  visit_node_generations               `genSchedule`
  nx.topological_sort / nx.topological_generations (external)     hypotheses `Topo` / `Gens` (checked: `checkGens`)
  cubed/core/plan.py  _create_lazy_zarr_arrays                    hypothesis `CreateFirst` (checked: `checkCreateFirst`)
  SingleThreadedExecutor.execute_dag, async_map_dag (both         transition system `Step` / `Run` over `St`
    modes), pipeline_to_stream + async_map_unordered                (labels openGen / launch / finish / closeGen
    (launching futures, yielding results, draining a stream)        and the store accesses of a running task;
    use_backups: backup submission, failure of one twin)             `backup`, `copyFail`: the input stays pending)
  batch_size, max_workers, the pool's scheduling                  the policy parameter `allow` of `Step`
  handle_operation_start_callbacks / handle_callbacks /           `emit` (emission is a function of the label),
    handle_operation_end_callbacks, FinalizedPlan.execute            `observations`, `events`
  the language of callback event lists                            `GenLang`, `LangGens`, `Lang`
  membership test for observed traces                             `acceptsObs`, `accepts`
  cubed/primitive/blockwise.py  ChunkKeys.__iter__                `product`, `chunkKeys`
  cubed/primitive/blockwise.py  product_from / ChunkKeys.range    `digitsR`, `incr`, `productFrom`, `chunkKeysRange`
  general_blockwise  num_tasks = prod(len(c) for c in chunks)     `numTasks`
  cubed/core/ops.py _store_array (region): num_tasks=              `regionRechunked`, `regionAdvertised` (npartitions) vs
    source.npartitions, output_blocks=OutputBlocksIterable           `regionReal` (blocks of the target met by the region)
  FinalizedPlan._calculate_stats  _num_tasks += op.num_tasks      `planTotal`

  Sequential mode (`visit_nodes`, one op at a time) is the special case of generation mode in which
  every generation is a singleton: `seqSchedule d order = genSchedule d (order.map fun o => [o])`
  (lemma `seqSchedule_eq`), so `openOp o` / `closeOp o` are `openGen [o]` / `closeGen [o]`.
-/
namespace Cubed.Sched

/-! ## DAG, skipping, the two traversals -/

/-- The finalized DAG as far as scheduling is concerned.  Nodes are numbers (ops and arrays alike). -/
structure Dag where
  edges : List (Nat × Nat)
  /-- node has a `pipeline` attribute (an op with a primitive op) -/
  pipeline : Nat → Bool
  /-- node is marked `computed` (resume) -/
  computed : Nat → Bool
  /-- number of elements of `pipeline.mappable` -/
  ntasks : Nat → Nat
  /-- the `create-arrays` node, when the plan has lazy arrays -/
  create : Option Nat

/-- `skip_node`: no pipeline, or marked as already computed. -/
def Dag.skip (d : Dag) (n : Nat) : Bool := !d.pipeline n || d.computed n

/-- `visit_nodes`: the topological order without the skipped nodes. -/
def visitNodes (d : Dag) (order : List Nat) : List Nat := order.filter (fun n => !d.skip n)

/-- `visit_node_generations`: every generation without its skipped nodes; empty ones dropped. -/
def genSchedule (d : Dag) (gens : List (List Nat)) : List (List Nat) :=
  (gens.map (fun g => g.filter (fun n => !d.skip n))).filter (fun g => !g.isEmpty)

/-- Sequential mode: each visited node is its own generation. -/
def seqSchedule (d : Dag) (order : List Nat) : List (List Nat) := (visitNodes d order).map (fun o => [o])

/-- `u` reaches `v` through at least one edge (through array nodes and op nodes alike). -/
inductive Reach (d : Dag) : Nat → Nat → Prop
  | edge {u v} : (u, v) ∈ d.edges → Reach d u v
  | step {u w v} : Reach d u w → (w, v) ∈ d.edges → Reach d u v

/-- What `nx.topological_sort` promises: each node's predecessors come earlier. -/
def Topo (d : Dag) (order : List Nat) : Prop :=
  ∀ pre v post, order = pre ++ v :: post → ∀ u, (u, v) ∈ d.edges → u ∈ pre

/-- What `nx.topological_generations` promises: each node's predecessors are in earlier generations. -/
def Gens (d : Dag) (gens : List (List Nat)) : Prop :=
  ∀ pre g post, gens = pre ++ g :: post → ∀ v ∈ g, ∀ u, (u, v) ∈ d.edges → u ∈ pre.flatten

/-- Executable form of `Gens` (used by the driver on every real DAG). -/
def checkGensFrom (d : Dag) (seen : List Nat) : List (List Nat) → Bool
  | [] => true
  | g :: gs =>
    g.all (fun v => d.edges.all (fun e => e.2 != v || seen.contains e.1)) && checkGensFrom d (seen ++ g) gs

def checkGens (d : Dag) (gens : List (List Nat)) : Bool := checkGensFrom d [] gens

/-- What `_create_lazy_zarr_arrays` establishes: `create-arrays → arrays → n` for every other op with a
pipeline. -/
def CreateFirst (d : Dag) (c : Nat) : Prop :=
  d.create = some c ∧ ∀ n, d.pipeline n = true → n ≠ c → ∃ a, (c, a) ∈ d.edges ∧ (a, n) ∈ d.edges

def checkCreateFirst (d : Dag) (c : Nat) (nodes : List Nat) : Bool :=
  d.create == some c &&
  nodes.all (fun n => !d.pipeline n || n == c ||
    d.edges.any (fun e => e.1 == c && d.edges.contains (e.2, n)))

/-- The property of a schedule everything below rests on: all non-skipped ancestors of an op of a
generation are in earlier generations. -/
def SchedOK (d : Dag) (sched : List (List Nat)) : Prop :=
  ∀ pre g post, sched = pre ++ g :: post → ∀ o ∈ g, ∀ p, Reach d p o → d.skip p = false → p ∈ pre.flatten

/-! ## Transition system -/

structure St where
  /-- generations still to be opened -/
  todo : List (List Nat)
  /-- the generation whose streams are being drained -/
  opened : Option (List Nat)
  /-- generations whose streams have been drained (operation-end sent) -/
  closed : List (List Nat)
  /-- inputs `(op, index into mappable)` of the open generation that have been submitted and not yet
  yielded (with `use_backups` an input may have two copies in flight; it stays here until one succeeds) -/
  running : List (Nat × Nat)
  /-- results yielded by the streams of the open generation -/
  finished : List (Nat × Nat)

def init (sched : List (List Nat)) : St := ⟨sched, none, [], [], []⟩

/-- an idle state between generations -/
def idle (closed todo : List (List Nat)) : St := ⟨todo, none, closed, [], []⟩

def St.complete (s : St) : Prop := s.todo = [] ∧ s.opened = none

inductive Label where
  | openGen (g : List Nat)
  | launch (o t : Nat)
  | finish (o t : Nat)
  | closeGen (g : List Nat)
  /-- task `t` of op `o` reads a chunk of its input array `a` -/
  | read (o t a : Nat)
  /-- task `t` of op `o` writes a chunk of its output array `a` -/
  | write (o t a : Nat)
  /-- task `t` of `create-arrays` creates array `a` -/
  | create (t a : Nat)
  /-- `use_backups`: a second copy (backup task) of the still pending input `t` of `o` is submitted -/
  | backup (o t : Nat)
  /-- one copy of the pending input `t` of `o` fails while its twin is still running: the input stays
  pending (`async_map_unordered`: `if not backup.done() …: continue`) -/
  | copyFail (o t : Nat)

/-- One step.  `allow` is the scheduling policy (batch size, worker count, pool order): it can only
*restrict* launches. -/
inductive Step (d : Dag) (allow : St → Nat → Nat → Bool) : St → Label → St → Prop
  | openGen {s : St} {g : List Nat} {rest : List (List Nat)} :
      s.opened = none → s.todo = g :: rest →
      Step d allow s (.openGen g) { s with todo := rest, opened := some g }
  | launch {s : St} {g : List Nat} {o t : Nat} :
      s.opened = some g → o ∈ g → t < d.ntasks o → (o, t) ∉ s.running → (o, t) ∉ s.finished →
      allow s o t = true →
      Step d allow s (.launch o t) { s with running := (o, t) :: s.running }
  | finish {s : St} {o t : Nat} :
      (o, t) ∈ s.running →
      Step d allow s (.finish o t)
        { s with running := s.running.filter (fun p => p != (o, t)), finished := (o, t) :: s.finished }
  | closeGen {s : St} {g : List Nat} :
      s.opened = some g → s.running = [] → (∀ o ∈ g, ∀ t, t < d.ntasks o → (o, t) ∈ s.finished) →
      Step d allow s (.closeGen g) { s with opened := none, closed := s.closed ++ [g], finished := [] }
  | read {s : St} {o t a : Nat} :
      (o, t) ∈ s.running → (a, o) ∈ d.edges → Step d allow s (.read o t a) s
  | write {s : St} {o t a : Nat} :
      (o, t) ∈ s.running → (o, a) ∈ d.edges → Step d allow s (.write o t a) s
  | create {s : St} {c t a : Nat} :
      d.create = some c → (c, t) ∈ s.running → Step d allow s (.create t a) s
  | backup {s : St} {o t : Nat} :
      (o, t) ∈ s.running → Step d allow s (.backup o t) s
  | copyFail {s : St} {o t : Nat} :
      (o, t) ∈ s.running → Step d allow s (.copyFail o t) s

inductive Run (d : Dag) (allow : St → Nat → Nat → Bool) : St → List Label → St → Prop
  | nil (s : St) : Run d allow s [] s
  | cons {s s' s'' : St} {l : Label} {ls : List Label} :
      Step d allow s l s' → Run d allow s' ls s'' → Run d allow s (l :: ls) s''

/-- The invariant of C07: whenever a task of `o` is running, every non-skipped ancestor of `o` (in
particular every op producing one of its input arrays) is closed. -/
def Safe (d : Dag) (s : St) : Prop :=
  ∀ o t, (o, t) ∈ s.running → ∀ p, Reach d p o → d.skip p = false → p ∈ s.closed.flatten

/-! ## Events and observations -/

inductive Event where
  | computeStart
  | opStart (o : Nat)
  | taskEnd (o : Nat)
  | opEnd (o : Nat)
  | computeEnd
deriving DecidableEq, Repr

/-- What an observer (recording callback + tracing store) sees. -/
inductive Obs where
  | ev (e : Event)
  | create (a : Nat)
  | write (a : Nat)
  | read (a : Nat)
deriving DecidableEq, Repr

def emit : Label → List Obs
  | .openGen g => g.map (fun o => .ev (.opStart o))
  | .launch _ _ => []
  | .finish o _ => [.ev (.taskEnd o)]
  | .closeGen g => g.map (fun o => .ev (.opEnd o))
  | .read _ _ a => [.read a]
  | .write _ _ a => [.write a]
  | .create _ a => [.create a]
  | .backup _ _ => []
  | .copyFail _ _ => []

def obsBody (ls : List Label) : List Obs := ls.flatMap emit

/-- `FinalizedPlan.execute` brackets the executor's run with compute start / end. -/
def observations (ls : List Label) : List Obs := .ev .computeStart :: obsBody ls ++ [.ev .computeEnd]

def evOf : Obs → Option Event
  | .ev e => some e
  | _ => none

def evBody (ls : List Label) : List Event := (obsBody ls).filterMap evOf

/-- The list of callback events of a run. -/
def events (ls : List Label) : List Event := (observations ls).filterMap evOf

/-- Events of one generation: all operation starts, the task ends of its ops interleaved in any order
(each op exactly `ntasks` times), all operation ends. -/
def GenLang (d : Dag) (g : List Nat) (b : List Event) : Prop :=
  ∃ ws : List Nat, b = g.map .opStart ++ ws.map .taskEnd ++ g.map .opEnd ∧
    (∀ w ∈ ws, w ∈ g) ∧ ∀ o ∈ g, ws.count o = d.ntasks o

def LangGens (d : Dag) : List (List Nat) → List Event → Prop
  | [], tr => tr = []
  | g :: gs, tr => ∃ b rest, GenLang d g b ∧ LangGens d gs rest ∧ tr = b ++ rest

/-- `computeStart · (opStart* · taskEnd^n (interleaved) · opEnd*)* · computeEnd`; for singleton
generations this is `computeStart · (opStart · taskEnd^n · opEnd)* · computeEnd`. -/
def Lang (d : Dag) (sched : List (List Nat)) (tr : List Event) : Prop :=
  ∃ body, LangGens d sched body ∧ tr = .computeStart :: body ++ [.computeEnd]

/-! ## Executable membership test -/

def stripPrefix {α : Type} [DecidableEq α] : List α → List α → Option (List α)
  | [], r => some r
  | _ :: _, [] => none
  | x :: xs, y :: ys => if x = y then stripPrefix xs ys else none

/-- Consume task ends and store accesses of the open generation `g`; `fin` lists the ops of the task
ends seen so far.  An access must be attributable to an op of `g` that is adjacent to the array in the
right direction and still has a task that has not ended. -/
def acceptMid (d : Dag) (g : List Nat) (fin : List Nat) : List Obs → Option (List Nat × List Obs)
  | .ev (.taskEnd o) :: r =>
    if g.contains o && decide (fin.count o < d.ntasks o) then acceptMid d g (o :: fin) r else none
  | .read a :: r =>
    if g.any (fun o => d.edges.contains (a, o) && decide (fin.count o < d.ntasks o)) then acceptMid d g fin r else none
  | .write a :: r =>
    if g.any (fun o => d.edges.contains (o, a) && decide (fin.count o < d.ntasks o)) then acceptMid d g fin r else none
  | .create _ :: r =>
    (match d.create with
     | some c => if g.contains c && decide (fin.count c < d.ntasks c) then acceptMid d g fin r else none
     | none => none)
  | r => some (fin, r)

def acceptGen (d : Dag) (g : List Nat) (r : List Obs) : Option (List Obs) :=
  match stripPrefix (g.map (fun o => Obs.ev (.opStart o))) r with
  | none => none
  | some r1 =>
    match acceptMid d g [] r1 with
    | none => none
    | some (fin, r2) =>
      if g.all (fun o => fin.count o == d.ntasks o) then
        stripPrefix (g.map (fun o => Obs.ev (.opEnd o))) r2
      else none

def acceptGens (d : Dag) : List (List Nat) → List Obs → Option (List Obs)
  | [], r => some r
  | g :: gs, r =>
    match acceptGen d g r with
    | some r' => acceptGens d gs r'
    | none => none

/-- Is the observed sequence (callback events and store accesses, in log order) a run of the model? -/
def acceptsObs (d : Dag) (sched : List (List Nat)) : List Obs → Bool
  | .ev .computeStart :: r =>
    (match acceptGens d sched r with
     | some [.ev .computeEnd] => true
     | _ => false)
  | _ => false

/-- Is the observed callback event list a run of the model? -/
def accepts (d : Dag) (sched : List (List Nat)) (tr : List Event) : Bool :=
  acceptsObs d sched (tr.map .ev)

/-! ## Task enumeration (`ChunkKeys`, `product_from`) and counts -/

/-- `itertools.product(*pools)` -/
def product {α : Type} : List (List α) → List (List α)
  | [] => [[]]
  | p :: ps => p.flatMap (fun x => (product ps).map (fun t => x :: t))

/-- `ChunkKeys(chunks).__iter__` for a grid with `nb[i]` blocks along axis `i`. -/
def chunkKeys (nb : List Nat) : List (List Nat) := product (nb.map List.range)

/-- `math.prod(len(c) for c in chunks_normal)` -/
def numTasks (nb : List Nat) : Nat := nb.foldr (· * ·) 1

/-- The mixed-radix loop of `product_from` (`for k in range(len(pools)-1, -1, -1): indices[k] =
remainder % len(pools[k]); remainder //= len(pools[k])`): digits and the remaining quotient. -/
def digitsR : List Nat → Nat → List Nat × Nat
  | [], r => ([], r)
  | l :: ls, r =>
    let dq := digitsR ls r
    ((dq.2 % l) :: dq.1, dq.2 / l)

/-- One round of the `while True` loop of `product_from`: the rightmost index that can be incremented
is incremented and everything to its right reset; `none` when the `for … else: return` is reached. -/
def incr : List Nat → List Nat → Option (List Nat)
  | l :: ls, i :: is =>
    match incr ls is with
    | some is' => some (i :: is')
    | none => if i < l - 1 then some ((i + 1) :: is.map (fun _ => 0)) else none
  | _, _ => none

/-- the generator loop, `fuel` bounding the number of further yields -/
def iterFrom (lens : List Nat) : Nat → List Nat → List (List Nat)
  | 0, idx => [idx]
  | fuel + 1, idx =>
    idx :: (match incr lens idx with
            | some idx' => iterFrom lens fuel idx'
            | none => [])

/-- `product_from(*[range(l) for l in lens], start=start)` -/
def productFrom (lens : List Nat) (start : Nat) : List (List Nat) :=
  if lens.isEmpty || lens.any (· == 0) then []
  else if start ≥ numTasks lens then []
  else iterFrom lens (numTasks lens) (digitsR lens start).1

/-- `ChunkKeys.range(start, stop)` (`islice(product_from(…), stop - start)`). -/
def chunkKeysRange (nb : List Nat) (start : Nat) (stop : Option Nat) : List (List Nat) :=
  match stop with
  | none => productFrom nb start
  | some stop => (productFrom nb start).take (stop - start)

/-- blocks of an axis of length `len` cut into chunks of `c` (`npartitions` is the product over axes) -/
def axisBlocks (len c : Nat) : Nat := (len + c - 1) / c

/-- target blocks of chunk size `tc` met by the slice `[start, stop)` — what `_create_zarr_indexer`
enumerates along one axis (the task iterable of a region store) -/
def regionAxisBlocks (start stop tc : Nat) : Nat := (stop + tc - 1) / tc - start / tc

/-- `source.npartitions` for a source chunked `sc` along each axis; axes are
`(start, stop, source chunk, target chunk)`.  This is what `_store_array` advertised before the fix
(repository commit ba97b91) — kept to document what the fix repaired. -/
def regionAdvertisedOld (axes : List (Nat × Nat × Nat × Nat)) : Nat :=
  numTasks (axes.map fun a => axisBlocks (a.2.1 - a.1) a.2.2.1)

/-- `_store_array` (region), after ba97b91: `region_chunksize = to_chunksize(normalize_chunks(target
chunks, source.shape))` is `min tc len` per axis; `if array_size(source.shape) > 0 and
source.chunksize != region_chunksize: source = source.rechunk(region_chunksize)`. -/
def regionRechunked (axes : List (Nat × Nat × Nat × Nat)) : List (Nat × Nat × Nat × Nat) :=
  let empty := axes.any (fun a => a.2.1 - a.1 == 0)
  let have_ := axes.map (fun a => min a.2.2.1 (a.2.1 - a.1))
  let want := axes.map (fun a => min a.2.2.2 (a.2.1 - a.1))
  if !empty && have_ != want then
    axes.map (fun a => (a.1, a.2.1, min a.2.2.2 (a.2.1 - a.1), a.2.2.2))
  else axes

/-- advertised `num_tasks = source.npartitions`, taken after the inserted rechunk -/
def regionAdvertised (axes : List (Nat × Nat × Nat × Nat)) : Nat :=
  regionAdvertisedOld (regionRechunked axes)

/-- … and the number of tasks actually in the iterable (`OutputBlocksIterable`) -/
def regionReal (axes : List (Nat × Nat × Nat × Nat)) : Nat :=
  numTasks (axes.map fun a => regionAxisBlocks a.1 a.2.1 a.2.2.2)

/-- `FinalizedPlan._calculate_stats`: the sum of the advertised counts of the ops. -/
def planTotal (counts : List Nat) : Nat := counts.foldr (· + ·) 0

end Cubed.Sched
