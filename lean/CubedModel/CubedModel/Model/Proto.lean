/-
  Line-protocol helpers shared by the drivers (`drivers/*.lean`): the harness writes one request per
  line, the driver answers with one canonical line.  Not part of any proof.
-/
import CubedModel.Model.KeyTree

namespace Cubed.Proto

def parseNat? (s : String) : Option Nat := s.trimAscii.toString.toNat?

/-- "1,2,3" ↦ [1,2,3]; "" or "-" ↦ []. -/
def parseNats (s : String) : List Nat :=
  let s := s.trimAscii.toString
  if s.isEmpty || s == "-" then [] else (s.splitOn ",").filterMap parseNat?

def parseInt? (s : String) : Option Int := s.trimAscii.toString.toInt?

def parseInts (s : String) : List Int :=
  let s := s.trimAscii.toString
  if s.isEmpty || s == "-" then [] else (s.splitOn ",").filterMap parseInt?

def showNats (l : List Nat) : String := ",".intercalate (l.map toString)
def showInts (l : List Int) : String := ",".intercalate (l.map toString)

def showCK (k : CK) : String := s!"K:{k.name}:{showNats k.coords}"

mutual
/-- Canonical rendering of a key tree, identical to `harness/treeproto.py:show_tree`. -/
partial def showTree (t : Tree CK) : String :=
  match t with
  | .leaf k => showCK k
  | .list ts => "(L " ++ showTrees ts ++ ")"
  | .iter ts => "(I " ++ showTrees ts ++ ")"
  | .fargs o ts => "(F:" ++ o ++ " " ++ showTrees ts ++ ")"
partial def showTrees (ts : List (Tree CK)) : String :=
  " ".intercalate (ts.map showTree)
end

def showFArgs (fa : FArgs CK) : String := "(F:" ++ fa.out ++ " " ++ showTrees fa.args ++ ")"

/-- Parse one tree from a token list; returns the tree and the remaining tokens. -/
partial def parseTree (toks : List String) : Option (Tree CK × List String) :=
  match toks with
  | [] => none
  | t :: rest =>
    if t.startsWith "K:" then
      match t.splitOn ":" with
      | [_, name, cs] => some (.leaf ⟨name, parseNats cs⟩, rest)
      | [_, name] => some (.leaf ⟨name, []⟩, rest)
      | _ => none
    else if t == "(L" then
      (parseMany rest []).map (fun (ts, r) => (.list ts, r))
    else if t == "(I" then
      (parseMany rest []).map (fun (ts, r) => (.iter ts, r))
    else if t.startsWith "(F:" then
      (parseMany rest []).map (fun (ts, r) => (.fargs (t.drop 3).toString ts, r))
    else none
where
  parseMany (toks : List String) (acc : List (Tree CK)) : Option (List (Tree CK) × List String) :=
    match toks with
    | [] => none
    | ")" :: rest => some (acc, rest)
    | _ =>
      match parseTree toks with
      | some (t, rest) => parseMany rest (acc ++ [t])
      | none => none

def tokens (s : String) : List String :=
  ((s.replace ")" " ) ").splitOn " ").filter (fun t => !t.isEmpty)

def parseFArgs (s : String) : Option (FArgs CK) :=
  match parseTree (tokens s) with
  | some (.fargs o ts, []) => some ⟨o, ts⟩
  | _ => none

/-- Read stdin line by line, answer each with `handle`. -/
partial def loop (h : IO.FS.Stream) (handle : String → String) : IO Unit := do
  let line ← h.getLine
  if line.isEmpty then return ()
  let l := line.trimAscii.toString
  if l.isEmpty then IO.println "" else IO.println (handle l)
  loop h handle

def runDriver (handle : String → String) : IO Unit := do
  let stdin ← IO.getStdin
  loop stdin handle

end Cubed.Proto
