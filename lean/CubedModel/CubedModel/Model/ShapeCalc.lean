/-
  ShapeCalc — the shape / chunk calculus of cubed (property C12): for every modelled operation
    * `…Chunkss`   : the chunks the operation computes for its output (the `chunkss=[…]` handed to
                     `general_blockwise` / the `chunks` of `blockwise`), mirroring the code's derivation;
    * `declared`   : what `Array.chunks` then reports and what the write regions are cut from:
                     `normalize_chunks(to_chunksize(chunkss), shape)` (`arrChunks`);
    * `…Block`     : the shape of the block the operation's function returns for given out coordinates,
                     from the shapes of the input blocks at the designated keys and the shape behaviour
                     of the block function.
  The property theorems (Properties/C12.lean) say `…Block coords = extents declared coords`.

  Python                                                         Lean
  ------------------------------------------------------------   ---------------------------------
  vendor/dask/array/core.py blockdims_from_blockshape            regGrid
  vendor/dask/array/core.py _check_regular_chunks                regularAxis (allButLastEq, lastOr)
  Python `set(...)` of block dimensions                          dedup
  utils.py to_chunksize                                          toChunksize1 / toChunksize
  utils.py normalize_chunks (int chunk sizes against a shape)    regGrid (per axis)
  core/array.py CoreArray.__init__ (chunks from the zarr array)  arrChunks
  core/array.py chunksize                                        chunkSize
  utils.py get_item                                              getItem ; regionExtents
  primitive/blockwise.py key_to_slices (write region)            regionExtents ∘ arrChunks
  NumPy broadcasting of two lengths / many lengths               bcast2 / bcastAll
  core/ops.py blockwise (chunkss, adjust_chunks, new_axes)       Bw, labelChunks, pickMost, bwChunkss
  core/ops.py unify_chunks + smallest_blockdim,
     vendor/dask/blockwise.py broadcast_dimensions               unifyPick, smallestBlockdim
  primitive/blockwise.py key function (block coordinate of an
     argument: out coordinate, or 0 when it has one block)       argBlockShape, labelBlockLen
  core/ops.py _map_blocks (drop_axis/new_axis/chunks)            MapBlocks, mapBlocksToBw
  core/ops.py arg_reduction / nanarg_reduction (first stage)      argMapMB
  core/ops.py squeeze / manipulation_functions expand_dims,
     permute_dims                                                squeezeMB, expandDimsMB, permuteBw
  core/ops.py partial_reduce / _partial_reduce                   PartialReduce, PRKind, prAxisChunks, prChunkss,
                                                                 prAxisLen, prAxisBlock, prBlock
  core/ops.py tree_reduce (levels)                               treeLevels
  manipulation_functions.py concat / _read_concat_chunk          Concat, concatChunkss, concatBlock, arraySlices
  manipulation_functions.py stack / _read_stack_chunk            stackChunkss, stackBlock
  manipulation_functions.py unstack / _unstack_chunk             unstackChunkss, unstackBlock
  manipulation_functions.py repeat / _repeat                     repeatChunkss, repeatAxisBlock, repeatBlock
  manipulation_functions.py _array_slices                        arraySlices
  core/ops.py _rechunk, merge_chunks, map_selection /
     _assemble_index_chunk (zarr indexer shape of a slice)       copyChunkss, copyAxisBlock, copyBlock, selLen, mergeOk
  core/indexing.py index / _target_chunk_selection               Sel, indexChunkLen, indexChunkss, indexAxisBlock, indexBlock
  key function of squeeze (block 0 on the dropped axes)          unsqueezeCoords
  core/indexing.py BlockView.__getitem__                          blocksChunkss, blocksBlock
  array_api/linalg.py _qr_first_step / _qr_second_step /
     _qr_third_step, numpy.linalg.qr (reduced)                   qrShapes, qr1Chunkss, qr1Block, qr2…, qr3…
  core/ops.py reduction (shape of the result)                    reducedShape
-/
namespace Cubed.ShapeCalc

abbrev Chunks := List (List Nat)

def shapeOf (cs : Chunks) : List Nat := cs.map List.sum
def numBlocks (cs : Chunks) : List Nat := cs.map List.length

/-- `CoreArray.chunksize`: `max(c)` per axis. -/
def maxOf (c : List Nat) : Nat := c.foldl max 0
def chunkSize (cs : Chunks) : List Nat := cs.map maxOf

def ceilDiv (a b : Nat) : Nat := (a + b - 1) / b

/-- cons of two optional results (defined when both are). -/
def consOpt {α : Type} (a : Option α) (b : Option (List α)) : Option (List α) :=
  match a, b with
  | some x, some xs => some (x :: xs)
  | _, _ => none

/-- `Option` sequencing of a list (all entries defined). -/
def allSome {α : Type} : List (Option α) → Option (List α)
  | [] => some []
  | x :: xs => consOpt x (allSome xs)

/-- `f i x` over a list, `i` counting from `k`. -/
def mapIdxFrom {α β : Type} (f : Nat → α → β) : Nat → List α → List β
  | _, [] => []
  | k, x :: xs => f k x :: mapIdxFrom f (k + 1) xs

/-- the distinct elements in order of first appearance (a Python `set` built from the list). -/
def dedupAux {α : Type} [BEq α] (seen : List α) : List α → List α
  | [] => []
  | x :: xs => if seen.contains x then dedupAux seen xs else x :: dedupAux (x :: seen) xs

def dedup {α : Type} [BEq α] (l : List α) : List α := dedupAux [] l

/-! ## regular grids -/

/-- `blockdims_from_blockshape((n,), (c,))`: the chunk lengths of a regular grid with chunk size `c`
over an axis of length `n` (`(0,)` for an empty axis). -/
def regGrid (c n : Nat) : List Nat :=
  if n = 0 then [0] else List.replicate (n / c) c ++ (if n % c = 0 then [] else [n % c])

/-- last element of a list, `d` when it is empty (`chunks[-1]`). -/
def lastOr : List Nat → Nat → Nat
  | [], d => d
  | x :: xs, _ => lastOr xs x

/-- `len(set(chunks[:-1])) <= 1`: every entry but the last equals `a`. -/
def allButLastEq (a : Nat) : List Nat → Bool
  | [] => true
  | [_] => true
  | x :: y :: l => x == a && allButLastEq a (y :: l)

/-- `_check_regular_chunks` for one axis (an empty tuple is rejected by `normalize_chunks`). -/
def regularAxis : List Nat → Bool
  | [] => false
  | a :: rest => allButLastEq a (a :: rest) && decide (lastOr rest a ≤ a)

/-- `to_chunksize` for one axis: `max(c[0], 1)`; `none` = "Array must have regular chunks". -/
def toChunksize1 (l : List Nat) : Option Nat :=
  if regularAxis l then
    match l with
    | a :: _ => some (max a 1)
    | [] => none
  else none

def toChunksize (d : Chunks) : Option (List Nat) := allSome (d.map toChunksize1)

/-- What `Array.chunks` reports for an op that asked for chunks `d` (and the grid the write regions
are cut from): `normalize_chunks(to_chunksize(d), shape)` with `shape = map sum d`. -/
def arrChunks (d : Chunks) : Option Chunks :=
  allSome (d.map (fun l => (toChunksize1 l).map (fun c => regGrid c l.sum)))

/-- Extent of the chunk at `coords` (one entry per axis); `none` outside the grid. -/
def extents : Chunks → List Nat → Option (List Nat)
  | [], [] => some []
  | c :: cs, i :: is => consOpt c[i]? (extents cs is)
  | _, _ => none

/-- `utils.get_item`: the (start, stop) pairs of the chunk at `coords`. -/
def getItem : Chunks → List Nat → Option (List (Nat × Nat))
  | [], [] => some []
  | c :: cs, i :: is =>
    if i < c.length then
      (getItem cs is).map (fun r => ((c.take i).sum, (c.take (i + 1)).sum) :: r)
    else none
  | _, _ => none

def regionExtents (cs : Chunks) (coords : List Nat) : Option (List Nat) :=
  (getItem cs coords).map (fun r => r.map (fun p => p.2 - p.1))

/-! ## NumPy broadcasting of lengths -/

def bcast2 (a b : Nat) : Option Nat :=
  if a = b then some a else if a = 1 then some b else if b = 1 then some a else none

def bcastAll (l : List Nat) : Option Nat :=
  l.foldl (fun acc x => acc.bind (fun a => bcast2 a x)) (some 1)

/-- `np.broadcast_shapes` of right-aligned shapes given as reversed lists (innermost axis first). -/
def bcastShapesRev : List (List Nat) → Option (List Nat)
  | [] => some []
  | shapes =>
    let n := (shapes.map List.length).foldl max 0
    allSome ((List.range n).map (fun k => bcastAll (shapes.filterMap (fun s => s[k]?))))

def broadcastShapes (shapes : List (List Nat)) : Option (List Nat) :=
  (bcastShapesRev (shapes.map List.reverse)).map List.reverse

/-! ## blockwise (index notation) -/

structure BwArg where
  chunks : Chunks
  ind : List Nat
deriving Repr, Inhabited

/-- the three accepted forms of an `adjust_chunks` value (`callable` only as `lambda c: 1`). -/
inductive Adjust where
  | const (k : Nat)
  | list (l : List Nat)
  | toOne
deriving Repr, Inhabited

structure Bw where
  outInd : List Nat
  /-- the arrays the op really reads (after `unify_chunks` when `align`), with their index labels -/
  args : List BwArg
  adjust : List (Nat × Adjust) := []
  newAxes : List (Nat × List Nat) := []
  align : Bool := true
deriving Repr, Inhabited

/-- chunk tuples of every (argument, axis) carrying label `i` (`zip(arg_chunks, ind)`). -/
def labelChunks (args : List BwArg) (i : Nat) : List (List Nat) :=
  args.flatMap (fun a => (a.chunks.zip a.ind).filterMap (fun p => if p.2 = i then some p.1 else none))

/-- `align_arrays=False`: the first chunking with the most blocks. -/
def pickMost : List (List Nat) → Option (List Nat)
  | [] => none
  | c :: cs => some (cs.foldl (fun best x => if x.length > best.length then x else best) c)

def headOr0 (l : List Nat) : Nat := match l with | [] => 0 | a :: _ => a

/-- `smallest_blockdim`. -/
def smallestBlockdim (S : List (List Nat)) : Option (List Nat) :=
  match dedup (S.filter (fun d => d.length > 1)) with
  | [d] => some d
  | [] =>
    match S with
    | [] => none
    | d :: ds => some (ds.foldl (fun best x => if headOr0 x > headOr0 best then x else best) d)
  | d :: ds =>
    if (dedup ((d :: ds).map List.sum)).length > 1 then none
    else some (ds.foldl (fun best x => if headOr0 x < headOr0 best then x else best) d)

/-- `broadcast_dimensions(…, consolidate=smallest_blockdim)` for one label: the set of block
dimensions, `(1,)` removed when there is more than one, consolidated. -/
def unifyPick (L : List (List Nat)) : Option (List Nat) :=
  let S := dedup L
  let S' := if S.length > 1 then S.filter (fun d => d != [1]) else S
  smallestBlockdim S'

def labelDim (b : Bw) (i : Nat) : Option (List Nat) :=
  match b.newAxes.lookup i with
  | some v => some v
  | none => if b.align then unifyPick (labelChunks b.args i) else pickMost (labelChunks b.args i)

def applyAdjust (a : Option Adjust) (c : List Nat) : Option (List Nat) :=
  match a with
  | none => some c
  | some (.const k) => some (c.map (fun _ => k))
  | some .toOne => some (c.map (fun _ => 1))
  | some (.list l) => if l.length = c.length then some l else none

/-- `blockwise`: `chunks = [chunkss[i] for i in out_ind]` after `adjust_chunks`. -/
def bwChunkss (b : Bw) : Option Chunks :=
  allSome (b.outInd.map (fun i => (labelDim b i).bind (applyAdjust (b.adjust.lookup i))))

/-- position of the last occurrence of label `i` in `l`. -/
def lastIdx (i : Nat) : List Nat → Option Nat
  | [] => none
  | x :: xs =>
    match lastIdx i xs with
    | some p => some (p + 1)
    | none => if x = i then some 0 else none

/-- Block of argument `a` read for out coordinates `coords`: along an axis with one block, block 0;
otherwise the out coordinate at the position of the axis' label. -/
def argBlockShape (outInd : List Nat) (a : BwArg) (coords : List Nat) : Option (List Nat) :=
  allSome ((a.chunks.zip a.ind).map (fun p =>
    if p.1.length > 1 then
      match lastIdx p.2 outInd with
      | some k => (coords[k]?).bind (fun c => p.1[c]?)
      | none => none
    else p.1[0]?))

/-- Length along label `i` of the result of an index-faithful block function (elementwise with
broadcasting, transposition): NumPy broadcast of the argument blocks' lengths on that label. -/
def labelBlockLen (args : List BwArg) (i c : Nat) : Option Nat :=
  (allSome ((labelChunks args i).map (fun ch => if ch.length > 1 then ch[c]? else ch[0]?))).bind bcastAll

def bwBlockFaithful (b : Bw) (coords : List Nat) : Option (List Nat) :=
  if coords.length = b.outInd.length then
    allSome ((b.outInd.zip coords).map (fun p => labelBlockLen b.args p.1 p.2))
  else none

/-! ## structural axis helpers (shared by chunk derivations and block functions) -/

/-- drop the entries whose position (counted from `k`) is in `axes`. -/
def removeAxesFrom {α : Type} (axes : List Nat) : Nat → List α → List α
  | _, [] => []
  | k, x :: xs =>
    if axes.contains k then removeAxesFrom axes (k + 1) xs else x :: removeAxesFrom axes (k + 1) xs

def removeAxes {α : Type} (axes : List Nat) (l : List α) : List α := removeAxesFrom axes 0 l

/-- `tuple(v if i in axes else next(it) for i in range(n))` (positions counted from `k`, `n` = fuel). -/
def expandAxesFrom {α : Type} (axes : List Nat) (v : α) : Nat → Nat → List α → List α
  | 0, _, _ => []
  | f + 1, k, l =>
    if axes.contains k then v :: expandAxesFrom axes v f (k + 1) l
    else
      match l with
      | [] => []
      | x :: xs => x :: expandAxesFrom axes v f (k + 1) xs

def expandAxes {α : Type} (axes : List Nat) (v : α) (l : List α) : List α :=
  expandAxesFrom axes v (l.length + axes.length) 0 l

/-- coordinates of the input block read for out coordinates `coords`: 0 on the squeezed axes. -/
def unsqueezeCoords (axes : List Nat) : Nat → Chunks → List Nat → List Nat
  | _, [], _ => []
  | k, _ :: xs, cs =>
    if axes.contains k then 0 :: unsqueezeCoords axes (k + 1) xs cs
    else
      match cs with
      | c :: cs' => c :: unsqueezeCoords axes (k + 1) xs cs'
      | [] => []

/-- Python `list.insert(ax, n)`. -/
def pyInsert {α : Type} (l : List α) (ax : Nat) (v : α) : List α := l.take ax ++ v :: l.drop ax

/-! ## map_blocks -/

inductive ChunkSpec where
  | int (k : Nat)
  | tup (l : List Nat)
deriving Repr, Inhabited

structure MapBlocks where
  args : List Chunks
  chunks : Option (List ChunkSpec) := none
  dropAxis : List Int := []
  newAxis : Option (List Nat) := none
deriving Repr, Inhabited

def revRange (n : Nat) : List Nat := (List.range n).reverse

def specToAdjust : ChunkSpec → Adjust
  | .int k => .const k
  | .tup l => .list l

def specToNew : ChunkSpec → List Nat
  | .int k => [k]
  | .tup l => l

def insertNew (chunks : Option (List ChunkSpec)) (nDrop : Nat) :
    List Nat → List Nat → List (Nat × List Nat) → Option (List Nat × List (Nat × List Nat))
  | [], out, na => some (out, na)
  | ax :: rest, out, na =>
    let n := out.length + nDrop
    let v : Option (List Nat) :=
      match chunks with
      | some cs => (cs[ax]?).map specToNew
      | none => some [1]
    match v with
    | some v => insertNew chunks nDrop rest (pyInsert out ax n) (na ++ [(n, v)])
    | none => none

/-- `_map_blocks`: the `blockwise` call it makes (`none` = one of its ValueErrors / an IndexError). -/
def mapBlocksToBw (m : MapBlocks) : Option Bw :=
  let nd := (m.args.map List.length).foldl max 0
  let out0 := revRange nd
  if m.dropAxis.any (fun i => i < -(nd : Int) || i ≥ (nd : Int)) then none else
  let drop : List Nat := m.dropAxis.map (fun i => (i % (nd : Int)).toNat)
  let out1 := if m.dropAxis.isEmpty then out0 else removeAxes drop out0
  let newAxis : Option (List Nat) :=
    match m.newAxis, m.chunks with
    | none, some cs => if out1.length < cs.length then some (List.range (cs.length - out1.length)) else none
    | na, _ => na
  let step : Option (List Nat × List (Nat × List Nat)) :=
    match newAxis with
    | some na =>
      if na.isEmpty then some (out1, []) else
      match insertNew m.chunks drop.length (na.mergeSort (fun a b => decide (a ≤ b))) out1 [] with
      | some (o, nx) => if na.foldl max 0 > o.foldl max 0 then none else some (o, nx)
      | none => none
    | none => some (out1, [])
  match step with
  | none => none
  | some (out, newAxes) =>
    let adjust : Option (List (Nat × Adjust)) :=
      match m.chunks with
      | some cs => if cs.length ≠ out.length then none else some (out.zip (cs.map specToAdjust))
      | none => some []
    match adjust with
    | none => none
    | some adj =>
      some { outInd := out, args := m.args.map (fun c => ⟨c, revRange c.length⟩),
             adjust := adj, newAxes := newAxes, align := false }

/-- shape behaviour of the block functions passed to `map_blocks` / `blockwise`. -/
inductive BlockFn where
  | same                          -- index-faithful: elementwise (broadcasting) or transposing
  | squeeze (axes : List Nat)     -- `nxp.squeeze(a, axis=axes)`
  | expandDims (axes : List Nat)  -- `nxp.expand_dims(a, axis=axes)` (positions in the result)
  | setAxis (axis len : Nat)      -- keepdims reduction of one axis inside the block (`_arg_map_func`)
deriving Repr, Inhabited

def squeezeShape (axes : List Nat) (s : List Nat) : Option (List Nat) :=
  if (List.range s.length).all (fun k => !axes.contains k || s[k]? == some 1) then some (removeAxes axes s)
  else none

def bwBlock (b : Bw) (f : BlockFn) (coords : List Nat) : Option (List Nat) :=
  match f with
  | .same => bwBlockFaithful b coords
  | .squeeze axes =>
    match b.args with
    | a :: _ => (argBlockShape b.outInd a coords).bind (squeezeShape axes)
    | [] => none
  | .expandDims axes =>
    match b.args with
    | a :: _ => (argBlockShape b.outInd a coords).map (expandAxes axes 1)
    | [] => none
  | .setAxis axis len =>
    match b.args with
    | a :: _ => (argBlockShape b.outInd a coords).map (fun s => s.set axis len)
    | [] => none

/-- `squeeze(x, axis)`: `map_blocks(nxp.squeeze, x, chunks=<x.chunks without axis>, drop_axis=axis)`. -/
def squeezeMB (x : Chunks) (axes : List Nat) : MapBlocks :=
  { args := [x], chunks := some ((removeAxes axes x).map .tup), dropAxis := axes.map Int.ofNat }

/-- `expand_dims(x, axis)`: `chunks = tuple(1 if i in axis else next(chunks_it) …)`, `new_axis=axis`. -/
def expandDimsMB (x : Chunks) (axes : List Nat) : MapBlocks :=
  { args := [x], chunks := some (expandAxes axes (.int 1) (x.map .tup)), newAxis := some axes }

/-- `permute_dims(x, axes)`: `blockwise(nxp.permute_dims, axes, x, range(ndim))`. -/
def permuteBw (x : Chunks) (axes : List Nat) : Bw :=
  { outInd := axes, args := [⟨x, List.range x.length⟩] }

/-- first stage of `arg_reduction` / `nanarg_reduction` (repaired: the axis is normalised with `validate_axis`
first; `none` = axis out of range): `map_blocks(_arg_map_func, x, chunks=<x.chunks with (1,)*nb on axis>)`;
the block function reduces `axis` to length 1 (`BlockFn.setAxis axis 1`). -/
def argMapMB (x : Chunks) (axis : Int) : Option (MapBlocks × Nat) :=
  let nd : Int := x.length
  if axis < -nd || axis ≥ nd then none else
  let ax := (axis % nd).toNat
  some ({ args := [x],
          chunks := some (mapIdxFrom (fun i c => ChunkSpec.tup (if i = ax then List.replicate c.length 1 else c)) 0 x) }, ax)

/-- `elemwise(f, *args)`: labels `range(ndim)[::-1]` for the output and every argument. -/
def elemwiseBw (args : List Chunks) : Bw :=
  { outInd := revRange ((args.map List.length).foldl max 0),
    args := args.map (fun c => ⟨c, revRange c.length⟩) }

/-! ## partial_reduce / tree_reduce -/

/-- shape behaviour of the reduce function handed to `partial_reduce` along a reduced axis:
`keepdims`: a keepdims reduction (length 1) — every array-API reduction;
`concat`: the identity on already-reduced blocks (`scan`), the block keeps one entry per input block of the group;
`toCombine`: returns the size given in `combine_sizes` (the documented contract). -/
inductive PRKind where
  | keepdims
  | concat
  | toCombine
deriving Repr, Inhabited, DecidableEq

/-- a `combine_sizes` value: one size for every output block, or the sizes given explicitly (one per output
block, what `scan` passes). -/
inductive CombSize where
  | const (k : Nat)
  | sizes (l : List Nat)
deriving Repr, Inhabited

structure PartialReduce where
  x : Chunks
  split : List (Nat × Nat)           -- axis ↦ split_every
  combine : List (Nat × CombSize)    -- axis ↦ combine_sizes (default 1)
  kind : PRKind := .keepdims
deriving Repr, Inhabited

/-- chunks of the output along axis `i` (input chunks `c`): the explicit tuple, or
`(size,) * ceil(len(c) / split_every[i])`. -/
def prAxisChunks (p : PartialReduce) (i : Nat) (c : List Nat) : List Nat :=
  match p.split.lookup i with
  | some k =>
    match p.combine.lookup i with
    | some (.sizes l) => l
    | some (.const s) => List.replicate (ceilDiv c.length k) s
    | none => List.replicate (ceilDiv c.length k) 1
  | none => c

def prChunkss (p : PartialReduce) : Chunks := mapIdxFrom (prAxisChunks p) 0 p.x

/-- length along reduced axis `i` of the block for group `b` (`k` = split_every, `len` input blocks). -/
def prAxisLen (p : PartialReduce) (i k len b : Nat) : Nat :=
  match p.kind with
  | .keepdims => 1
  | .concat => min k (len - b * k)
  | .toCombine =>
    match p.combine.lookup i with
    | some (.const s) => s
    | some (.sizes l) => l.getD b 1
    | none => 1

def prAxisBlock (p : PartialReduce) (i : Nat) (c : List Nat) (b : Nat) : Option Nat :=
  match p.split.lookup i with
  | some k => if b * k < c.length then some (prAxisLen p i k c.length b) else none
  | none => c[b]?

def prBlockFrom (p : PartialReduce) : Nat → Chunks → List Nat → Option (List Nat)
  | _, [], [] => some []
  | i, c :: cs, b :: bs => consOpt (prAxisBlock p i c b) (prBlockFrom p (i + 1) cs bs)
  | _, _, _ => none

def prBlock (p : PartialReduce) (coords : List Nat) : Option (List Nat) := prBlockFrom p 0 p.x coords

/-- number of blocks along a reduced axis after `d` rounds of `partial_reduce`. -/
def treeLevels (k : Nat) : Nat → Nat → Nat
  | 0, nb => nb
  | d + 1, nb => treeLevels k d (ceilDiv nb k)

/-- shape of `reduction(x, axis, keepdims)` as NumPy defines it. -/
def reducedShape (shape : List Nat) (axes : List Nat) (keepdims : Bool) : List Nat :=
  if keepdims then mapIdxFrom (fun i n => if axes.contains i then 1 else n) 0 shape
  else removeAxes axes shape

/-! ## concat -/

structure Concat where
  args : List Chunks          -- after `unify_chunks`
  axis : Nat
  chunks : Option Chunks := none   -- explicit `chunks=` (used by `roll`)
deriving Repr, Inhabited

def concatLen (c : Concat) : Nat := (c.args.map (fun a => (a[c.axis]?.getD []).sum)).sum

def concatChunkss (c : Concat) : Option Chunks :=
  match c.chunks with
  | some ch => some ch
  | none =>
    match c.args with
    | [] => none
    | a :: _ =>
      let cmax := (c.args.map (fun x => maxOf (x[c.axis]?.getD []))).foldl max 0
      allSome (mapIdxFrom (fun i _ =>
        if i = c.axis then some (regGrid cmax (concatLen c))
        else unifyPick (c.args.filterMap (fun x => x[i]?))) 0 a)

/-- `_read_concat_chunk` allocates `empty(tuple(ch[bi] for ch, bi in zip(target_chunks, block_id)))`. -/
def concatBlock (c : Concat) (coords : List Nat) : Option (List Nat) :=
  (concatChunkss c).bind (fun ch => extents ch coords)

/-- `_array_slices(offsets, start, stop)`: the pieces (array index, lo, hi) — positions within the array —
that make up `[start, stop)` of the concatenated axis; `lens` = the arrays' lengths along the axis
(`i`, `off`: index and offset of the first array of the list). -/
def arraySlices : List Nat → Nat → Nat → Nat → Nat → List (Nat × Nat × Nat)
  | [], _, _, _, _ => []
  | n :: rest, i, off, start, stop =>
    let lo := max start off
    let hi := min stop (off + n)
    (if lo < hi then [(i, lo - off, hi - off)] else []) ++ arraySlices rest (i + 1) (off + n) start stop

/-! ## stack / unstack -/

/-- what `stack` does to its operands before building the op (repaired code): shapes must agree; an operand
chunked differently from the first is rechunked to the first's chunk size — except that `rechunk` returns a
zero-size array unchanged (`_rechunk_plan`). -/
def stackUnify (args : List Chunks) : Option (List Chunks) :=
  match args with
  | [] => none
  | a :: _ =>
    if args.any (fun x => shapeOf x != shapeOf a) then none
    else some (args.map (fun x =>
      if x == a then x
      else if (shapeOf x).any (· == 0) then x
      else List.zipWith regGrid (chunkSize a) (shapeOf x)))

def stackChunkss (args : List Chunks) (axis : Nat) : Option Chunks :=
  match args with
  | [] => none
  | a :: _ => if axis ≤ a.length then some (a.take axis ++ List.replicate args.length 1 :: a.drop axis) else none

/-- `_read_stack_chunk`: `expand_dims(block of arrays[coords[axis]] at the other coordinates, axis)`. -/
def stackBlock (args : List Chunks) (axis : Nat) (coords : List Nat) : Option (List Nat) :=
  match coords[axis]? with
  | none => none
  | some j =>
    match args[j]? with
    | none => none
    | some x => (extents x (coords.eraseIdx axis)).map (fun s => s.take axis ++ 1 :: s.drop axis)

def unstackChunkss (x : Chunks) (axis : Nat) : Option Chunks :=
  if axis < x.length then some (x.eraseIdx axis) else none

/-- every yielded slice of `_unstack_chunk` has the shape of the column's blocks without `axis`. -/
def unstackBlock (x : Chunks) (axis : Nat) (coords : List Nat) : Option (List Nat) :=
  if axis < x.length then extents (x.eraseIdx axis) coords else none

/-! ## repeat -/

def repeatChunkss (x : Chunks) (r axis : Nat) : Option Chunks :=
  if axis < x.length then
    some (mapIdxFrom (fun i c => regGrid (maxOf c) (if i = axis then c.sum * r else c.sum)) 0 x)
  else none

/-- `repeat` (repaired): `axis = validate_axis(axis, x.ndim)` first (`none` = out of range); for `repeats == 0` the
result is `empty(shape, chunks=x.chunksize)`, i.e. the same formula with a zero-length axis `(0,)`. -/
def repeatNormAxis (x : Chunks) (axis : Int) : Option Nat :=
  let nd : Int := x.length
  if axis < -nd || axis ≥ nd then none else some (axis % nd).toNat

def repeatDeclared (x : Chunks) (r : Nat) (axis : Int) : Option Chunks :=
  (repeatNormAxis x axis).bind (repeatChunkss x r)

/-- `_repeat`: `nxp.repeat(block, r, axis)[bi*c : (bi+1)*c]` with `bi = coords[axis] % r`, input block
`coords[axis] // r`. -/
def repeatAxisBlock (r : Nat) (c : List Nat) (b : Nat) : Option Nat :=
  if r = 0 then none else
  (c[b / r]?).map (fun L =>
    let cz := maxOf c
    let bi := b % r
    min ((bi + 1) * cz) (r * L) - min (bi * cz) (r * L))

def repeatBlockFrom (r axis : Nat) : Nat → Chunks → List Nat → Option (List Nat)
  | _, [], [] => some []
  | i, c :: cs, b :: bs =>
    consOpt (if i = axis then repeatAxisBlock r c b else c[b]?) (repeatBlockFrom r axis (i + 1) cs bs)
  | _, _, _ => none

def repeatBlock (x : Chunks) (r axis : Nat) (coords : List Nat) : Option (List Nat) :=
  repeatBlockFrom r axis 0 x coords

/-! ## copy regions: rechunk / merge_chunks (map_selection with slices) -/

/-- number of items zarr selects for `slice(start, stop, step)` on an axis of length `n`
(`slice.indices(n)` clips, then `ceildiv(stop - start, step)`). -/
def selLen (n start stop step : Nat) : Nat := ceilDiv (min stop n - min start n) step

/-- `_rechunk(x, copy_chunks, …)` / `merge_chunks(x, chunks)`: output chunks
`normalize_chunks(copy_chunks, x.shape)`. -/
def copyChunkss : Chunks → List Nat → Option Chunks
  | [], [] => some []
  | l :: ls, c :: cs => (copyChunkss ls cs).map (fun r => regGrid (max c 1) l.sum :: r)
  | _, _ => none

def mergeOk (x : Chunks) (target : List Nat) : Bool :=
  target.length == x.length && (List.zipWith (fun t c => maxOf c != 0 && t % maxOf c == 0) target x).all id

/-- one axis of `_assemble_index_chunk`'s `empty(indexer.shape)`: the selection is the slice
`get_item(copy chunks, coords)` = [sum of the first b chunks, + chunk b), taken on an axis of length `n`. -/
def copyAxisBlock (n : Nat) (t : List Nat) (b : Nat) : Option Nat :=
  if b < t.length then some (selLen n (t.take b).sum (t.take (b + 1)).sum 1) else none

def copyBlock : Chunks → List Nat → List Nat → Option (List Nat)
  | [], [], [] => some []
  | l :: ls, c :: cs, b :: bs =>
    consOpt (copyAxisBlock l.sum (regGrid (max c 1) l.sum) b) (copyBlock ls cs bs)
  | _, _, _ => none

/-! ## index -/

inductive Sel where
  | int                                         -- integer: the axis disappears
  | slice (start stop step : Nat) (orig : Int)  -- positive-step slice actually selected; `orig` = step the user wrote
  | arr (len : Nat)                             -- integer array with `len` entries
deriving Repr, Inhabited

def sliceLen (start stop step : Nat) : Nat := ceilDiv (stop - start) step

/-- `chunk_len_for_indexer`: `max(c // ia.step, 1)` (Python floor division, `ia.step` may be negative). -/
def indexChunkLen (s : Sel) (c : Nat) : Nat :=
  match s with
  | .slice _ _ _ orig => (max (Int.fdiv (c : Int) orig) 1).toNat
  | _ => c

def indexAxisLen : Sel → Nat
  | .int => 0
  | .slice a b st _ => sliceLen a b st
  | .arr n => n

def indexChunkss : Chunks → List Sel → Option Chunks
  | [], [] => some []
  | c :: cs, s :: ss =>
    match indexChunkss cs ss with
    | none => none
    | some r =>
      match s with
      | .int => some r
      | _ => some (regGrid (max (indexChunkLen s (maxOf c)) 1) (indexAxisLen s) :: r)
  | _, _ => none

/-- `_target_chunk_selection` + zarr's indexer shape, one out axis per non-integer selector. -/
def indexAxisBlock (c : List Nat) (s : Sel) (b : Nat) : Option Nat :=
  let t := regGrid (max (indexChunkLen s (maxOf c)) 1) (indexAxisLen s)
  if b < t.length then
    let lo := (t.take b).sum
    let hi := (t.take (b + 1)).sum
    match s with
    | .slice start _ step _ => some (selLen c.sum (start + lo * step) (start + hi * step) step)
    | .arr n => some (min hi n - min lo n)
    | .int => none
  else none

def indexBlock : Chunks → List Sel → List Nat → Option (List Nat)
  | [], [], [] => some []
  | _ :: cs, .int :: ss, bs => indexBlock cs ss bs
  | c :: cs, s :: ss, b :: bs => consOpt (indexAxisBlock c s b) (indexBlock cs ss bs)
  | _, _, _ => none

/-! ## BlockView (`Array.blocks[...]`) -/

/-- `BlockView.__getitem__`: per axis the list of selected block indexes (an integer is the one-element list, a
slice its range, a list of block indexes itself — any order, repeats allowed).  Declared chunks
`np.array(ch)[sel]`: the real sizes of the selected blocks. -/
def blocksChunkss : Chunks → List (List Nat) → Option Chunks
  | [], [] => some []
  | c :: cs, idx :: is => consOpt (allSome (idx.map (fun i => c[i]?))) (blocksChunkss cs is)
  | _, _ => none

/-- the block function is the identity on input block `sel[coords]` (`get_dim_index`). -/
def blocksBlock : Chunks → List (List Nat) → List Nat → Option (List Nat)
  | [], [], [] => some []
  | c :: cs, idx :: is, b :: bs => consOpt ((idx[b]?).bind (fun i => c[i]?)) (blocksBlock cs is bs)
  | _, _, _ => none

/-! ## tall-and-skinny QR -/

/-- `numpy.linalg.qr(a, mode="reduced")` for an `m × n` block: shapes of Q and R. -/
def qrShapes (m n : Nat) : (List Nat) × (List Nat) := ([m, min m n], [min m n, n])

/-- `_qr_first_step` before the repair (no check): Q1 gets `A.chunks`; R1 gets `((n,)*k, (n,))` with
`(m, n) = A.chunksize`, `k = A.numblocks[0]`. -/
def qr1ChunkssOld (a : Chunks) : Option (Chunks × Chunks) :=
  match a with
  | [rows, cols] =>
    let n := maxOf cols
    some ([rows, cols], [List.replicate rows.length n, [n]])
  | _ => none

/-- `qr` + `_qr_first_step` (repaired): a single column chunk is required, and every row chunk must have at
least as many rows as there are columns (ValueError otherwise). -/
def qr1Chunkss (a : Chunks) : Option (Chunks × Chunks) :=
  match a with
  | [rows, [n]] =>
    if rows.any (fun m => decide (m < n)) then none
    else some ([rows, [n]], [List.replicate rows.length n, [n]])
  | _ => none

def qr1Block (a : Chunks) (coords : List Nat) : Option (List Nat × List Nat) :=
  match a, coords with
  | [rows, cols], [i, j] =>
    match rows[i]?, cols[j]? with
    | some m, some n => some (qrShapes m n)
    | _, _ => none
  | _, _ => none

/-- `_qr_second_step` on the single-chunk R1 of shape `(r, n)`: declared `(r, n)` and `(n, n)`. -/
def qr2Chunkss (r n : Nat) : Chunks × Chunks := ([[r], [n]], [[n], [n]])
def qr2Block (r n : Nat) : List Nat × List Nat := qrShapes r n

/-- `_qr_third_step`: `Q1[i] @ Q2[get_item(((n,)*k,(n,)), (i,0))]`; Q2 is the single block `(r2, c2)`. -/
def qr3Block (q1 : Chunks) (r2 c2 : Nat) (coords : List Nat) : Option (List Nat) :=
  match q1, coords with
  | [rows, cols], [i, j] =>
    match rows[i]?, cols[j]? with
    | some m, some w =>
      let n := maxOf cols
      -- slice rows [i*n, (i+1)*n) and columns [0, n) of the (r2, c2) block
      let sr := min ((i + 1) * n) r2 - min (i * n) r2
      let sc := min n c2
      if w = sr then some [m, sc] else none     -- matmul needs inner dimensions to agree
    | _, _ => none
  | _, _ => none

end Cubed.ShapeCalc
