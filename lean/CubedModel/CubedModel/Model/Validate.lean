/-
  C17 — model of the *explicit* argument / geometry checks of cubed's public ops ("validate"), and of the
  block-addressing arithmetic that runs inside tasks once a build was accepted.

    validateAxis      cubed/vendor/dask/array/utils.py : validate_axis (np.exceptions.AxisError ⊂ IndexError ∧ ValueError)
    pyIndex           Python `tuple[i]` (IndexError outside -n ≤ i < n)
    validateMerge     cubed/core/ops.py : merge_chunks            (two ValueErrors, then normalize_chunks)
    validateSqueeze   cubed/core/ops.py : squeeze                 (`any(x.shape[i] != 1 ...)`, then validate_axis)
    validateRepeat    cubed/array_api/manipulation_functions.py : repeat   (validateRepeatOld = before fix cfb5bf3)
    validateConcat    … : concat          (non-empty, validate_axis, shapes, chunk sizes along the axis)
    validateStack     … : stack           (non-empty, equal shapes, validate_axis; stackUnify = the rechunk of the others
                      to the first's chunks; validateStackOld = before fix f3856f5: the two TODOs)
    validateRegion    cubed/core/ops.py : _store_array (shape test of the whole-array branch; region branch: unit steps,
                      slice.indices normalisation, alignment, region shape, rechunk of the source to the target chunks);
                      validateRegionOld = the code before the fix: commits d416aac / ba97b91
    validateQr        cubed/array_api/linalg.py : qr
    validateReduce    cubed/core/ops.py : reduction / _normalize_split_every   (validateReduceOld = before fix 6c5075b)
    validateBroadcastTo, validateRoll, validatePermute, validateMoveaxis   (manipulation_functions.py)
    mapBlocksExpr / validateMapBlocks   cubed/core/ops.py : _map_blocks + blockwise("Unknown dimension")
                                        + make_blockwise_back_key_function (via `Cubed.Bw.keyFn`)
    validateIndex     cubed/core/indexing.py : index (supported index kinds; ndindex bounds)
    scanBuild         cubed/core/ops.py : scan  — the recursion on `reduced` (declared with `reducedSizes`) and the bare
                      `assert increment.shape[axis] == scanned.numblocks[axis]`; scanBuildOld = before fix 5fff6ae

  key functions (what a task addresses):
    prKeys            partial_reduce.back_key_function           range(bi*k, min((bi+1)*k, nb))
    repeatKey         repeat.back_key_function                   bi // repeats
    bisect / arraySlices / concatKeys     concat.back_key_function, _array_slices
    regionOutBlocksN / regionKeyN         _store_array.back_key_function  (bi - off) over the indexer's blocks
    scanIncKey / scanIncSlot              scan.back_key_function (bi // split_every), _scan_binop (bi % split_every)
    stackKey          stack.back_key_function
    sliceBlocks       the chunk coordinates a zarr OrthogonalIndexer yields for a unit-step slice

  `ErrKind` ranges over the four exception types the property allows.  Everything is a total function over
  Nat/Int/List; failure inside a key function is an explicit `none`.
-/
import CubedModel.Model.Blockwise
import CubedModel.Model.Fusion

namespace Cubed.Validate

inductive ErrKind where
  | ValueError
  | TypeError
  | NotImplementedError
  | IndexError
deriving DecidableEq, Repr, Inhabited

def ErrKind.name : ErrKind → String
  | .ValueError => "ValueError"
  | .TypeError => "TypeError"
  | .NotImplementedError => "NotImplementedError"
  | .IndexError => "IndexError"

abbrev Res := Except ErrKind Unit

def Res.show : Res → String
  | .ok _ => "ok"
  | .error k => "err " ++ k.name

instance : DecidableEq Res := fun a b =>
  match a, b with
  | .ok _, .ok _ => isTrue rfl
  | .error x, .error y => if h : x = y then isTrue (by rw [h]) else isFalse (by intro e; cases e; exact h rfl)
  | .ok _, .error _ => isFalse (by intro e; cases e)
  | .error _, .ok _ => isFalse (by intro e; cases e)

/-! ## chunk grids -/

/-- `len(normalize_chunks(c, shape=n))` along one axis; an empty axis has the single block `(0,)`. -/
def nblocks (n c : Nat) : Nat := if n = 0 then 1 else (n + c - 1) / c

/-- length of block `b` of an axis of size `n` with chunk size `c`. -/
def blockLen (n c b : Nat) : Nat := min c (n - b * c)

/-- chunk coordinates met by the unit-step slice `[a, b)` on a grid of chunk size `c` (zarr indexer). -/
def sliceBlocks (c a b : Nat) : List Nat := List.range' (a / c) ((b - 1) / c + 1 - a / c)

/-! ## axis handling -/

/-- `validate_axis(axis, ndim)` for one int. -/
def validateAxis (axis : Int) (ndim : Nat) : Except ErrKind Nat :=
  if axis < -(ndim : Int) ∨ axis ≥ (ndim : Int) then .error .IndexError
  else .ok (if axis < 0 then (axis + ndim).toNat else axis.toNat)

def validateAxes (axes : List Int) (ndim : Nat) : Except ErrKind (List Nat) :=
  match axes with
  | [] => .ok []
  | a :: rest =>
    match validateAxis a ndim with
    | .error e => .error e
    | .ok a' =>
      match validateAxes rest ndim with
      | .error e => .error e
      | .ok r => .ok (a' :: r)

/-- Python `t[i]` on a tuple. -/
def pyIndex (l : List Nat) (i : Int) : Option Nat :=
  if i < -(l.length : Int) ∨ i ≥ (l.length : Int) then none
  else l[(if i < 0 then (i + l.length).toNat else i.toNat)]?

/-! ## merge_chunks -/

structure MergeP where
  chunksize : List Nat      -- x.chunksize (every entry ≥ 1)
  target : List Nat         -- the `chunks` argument
deriving Repr

def validateMerge (p : MergeP) : Res :=
  if p.target.length ≠ p.chunksize.length then .error .ValueError
  else if !((p.chunksize.zip p.target).all (fun q => q.2 % q.1 == 0)) then .error .ValueError
  else .ok ()

/-! ## squeeze -/

def squeezeScan (shape : List Nat) : List Int → Res
  | [] => .ok ()
  | i :: rest =>
    match pyIndex shape i with
    | none => .error .IndexError
    | some s => if s ≠ 1 then .error .ValueError else squeezeScan shape rest

def validateSqueeze (shape : List Nat) (axes : List Int) : Res := squeezeScan shape axes

/-! ## repeat -/

inductive Repeats where
  | int (r : Int)
  | other            -- float, array, numpy integer …: not a Python `int`
deriving Repr

structure RepeatP where
  shape : List Nat
  repeats : Repeats
  axis : Int
deriving Repr

/-- OLD `repeat(x, repeats, axis=axis)` (before `fix:` cfb5bf3) for an int axis.  The code never normalised `axis`:
`x.shape[axis]` raised IndexError out of range, and for `axis = -1` the expression `x.shape[axis + 1:]` was the whole
shape, so the declared shape had too many dimensions and `normalize_chunks` refused (ValueError). -/
def validateRepeatOld (p : RepeatP) : Res :=
  match p.repeats with
  | .other => .error .ValueError
  | .int r =>
    match pyIndex p.shape p.axis with
    | none => .error .IndexError
    | some _ =>
      if p.axis == -1 then .error .ValueError
      else if r < 0 then .error .ValueError
      else .ok ()

/-- `repeat` now: `repeats` must be a Python int (ValueError), non-negative (ValueError), then
`axis = validate_axis(axis, x.ndim)` (AxisError).  `repeats == 0` returns an empty array without any blockwise op. -/
def validateRepeat (p : RepeatP) : Res :=
  match p.repeats with
  | .other => .error .ValueError
  | .int r =>
    if r < 0 then .error .ValueError else
    match validateAxis p.axis p.shape.length with
    | .error e => .error e
    | .ok _ => .ok ()

/-- `repeat.back_key_function` along the axis: `none` = ZeroDivisionError. -/
def repeatKey (r bi : Nat) : Option Nat := if r = 0 then none else some (bi / r)

/-- the coordinate computed at axis position `i`: `bi // repeats if i == axis else bi`, where `axis` is whatever the
closure holds: the normalised axis now, the *un-normalised* one in the old variant (for a negative axis no position
matched). -/
def repeatKeyAt (axis : Int) (i r bi : Nat) : Option Nat :=
  if (i : Int) = axis then repeatKey r bi else some bi

/-! ## concat -/

structure Arr where
  shape : List Nat
  chunksize : List Nat
deriving Repr, DecidableEq

def Arr.ndim (a : Arr) : Nat := a.shape.length
def Arr.nb (a : Arr) (i : Nat) : Nat := nblocks (a.shape.getD i 0) (a.chunksize.getD i 1)

def sameExceptAxis (axis : Nat) (s t : List Nat) : Bool :=
  (List.range s.length).all (fun i => i == axis || s[i]? == t[i]?)

/-- chunk sizes along the axis of the arrays that have more than one block there. -/
def multiBlockSizes (arrs : List Arr) (axis : Nat) : List Nat :=
  ((arrs.filter (fun a => a.nb axis > 1)).map (fun a => a.chunksize.getD axis 1)).eraseDups

/-- the nested `all(...)` of `concat`: axes in order, arrays in order; `x.shape[i]` of an array of smaller rank is an
IndexError, the first mismatch ends the scan with "does not match" (ValueError). -/
def concatShapeScan (a0 : Arr) (arrs : List Arr) (axis : Nat) : List Nat → Res
  | [] => .ok ()
  | i :: rest =>
    if i == axis then concatShapeScan a0 arrs axis rest else
    let rec inner : List Arr → Option Res
      | [] => none
      | x :: xs =>
        match x.shape[i]? with
        | none => some (.error .IndexError)
        | some v => if some v == a0.shape[i]? then inner xs else some (.error .ValueError)
    match inner arrs with
    | some r => r
    | none => concatShapeScan a0 arrs axis rest

def validateConcat (arrs : List Arr) (axis : Int) : Res :=
  match arrs with
  | [] => .error .ValueError
  | [_] => .ok ()
  | a0 :: _ =>
    match validateAxis axis a0.ndim with
    | .error e => .error e
    | .ok ax =>
      match concatShapeScan a0 arrs ax (List.range a0.ndim) with
      | .error e => .error e
      | .ok _ =>
        if arrs.any (fun a => a.ndim ≤ ax) then .error .IndexError      -- a.numblocks[axis]
        else if (multiBlockSizes arrs ax).length > 1 then .error .ValueError
        else .ok ()

/-- offsets along the axis: `[0] + list(accumulate(sizes))`. -/
def offsetsFrom (base : Nat) : List Nat → List Nat
  | [] => [base]
  | s :: rest => base :: offsetsFrom (base + s) rest

def offsets (sizes : List Nat) : List Nat := offsetsFrom 0 sizes

/-- `bisect.bisect(offsets, x)` on a sorted list = index of the first element `> x`. -/
def bisect : List Nat → Nat → Nat
  | [], _ => 0
  | o :: rest, x => if o ≤ x then bisect rest x + 1 else 0

/-- `_array_slices(offsets, start, stop)`: `(array index, slice start, slice stop)`; `none` = an index error
inside the generator.  `fuel` bounds the `while` loop (each round advances `slice_start`). -/
def arraySlices (offs : List Nat) : Nat → Nat → Nat → Option (List (Nat × Nat × Nat))
  | 0, start, stop => if start < stop then none else some []
  | fuel + 1, start, stop =>
    if start < stop then
      match bisect offs start with
      | 0 => none                       -- offsets[-1] … the code would wrap around: modelled as failure
      | i1 + 1 =>
        match offs[i1]?, offs[i1 + 1]? with
        | some lo, some hi =>
          let sstop := min stop hi
          match arraySlices offs fuel sstop stop with
          | none => none
          | some rest => some ((i1, start - lo, sstop - lo) :: rest)
        | _, _ => none
    else some []

/-- keys of `concat.back_key_function` along the axis: `(array index, block)`; out chunk size `C`, total `n`. -/
def concatKeys (sizes csizes : List Nat) (C bi : Nat) : Option (List (Nat × Nat)) :=
  let total := sizes.sum
  let start := bi * C
  let stop := min (start + C) total
  match arraySlices (offsets sizes) (stop - start) start stop with
  | none => none
  | some sl => some (sl.flatMap (fun (ai, a, b) => (sliceBlocks (csizes.getD ai 1) a b).map (fun k => (ai, k))))

/-! ## stack -/

/-- OLD `stack` (before `fix:` f3856f5): non-empty, validate_axis — nothing else (the two TODOs). -/
def validateStackOld (arrs : List Arr) (axis : Int) : Res :=
  match arrs with
  | [] => .error .ValueError
  | a0 :: _ =>
    match validateAxis axis (a0.ndim + 1) with
    | .error e => .error e
    | .ok _ => .ok ()

/-- `stack` now: non-empty, all inputs of the first's shape (ValueError), then validate_axis. -/
def validateStack (arrs : List Arr) (axis : Int) : Res :=
  match arrs with
  | [] => .error .ValueError
  | a0 :: _ =>
    if arrs.any (fun x => x.shape != a0.shape) then .error .ValueError else
    match validateAxis axis (a0.ndim + 1) with
    | .error e => .error e
    | .ok _ => .ok ()

def Arr.size (a : Arr) : Nat := a.shape.foldl (· * ·) 1

/-- the inputs after `x if x.chunks == a.chunks else rechunk(x, a.chunksize)`: `rechunk` leaves a zero-size array
unchanged (`_rechunk_plan` returns early), every other input gets the first's chunk size. -/
def stackUnify : List Arr → List Arr
  | [] => []
  | a0 :: rest => a0 :: rest.map (fun x => if x.size = 0 then x else { x with chunksize := a0.chunksize })

/-- `stack.back_key_function`: which array, which block coordinates. -/
def stackKey (axis : Nat) (out : List Nat) : Option (Nat × List Nat) :=
  match out[axis]? with
  | none => none
  | some i => some (i, out.take axis ++ out.drop (axis + 1))

/-- out grid of `stack`: the first array's numblocks with `len(arrays)` inserted at `axis`. -/
def stackGrid (arrs : List Arr) (axis : Nat) : List Nat :=
  match arrs with
  | [] => []
  | a0 :: _ =>
    let nb0 := (List.range a0.ndim).map a0.nb
    nb0.take axis ++ [arrs.length] ++ nb0.drop axis

def inGrid : List Nat → List Nat → Bool
  | [], [] => true
  | g :: gs, c :: cs => decide (c < g) && inGrid gs cs
  | _, _ => false

/-- the key designated by `stack` exists in its array. -/
def stackKeyOk (arrs : List Arr) (axis : Nat) (out : List Nat) : Bool :=
  match stackKey axis out with
  | none => false
  | some (i, c) =>
    match arrs[i]? with
    | none => false
    | some a => inGrid ((List.range a.ndim).map a.nb) c

/-! ## region store (one axis; the code treats the axes independently) -/

structure RegionP where
  srcLen : Nat
  srcChunk : Nat
  tgtLen : Nat
  tgtChunk : Nat
  start : Option Nat
  stop : Option Nat
  step : Option Nat
deriving Repr

def RegionP.lo (p : RegionP) : Nat := min (p.start.getD 0) p.tgtLen
def RegionP.hi (p : RegionP) : Nat := max p.lo (min (p.stop.getD p.tgtLen) p.tgtLen)
def RegionP.stp (p : RegionP) : Nat := p.step.getD 1

/-- number of selected elements (`indexer.shape`): `len(range(lo, hi, step))`. -/
def RegionP.selLen (p : RegionP) : Nat := (p.hi - p.lo + p.stp - 1) / p.stp

/-! ### the unrepaired variant (before the `fix:` commits d416aac / ba97b91), kept for the old witnesses -/

def regionAlignedOld (p : RegionP) : Bool :=
  !((match p.start with | some s => s % p.tgtChunk != 0 | none => false) ||
    (match p.stop with | some e => e % p.tgtChunk != 0 && e != p.tgtLen | none => false))

/-- OLD `_store_array` with a region: alignment on the raw bounds, region shape; steps and the source chunking were
not looked at, and a region made of `slice(None)` only took the whole-array branch, which checked nothing. -/
def validateRegionOld (p : RegionP) : Res :=
  if p.start.isNone && p.stop.isNone && p.step.isNone then .ok ()
  else if !regionAlignedOld p then .error .ValueError
  else if p.srcLen ≠ p.selLen then .error .ValueError
  else .ok ()

/-- target blocks the indexer visits (those containing a selected element); for step 1 a contiguous range. -/
def regionOutBlocks (p : RegionP) : List Nat :=
  ((List.range p.selLen).map (fun q => (p.lo + q * p.stp) / p.tgtChunk)).eraseDups

/-- `_store_array.back_key_function`: `bi - off` (Python ints: negative when `bi < off`). -/
def regionKey (p : RegionP) (bi : Nat) : Int := (bi : Int) - ((p.start.getD 0) / p.tgtChunk : Nat)

/-- number of selected elements falling into target block `bi` (the shape the write expects). -/
def regionBlockLen (p : RegionP) (bi : Nat) : Nat :=
  ((List.range p.selLen).filter (fun q => (p.lo + q * p.stp) / p.tgtChunk == bi)).length

/-- OLD: the task for target block `bi` reads an existing source block (source chunked as the caller left it) whose
shape is the region's share of `bi`. -/
def regionTaskOkOld (p : RegionP) (bi : Nat) : Bool :=
  let k := regionKey p bi
  0 ≤ k && k.toNat < nblocks p.srcLen p.srcChunk &&
    blockLen p.srcLen p.srcChunk k.toNat == regionBlockLen p bi

/-! ### the repaired code -/

/-- `slice.indices(n)[:2]` for non-negative bounds: both clipped to the target length. -/
def RegionP.nlo (p : RegionP) : Nat := min (p.start.getD 0) p.tgtLen
def RegionP.nhi (p : RegionP) : Nat := min (p.stop.getD p.tgtLen) p.tgtLen

/-- `_store_array` now: no region (or `slice(None)` only) -> the shapes must agree; a region must have unit steps,
is normalised with `slice.indices`, must be aligned with the target chunks and have the source's shape. -/
def validateRegion (p : RegionP) : Res :=
  if p.start.isNone && p.stop.isNone && p.step.isNone then
    (if p.srcLen ≠ p.tgtLen then .error .ValueError else .ok ())
  else if !(p.step == none || p.step == some 1) then .error .ValueError
  else if p.nlo % p.tgtChunk ≠ 0 || (p.nhi % p.tgtChunk ≠ 0 && p.nhi ≠ p.tgtLen) then .error .ValueError
  else if p.srcLen ≠ p.nhi - p.nlo then .error .ValueError
  else .ok ()

/-- chunk size of the source after `source.rechunk(region_chunksize)`:
`to_chunksize(normalize_chunks(target.chunks, source.shape))`. -/
def RegionP.effChunk (p : RegionP) : Nat := max (min p.tgtChunk p.srcLen) 1

/-- key of the repaired code: the offset is taken from the normalised start. -/
def regionKeyN (p : RegionP) (bi : Nat) : Int := (bi : Int) - (p.nlo / p.tgtChunk : Nat)

/-- the part of target block `bi` that lies in the (unit-step) region `[nlo, nhi)`. -/
def regionShare (p : RegionP) (bi : Nat) : Nat :=
  min p.nhi ((bi + 1) * p.tgtChunk) - max p.nlo (bi * p.tgtChunk)

/-- the task for target block `bi` reads an existing block of the rechunked source with the shape of that share. -/
def regionTaskOk (p : RegionP) (bi : Nat) : Bool :=
  let k := regionKeyN p bi
  0 ≤ k && k.toNat < nblocks p.srcLen p.effChunk &&
    blockLen p.srcLen p.effChunk k.toNat == regionShare p bi

/-- target blocks visited for the unit-step region. -/
def regionOutBlocksN (p : RegionP) : List Nat :=
  if p.nlo < p.nhi then List.range' (p.nlo / p.tgtChunk) ((p.nhi - 1) / p.tgtChunk + 1 - p.nlo / p.tgtChunk) else []

/-! ## qr -/

structure QrP where
  ndim : Nat
  reduced : Bool       -- mode == "reduced"
  floating : Bool      -- dtype in _floating_dtypes
  colBlocks : Nat      -- x.numblocks[1]
  shortRow : Bool      -- some row chunk has fewer rows than there are columns (`_qr_first_step`, fix 19968d0)
deriving Repr

def validateQr (p : QrP) : Res :=
  if p.ndim ≠ 2 then .error .ValueError
  else if !p.reduced then .error .ValueError
  else if !p.floating then .error .TypeError
  else if p.colBlocks > 1 then .error .ValueError
  else if p.shortRow then .error .ValueError
  else .ok ()

/-! ## reductions -/

inductive SplitEvery where
  | none
  | int (n : Nat)
  | dict (vals : List (Nat × Nat))
  | other
deriving Repr

/-- OLD `reduction` (before `fix:` 6c5075b): validate_axis on the axis tuple, then `_normalize_split_every`, which
took the values of a dict as they were (0 made `partial_reduce` divide by zero while building, 1 returned the
unreduced blocks). -/
def validateReduceOld (ndim : Nat) (axes : Option (List Int)) (se : SplitEvery) : Res :=
  let ax : Except ErrKind (List Nat) := match axes with
    | none => .ok []
    | some l => validateAxes l ndim
  match ax with
  | .error e => .error e
  | .ok _ =>
    match se with
    | .other => .error .ValueError
    | _ => .ok ()

/-- `reduction` now: validate_axis on the axis tuple, then `_normalize_split_every`, which refuses a dict whose
value for a reduced axis is below 2 (`vals` = the (axis, value) pairs of the reduced axes). -/
def validateReduce (ndim : Nat) (axes : Option (List Int)) (se : SplitEvery) : Res :=
  let ax : Except ErrKind (List Nat) := match axes with
    | none => .ok []
    | some l => validateAxes l ndim
  match ax with
  | .error e => .error e
  | .ok _ =>
    match se with
    | .other => .error .ValueError
    | .dict vals => if vals.any (fun q => q.2 < 2) then .error .ValueError else .ok ()
    | _ => .ok ()

/-- `_normalize_split_every` for an int: `max(int(se ** (1/len(axis))), 2)`; `root` is the integer root. -/
def normSplitInt (root : Nat) : Nat := max root 2

/-- `partial_reduce.back_key_function` along one axis. -/
def prKeys (nb k bi : Nat) : List Nat := List.range' (bi * k) (min ((bi + 1) * k) nb - bi * k)

/-- `math.ceil(len(c) / split_every[i])` -/
def prOutBlocks (nb k : Nat) : Nat := (nb + k - 1) / k

/-! ## broadcast_to (chunks=None), roll, permute_dims, moveaxis -/

def broadcastOk : List Nat → List Nat → Bool
  | [], [] => true
  | o :: os, n :: ns => (o == 1 || o == n) && broadcastOk os ns
  | _, _ => false

def validateBroadcastTo (xshape shape : List Nat) : Res :=
  if xshape == shape then .ok ()
  else if shape.length < xshape.length then .error .ValueError
  else if !broadcastOk xshape (shape.drop (shape.length - xshape.length)) then .error .ValueError
  else .ok ()

inductive Shift where
  | int
  | tuple (k : Nat)
  | other            -- float …
deriving Repr

/-- `roll`: axis `none` / a list of int axes (a bare int is a one-element list). -/
def validateRoll (ndim : Nat) (shift : Shift) (axis : Option (List Int)) : Res :=
  match axis with
  | none =>
    match shift with
    | .int => .ok ()
    | _ => .error .TypeError
  | some axes =>
    let nshift := match shift with | .tuple k => k | _ => 1
    if nshift ≠ axes.length then .error .ValueError
    else
      -- each step does `result.shape[i]` (Python indexing) and `concat(..., axis=i)`
      match axes.find? (fun a => (validateAxis a ndim).toOption.isNone) with
      | some _ => .error .IndexError
      | none => .ok ()

def validatePermute (ndim : Nat) (axes : List Int) : Res :=
  if axes.isEmpty then .ok ()
  else if axes.length ≠ ndim then .error .ValueError
  else .ok ()

/-! ## map_blocks → blockwise -/

structure MapBlocksP where
  argNb : List (List Nat)       -- numblocks of every (array) argument
  dropAxis : List Int
  newAxis : Option (List Nat)
  chunksLen : Option Nat        -- len(chunks) when chunks is given
deriving Repr

def revRange (n : Nat) : List Nat := (List.range n).reverse

inductive MBResult where
  | err (k : ErrKind)
  | malformed                    -- accepted, but the key function yields garbage keys (fails inside the task)
  | ok
deriving Repr, DecidableEq

def insertAt (l : List Nat) (i x : Nat) : List Nat := l.take i ++ [x] ++ l.drop i

/-- `sorted(new_axis)` (structural insertion sort, so that `decide` can evaluate it). -/
def insSorted (x : Nat) : List Nat → List Nat
  | [] => [x]
  | y :: ys => if x ≤ y then x :: y :: ys else y :: insSorted x ys

def isort : List Nat → List Nat
  | [] => []
  | x :: xs => insSorted x (isort xs)

/-- `_map_blocks`: the index expression handed to `blockwise`; `none` = the explicit ValueErrors. -/
def mapBlocksExpr (p : MapBlocksP) : Except ErrKind Bw.Expr :=
  let nd := (p.argNb.map List.length).foldl max 0
  let outInd0 := revRange nd
  let args : List Bw.Arg := (List.range p.argNb.length).map (fun j =>
    let nb := p.argNb.getD j []
    { name := s!"a{j}", ind := revRange nb.length, nb := nb })
  -- drop_axis
  if p.dropAxis.any (fun i => i < -(nd : Int) ∨ i ≥ (nd : Int)) then .error .ValueError else
  let drops : List Nat := p.dropAxis.map (fun i => (i % (nd : Int)).toNat)
  let outInd1 := if p.dropAxis.isEmpty then outInd0 else
    ((List.range outInd0.length).filter (fun i => !drops.contains i)).map (fun i => outInd0.getD i 0)
  -- new_axis
  let newAxis : Option (List Nat) :=
    match p.newAxis, p.chunksLen with
    | none, some cl => if outInd1.length < cl then some (List.range (cl - outInd1.length)) else none
    | na, _ => na
  -- `new_axes[n] = chunks[ax]` inside the loop: Python IndexError when `ax` is beyond the given chunks
  if (match p.chunksLen with | some cl => (newAxis.getD []).any (fun ax => ax ≥ cl) | none => false) then
    .error .IndexError else
  let step := (isort (newAxis.getD [])).foldl
    (fun (acc : List Nat × List (Nat × Nat)) ax =>
      let n := acc.1.length + drops.length
      (insertAt acc.1 ax n, acc.2 ++ [(n, 1)])) (outInd1, [])
  let outInd2 := step.1
  let newAxes := step.2
  let bad : Bool := match newAxis with
    | some (a :: as) => decide ((a :: as).foldl max 0 > outInd2.foldl max 0)
    | _ => false
  if bad then .error .ValueError else
  match p.chunksLen with
  | some cl => if cl ≠ outInd2.length then .error .ValueError
               else .ok { outInd := outInd2, args := args, newAxes := newAxes }
  | none => .ok { outInd := outInd2, args := args, newAxes := newAxes }

/-- blockwise's "Unknown dimension" test. -/
def unknownDim (e : Bw.Expr) : Bool :=
  e.outInd.any (fun i => !(e.args.any (fun a => a.ind.contains i)) && !(e.newAxes.any (fun q => q.1 == i)))

def validateMapBlocks (p : MapBlocksP) : MBResult :=
  match mapBlocksExpr p with
  | .error k => .err k
  | .ok e =>
    if unknownDim e then .err .ValueError else
    match Bw.keyFn e ⟨"out", e.outInd.map (fun _ => 0)⟩ with
    | .error _ => .err .ValueError
    | .malformed => .malformed
    | .ok _ => .ok

/-! ## index -/

inductive Ix where
  | int (i : Int)
  | slice                       -- any slice (ndindex clips it; a negative step becomes a positive one plus a flip)
  | intArray (vals : List Int)
  | boolArray (len : Nat)
  | newaxis
  | ellipsis
  | other                       -- float, string …
deriving Repr

def Ix.consumes : Ix → Nat
  | .newaxis => 0
  | .ellipsis => 0
  | _ => 1

def Ix.arrayLike : Ix → Bool
  | .int _ => true
  | .intArray _ => true
  | .boolArray _ => true
  | _ => false

def Ix.isArray : Ix → Bool
  | .intArray _ => true
  | .boolArray _ => true
  | _ => false

/-- array-like indices (ints and arrays) separated by a slice / ellipsis / newaxis. -/
def separated (key : List Ix) : Bool :=
  let trimmed := ((key.dropWhile (fun k => !k.arrayLike)).reverse.dropWhile (fun k => !k.arrayLike))
  trimmed.any (fun k => !k.arrayLike)

/-- `index(x, key)`: ndindex canonicalisation (`ndindex(key).expand(shape)`: IndexError for unsupported objects,
too many indices, out-of-bounds ints / arrays, mask length; its own NotImplementedError for array indices separated
by slices; a boolean mask becomes an integer array, and an int next to an array becomes an array too), then cubed's
"Only one integer array index is allowed" (NotImplementedError). -/
def validateIndex (shape : List Nat) (key : List Ix) : Res :=
  let nEll := (key.filter (fun k => match k with | .ellipsis => true | _ => false)).length
  if key.any (fun k => match k with | .other => true | _ => false) then .error .IndexError
  else if nEll > 1 then .error .IndexError
  else
    let used := (key.map Ix.consumes).sum
    let nArr := (key.filter Ix.isArray).length
    let nAL := (key.filter Ix.arrayLike).length
    if nArr ≥ 1 && separated key then .error .NotImplementedError
    else if used > shape.length then .error .IndexError
    else
      -- align index objects with axes (the ellipsis stands for the unused axes)
      let before := key.takeWhile (fun k => match k with | .ellipsis => false | _ => true)
      let after := (key.dropWhile (fun k => match k with | .ellipsis => false | _ => true)).drop 1
      let axesOf (ks : List Ix) (startAx : Nat) : List (Ix × Nat) :=
        (ks.foldl (fun (acc : List (Ix × Nat) × Nat) k => (acc.1 ++ [(k, acc.2)], acc.2 + k.consumes)) ([], startAx)).1
      let afterStart := shape.length - (after.map Ix.consumes).sum
      let pairs := axesOf before 0 ++ axesOf after afterStart
      let oob := pairs.any (fun (k, ax) =>
        let n := shape.getD ax 0
        match k with
        | .int i => i < -(n : Int) ∨ i ≥ (n : Int)
        | .intArray vs => vs.any (fun i => i < -(n : Int) ∨ i ≥ (n : Int))
        | .boolArray len => len ≠ n
        | _ => false)
      if oob then .error .IndexError
      else if nArr ≥ 1 && nAL ≥ 2 then .error .NotImplementedError
      else .ok ()

/-! ## scan -/

/-- OLD `scan` (before `fix:` 5fff6ae).  Result of building along the axis for an array with `nb` blocks there and
axis length `len`: `none` = the bare `assert increment.shape[axis] == scanned.numblocks[axis]` fails (here or in the
recursive call on `reduced`), `some len'` = accepted, result has axis length `len'`.  `s` = `split_every`.
`reduced` was declared with `ceil(nb / split_size)` chunks of `split_size` each. -/
def scanBuildOld (s : Nat) : Nat → Nat → Nat → Option Nat
  | 0, len, nb => if nb = 1 then some len else none
  | fuel + 1, len, nb =>
    if nb = 1 then some len else
    let ss := min s nb                         -- split_size
    let rnb := (nb + ss - 1) / ss              -- reduced.numblocks[axis] = ceil(nb / split_size)
    let rlen := ss * rnb                       -- reduced.shape[axis]     = combine_sizes * that
    match scanBuildOld s fuel rlen rnb with
    | none => none
    | some incLen => if incLen = nb then some len else none

/-- closed form of acceptance of the old variant. -/
def scanOk (s : Nat) : Nat → Nat → Bool
  | 0, nb => nb ≤ 1
  | fuel + 1, nb => nb ≤ s || (nb % s == 0 && scanOk s fuel (nb / s))

/-- `reduced_sizes = (split_size,) * num_full + ((num_rest,) if num_rest else ())` with
`num_full, num_rest = divmod(nb, split_size)`. -/
def reducedSizes (ss nb : Nat) : List Nat :=
  List.replicate (nb / ss) ss ++ (if nb % ss = 0 then [] else [nb % ss])

/-- `scan` now: `reduced` is declared with the real per-group sizes, the recursion runs on its block count, and the
assertion compares the increment's length with `nb`.  `none` = AssertionError. -/
def scanBuild (s : Nat) : Nat → Nat → Nat → Option Nat
  | 0, len, nb => if nb = 1 then some len else none
  | fuel + 1, len, nb =>
    if nb = 1 then some len else
    let ss := min s nb
    let sizes := reducedSizes ss nb
    match scanBuild s fuel sizes.sum sizes.length with
    | none => none
    | some incLen => if incLen = nb then some len else none

/-- `scan.back_key_function`: block of `increment` read by out block `bi`; `_scan_binop`: slot inside it. -/
def scanIncKey (s bi : Nat) : Nat := bi / s
def scanIncSlot (s bi : Nat) : Nat := bi % s

/-! ## reshape helpers of the vendored dask code (asserts) -/

/-- inner loop of `expand_tuple` for one chunk `x`: `part` = `int(part)`, `cond x` = `x >= 2 * part`. -/
def expandOne (cond : Nat → Bool) (part : Nat) : Nat → Nat → List Nat
  | 0, x => if x = 0 then [] else [x]
  | fuel + 1, x => if cond x then part :: expandOne cond part fuel (x - part) else (if x = 0 then [] else [x])

/-! ## legacy pairwise fusion -/

/-- `can_fuse_primitive_ops`: both candidates and equal `num_tasks`. -/
def canFusePair (cand1 cand2 : Bool) (tasks1 tasks2 : Nat) : Bool := cand1 && cand2 && tasks1 == tasks2

/-! ## rechunker `consolidate_chunks` headroom (exact arithmetic instead of floats) -/

/-- one round of the `else` branch: `rest` = itemsize × product of the other chunk lengths, `c` = this axis'
chunk, `ub` = upper bound.  Returns the new chunk memory. -/
def consolidateStep (maxMem rest c ub : Nat) : Nat :=
  let headroom := maxMem / (rest * c)          -- int(headroom)
  rest * min (c * headroom) ub

/-! ## the assert table: hand-maintained classification of every record of `GeneratedC17.asserts` -/

inductive Class where
  /-- a theorem of Properties/C17.lean shows the asserted condition follows from the validated inputs -/
  | unreachableProved (thm : String)
  /-- type / shape-of-object / construction invariant, not dependent on user input -/
  | internalInvariant (why : String)
  /-- input dependent, but only through a call of a core (non array-API) function with arguments that no NumPy
  expression corresponds to; outside the property's quantifier, exercised by the oracle's parameter streams -/
  | apiPrecondition (why : String)
  /-- bound of a search loop, argued (not proved) unreachable for arrays that can exist -/
  | searchBound (why : String)
  /-- reachable from a NumPy-valid request: a finding (key in KNOWN_FINDINGS.txt) -/
  | reachable (finding : String)
deriving Repr, DecidableEq

def classification : List ((String × String × String) × Class) := [
  (("cubed/core/indexing.py", "BlockView.__getitem__", "isinstance(out, Array)"),
    .internalInvariant "general_blockwise with one target store returns a single Array"),
  (("cubed/core/ops.py", "_store_array", "isinstance(out, Array)"),
    .internalInvariant "general_blockwise with one target store returns a single Array"),
  (("cubed/core/ops.py", "blockwise", "len(arrays) > 0"),
    .apiPrecondition "core blockwise called with no array argument; every array-API function passes at least one (map_blocks creates a virtual array when given none)"),
  (("cubed/core/ops.py", "_general_blockwise", "len(arrays) > 0"),
    .apiPrecondition "core general_blockwise called with no array argument; concat/stack refuse an empty list with ValueError first"),
  (("cubed/core/ops.py", "_assemble_index_chunk", "not isinstance(arrays, list)"),
    .unreachableProved "C17_stream_arg_stays_stream"),
  (("cubed/core/ops.py", "map_selection", "isinstance(out, Array)"),
    .internalInvariant "general_blockwise with one target store returns a single Array"),
  (("cubed/core/ops.py", "_partial_reduce", "not isinstance(arrays, list)"),
    .unreachableProved "C17_stream_arg_stays_stream"),
  (("cubed/core/ops.py", "_partial_reduce", "result.keys() == reduced_chunk.keys()"),
    .internalInvariant "both dicts are results of the same reduce_func (fixed field set per reduction: mean n/total, var n/mu/M2, arg i/v)"),
  (("cubed/core/ops.py", "scan", "increment.shape[axis] == scanned.numblocks[axis]"),
    .unreachableProved "C17_scan_assert_unreachable"),
  (("cubed/core/ops.py", "scan", "isinstance(out, Array)"),
    .internalInvariant "general_blockwise with one target store returns a single Array"),
  (("cubed/core/optimization.py", "predecessor_ops", "len(pre_list) == 1"),
    .internalInvariant "Plan._new adds exactly one op -> array edge per array node; optimizers only remove op/array pairs"),
  (("cubed/core/optimization.py", "predecessor_ops_and_arrays", "len(pre_list) == 1"),
    .internalInvariant "Plan._new adds exactly one op -> array edge per array node; optimizers only remove op/array pairs"),
  (("cubed/core/optimization.py", "is_input_array", "len(pre_list) == 1"),
    .internalInvariant "Plan._new adds exactly one op -> array edge per array node; optimizers only remove op/array pairs"),
  (("cubed/core/rechunk.py", "verify_chunk_compatibility", "wc == n or wc % tc == 0"),
    .apiPrecondition "assertion helper whose contract is to assert; no call site outside tests (GeneratedC17.helperCallSites = 0)"),
  (("cubed/core/rechunk.py", "multistage_regular_rechunking_plan", "prev_plan is not None"),
    .unreachableProved "C17_prev_plan_set"),
  (("cubed/core/rechunk.py", "multistage_regular_rechunking_plan", "raise AssertionError"),
    .searchBound "needs 99 stage counts with non-increasing io_ops; io_ops(k) >= k * (number of source or target chunks), so io_ops(1) >= 99 * that"),
  (("cubed/primitive/blockwise.py", "fuse", "primitive_op1.num_tasks == primitive_op2.num_tasks"),
    .unreachableProved "C17_fuse_assert_unreachable"),
  (("cubed/storage/virtual.py", "_key_to_index_tuple", "all((isinstance(s, (slice, Integral)) for s in selection))"),
    .internalInvariant "selections are built by get_item / the zarr indexer: tuples of slices"),
  (("cubed/storage/stores/zarr_python_v3.py", "open_zarr_v3_array", "mode is not None"),
    .internalInvariant "Optional narrowing; LazyZarrArray.create/open always pass a mode"),
  (("cubed/storage/stores/zarr_python_v3.py", "open_zarr_v3_array", "chunks is not None"),
    .internalInvariant "Optional narrowing; creation always passes chunks"),
  (("cubed/vendor/dask/blockwise.py", "_get_coord_mapping", "set(numblocks) == block_names"),
    .internalInvariant "primitive blockwise builds numblocks from the same name list as the arg/index pairs"),
  (("cubed/vendor/dask/array/reshape.py", "reshape_rechunk", "all((isinstance(c, tuple) for c in inchunks))"),
    .internalInvariant "x.chunks is a tuple of tuples"),
  (("cubed/vendor/dask/array/reshape.py", "expand_tuple", "sum(chunks) == sum(out)"),
    .unreachableProved "C17_expand_tuple_sum"),
  (("cubed/vendor/dask/array/reshape.py", "contract_tuple", "sum(chunks) % factor == 0"),
    .unreachableProved "C17_contract_tuple_divides"),
  (("cubed/vendor/rechunker/algorithm.py", "consolidate_chunks", "len(chunk_limits) == ndim"),
    .unreachableProved "C17_chunk_limits_length"),
  (("cubed/vendor/rechunker/algorithm.py", "consolidate_chunks", "headroom >= 1"),
    .unreachableProved "C17_headroom_ge_one"),
  (("cubed/vendor/rechunker/algorithm.py", "multistage_rechunking_plan", "prev_plan is not None"),
    .unreachableProved "C17_prev_plan_set"),
  (("cubed/vendor/rechunker/algorithm.py", "multistage_rechunking_plan", "raise AssertionError"),
    .searchBound "needs 99 stage counts with non-increasing io_ops; io_ops(k) >= k * (number of source or target chunks), so io_ops(1) >= 99 * that")
]

def classify (a : String × String × String) : Option Class :=
  (classification.find? (fun q => q.1 == a)).map (·.2)

/-- findings that may be `reachable`. -/
def listedFindings : List String := []

def recordOk (a : String × String × String) : Bool :=
  match classify a with
  | none => false
  | some (.reachable f) => listedFindings.contains f
  | some _ => true

/-- the planner loops: `prev_io_ops` and `prev_plan` are assigned together. -/
structure PlanLoop where
  prevIo : Option Nat
  prevPlan : Option Nat
deriving Repr

def PlanLoop.init : PlanLoop := ⟨none, none⟩
def PlanLoop.step (_ : PlanLoop) (io plan : Nat) : PlanLoop := ⟨some io, some plan⟩
def PlanLoop.run : PlanLoop → List (Nat × Nat) → PlanLoop
  | l, [] => l
  | l, (io, pl) :: rest => (l.step io pl).run rest

end Cubed.Validate
