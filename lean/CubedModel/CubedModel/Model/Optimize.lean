/-
  Structural (executable) model of the optimizers in cubed/core/optimization.py and of the fusion
  bookkeeping in cubed/primitive/blockwise.py:

    predecessor_ops_and_arrays, out_degree_unique, num_source_arrays      ↦ `poa`, `outDegreeUnique`, `numSourceArrays`
    can_fuse_predecessors / can_fuse_multiple_primitive_ops               ↦ `canFuse`
    peak_projected_mem (MemoryModeller)                                   ↦ `peakProjected`
    fuse_multiple / fuse_predecessors (dag rewiring)                      ↦ `fuseRec`, `fusePreds`
    multiple_inputs_optimize_dag, fuse_all_, fuse_only_                   ↦ `optimize`
    simple_optimize_dag, can_fuse_primitive_ops, fuse                     ↦ `simpleOptimize`
    Plan._find_ops_exceeding_memory                                       ↦ `exceeding`

  The dag is a list of op records (op nodes) whose array nodes are implicit in `outputs` / `inEdges`.
-/
import CubedModel.Model.Generated

namespace Cubed.Opt

structure OpRec where
  name : String
  sources : List String          -- primitive_op.source_array_names (ordered, with repeats); [] if no primitive op
  inEdges : List String          -- array -> op edges (a multiset; order irrelevant)
  outputs : List String          -- op -> array edges
  isPrim : Bool                  -- node has a "primitive_op"
  blockwise : Bool               -- pipeline.function == apply_blockwise
  fusPred : Bool
  fusSucc : Bool
  numTasks : Nat
  numInputBlocks : List Nat
  projMem : Nat
  allowedMem : Nat
  targetChunkMem : Nat           -- chunk_memory(target_array)
deriving Repr, Inhabited, DecidableEq

structure DagRec where
  ops : List OpRec
  virtual : List String          -- arrays whose target is a VirtualArray
deriving Repr, Inhabited

structure Params where
  arrayNames : List String
  maxSrc : Nat := Generated.defaultMaxTotalSourceArrays
  maxBlocks : Option Nat := some Generated.defaultMaxTotalNumInputBlocks
  always : Option (List String) := none
  never : Option (List String) := none
deriving Repr, Inhabited

def findOp (d : DagRec) (n : String) : Option OpRec := d.ops.find? (·.name == n)

/-- the unique op producing array `a` (`predecessors_unordered(dag, input)`, asserted to be one). -/
def producer (d : DagRec) (a : String) : Option OpRec := d.ops.find? (fun o => o.outputs.contains a)

/-- `out_degree_unique`: number of distinct ops reading array `a`. -/
def outDegreeUnique (d : DagRec) (a : String) : Nat :=
  (d.ops.filter (fun o => o.inEdges.contains a)).length

/-- `num_source_arrays`: in-edges of `o` (with repeats) from non-virtual arrays. -/
def numSourceArrays (d : DagRec) (o : OpRec) : Nat :=
  (o.inEdges.filter (fun a => !d.virtual.contains a)).length

/-- `is_fuse_candidate`. -/
def candidate (o : OpRec) : Bool := o.isPrim && o.blockwise && (o.fusPred || o.fusSucc)

/-- one entry of `predecessor_ops_and_arrays`. -/
def poaEntry (d : DagRec) (pre : OpRec) (a : String) : OpRec × String × Bool :=
  (pre, a, pre.isPrim && pre.fusSucc && outDegreeUnique d a == 1)

/-- `predecessor_ops_and_arrays`: (pre, input, can_fuse) per source array, in order
(`none`: some source array has no producer node — the Python `assert len(pre_list) == 1`). -/
def poaAux (d : DagRec) : List String → Option (List (OpRec × String × Bool))
  | [] => some []
  | a :: rest =>
    match producer d a, poaAux d rest with
    | some pre, some r => some (poaEntry d pre a :: r)
    | _, _ => none

def poa (d : DagRec) (o : OpRec) : Option (List (OpRec × String × Bool)) := poaAux d o.sources

/-- `peak_projected_mem` over the (non-None) ops, in order, with `MemoryModeller` (integers). -/
def peakProjected (ps : List OpRec) : Int :=
  (ps.foldl (fun (st : Int × Int) p =>
      let cur := st.1 + p.projMem
      let peak := max st.2 cur
      let cur' := cur - ((p.projMem : Int) - p.targetChunkMem)
      (cur', max peak cur')) (0, 0)).2

/-- refusal test `peak_projected > allowed_mem`; the operator is regenerated from the source. -/
def memRefuses (peak : Int) (allowed : Nat) : Bool :=
  match Generated.fuseMemRefuseOp with
  | "gt" => peak > allowed
  | "ge" => peak ≥ allowed
  | "lt" => peak < allowed
  | "le" => peak ≤ allowed
  | _ => true

def allCandidates (preds : List (Option OpRec)) : Bool :=
  preds.all (fun p => match p with | none => true | some p => candidate p)

/-- `can_fuse_multiple_primitive_ops`; `none` models the `zip(strict=True)` ValueError. -/
def canFuseMultiple (o : OpRec) (preds : List (Option OpRec)) (maxBlocks : Option Nat) : Option Bool :=
  if candidate o && allCandidates preds then
    if memRefuses (peakProjected (preds.filterMap id)) o.allowedMem then some false else
    match maxBlocks with
    | none => some ((preds.filterMap id).all (fun p => o.numTasks == p.numTasks))
    | some mb =>
      if o.numInputBlocks.length != preds.length then none else
      let total := ((o.numInputBlocks.zip preds).map (fun (ni, p) =>
        match p with
        | none => 0
        | some p => (p.numInputBlocks.map (fun nj => ni * nj)).sum)).sum
      some (total ≤ mb)
  else some false

/-- `xs is not None and name in xs`. -/
def optContains (l : Option (List String)) (n : String) : Bool :=
  match l with | some l => l.contains n | none => false

/-- `can_fuse_predecessors`.  `none` = the Python code raises. -/
def canFuse (d : DagRec) (o : OpRec) (ps : Params) : Option Bool :=
  if !(o.isPrim && o.fusPred) then some false else
  match poa d o with
  | none => none
  | some triples =>
    if triples.all (fun t => !t.2.2) then some false else
    if triples.any (fun t => ps.arrayNames.contains t.2.1) then some false else
    if triples.any (fun t => t.1.outputs.length > 1) then some false else
    if optContains ps.never o.name then some false else
    if optContains ps.always o.name then some true else
    if triples.length > 1 &&
        (triples.map (fun t => if t.2.2 then numSourceArrays d t.1 else 1)).sum > ps.maxSrc then some false else
    canFuseMultiple o (triples.map (fun t => if t.2.2 then some t.1 else none)) ps.maxBlocks

/-- `fuse_multiple`: the fused record (dag edges are rewired by `fusePreds`). -/
def fuseRec (o : OpRec) (preds : List (Option OpRec)) : OpRec :=
  let real := preds.filterMap id
  { o with
    sources := ((o.sources.zip preds).flatMap (fun (a, p) =>
      match p with | none => [a] | some p => p.sources))
    projMem := if Generated.fusedMemIsMax then (max (o.projMem : Int) (peakProjected real)).toNat else o.projMem
    numInputBlocks := ((o.numInputBlocks.zip preds).flatMap (fun (n, p) =>
      match p with | none => [n * 1] | some p => p.numInputBlocks.map (fun m => n * m)))
    fusPred := true
    fusSucc := true }

/-- `fuse_predecessors`. -/
def fusePreds (d : DagRec) (name : String) (ps : Params) : Option DagRec :=
  match findOp d name with
  | none => some d
  | some o =>
    match canFuse d o ps with
    | none => none
    | some false => some d
    | some true =>
      match poa d o with
      | none => none
      | some triples =>
        let preds := triples.map (fun t => if t.2.2 then some t.1 else none)
        let fused := fuseRec o preds
        let removedArrays := (triples.filter (·.2.2)).map (·.2.1)
        let removedOps := (triples.filter (·.2.2)).map (·.1.name)
        let newEdges := (o.inEdges.filter (fun a => !removedArrays.contains a))
          ++ (triples.filter (·.2.2)).flatMap (fun t => t.1.inEdges)
        let fused := { fused with inEdges := newEdges }
        some { d with ops := (d.ops.filter (fun q => !removedOps.contains q.name)).map
                        (fun q => if q.name == name then fused else q) }

/-- `multiple_inputs_optimize_dag`: visit the names of a precomputed topological order. -/
def optimize (d : DagRec) (order : List String) (ps : Params) : Option DagRec :=
  order.foldlM (fun d name => if name.startsWith "array-" then some d else fusePreds d name ps) d

def opNames (d : DagRec) : List String := (d.ops.map (·.name)).filter (·.startsWith "op-")

/-- `fuse_all_optimize_dag`. -/
def fuseAll (d : DagRec) (order : List String) (arrayNames : List String) : Option DagRec :=
  optimize d order { arrayNames := arrayNames, always := some (opNames d) }

/-- `fuse_only_optimize_dag`. -/
def fuseOnly (d : DagRec) (order : List String) (arrayNames only : List String) : Option DagRec :=
  optimize d order { arrayNames := arrayNames, always := some only,
                     never := some ((opNames d).filter (fun n => !only.contains n)) }

/-! legacy `simple_optimize_dag` -/

def outDegree (d : DagRec) (a : String) : Nat :=
  (d.ops.map (fun o => (o.inEdges.filter (· == a)).length)).sum

def simpleCanFuse (d : DagRec) (o2 : OpRec) (arrayNames : List String) : Option (OpRec × String) :=
  if !o2.isPrim then none else
  match o2.inEdges, o2.outputs with
  | [inp], [_] =>
    if arrayNames.contains inp then none else
    if outDegree d inp != 1 then none else
    match producer d inp with
    | none => none
    | some o1 =>
      if o1.outputs.length != 1 then none else
      if !o1.isPrim then none else
      if candidate o1 && candidate o2 && o1.numTasks == o2.numTasks then some (o1, inp) else none
  | _, _ => none

/-- `fuse(op1, op2)`. -/
def fusePairRec (o1 o2 : OpRec) : OpRec :=
  { o2 with
    sources := o1.sources
    inEdges := o1.inEdges.eraseDups          -- `for n in list(dag.predecessors(op1)): add_edge(n, op2)`
    projMem := if Generated.fusedPairMemIsMax then max o1.projMem o2.projMem else o2.projMem
    numInputBlocks := o1.numInputBlocks.map (fun n => n * (o2.numInputBlocks.headD 1))
    fusPred := true
    fusSucc := true }

def simpleOptimize (d : DagRec) (nodeOrder : List String) (arrayNames : List String) : DagRec :=
  nodeOrder.foldl (fun d n =>
    match findOp d n with
    | none => d
    | some o2 =>
      match simpleCanFuse d o2 arrayNames with
      | none => d
      | some (o1, _) =>
        { d with ops := (d.ops.filter (fun q => q.name != o1.name)).map
                    (fun q => if q.name == o2.name then fusePairRec o1 o2 else q) }) d

/-- `_find_ops_exceeding_memory`; the operator is regenerated from the source. -/
def exceeds (o : OpRec) : Bool :=
  match Generated.admitRefuseOp with
  | "gt" => o.projMem > o.allowedMem
  | "ge" => o.projMem ≥ o.allowedMem
  | "lt" => o.projMem < o.allowedMem
  | "le" => o.projMem ≤ o.allowedMem
  | _ => true

def exceeding (d : DagRec) : List String := ((d.ops.filter (fun o => o.isPrim && exceeds o)).map (·.name))

/-- admission (`FinalizedPlan.validate` / `execute`): refused iff some op exceeds. -/
def admits (d : DagRec) : Bool := (exceeding d).isEmpty


/-- Outcome of `FinalizedPlan.execute` as far as admission is concerned: `events` are the callback /
executor events, `writes` the storage writes performed (both abstract lists supplied by the run). -/
inductive Outcome (E W : Type) where
  | refused                                   -- ValueError raised by `validate()`
  | ran (events : List E) (writes : List W)
deriving Repr

/-- `FinalizedPlan.execute`: `self.validate()` first (regenerated fact), then the executor runs. -/
def execute {E W : Type} (d : DagRec) (run : DagRec → List E × List W) : Outcome E W :=
  if Generated.executeValidatesFirst && Generated.validateRaisesIffExceeding
      && Generated.finalizeRecordsExceeding && !admits d then .refused
  else .ran (run d).1 (run d).2

end Cubed.Opt
