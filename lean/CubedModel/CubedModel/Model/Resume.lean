/-
  Resume — executable model of crash / resume in cubed (property C09).  Core Lean only.

  Python                                                      model
  ---------------------------------------------------------   -------------------------------------------
  zarr store (keys -> bytes)                                  `Store` : metadata documents present + finite map chunk key ↦ value
  zarr `Array.nchunks_initialized`                            `initialized` (expected chunk keys that are present)
  zarr write of one chunk (`array.write_empty_chunks`)        `Store.put`   (config from `GeneratedC09.writeEmptyChunks`)
  cubed/storage/zarr.py  LazyZarrArray.create(mode)           `createArr`, `createDocs`, `Store.createA`
                                                                           (via stores/zarr_python_v3.py open_zarr_v3_array:
                                                                            create_array / ContainsArrayError / mode == "a";
                                                                            open_group(mode) for structured dtypes; probed:
                                                                            "w"/"w-" on an existing plain array raise, "w" on
                                                                            an existing group deletes it)
  cubed/storage/zarr.py  LazyZarrArray.open  (mode "r+")      `Arr.openable`
  cubed/core/plan.py     create_zarr_array                    `createArr genMode` (mode literal from `GeneratedC09.createMode`)
  cubed/core/plan.py     create_zarr_arrays / _create_lazy_zarr_arrays
                                                              an `Op` with `creates ≠ []`, no outputs with a target, no chunk tasks
  cubed/core/plan.py     already_computed                     `alreadyComputed` (`outputsComplete`, `outputComplete`, `notComplete`)
  cubed/core/plan.py     FinalizedPlan.execute (resume=True)  `firstRefusal` (all nodes are evaluated before anything runs), `resume`
  cubed/runtime/pipeline.py skip_node / visit_nodes           `skipNode`, `toRun`
  a task (one element of pipeline.mappable)                   `Task` : reads, stored chunks written (in order), function
  executor running the DAG sequentially                       `runTask`, `runOp`, `runOps` (`runOpA`, `runOpsA` under mode "a"),
                                                              `trace` (its write sequence, metadata documents included)
  any interleaving of chunk writes (threads / processes /     `Sched`, `runSched`, `ValidSched`
  retries / backups; zarr also issues the stored-chunk
  writes of ONE task concurrently, in no fixed order),
  a crash = any prefix                                        `List.take`

  Assumptions of the model (not verified here): a chunk write is atomic (zarr LocalStore writes to a temporary file and
  renames; MemoryStore assigns a dict entry) — no torn chunks; `nchunks_initialized` counts exactly the expected chunk keys
  that are present; tasks are deterministic functions of the chunks they read.
-/
import CubedModel.Model.GeneratedC09

namespace Cubed.Resume

/-! ## open modes -/

inductive Mode | r | rplus | a | w | wminus | invalid
  deriving DecidableEq, Repr

def Mode.ofString (s : String) : Mode :=
  if s = "a" then .a else if s = "w" then .w else if s = "w-" then .wminus
  else if s = "r" then .r else if s = "r+" then .rplus else .invalid

/-- the mode `create_zarr_array` passes to `LazyZarrArray.create` (regenerated from the source). -/
def genMode : Mode := Mode.ofString GeneratedC09.createMode

/-! ## store -/

structure Store (K V : Type) where
  docs : List K            -- metadata documents present (zarr.json of arrays / groups)
  chunks : List (K × V)    -- newest binding first

section
variable {K V : Type} [DecidableEq K]

def lookup (k : K) : List (K × V) → Option V
  | [] => none
  | p :: rest => if k = p.1 then some p.2 else lookup k rest

def Store.get (s : Store K V) (k : K) : Option V := lookup k s.chunks
def Store.present (s : Store K V) (k : K) : Bool := (s.get k).isSome
def Store.hasDoc (s : Store K V) (d : K) : Bool := decide (d ∈ s.docs)
def Store.set (s : Store K V) (k : K) (v : V) : Store K V := { s with chunks := (k, v) :: s.chunks }
def Store.erase (s : Store K V) (k : K) : Store K V := { s with chunks := s.chunks.filter (fun p => !decide (p.1 = k)) }
def Store.addDoc (s : Store K V) (d : K) : Store K V := if d ∈ s.docs then s else { s with docs := s.docs ++ [d] }
def Store.addDocs (s : Store K V) (ds : List K) : Store K V := ds.foldl Store.addDoc s

/-- How zarr writes one chunk: with `write_empty_chunks = False` a chunk equal to the fill value is not stored
(an existing key is deleted). -/
structure WriteCfg (V : Type) where
  writeEmpty : Bool
  isFill : V → Bool

def Store.put (c : WriteCfg V) (s : Store K V) (k : K) (v : V) : Store K V :=
  if !c.writeEmpty && c.isFill v then s.erase k else s.set k v

/-- the configuration cubed forces in the store opener module (regenerated from the source). -/
def genCfg (isFill : V → Bool) : WriteCfg V := ⟨GeneratedC09.writeEmptyChunks, isFill⟩

/-! ## arrays, tasks, operations -/

structure Arr (K : Type) where
  name : String
  ndim : Nat
  doc : K                 -- the array's (or, for a structured dtype, the group's) own metadata document
  parents : List K        -- implicit parent group documents written when missing (the root zarr.json)
  fields : List K         -- metadata documents of the per-field arrays of a structured dtype ([] otherwise)
  grid : List K           -- the expected chunk keys; nchunks = grid.length
  structured : Bool       -- stored as ZarrV3ArrayGroup: has no `nchunks_initialized`

def Arr.allDocs (a : Arr K) : List K := a.doc :: (a.parents ++ a.fields)

/-- `LazyZarrArray.open()` succeeds. -/
def Arr.openable (s : Store K V) (a : Arr K) : Bool := s.hasDoc a.doc && a.fields.all s.hasDoc

/-- zarr `nchunks_initialized`. -/
def initialized (s : Store K V) (a : Arr K) : Nat := (a.grid.filter s.present).length

structure Task (K V : Type) where
  reads : List K                          -- chunk keys read at the start of the task
  outs : List K                           -- stored chunks written, in write order (several for rechunk / multi-output)
  fn : List (Option V) → K → V            -- value of each written chunk from the values read

structure Op (K V : Type) where
  name : String
  hasPipeline : Bool
  outputs : List (Arr K)     -- successor array nodes that have a target
  creates : List (Arr K)     -- lazy arrays created by the tasks of this op (create-arrays only)
  tasks : List (Task K V)

/-! ## create -/

inductive CreateErr | containsArray | fileExists | notFound | badMode
  deriving DecidableEq, Repr

/-- `open_group(mode="w")` deletes the group directory. -/
def Store.wipe (s : Store K V) (a : Arr K) : Store K V :=
  { docs := s.docs.filter (fun d => !decide (d ∈ a.doc :: a.fields)),
    chunks := s.chunks.filter (fun p => !decide (p.1 ∈ a.grid)) }

/-- documents a mode-"a" create writes: nothing for an existing plain array (`create_array` raises
`ContainsArrayError` before touching the store, then `open_array`); an existing group is opened and only its missing
field arrays are created; otherwise the array's document, the missing parent group documents and the field arrays. -/
def createDocs (s : Store K V) (a : Arr K) : List K := if s.hasDoc a.doc then a.fields else a.allDocs

/-- create with mode "a". -/
def Store.createA (s : Store K V) (a : Arr K) : Store K V := s.addDocs (createDocs s a)

def createAllA (s : Store K V) (arrs : List (Arr K)) : Store K V := arrs.foldl Store.createA s

def createArr (m : Mode) (s : Store K V) (a : Arr K) : Except CreateErr (Store K V) :=
  match m with
  | .a => .ok (s.createA a)
  | .w =>
    if a.structured then .ok ((s.wipe a).addDocs a.allDocs)
    else if s.hasDoc a.doc then .error .containsArray else .ok (s.addDocs a.allDocs)
  | .wminus =>
    if s.hasDoc a.doc then .error (if a.structured then .fileExists else .containsArray)
    else .ok (s.addDocs a.allDocs)
  | .r => if a.openable s then .ok s else .error .notFound
  | .rplus => if a.openable s then .ok s else .error .notFound
  | .invalid => .error .badMode

def createAll (m : Mode) (s : Store K V) : List (Arr K) → Except CreateErr (Store K V)
  | [] => .ok s
  | a :: as => match createArr m s a with
    | .error e => .error e
    | .ok s' => createAll m s' as

/-! ## already_computed, skip_node -/

def cmpOf (op : String) (x y : Nat) : Bool :=
  if op = "ne" then x != y else if op = "lt" then decide (x < y) else if op = "le" then decide (x ≤ y)
  else if op = "gt" then decide (x > y) else if op = "ge" then decide (x ≥ y) else x == y

/-- the test `target.ndim == 0 or target.nchunks_initialized != target.nchunks` (shape regenerated from the source). -/
def notComplete (ndim init n : Nat) : Bool :=
  (GeneratedC09.alreadyComputedNdim0 && ndim == 0) || cmpOf GeneratedC09.alreadyComputedCmp init n

inductive Refusal
  | noInitializedCount       -- NotImplementedError: storage has no `nchunks_initialized`
  | structuredNotCreated     -- GroupNotFoundError / KeyError while opening a structured target that was not (fully) created
  | attributeError           -- only if the hasattr test were removed from the source
  deriving DecidableEq, Repr

/-- Body of the loop over one output: `.ok false` = `return False`, `.ok true` = go on with the next output. -/
def outputComplete (s : Store K V) (a : Arr K) : Except Refusal Bool :=
  if a.structured then
    if a.openable s then
      .error (if GeneratedC09.refusesWithoutCount then .noInitializedCount else .attributeError)
    else .error .structuredNotCreated
  else if !a.openable s then
    (if GeneratedC09.arrayNotFoundIsIncomplete then .ok false else .error .structuredNotCreated)
  else .ok (!notComplete a.ndim (initialized s a) a.grid.length)

def outputsComplete (s : Store K V) : List (Arr K) → Except Refusal Bool
  | [] => .ok true
  | a :: as => match outputComplete s a with
    | .error e => .error e
    | .ok false => .ok false
    | .ok true => if GeneratedC09.allOutputsChecked then outputsComplete s as else .ok true

def alreadyComputed (s : Store K V) (o : Op K V) : Except Refusal Bool :=
  if !o.hasPipeline then .ok true
  else if GeneratedC09.createArraysNeverComputed && o.outputs.isEmpty then .ok false
  else outputsComplete s o.outputs

/-- `FinalizedPlan.execute` evaluates `already_computed` for every node, in topological order, before the executor
starts: the first exception aborts the compute. -/
def firstRefusal (s : Store K V) : List (Op K V) → Option Refusal
  | [] => none
  | o :: os => match alreadyComputed s o with
    | .error r => some r
    | .ok _ => firstRefusal s os

/-- `skip_node` with the node attribute `computed` set from `already_computed` on the store as it is at resume time. -/
def skipNode (s : Store K V) (o : Op K V) : Bool :=
  !o.hasPipeline ||
    (GeneratedC09.skipHonoursComputed && GeneratedC09.computedOnlyOnResume &&
      (match alreadyComputed s o with | .ok b => b | .error _ => false))

/-- the operations `visit_nodes` yields on resume. -/
def toRun (s : Store K V) (ops : List (Op K V)) : List (Op K V) := ops.filter (fun o => !skipNode s o)

/-! ## sequential execution -/

def taskWrites (s : Store K V) (t : Task K V) : List (K × V) :=
  t.outs.map (fun k => (k, t.fn (t.reads.map s.get) k))

def applyWrites (c : WriteCfg V) (s : Store K V) (ws : List (K × V)) : Store K V :=
  ws.foldl (fun acc w => acc.put c w.1 w.2) s

/-- one task: read once, then write the stored chunks one after the other. -/
def runTask (c : WriteCfg V) (s : Store K V) (t : Task K V) : Store K V := applyWrites c s (taskWrites s t)

def runTasks (c : WriteCfg V) (s : Store K V) (ts : List (Task K V)) : Store K V := ts.foldl (runTask c) s

def runOp (m : Mode) (c : WriteCfg V) (s : Store K V) (o : Op K V) : Except CreateErr (Store K V) :=
  match createAll m s o.creates with
  | .error e => .error e
  | .ok s' => .ok (runTasks c s' o.tasks)

def runOps (m : Mode) (c : WriteCfg V) (s : Store K V) : List (Op K V) → Except CreateErr (Store K V)
  | [] => .ok s
  | o :: os => match runOp m c s o with
    | .error e => .error e
    | .ok s' => runOps m c s' os

inductive Outcome (K V : Type)
  | refused (r : Refusal)                 -- raised by `execute` before the executor is called: nothing ran
  | createFailed (e : CreateErr)          -- a create task failed (cannot happen with mode "a")
  | done (s : Store K V)

/-- `compute(resume=True)` on the store `s` left behind by the interrupted compute. -/
def resume (m : Mode) (c : WriteCfg V) (ops : List (Op K V)) (s : Store K V) : Outcome K V :=
  match firstRefusal s ops with
  | some r => .refused r
  | none => match runOps m c s (toRun s ops) with
    | .error e => .createFailed e
    | .ok s' => .done s'

/-! ## the write sequence of a sequential run (what a crash cuts) -/

inductive Write (K V : Type)
  | doc (d : K)
  | chunk (k : K) (v : V)

def Store.apply (c : WriteCfg V) (s : Store K V) : Write K V → Store K V
  | .doc d => s.addDoc d
  | .chunk k v => s.put c k v

def Store.applyAll (c : WriteCfg V) (s : Store K V) (ws : List (Write K V)) : Store K V := ws.foldl (Store.apply c) s

/-- what `runOp` / `runOps` compute under mode "a" (no create can fail, nothing is removed). -/
def runOpA (c : WriteCfg V) (s : Store K V) (o : Op K V) : Store K V :=
  runTasks c (createAllA s o.creates) o.tasks

def runOpsA (c : WriteCfg V) (s : Store K V) (ops : List (Op K V)) : Store K V := ops.foldl (runOpA c) s

def taskTrace (c : WriteCfg V) (s : Store K V) : List (Task K V) → List (Write K V)
  | [] => []
  | t :: ts => (taskWrites s t).map (fun w => Write.chunk w.1 w.2) ++ taskTrace c (runTask c s t) ts

/-- document writes of a mode-"a" create of `arrs`.  Writing a document that is already present is a no-op
(`Store.addDoc`). -/
def docTrace (s : Store K V) : List (Arr K) → List (Write K V)
  | [] => []
  | a :: as => (createDocs s a).map Write.doc ++ docTrace (s.createA a) as

/-- write sequence of the sequential run of `ops` from `s` under mode "a". -/
def trace (c : WriteCfg V) (s : Store K V) : List (Op K V) → List (Write K V)
  | [] => []
  | o :: os =>
    let s1 := createAllA s o.creates
    docTrace s o.creates ++ taskTrace c s1 o.tasks ++ trace c (runTasks c s1 o.tasks) os

/-! ## arbitrary interleavings at chunk-write granularity -/

/-- one step of a schedule: task `t` writes its stored chunk `k` (value computed from what it reads). -/
abbrev Sched (K V : Type) := List (Task K V × K)

def chunkStep (c : WriteCfg V) (s : Store K V) (t : Task K V) (k : K) : Store K V :=
  s.put c k (t.fn (t.reads.map s.get) k)

def runSched (c : WriteCfg V) (s : Store K V) (σ : Sched K V) : Store K V :=
  σ.foldl (fun acc st => chunkStep c acc st.1 st.2) s

/-! ## hypotheses on plans and schedules (established elsewhere: C05 single writer, C07 ordering) -/

def opOuts (o : Op K V) : List K := o.tasks.flatMap (·.outs)
def outKeys (ops : List (Op K V)) : List K := ops.flatMap opOuts

/-- the operation list is in topological order: no task reads a chunk written by its own operation or by a later one. -/
def OpTopo : List (Op K V) → Prop
  | [] => True
  | o :: os => (∀ t ∈ o.tasks, ∀ r ∈ t.reads, r ∉ opOuts o ∧ r ∉ outKeys os) ∧ OpTopo os

structure WF (ops : List (Op K V)) : Prop where
  /-- C05: every stored chunk has exactly one writer (one task, once in its write list). -/
  single : (outKeys ops).Nodup
  /-- topological order of the DAG. -/
  topo : OpTopo ops
  /-- the tasks of an operation write exactly the chunks of its output arrays. -/
  exact : ∀ o ∈ ops, ∀ k, k ∈ opOuts o ↔ ∃ a ∈ o.outputs, k ∈ a.grid
  /-- nodes without a pipeline have nothing to run. -/
  nopipe : ∀ o ∈ ops, o.hasPipeline = false → o.tasks = [] ∧ o.creates = []

/-- the values of the uninterrupted sequential run from `s0`. -/
def den (c : WriteCfg V) (s0 : Store K V) (ops : List (Op K V)) : K → Option V := (runOpsA c s0 ops).get

/-- every chunk of the plan that is present holds its final value; everything else is as in the final store. -/
def Sound (c : WriteCfg V) (s0 : Store K V) (ops : List (Op K V)) (s : Store K V) : Prop :=
  ∀ k, s.get k = den c s0 ops k ∨ (k ∈ outKeys ops ∧ s.get k = none)

/-- C07 for one task: every chunk of the plan it reads is present (its producers have finished). -/
def Ready (ops : List (Op K V)) (s : Store K V) (t : Task K V) : Prop :=
  ∀ r ∈ t.reads, r ∈ outKeys ops → s.present r = true

/-- a schedule all of whose steps belong to tasks of the plan and start only when their inputs are there.
Steps may repeat (retries, backup tasks) and interleave arbitrarily. -/
def ValidSched (c : WriteCfg V) (ops : List (Op K V)) (s : Store K V) : Sched K V → Prop
  | [] => True
  | st :: rest =>
    (∃ o ∈ ops, st.1 ∈ o.tasks) ∧ st.2 ∈ st.1.outs ∧ Ready ops s st.1 ∧ ValidSched c ops (chunkStep c s st.1 st.2) rest

/-- an array all of whose chunks are present. -/
def Arr.complete (s : Store K V) (a : Arr K) : Prop := ∀ k ∈ a.grid, s.present k = true

end

end Cubed.Resume
