/-
  StoreSem — executable model of `cubed.store` / `cubed.to_zarr` (C11).  Core Lean only.

  Python                                                   Lean
  -------------------------------------------------------  -------------------------------------------
  slice(start, stop, step)                                  PSlice
  slice.indices(n) for step >= 1                            clip, startOf, stopOf, stepOf, normalize   (Norm)
  zarr SliceDimIndexer.nitems                               Norm.nitems
  zarr SliceDimIndexer.__iter__ (chunks hit, empty ones
      skipped; FixedDimension.index_to_chunk/data_size)     chunkNItems, hitBlocks
  zarr common.ceildiv                                       ceildiv
  ops._store_array, region branch:
      alignment test  `start % cs`, `stop % cs`, `stop == shape[i]`   misaligned
      zarr refuses the slice (step < 1)                     badStepAxis
      `source.shape != indexer.shape`                       shapeMismatchAxis
      (all of them, n-D, in the code's order)               validate                 (Verdict)   [before ba97b91]
      steps refused, bounds normalised, alignment on the
      normalised bounds, shape, len(region)                 normalizeAxis, accept, acceptReq   [after ba97b91]
      source rechunked to the target chunks                 rechunkToTarget, prepare, prepare1
      the fixed branch = old pipeline on the prepared input storeRegion, storeAxis
      block_offsets = start // cs  (0 for None)             blockOffset
      back_key_function  bi - off                           srcBlockOf
      OutputBlocksIterable (OrthogonalIndexer product)      axisBlocks, outputBlocks
      num_tasks = source.npartitions                        srcBlocks, declaredTasks
  primitive.blockwise.apply_blockwise for that op:
      get_chunk -> key_to_slices(source chunks)             srcInterval (IndexError when the block is absent)
      key_to_slices(out_coords, target, write_proxy.chunks) tgtInterval
      zarr `target[slot] = value`: value[:W], then numpy
      broadcasting (equal length or length 1)               writeSlot                (AxisTask)
      one task along one axis / n-D                         axisTask / ndTask
      all tasks in mappable order, stop at first failure    runTasks, runAxis, runRegion   (Run)
      contents after the writes                             applyPairs;  Python's `t[sl] = s`: expectedAxis, InRegion
  ops._store_array, no-region branch, computed source
      (blockwise identity with the source's chunks,
       slot computed against the target's extent)           copyBlocks, copyTask, runCopy; validateNoRegionOld
      shape check + rechunk of unaligned sources (d416aac)  validateNoRegion, copyChunk, storeCopy
  ops.store: len checks, region tuple vs list, zip          pairUp                   (RegionsArg, PairErr)
  ops.store loop over _store_array + compute_arrays:
      in-place re-targeting of lazy sources, read proxies
      captured at build time, stale reads = `broken`        retarget, movedTo, buildJobs, jobStale, jobResult,
                                                            storeOutcome, storeWorld   (Arrays, Pair, Job, Outcome)
  stored chunks a copy task touches (existing target)       chunksTouched
  decidable side conditions of the partial theorems         stepOne, nonNegBounds, chunksAgree,
                                                            allAccepted, lazyOnce, noDependants, targetsDistinct

  Arrays are functions `Nat → V` (1-D) or `List Nat → V` (n-D); a run yields the list of
  (target index, source index) pairs that were written, in write order.
-/
namespace Cubed.StoreSem

/-! ## Python slices and the zarr slice indexer -/

structure PSlice where
  start : Option Int := none
  stop : Option Int := none
  step : Option Int := none
  deriving DecidableEq, Repr

/-- One endpoint of `slice.indices(n)` for a positive step: negative values count from the end,
the result is clipped to `[0, n]`. -/
def clip (n : Nat) (v : Int) : Nat :=
  if v < 0 then (v + n).toNat else min v.toNat n

/-- Normalised slice `(start, stop, step)` as computed by `SliceDimIndexer.__init__`. -/
structure Norm where
  start : Nat
  stop : Nat
  step : Nat
  deriving DecidableEq, Repr

/-- normalised start: `None` ↦ 0 -/
def startOf (sl : PSlice) (n : Nat) : Nat := match sl.start with | none => 0 | some s => clip n s
/-- normalised stop: `None` ↦ n -/
def stopOf (sl : PSlice) (n : Nat) : Nat := match sl.stop with | none => n | some e => clip n e
/-- step: `None` ↦ 1 -/
def stepOf (sl : PSlice) : Int := match sl.step with | none => 1 | some s => s

/-- `dim_sel.indices(dim_len)`; `none` when `step < 1` (zarr: NegativeStepError, Python: ValueError for 0). -/
def normalize (sl : PSlice) (n : Nat) : Option Norm :=
  if stepOf sl < 1 then none
  else some { start := startOf sl n, stop := stopOf sl n, step := (stepOf sl).toNat }

/-- `nitems = max(0, ceildiv(stop - start, step))`. -/
def Norm.nitems (nm : Norm) : Nat :=
  if nm.stop ≤ nm.start then 0 else (nm.stop - nm.start + nm.step - 1) / nm.step

/-- zarr `ceildiv(a, b) = 0 if a == 0 else math.ceil(a / b)` for `b > 0`. -/
def ceildiv (a b : Int) : Int := if a = 0 then 0 else -((-a) / b)

/-- `dim_chunk_nitems` of `SliceDimIndexer.__iter__` for chunk `b` of a length-`n` axis with chunk size `cs`. -/
def chunkNItems (n cs : Nat) (nm : Norm) (b : Nat) : Int :=
  let off : Int := b * cs
  let len : Int := min cs (n - b * cs)
  let selStart : Int :=
    if (nm.start : Int) < off then
      (let r := (off - nm.start) % (nm.step : Int); if r ≠ 0 then nm.step - r else 0)
    else nm.start - off
  let selStop : Int := if (nm.stop : Int) > off + len then len else nm.stop - off
  ceildiv (selStop - selStart) nm.step

/-- Chunk indices yielded by `SliceDimIndexer.__iter__`, in order. -/
def hitBlocks (n cs : Nat) (nm : Norm) : List Nat :=
  if nm.stop ≤ nm.start then [] else
  let lo := nm.start / cs
  let hi := (nm.stop - 1) / cs + 1
  (List.range' lo (hi - lo)).filter (fun b => chunkNItems n cs nm b ≠ 0)

/-! ## One axis of a region store request -/

/-- One axis of `_store_array(source, target, region=…)` in its region branch. -/
structure Axis where
  /-- target length (`target.shape[i]`) -/
  n : Nat
  /-- target chunk size: `chunks = getattr(target, "shards", None) or target.chunks` — the shard size for a
  sharded target (commit b3e0575: alignment, output blocks, rechunk of the source and write slots all use it),
  else the stored chunk size; see `regionChunk` -/
  cs : Nat
  /-- the region's slice for this axis -/
  sl : PSlice
  /-- source length (`source.shape[i]`) -/
  m : Nat
  /-- source chunk size (`source.chunksize[i]`) -/
  sc : Nat
  deriving DecidableEq, Repr

/-- `getattr(target, "shards", None) or target.chunks` along one axis -/
def regionChunk (chunk : Nat) (shard : Option Nat) : Nat :=
  match shard with
  | some s => s
  | none => chunk

/-- The alignment test of `_store_array`, on the *raw* slice fields:
`(start is not None and start % cs != 0) or (stop is not None and stop % cs != 0 and stop != shape[i])`. -/
def misaligned (a : Axis) : Bool :=
  (match a.sl.start with | some s => s % (a.cs : Int) != 0 | none => false) ||
  (match a.sl.stop with | some e => e % (a.cs : Int) != 0 && e != (a.n : Int) | none => false)

inductive Verdict where
  | ok
  /-- ValueError "Region … does not align with target chunks …" -/
  | misaligned
  /-- ValueError "Source array shape … does not match region shape …" -/
  | shapeMismatch
  /-- the slice step is refused: by the zarr indexer (step < 1) before the fix, by
  `_store_array` itself ("must not have steps other than 1") after it -/
  | badStep
  /-- ValueError "Region … must be a tuple of n slices" (after the fix) -/
  | badRegion
  deriving DecidableEq, Repr

/-- the zarr indexer refuses the axis' slice -/
def badStepAxis (a : Axis) : Bool := (normalize a.sl a.n).isNone

/-- `source.shape[i] != indexer.shape[i]` -/
def shapeMismatchAxis (a : Axis) : Bool :=
  match normalize a.sl a.n with
  | some nm => a.m != nm.nitems
  | none => false

/-- The build-time checks of the region branch, in the code's order: alignment of every axis, then
(after the indexer has been built) the shape comparison over all axes. -/
def validate (axes : List Axis) : Verdict :=
  if axes.any misaligned then .misaligned
  else if axes.any badStepAxis then .badStep
  else if axes.any shapeMismatchAxis then .shapeMismatch
  else .ok

/-- `block_offsets[i] = 0 if start is None else start // cs` (floor division on the raw start). -/
def blockOffset (a : Axis) : Int :=
  match a.sl.start with
  | none => 0
  | some s => s / (a.cs : Int)

/-- `back_key_function`: source block coordinate for target block `bi`. -/
def srcBlockOf (a : Axis) (bi : Nat) : Int := (bi : Int) - blockOffset a

/-- number of blocks of the source along the axis (`normalize_chunks`: a zero-length axis has one empty block). -/
def srcBlocks (a : Axis) : Nat := if a.m = 0 then 1 else (a.m + a.sc - 1) / a.sc

/-- `get_item(source.chunks, sb)`: the index interval `[lo, hi)` of source block `sb`;
`none` models the `IndexError` raised by the tuple lookup when the block does not exist. -/
def srcInterval (a : Axis) (sb : Int) : Option (Nat × Nat) :=
  if sb < 0 then none
  else if sb.toNat < srcBlocks a then some (sb.toNat * a.sc, min ((sb.toNat + 1) * a.sc) a.m)
  else none

/-- `key_to_slices(out_coords, target, write_proxy.chunks)` with `write_proxy.chunks` = target chunks. -/
def tgtInterval (a : Axis) (bi : Nat) : Nat × Nat := (bi * a.cs, min ((bi + 1) * a.cs) a.n)

inductive AxisTask where
  /-- reading the source block raised IndexError -/
  | indexError
  /-- zarr/numpy could not broadcast the value into the slot -/
  | broadcastError
  /-- (target index, source index) pairs written along this axis -/
  | write (pairs : List (Nat × Nat))
  deriving DecidableEq, Repr

/-- zarr `target[tlo : tlo+w] = value` for a value that is source[lo : lo+len]: zarr takes `value[:w]`
and NumPy broadcasts the rest (same length, or length 1). -/
def writeSlot (tlo w lo len : Nat) : AxisTask :=
  if min len w = w then .write ((List.range w).map (fun j => (tlo + j, lo + j)))
  else if min len w = 1 then .write ((List.range w).map (fun j => (tlo + j, lo)))
  else .broadcastError

/-- The task for target block `bi` along one axis: read source block `bi - off`, assign it to the
target slot. -/
def axisTask (a : Axis) (bi : Nat) : AxisTask :=
  match srcInterval a (srcBlockOf a bi) with
  | none => .indexError
  | some iv => writeSlot (tgtInterval a bi).1 ((tgtInterval a bi).2 - (tgtInterval a bi).1) iv.1 (iv.2 - iv.1)

/-- Output blocks of the region op along the axis (empty when the slice is refused). -/
def axisBlocks (a : Axis) : List Nat :=
  match normalize a.sl a.n with
  | some nm => hitBlocks a.n a.cs nm
  | none => []

/-! ## n-D: products -/

/-- `itertools.product` of lists, first axis slowest. -/
def cartesian {α : Type} : List (List α) → List (List α)
  | [] => [[]]
  | l :: ls => l.flatMap (fun x => (cartesian ls).map (fun xs => x :: xs))

/-- The n-D region as a relation between a target index and the source index it must be read from:
every axis index lies in that axis' `[start, stop)` and is read from `i - start`. -/
def InRegion : List Axis → List Nat → List Nat → Prop
  | [], [], [] => True
  | a :: as, i :: is, j :: js =>
      (startOf a.sl a.n ≤ i ∧ i < stopOf a.sl a.n ∧ j = i - startOf a.sl a.n) ∧ InRegion as is js
  | _, _, _ => False

/-- `list(pipeline.mappable)` of the region op. -/
def outputBlocks (axes : List Axis) : List (List Nat) := cartesian (axes.map axisBlocks)

/-- `num_tasks = source.npartitions`. -/
def declaredTasks (axes : List Axis) : Nat := (axes.map srcBlocks).foldl (· * ·) 1

inductive TaskErr where
  | indexError
  | broadcastError
  deriving DecidableEq, Repr

/-- One n-D task: per-axis reads and writes are independent, the element pairs are their product.
Reading precedes writing, so an absent source block wins over a broadcast failure. -/
def ndTask (axes : List Axis) (bis : List Nat) : Except TaskErr (List (List Nat × List Nat)) :=
  let ts := (axes.zip bis).map (fun p => axisTask p.1 p.2)
  if ts.any (· == .indexError) then .error .indexError
  else if ts.any (· == .broadcastError) then .error .broadcastError
  else
    let per : List (List (Nat × Nat)) := ts.map (fun t => match t with | .write ps => ps | _ => [])
    .ok ((cartesian per).map (fun ps => (ps.map (·.1), ps.map (·.2))))

/-- Result of running the tasks one after the other (single-threaded executor): the pairs written
so far and the error that stopped the run, if any. -/
structure Run (ι : Type) where
  written : List (ι × ι)
  err : Option TaskErr
  deriving Repr

def runTasks {β ι : Type} (task : β → Except TaskErr (List (ι × ι))) : List β → Run ι
  | [] => ⟨[], none⟩
  | b :: bs =>
    match task b with
    | .error e => ⟨[], some e⟩
    | .ok ps => let r := runTasks task bs; ⟨ps ++ r.written, r.err⟩

/-- The region op of an accepted request, executed sequentially in mappable order. -/
def runRegion (axes : List Axis) : Run (List Nat) := runTasks (ndTask axes) (outputBlocks axes)

/-- a task's result as the executor sees it -/
def AxisTask.toExcept : AxisTask → Except TaskErr (List (Nat × Nat))
  | .indexError => .error .indexError
  | .broadcastError => .error .broadcastError
  | .write ps => .ok ps

/-- 1-D specialisation used by the main theorems. -/
def axisRunTask (a : Axis) (bi : Nat) : Except TaskErr (List (Nat × Nat)) := (axisTask a bi).toExcept

def runAxis (a : Axis) : Run Nat := runTasks (axisRunTask a) (axisBlocks a)

/-- Sequential application of writes to a target array: later writes win. -/
def applyPairs {ι V : Type} [DecidableEq ι] (src : ι → V) : List (ι × ι) → (ι → V) → (ι → V)
  | [], t => t
  | (i, j) :: ps, t => applyPairs src ps (fun k => if k = i then src j else t k)

/-- What `target[sl] = source` means in Python/NumPy (the property's expectation), one axis. -/
def expectedAxis {V : Type} (nm : Norm) (src tgt : Nat → V) (i : Nat) : V :=
  if nm.start ≤ i ∧ i < nm.stop ∧ (i - nm.start) % nm.step = 0 then src ((i - nm.start) / nm.step) else tgt i

/-! ### the explicit extra hypotheses of the partial theorems (all decidable) -/

/-- the region's step is `None` or `1` (the code never looks at the step) -/
def stepOne (a : Axis) : Bool := a.sl.step == none || a.sl.step == some 1

/-- `start` / `stop` are not negative (the code applies `%` and `//` to the raw, un-normalised values) -/
def nonNegBounds (a : Axis) : Bool :=
  (match a.sl.start with | some s => decide (0 ≤ s) | none => true) &&
  (match a.sl.stop with | some e => decide (0 ≤ e) | none => true)

/-- source and target are chunked alike along the axis: same chunk size, or the source is a single
block that fits into one target chunk (the code never compares the chunkings) -/
def chunksAgree (a : Axis) : Bool := a.sc == a.cs || (decide (a.m ≤ a.sc) && decide (a.m ≤ a.cs))

/-! ## The region branch after commit ba97b91

`validate` / `blockOffset` / `runRegion` above are the branch as it was; the fixed code first refuses steps, *normalises*
the region with `slice.indices`, tests the alignment on the normalised bounds, and — after the shape test —
rechunks the source to the target's chunks; then the same pipeline runs on the normalised region. -/

/-- `region = tuple(slice(*sl.indices(n)[:2]) …)` -/
def normalizeAxis (a : Axis) : Axis :=
  { a with sl := ⟨some (startOf a.sl a.n : Nat), some (stopOf a.sl a.n : Nat), none⟩ }

/-- `sl.step not in (None, 1)` -/
def stepBad (a : Axis) : Bool := !stepOne a

/-- The build-time checks of the fixed region branch, in the code's order: steps, alignment of the normalised
bounds, shape. -/
def accept (axes : List Axis) : Verdict :=
  if axes.any stepBad then .badStep
  else if axes.any (fun a => misaligned (normalizeAxis a)) then .misaligned
  else if axes.any shapeMismatchAxis then .shapeMismatch
  else .ok

/-- … preceded by `len(region) != len(shape)`. -/
def acceptReq (ndim regionLen : Nat) (axes : List Axis) : Verdict :=
  if regionLen ≠ ndim then .badRegion else accept axes

/-- `source.rechunk(to_chunksize(normalize_chunks(target.chunks, source.shape)))` unless the source is empty:
afterwards the source chunk size is `min cs m` along every axis (also when no rechunk was needed). -/
def rechunkToTarget (axes : List Axis) : List Axis :=
  if axes.all (fun a => decide (0 < a.m)) then axes.map (fun a => { a with sc := min a.cs a.m }) else axes

def prepare (axes : List Axis) : List Axis := rechunkToTarget (axes.map normalizeAxis)

/-- one axis of `prepare` -/
def prepare1 (a : Axis) : Axis :=
  if 0 < a.m then { normalizeAxis a with sc := min a.cs a.m } else normalizeAxis a

/-- The region op of an accepted request as the fixed code builds it, executed sequentially. -/
def storeRegion (axes : List Axis) : Run (List Nat) := runRegion (prepare axes)

def storeAxis (a : Axis) : Run Nat := runAxis (prepare1 a)

/-! ## No-region branch, computed (non-lazy) source: blockwise identity with the source's chunks -/

/-- number of blocks of a length-`m` axis with chunk size `sc` (`normalize_chunks`) -/
def copyBlocks (m sc : Nat) : Nat := if m = 0 then 1 else (m + sc - 1) / sc

/-- Task `b` of the identity copy of a length-`m` source with chunk size `sc` into a target of length `n`:
the write proxy carries the *source's* chunk size but the slot is computed against the *target's* extent
(`key_to_slices(out_coords, write_proxy.array, write_proxy.chunks)` normalises the chunks with the target's
shape): slot `[b*sc, min((b+1)*sc, n))`, IndexError when the target has no such block. -/
def copyTask (m sc n b : Nat) : AxisTask :=
  if b < copyBlocks n sc then
    writeSlot (b * sc) (min ((b + 1) * sc) n - b * sc) (b * sc) (min ((b + 1) * sc) m - b * sc)
  else .indexError

/-- all tasks of the copy op, one per source block, in order -/
def runCopy (m sc n : Nat) : Run Nat :=
  runTasks (fun b => (copyTask m sc n b).toExcept) (List.range (copyBlocks m sc))

/-- Before commit d416aac the no-region branch had no shape check at all. -/
def validateNoRegionOld (_m _n : Nat) : Verdict := .ok

/-- `if source.shape != target.shape: raise ValueError` (existing storage target, commit d416aac). -/
def validateNoRegion (m n : Nat) : Verdict := if m ≠ n then .shapeMismatch else .ok

/-- The chunk size the copy runs with: when the source chunk is neither a multiple of the stored target chunk
`tc` nor spans the axis (`sc % tc == 0 or sc >= n`), the source is rechunked to the target chunks first. -/
def copyChunk (m sc tc : Nat) : Nat := if sc % tc == 0 || decide (m ≤ sc) then sc else tc

/-- The no-region store of a length-`m` source (chunk `sc`) into an existing length-`m` array with stored chunk `tc`. -/
def storeCopy (m sc tc : Nat) : Run Nat := runCopy m (copyChunk m sc tc) m

/-! ## `store`: pairing of sources, targets and regions -/

/-- the `regions` argument: `None`, one tuple for all pairs, or a list -/
inductive RegionsArg (R : Type) where
  | none
  | one (r : R)
  | many (rs : List R)

inductive PairErr where
  /-- "Different number of sources (…) and targets (…)" -/
  | lenTargets
  /-- "Different number of sources […] and targets […] than regions […]" -/
  | lenRegions
  deriving DecidableEq, Repr

/-- `store`'s argument pairing: length checks first, then `zip(sources, targets, regions_list)`. -/
def pairUp {S T R : Type} (sources : List S) (targets : List T) (regions : RegionsArg R) :
    Except PairErr (List (S × T × Option R)) :=
  if sources.length ≠ targets.length then .error .lenTargets
  else
    match regions with
    | .none => .ok ((sources.zip targets).map (fun p => (p.1, p.2, Option.none)))
    | .one r => .ok ((sources.zip targets).map (fun p => (p.1, p.2, some r)))
    | .many rs =>
      if sources.length ≠ rs.length then .error .lenRegions
      else .ok ((sources.zip (targets.zip rs)).map (fun p => (p.1, p.2.1, some p.2.2)))

/-! ## `store`: the loop over `_store_array` and the single `compute_arrays` afterwards -/

/-- The arrays taking part in one `store` call. -/
structure Arrays where
  /-- `isinstance(a._zarray, LazyZarrArray)`: produced by an op (re-targeted in place when stored without region) -/
  lazy : Nat → Bool
  /-- lazy arrays whose storage the plan of `a` reads; the read location was captured when `a` was built -/
  deps : Nat → List Nat
  /-- per target *location*: its stored chunks are the chunksize of the source stored there.  A lazy source
  re-targeted into an existing array chunked differently (allowed when its chunks are multiples of the stored
  ones) is afterwards read back by the *stored* chunking, so a later op built on it gets blocks of the wrong shape. -/
  sameChunks : Nat → Bool := fun _ => true
  /-- per target *location*: it is an existing storage array (not a path that `lazy_zarr_array` will create).  A lazy
  source re-targeted there has `_zarray` = a storage array afterwards, so later pairs treat it as a computed source. -/
  existing : Nat → Bool := fun _ => false

/-- One pair after `pairUp` and the per-pair checks. -/
structure Pair where
  /-- source array id -/
  src : Nat
  /-- target location id -/
  tgt : Nat
  /-- region branch (`region` given and not all `slice(None)`) -/
  region : Bool
  /-- the pair's own build-time checks pass (`validate = ok`; always true without region) -/
  accepted : Bool
  deriving DecidableEq, Repr

/-- Where a lazy array's op will write: `none` = its original intermediate location. -/
abbrev Moves := List (Nat × Nat)

def movedTo (mv : Moves) (a : Nat) : Option Nat := (mv.find? (fun p => p.1 == a)).map (·.2)

/-- `source._zarray = target` etc.: the latest re-targeting wins. -/
def retarget (mv : Moves) (a t : Nat) : Moves := (a, t) :: mv.filter (fun p => p.1 != a)

inductive Job where
  /-- no new op: the source's own op now writes to `tgt` -/
  | moved (src tgt : Nat)
  /-- a copy op reading the source where it was going to be written *at build time*
  (`readAt = none`: original location / a non-lazy source's own storage) -/
  | copy (src : Nat) (readAt : Option Nat) (tgt : Nat)
  deriving DecidableEq, Repr

/-- `isinstance(source._zarray, LazyZarrArray)` at the time a pair is processed -/
def lazyNow (A : Arrays) (mv : Moves) (s : Nat) : Bool :=
  A.lazy s && (match movedTo mv s with | some l => !A.existing l | none => true)

/-- the pair re-targets its source in place (no region, source still lazy) -/
def isMoveAt (A : Arrays) (mv : Moves) (p : Pair) : Bool := !p.region && lazyNow A mv p.src

/-- The `for source, target, region in zip(...)` loop: `Except` index of the first rejected pair. -/
def buildJobs (A : Arrays) : List Pair → Moves → Nat → Except Nat (List Job × Moves)
  | [], mv, _ => .ok ([], mv)
  | p :: ps, mv, k =>
    if !p.accepted then .error k
    else if isMoveAt A mv p then
      match buildJobs A ps (retarget mv p.src p.tgt) (k + 1) with
      | .error e => .error e
      | .ok (js, mv') => .ok (.moved p.src p.tgt :: js, mv')
    else
      match buildJobs A ps mv (k + 1) with
      | .error e => .error e
      | .ok (js, mv') => .ok (.copy p.src (if A.lazy p.src then movedTo mv p.src else none) p.tgt :: js, mv')

inductive PairResult where
  /-- the target holds the source's values (in the region) -/
  | written
  /-- the target is never created / never written -/
  | missing
  deriving DecidableEq, Repr

inductive Outcome where
  /-- a ValueError at build time for pair `k`; nothing was computed -/
  | rejected (k : Nat)
  /-- some op reads a location that its producer no longer writes: the call is outside the envelope in which the
  model predicts anything.  On the implementation it raises midway (ArrayNotFoundError) or computes from fill
  values, depending on the order in which the per-array plans are merged and on which locations happen to exist. -/
  | broken
  | done (rs : List PairResult)
  deriving DecidableEq, Repr

/-- `a`'s plan reads only locations that are still going to be written. -/
def depsIntact (A : Arrays) (final : Moves) (a : Nat) : Bool :=
  (A.deps a).all (fun d => (movedTo final d).isNone)

/-- the location a copy op was built to read is the one the source's op finally writes — and, when that is a
location the source was re-targeted to, one that is chunked like the source -/
def readOk (A : Arrays) (final : Moves) (s : Nat) (readAt : Option Nat) : Bool :=
  !A.lazy s || (readAt == movedTo final s && (match readAt with | none => true | some l => A.sameChunks l))

def jobStale (A : Arrays) (final : Moves) : Job → Bool
  | .moved s _ => !depsIntact A final s
  | .copy s readAt _ => !depsIntact A final s || !readOk A final s readAt

def jobResult (final : Moves) : Job → PairResult
  | .moved s t => if movedTo final s = some t then .written else .missing
  | .copy _ _ _ => .written

/-- What one `store(sources, targets, regions)` call does to its targets. -/
def storeOutcome (A : Arrays) (pairs : List Pair) : Outcome :=
  match buildJobs A pairs [] 0 with
  | .error k => .rejected k
  | .ok (jobs, final) =>
    if jobs.any (jobStale A final) then .broken
    else .done (jobs.map (jobResult final))

/-- Storage after the call: locations hold `Option V`; `put p old` is the per-pair effect (the value
of `p.src` written into `old` inside the pair's region), supplied by the per-pair theory.
`none` = unspecified (see `Outcome.broken`). -/
def storeWorld {V : Type} (A : Arrays) (pairs : List Pair) (put : Pair → Option V → V)
    (w : Nat → Option V) : Option (Nat → Option V) :=
  match storeOutcome A pairs with
  | .rejected _ => some w
  | .broken => none
  | .done rs =>
    some ((pairs.zip rs).foldl (fun w' pr =>
      match pr.2 with
      | .written => fun l => if l = pr.1.tgt then some (put pr.1 (w' l)) else w' l
      | .missing => w') w)

/-! ### the explicit extra hypotheses of `store_pairs_partial` (all decidable) -/

def allAccepted (pairs : List Pair) : Bool := pairs.all (·.accepted)

/-- no lazy source occurs in two pairs -/
def lazyOnce (A : Arrays) : List Pair → Bool
  | [] => true
  | p :: ps => (!A.lazy p.src || ps.all (fun q => q.src != p.src)) && lazyOnce A ps

/-- no listed source has a dependant among the listed sources (its plan was built on top of another
listed array's storage) -/
def noDependants (A : Arrays) (pairs : List Pair) : Bool :=
  pairs.all (fun p => (A.deps p.src).all (fun d => pairs.all (fun q => q.src != d)))

/-- the targets are pairwise different locations -/
def targetsDistinct : List Pair → Bool
  | [] => true
  | p :: ps => ps.all (fun q => q.tgt != p.tgt) && targetsDistinct ps

/-! ## stored chunks touched by a copy task (defect (d): existing target with other chunking) -/

/-- stored target chunks (size `tc`) that the copy task for source block `b` (size `sc`, length `m`) touches -/
def chunksTouched (m sc tc b : Nat) : List Nat :=
  let lo := b * sc
  let hi := min ((b + 1) * sc) m
  if hi ≤ lo then [] else List.range' (lo / tc) ((hi - 1) / tc + 1 - lo / tc)

end Cubed.StoreSem
