/-
  Rechunk layer (C14, split lemmas reused by C05): executable model of cubed's rechunk planners.

  Python function                                             Lean definition
  ----------------------------------------------------------  ---------------------------------
  cubed/core/ops.py            split_chunksizes(n, sc, tc)     `splitSizes` (`nextCut`, `cutsFrom`, `splitCuts`, `diffs`)
  cubed/core/ops.py            split_chunks                    `splitChunks`
  cubed/vendor/rechunker/algorithm.py
        consolidate_chunks                                     `consolidate` (`defaultLims`, `resolveLim`, `resolveAll`, `consGo`)
        _calculate_shared_chunks                               `shared`
        calculate_stage_chunks  (np.geomspace + floor)         oracle `Oracles.geo`
        _count_intermediate_chunks / calculate_single_stage_io_ops   `countInter` / `singleStageIo`
        multistage_rechunking_plan                             `irregularPlan` (`irrLoop`, fuel = MAX_STAGES - 1)
  cubed/core/rechunk.py
        _multspace (np.geomspace, floor(v / vint))             `msVals` over the oracle quotients `Oracles.msq`
        multspace                                              `multspace`
        calculate_regular_stage_chunks                         `regStageChunks` (`msRows`, `transposeRows`, `colsFrom`, `column`)
        _fix_copy_chunks                                       `fixCopy`
        multistage_regular_rechunking_plan                     `regularPlan` (`regLoop`)
        rechunk_plan                                           `copyOps`
  cubed/core/ops.py
        _rechunk_plan (budget derivation + stage translation)  `rechunkPlanOps` (`totalCopies`, `rechunkerMaxMem`, `defaultMinMem`,
                                                               `effMinMem`, `choosePlan`, `opsOfStages`)

  Float-dependent steps are *parameters* (`Oracles`): `gt1 a b` is the Python float test `(a / b) > 1`,
  `ge1 a b` is `(a / b) >= 1`, `hr a b` is `int(a / b)`, `geo r w k` is `calculate_stage_chunks(r, w, k)`
  and `msq a b num` is the list of the quotients `floor(v / vint)` taken inside `_multspace(a, b, num)`.
  Theorems quantify over all oracles satisfying explicit hypotheses (Proofs/Rechunk.lean); the driver
  instantiates them with the numbers recorded from the real run.

  Modelled with `consolidate_reads = consolidate_writes = True` (the only way cubed calls the planners).
  Python exceptions are explicit `Except.error` outcomes.  `ceil(r / s)` inside `_count_intermediate_chunks`
  (a float division) is modelled by the exact ceiling division — exact for r < 2^53; it only influences
  *which* of the candidate plans is returned, every candidate satisfies the invariants proved.
-/
import CubedModel.Model.GeneratedC14

namespace Cubed.Rechunk

/-- `math.prod` -/
def lprod : List Nat → Nat
  | [] => 1
  | x :: xs => x * lprod xs

/-! ## split_chunksizes -/

/-- the next boundary of the merged grids strictly after `p` (capped by `n`). -/
def nextCut (n sc tc p : Nat) : Nat := min (min ((p / sc + 1) * sc) ((p / tc + 1) * tc)) n

/-- boundaries after `p` up to and including `n` (fuel ≥ n - p). -/
def cutsFrom (n sc tc : Nat) : Nat → Nat → List Nat
  | 0, _ => []
  | fuel + 1, p =>
    if p < n then nextCut n sc tc p :: cutsFrom n sc tc fuel (nextCut n sc tc p) else []

/-- `np.union1d(arange(0,n,sc), arange(0,n,tc))` + `n`, without the leading 0. -/
def splitCuts (n sc tc : Nat) : List Nat := cutsFrom n sc tc n 0

/-- `np.diff` of `p :: cuts`. -/
def diffs : Nat → List Nat → List Nat
  | _, [] => []
  | p, q :: qs => (q - p) :: diffs q qs

/-- consecutive boundary pairs `[lo, hi)` of `p :: cuts`. -/
def intervals : Nat → List Nat → List (Nat × Nat)
  | _, [] => []
  | p, q :: qs => (p, q) :: intervals q qs

/-- `split_chunksizes(n, sc, tc)`; a zero step makes `np.arange` raise. -/
def splitSizes (n sc tc : Nat) : Option (List Nat) :=
  if sc = 0 ∨ tc = 0 then none else some (diffs 0 (splitCuts n sc tc))

/-- `split_chunks(shape, source_chunks, target_chunks)` (zip truncates). -/
def splitChunks : List Nat → List Nat → List Nat → Option (List (List Nat))
  | n :: ns, s :: ss, t :: ts =>
    match splitSizes n s t, splitChunks ns ss ts with
    | some x, some xs => some (x :: xs)
    | _, _ => none
  | _, _, _ => some []

/-- the regular grid `(c,)*(n/c) + (n%c,)` as produced by `normalize_chunks` for a chunk size. -/
def regularSizes (n c : Nat) : List Nat :=
  List.replicate (n / c) c ++ (if n % c = 0 then [] else [n % c])

/-! ## oracles for the float-dependent steps -/

structure Oracles where
  /-- `(a / b) > 1` on Python floats -/
  gt1 : Nat → Nat → Bool
  /-- `(a / b) >= 1` on Python floats (the `assert headroom >= 1`) -/
  ge1 : Nat → Nat → Bool
  /-- `int(a / b)` -/
  hr : Nat → Nat → Nat
  /-- `calculate_stage_chunks(read, write, stage_count)` -/
  geo : List Nat → List Nat → Nat → List (List Nat)
  /-- quotients `floor(v / vint)` for `v` in `np.geomspace(start, stop, num + 2)` inside `_multspace` -/
  msq : Nat → Nat → Nat → List Nat

/-! ## consolidate_chunks -/

/-- an entry of `chunk_limits`: `None`, `-1`, or a number. -/
inductive Lim where
  | skip
  | unlimited
  | upto (n : Nat)
  deriving Repr, DecidableEq

def errInvalidLimits : String := "Invalid chunk_limits"
def errChunkMem : String := "chunk_mem > max_mem"
def errZeroDiv : String := "ZeroDivisionError"
def errHeadroom : String := "AssertionError headroom"
def errLimitsLen : String := "AssertionError chunk_limits length"
def errSourceLen : String := "source_chunks must have length ndim"
def errTargetLen : String := "target_chunks must have length ndim"
def errSourceMem : String := "Source chunk memory exceeds max_mem"
def errTargetMem : String := "Target chunk memory exceeds max_mem"
def errMaxLtMin : String := "max_mem cannot be smaller than min_mem"
def errMaxStages : String := "AssertionError Failed to find a feasible multi-staging rechunking scheme"
def errMsStart : String := "NotImplementedError start must be 1 or more"
def errMsStop : String := "NotImplementedError stop must be 1 or more"
def errRagged : String := "ValueError inhomogeneous stage array"

/-- one axis of `consolidate_chunks`: extent, original chunk, resolved `chunk_limit_per_axis` entry. -/
structure Ax where
  n : Nat
  c : Nat
  lim : Option Nat
  deriving Repr, DecidableEq

/-- the `chunk_limit_per_axis` dictionary entry for one axis (`none` = axis not consolidated). -/
def resolveLim (n c : Nat) : Lim → Except String (Option Nat)
  | .skip => .ok none
  | .unlimited => .ok (some n)
  | .upto cl =>
    if c ≤ cl ∧ cl ≤ n then .ok (some cl)
    else if cl > n then .ok (some n)
    else .error errInvalidLimits

def resolveAll : List Nat → List Nat → List Lim → Except String (List Ax)
  | n :: ns, c :: cs, l :: ls =>
    match resolveLim n c l with
    | .error e => .error e
    | .ok r =>
      match resolveAll ns cs ls with
      | .error e => .error e
      | .ok rest => .ok (⟨n, c, r⟩ :: rest)
  | _, _, _ => .ok []

/-- The consolidation loop.  Python visits the axes from the highest to axis 0; here the recursion descends
to the higher axes (the tail) *first* and handles the head axis with their final chunks `done`, which is
the same order of evaluation (and of errors).  `pre` = product of the (still original) chunks of the lower
axes.  `headroom` is always `max_mem / (itemsize * prod(new_chunks))` for the current `new_chunks`, so it
need not be carried: `cur` below is that denominator. -/
def consGo (O : Oracles) (itemsize maxMem : Nat) : Nat → List Ax → Except String (List Nat)
  | _, [] => .ok []
  | pre, a :: rest =>
    match consGo O itemsize maxMem (pre * a.c) rest with
    | .error e => .error e
    | .ok done =>
      match a.lim with
      | none => .ok (a.c :: done)
      | some l =>
        let others := pre * lprod done
        let ub := min a.n l
        let memUb := itemsize * (others * ub)
        if memUb = 0 then .error errZeroDiv
        else if O.gt1 maxMem memUb then
          if O.ge1 maxMem memUb then .ok (ub :: done) else .error errHeadroom
        else
          let cur := itemsize * (others * a.c)
          let new := min (a.c * O.hr maxMem cur) ub
          let memNew := itemsize * (others * new)
          if memNew = 0 then .error errZeroDiv
          else if O.ge1 maxMem memNew then .ok (new :: done)
          else .error errHeadroom

/-- `if chunk_limits is None: chunk_limits = shape` -/
def defaultLims (shape : List Nat) : Option (List Lim) → List Lim
  | none => shape.map Lim.upto
  | some l => l

/-- `consolidate_chunks(shape, chunks, itemsize, max_mem, chunk_limits)`; `limits = none` is Python's
`chunk_limits=None`.  Requires `len(chunks) = len(shape)` (always true at the call sites, which check it). -/
def consolidate (O : Oracles) (shape chunks : List Nat) (itemsize maxMem : Nat)
    (limits : Option (List Lim)) : Except String (List Nat) :=
  if (defaultLims shape limits).length ≠ shape.length then .error errLimitsLen
  else match resolveAll shape chunks (defaultLims shape limits) with
    | .error e => .error e
    | .ok axes =>
      if itemsize * lprod chunks > maxMem then .error errChunkMem
      else if itemsize * lprod chunks = 0 then .error errZeroDiv
      else consGo O itemsize maxMem 1 axes

/-! ## stages -/

/-- `_calculate_shared_chunks` -/
def shared (r w : List Nat) : List Nat := List.zipWith min r w

structure Stage where
  read : List Nat
  int : List Nat
  write : List Nat
  deriving Repr, DecidableEq

/-- `list(zip(pre_chunks, int_chunks, post_chunks))` with `pre = [read] + stage`, `post = stage + [write]`. -/
def mkPlan (read : List Nat) (stage : List (List Nat)) (write : List Nat) : List Stage :=
  List.zipWith (fun p q => ⟨p, shared p q, q⟩) (read :: stage) (stage ++ [write])

def minList : List Nat → Nat
  | [] => 0
  | [x] => x
  | x :: y :: xs => min x (minList (y :: xs))

/-- `min(itemsize * prod(chunks) for chunks in int_chunks)` -/
def intMem (itemsize : Nat) (plan : List Stage) : Nat :=
  minList (plan.map (fun s => itemsize * lprod s.int))

def ceilDiv (a b : Nat) : Nat := (a + b - 1) / b

/-- `_count_intermediate_chunks(source_chunk, target_chunk, size)` -/
def countInter (s t size : Nat) : Nat :=
  let m := Nat.lcm s t
  let perLcm := m / s + m / t - 1
  let inRem := if size % m = 0 then 0 else ceilDiv (size % m) s + ceilDiv (size % m) t - 1
  (size / m) * perLcm + inRem

def zipWith3 (f : Nat → Nat → Nat → Nat) : List Nat → List Nat → List Nat → List Nat
  | a :: as, b :: bs, c :: cs => f a b c :: zipWith3 f as bs cs
  | _, _, _ => []

/-- `calculate_single_stage_io_ops(shape, in_chunks, out_chunks)` -/
def singleStageIo (shape pre post : List Nat) : Nat := lprod (zipWith3 countInter pre post shape)

def ioOps (shape : List Nat) (plan : List Stage) : Nat :=
  (plan.map (fun s => singleStageIo shape s.read s.write)).sum

/-- read chunk limits: consolidate reads up to the write chunk where that is larger. -/
def readLimits : List Nat → List Nat → List Lim
  | sc :: ss, wc :: ws => (if wc > sc then Lim.upto wc else Lim.skip) :: readLimits ss ws
  | _, _ => []

/-- the checks and the two consolidations shared by both planners: `(read_chunks, write_chunks)`. -/
def prepare (O : Oracles) (shape source target : List Nat) (itemsize minMem maxMem : Nat) :
    Except String (List Nat × List Nat) :=
  if source.length ≠ shape.length then .error errSourceLen
  else if target.length ≠ shape.length then .error errTargetLen
  else if itemsize * lprod source > maxMem then .error errSourceMem
  else if itemsize * lprod target > maxMem then .error errTargetMem
  else if maxMem < minMem then .error errMaxLtMin
  else match consolidate O shape target itemsize maxMem none with
    | .error e => .error e
    | .ok write =>
      match consolidate O shape source itemsize maxMem (some (readLimits source write)) with
      | .error e => .error e
      | .ok read => .ok (read, write)

/-- the `for stage_count in range(1, MAX_STAGES)` loop of `multistage_rechunking_plan`. -/
def irrLoop (O : Oracles) (shape read write : List Nat) (itemsize minMem : Nat) :
    Nat → Nat → Option (Nat × List Stage) → Except String (List Stage)
  | 0, _, _ => .error errMaxStages
  | fuel + 1, sc, prev =>
    let plan := mkPlan read (O.geo read write sc) write
    if minMem ≤ intMem itemsize plan then .ok plan
    else
      let io := ioOps shape plan
      match prev with
      | some (pio, pplan) =>
        if io > pio then .ok pplan
        else irrLoop O shape read write itemsize minMem fuel (sc + 1) (some (io, plan))
      | none => irrLoop O shape read write itemsize minMem fuel (sc + 1) (some (io, plan))

/-- number of loop iterations: `len(range(1, MAX_STAGES))` -/
def loopFuel : Nat := GeneratedC14.maxStages - GeneratedC14.stageCountStart

/-- `multistage_rechunking_plan` -/
def irregularPlan (O : Oracles) (shape source target : List Nat) (itemsize minMem maxMem : Nat) :
    Except String (List Stage) :=
  match prepare O shape source target itemsize minMem maxMem with
  | .error e => .error e
  | .ok (read, write) =>
    irrLoop O shape read write itemsize minMem loopFuel GeneratedC14.stageCountStart none

/-! ## the regular planner -/

/-- the running `vint` values of `_multspace` for the quotient list `qs`, starting from `vint`. -/
def msVals (vint : Nat) : List Nat → List Nat
  | [] => []
  | q :: qs => max (q * vint) 1 :: msVals (max (q * vint) 1) qs

/-- `list(_multspace(a, b, num))[1:-1]` -/
def msInner (O : Oracles) (a b num : Nat) : List Nat :=
  ((msVals 1 (O.msq a b num)).drop 1).dropLast

/-- `multspace(start, stop, num)` -/
def multspace (O : Oracles) (start stop num : Nat) : Except String (List Nat) :=
  if start < 1 then .error errMsStart
  else if stop < 1 then .error errMsStop
  else if start > stop then .ok (msInner O stop start num).reverse
  else .ok (msInner O start stop num)

def msRows (O : Oracles) (num : Nat) : List Nat → List Nat → Except String (List (List Nat))
  | rc :: rs, wc :: ws =>
    match multspace O rc wc num with
    | .error e => .error e
    | .ok row =>
      match msRows O num rs ws with
      | .error e => .error e
      | .ok rows => .ok (row :: rows)
  | _, _ => .ok []

/-- entry `j` of every row -/
def column (rows : List (List Nat)) (j : Nat) : List Nat := rows.filterMap (·[j]?)

/-- columns `j, j+1, …` (`fuel` of them) -/
def colsFrom (rows : List (List Nat)) : Nat → Nat → List (List Nat)
  | _, 0 => []
  | j, fuel + 1 => column rows j :: colsFrom rows (j + 1) fuel

/-- `np.array(stages).T.tolist()` for `ndim` rows of length `num` -/
def transposeRows (rows : List (List Nat)) (num : Nat) : Except String (List (List Nat)) :=
  if rows = [] then .ok []
  else if rows.all (fun r => r.length == num) then .ok (colsFrom rows 0 num)
  else .error errRagged

/-- `calculate_regular_stage_chunks(read_chunks, write_chunks, stage_count)` -/
def regStageChunks (O : Oracles) (read write : List Nat) (stageCount : Nat) :
    Except String (List (List Nat)) :=
  match msRows O (stageCount - 1) read write with
  | .error e => .error e
  | .ok rows => transposeRows rows (stageCount - 1)

/-- `_fix_copy_chunks(shape, copy_chunks, target_chunks)`; `cc % 0` raises. -/
def fixCopy : List Nat → List Nat → List Nat → Except String (List Nat)
  | n :: ns, cc :: cs, tc :: ts =>
    match fixCopy ns cs ts with
    | .error e => .error e
    | .ok rest =>
      if cc ≤ tc ∨ cc = n then .ok (cc :: rest)
      else if tc = 0 then .error errZeroDiv
      else if cc % tc = 0 then .ok (cc :: rest)
      else .ok (cc / tc * tc :: rest)
  | _, _, _ => .ok []

/-- `(stage_chunks + [write_chunks])[0]` -/
def firstTarget (stage : List (List Nat)) (write : List Nat) : List Nat :=
  match stage with
  | [] => write
  | s :: _ => s

/-- the loop of `multistage_regular_rechunking_plan`; `read_chunks` is re-assigned in every iteration. -/
def regLoop (O : Oracles) (shape write : List Nat) (itemsize minMem : Nat) :
    Nat → Nat → List Nat → Option (Nat × List Stage) → Except String (List Stage)
  | 0, _, _, _ => .error errMaxStages
  | fuel + 1, sc, read, prev =>
    match regStageChunks O read write sc with
    | .error e => .error e
    | .ok stage =>
      match fixCopy shape read (firstTarget stage write) with
      | .error e => .error e
      | .ok read' =>
        let plan := mkPlan read' stage write
        if minMem ≤ intMem itemsize plan then .ok plan
        else
          let io := ioOps shape plan
          match prev with
          | some (pio, pplan) =>
            if io > pio then .ok pplan
            else regLoop O shape write itemsize minMem fuel (sc + 1) read' (some (io, plan))
          | none => regLoop O shape write itemsize minMem fuel (sc + 1) read' (some (io, plan))

/-- `multistage_regular_rechunking_plan` -/
def regularPlan (O : Oracles) (shape source target : List Nat) (itemsize minMem maxMem : Nat) :
    Except String (List Stage) :=
  match prepare O shape source target itemsize minMem maxMem with
  | .error e => .error e
  | .ok (read, write) =>
    regLoop O shape write itemsize minMem loopFuel GeneratedC14.stageCountStart read none

/-! ## `_rechunk_plan` and `rechunk_plan` -/

/-- what `_rechunk_plan` reads from the spec -/
structure Budget where
  allowedMem : Nat
  reservedMem : Nat
  copiesRead : Nat
  copiesWrite : Nat
  deriving Repr

/-- `total_copies = 1 + buffer_copies.read + 1 + 1 + buffer_copies.write` -/
def totalCopies (b : Budget) : Nat :=
  GeneratedC14.totalCopiesConst + GeneratedC14.totalCopiesReadCoeff * b.copiesRead
    + GeneratedC14.totalCopiesWriteCoeff * b.copiesWrite

/-- `rechunker_max_mem = (spec.allowed_mem - spec.reserved_mem) // total_copies` (for allowed ≥ reserved) -/
def rechunkerMaxMem (b : Budget) : Nat := (b.allowedMem - b.reservedMem) / totalCopies b

/-- `min(rechunker_max_mem // 20, x.nbytes)` -/
def defaultMinMem (b : Budget) (nbytes : Nat) : Nat :=
  min (rechunkerMaxMem b / GeneratedC14.minMemDivisor) nbytes

/-- the `for i, stage in enumerate(stages)` generator of `_rechunk_plan`: `(copy_chunks, target_chunks)` pairs. -/
def opsOfStages (target : List Nat) : List Stage → List (List Nat × List Nat)
  | [] => []
  | [s] => if s.read = s.write then [(s.read, target)] else [(s.read, s.int), (s.write, target)]
  | s :: s2 :: rest =>
    (if s.read = s.write then (s.read, s.write) else (s.read, s.int)) :: opsOfStages target (s2 :: rest)

/-- `min_mem` as passed to the planner: the argument, or the default rule -/
def effMinMem (b : Budget) (nbytes : Nat) : Option Nat → Nat
  | some m => m
  | none => defaultMinMem b nbytes

/-- `plan_func = multistage_rechunking_plan if allow_irregular else multistage_regular_rechunking_plan` -/
def choosePlan (O : Oracles) (allowIrregular : Bool) (shape source target : List Nat)
    (itemsize minMem maxMem : Nat) : Except String (List Stage) :=
  if allowIrregular then irregularPlan O shape source target itemsize minMem maxMem
  else regularPlan O shape source target itemsize minMem maxMem

/-- `_rechunk_plan(x, chunks, min_mem, allow_irregular)` on normalised chunk sizes:
`source = to_chunksize(x.chunks)`, `target = to_chunksize(normalize_chunks(chunks))`. -/
def rechunkPlanOps (O : Oracles) (allowIrregular : Bool) (shape source target : List Nat)
    (itemsize : Nat) (b : Budget) (minMem : Option Nat) : Except String (List (List Nat × List Nat)) :=
  if source = target then .ok []
  else if lprod shape = 0 then .ok []
  else
    match choosePlan O allowIrregular shape source target itemsize
        (effMinMem b (itemsize * lprod shape) minMem) (rechunkerMaxMem b) with
    | .error e => .error e
    | .ok stages => .ok (opsOfStages target stages)

/-- `RechunkCopy(shape, source_chunks, copy_chunks, target_chunks)` -/
structure CopyOp where
  source : List Nat
  copy : List Nat
  target : List Nat
  deriving Repr, DecidableEq

/-- `rechunk_plan`: thread the source chunks through the copy ops. -/
def copyOps (source : List Nat) : List (List Nat × List Nat) → List CopyOp
  | [] => []
  | (c, t) :: rest => ⟨source, c, t⟩ :: copyOps t rest

end Cubed.Rechunk
