/-
  Ops — the key functions (`back_key_function`: out block ↦ input blocks) and block functions of cubed's
  non-blockwise array operations, as small total functions.

  code ↦ model
    cubed/core/ops.py  partial_reduce.back_key_function (range(bi*k, min((bi+1)*k, nb)), product over axes) ↦ `groupKeys`, `partialReduceKeys`
    cubed/core/ops.py  partial_reduce chunks `ceil(len(c)/split_every)`                                      ↦ `ArraySem.nblocks`
    cubed/core/ops.py  _partial_reduce (loop with `result = None`) / tree_reduce (depth rounds)               ↦ `reduceRound`, `treeReduce`
    cubed/core/ops.py  _arg_combine (argmax over the concatenated candidate values, take_along_axis)         ↦ `argmaxCombine`
    cubed/core/ops.py  scan.back_key_function (`bi // split_every`), _scan_binop (`inc[bi % split_every]`),
                       the assertion `increment.shape[axis] == scanned.numblocks[axis]`                       ↦ `scanKeys`, `scanReducedSizes`, `scanAccepts` (`scanAcceptsOld` before 5fff6ae), `scanIncPos`, `scanOut1`
    cubed/core/ops.py  map_selection.back_key_function / _assemble_index_chunk via zarr OrthogonalIndexer     ↦ `Sel`, `selElems`, `selBlocks`, `mapSelectionKeys`, `assembleIndexChunk1`, `selPick`, `assembleIndexChunkN`
    cubed/core/ops.py  _rechunk / merge_chunks selection_function = get_item(target_chunks, out_coords)       ↦ `rechunkSel`
    cubed/core/indexing.py _target_chunk_selection (offset + step * cumsum(target_chunks))                    ↦ `targetChunkSel`
    cubed/array_api/manipulation_functions.py
        flip.selection_function (mirrored slice) + nxp.flip on the block                                     ↦ `flipSel`, `flipBlock1`
        repeat.back_key_function (`bi // repeats`), _repeat (slice `bi % repeats` of the repeated block)      ↦ `repeatKey`, `repeatBlock1`
        concat `_array_slices` (bisect over cumulative offsets)                                              ↦ `arraySlices`
        concat.back_key_function (pieces × zarr indexer over each array's own chunks)                        ↦ `concatKeys`
        stack.back_key_function (array `out[axis]`, coords without `axis`), _read_stack_chunk               ↦ `stackKey`, `stackEval` (block op / OLD variant), `stackAccepts`, `stackUnified` (since f3856f5)
        unstack.back_key_function (all blocks along `axis`), _unstack_chunk (m-th yielded slice)             ↦ `unstackKeys`, `unstackPos`
        reshape_chunks.back_key_function (ravel over out numblocks, unravel over in numblocks)               ↦ `reshapeKey`
    cubed/utils.py offset_to_block_id / block_id_to_offset (block ids through the virtual offsets array)      ↦ `ArraySem.unravel` / `ArraySem.ravel`
    zarr chunk write `chunk_array[sel] = value[out_sel]` (too-large block cut, size-1 block broadcast; modelled)           ↦ `bcastIndex`

  Core Lean only.
-/
import CubedModel.Model.ArraySem
import CubedModel.Model.KeyTree

namespace Cubed.Ops

open Cubed.ArraySem

/-! ### coordinate surgery -/

/-- `coords[:a] + (x,) + coords[a:]`. -/
def insertAt : Nat → Nat → List Nat → List Nat
  | 0, x, l => x :: l
  | a + 1, x, y :: l => y :: insertAt a x l
  | _ + 1, _, [] => []

/-- `coords[:a] + coords[a+1:]`. -/
def eraseAt : Nat → List Nat → List Nat
  | 0, _ :: l => l
  | a + 1, y :: l => y :: eraseAt a l
  | _, [] => []

/-- apply `f` to coordinate `a`. -/
def onAxis (f : Nat → Nat) : Nat → List Nat → List Nat
  | 0, i :: is => f i :: is
  | a + 1, i :: is => i :: onAxis f a is
  | _, [] => []

/-- replace local coordinate `a` by `h b j` where `b` is the block coordinate on that axis. -/
def onAxis2 (h : Nat → Nat → Nat) : Nat → List Nat → List Nat → List Nat
  | 0, b :: _, j :: js => h b j :: js
  | a + 1, _ :: bs, j :: js => j :: onAxis2 h a bs js
  | _, _, js => js

/-- C-order cartesian product (`itertools.product`). -/
def cartesian : List (List Nat) → List (List Nat)
  | [] => [[]]
  | l :: ls => l.flatMap (fun x => (cartesian ls).map (x :: ·))

/-! ### partial_reduce / tree_reduce -/

/-- `range(bi * k, min((bi + 1) * k, nb))`. -/
def groupKeys (k nb bi : Nat) : List Nat := List.range' (bi * k) (min ((bi + 1) * k) nb - bi * k)

def groupKeysN : List Nat → List Nat → List Nat → List (List Nat)
  | k :: ks, nb :: nbs, b :: bs => groupKeys k nb b :: groupKeysN ks nbs bs
  | _, _, _ => []

/-- input block coordinates of out block `out`; `ks` has `split_every[i]` on reduced axes and 1 elsewhere. -/
def partialReduceKeys (ks nbs out : List Nat) : List (List Nat) := cartesian (groupKeysN ks nbs out)

/-- one round: out block `bi` = fold of its group (blocks may be `none` = not there). -/
def reduceRound {β : Type} (op : β → β → β) (k nb : Nat) (blk : Nat → Option β) : Nat → Option β :=
  fun bi => ofoldO op ((groupKeys k nb bi).map blk)

/-- `d` rounds; returns the number of blocks left and the blocks. -/
def treeReduce {β : Type} (op : β → β → β) (k : Nat) : Nat → Nat → (Nat → Option β) → Nat × (Nat → Option β)
  | 0, nb, blk => (nb, blk)
  | d + 1, nb, blk => treeReduce op k d (nblocks nb k) (reduceRound op k nb blk)

/-- `_arg_combine` (argmax) on two candidates `(i, v)` = (absolute index, value): `nxp.argmax` over the
concatenated values returns the *first* maximum, so the left candidate wins ties. -/
def argmaxCombine (a b : Nat × Nat) : Nat × Nat := if a.2 < b.2 then b else a

/-! ### scan (cumulative_sum / cumulative_prod) -/

/-- `split_size = min(split_every, numblocks)`. -/
def scanSplitSize (s nb : Nat) : Nat := min s nb

/-- OLD variant (before 5fff6ae): the assertion `increment.shape[axis] == scanned.numblocks[axis]` when the
increment array was declared with `ceil(nb / split_size)` chunks of `split_size`. -/
def scanAcceptsOld (s nb : Nat) : Bool := nblocks nb (scanSplitSize s nb) * scanSplitSize s nb == nb

/-- (since 5fff6ae) `reduced_sizes = (split_size,) * (nb // split_size) + ((nb % split_size,) if nb % split_size else ())`:
the chunk sizes `scan` declares for the array of per-block totals (passed to `partial_reduce` as an explicit
`combine_sizes` tuple) — the last group holds fewer values when the groups do not divide `nb`. -/
def scanReducedSizes (s nb : Nat) : List Nat := chunksOf nb (scanSplitSize s nb)

/-- the assertion `increment.shape[axis] == scanned.numblocks[axis]` with the sizes declared since 5fff6ae. -/
def scanAccepts (s nb : Nat) : Bool := (scanReducedSizes s nb).sum == nb

/-- out block `out` reads `scanned[out]` and `increment[out with axis ↦ bi // split_every]`. -/
def scanKeys (axis s : Nat) (out : List Nat) : List Nat × List Nat := (out, onAxis (· / s) axis out)

/-- `_scan_binop` reads `inc[bi % split_every]` of increment block `bi // split_every`; in a grid with chunk
size `c` that is global position: -/
def scanIncPos (s c bi : Nat) : Nat := (bi / s) * c + bi % s

/-- out element `i` of the scan along one axis as the last step computes it: `binop(scanned, inc)` where
`scanned` is the inclusive scan inside block `b = i / c` and `inc` the value `_scan_binop` reads from the
increment array (`inc p` = element at position `p` of that array). -/
def scanOut1 {β : Type} (op : β → β → β) (A : Nat → β) (c s nb : Nat) (inc : Nat → Option β) (i : Nat) : Option β :=
  oop op (ofold op ((List.range' (i / c * c) (i % c + 1)).map A)) (inc (scanIncPos s (scanSplitSize s nb) (i / c)))

/-! ### selections (what a `selection_function` returns for one axis) and the regular-grid indexer -/

inductive Sel where
  | slice (start stop step : Nat)      -- positive step, already canonical (`ndindex` / `get_item`)
  | int (v : Nat)                      -- drops the axis
  | arr (vs : List Nat)                -- one integer array
deriving Repr, DecidableEq

/-- the input positions a per-axis selection picks, in output order. -/
def selElems : Sel → List Nat
  | .slice start stop step => (List.range ((stop - start + step - 1) / step)).map (fun t => start + t * step)
  | .int v => [v]
  | .arr vs => vs

/-- consecutive duplicates removed. -/
def dedup : List Nat → List Nat
  | [] => []
  | [x] => [x]
  | x :: y :: l => if x = y then dedup (y :: l) else x :: dedup (y :: l)

/-- blocks (chunk size `c`) an axis selection touches, in the order zarr's indexer yields them:
slices and ints ascending; integer arrays in ascending chunk order. -/
def selBlocks (c : Nat) (s : Sel) : List Nat :=
  match s with
  | .arr vs => ((List.range ((vs.map (· / c)).foldl max 0 + 1)).filter (fun b => vs.any (fun v => v / c == b)))
  | _ => dedup ((selElems s).map (· / c))

def selBlocksN : List Nat → List Sel → List (List Nat)
  | c :: cs, s :: ss => selBlocks c s :: selBlocksN cs ss
  | _, _ => []

/-- `map_selection.back_key_function`: the chunk coordinates `OrthogonalIndexer(in_sel, shape, chunks)` yields. -/
def mapSelectionKeys (ics : List Nat) (sel : List Sel) : List (List Nat) := cartesian (selBlocksN ics sel)

/-- `get_item(chunks, out_coords)` for a regular target grid: the selection of `_rechunk` and `merge_chunks`. -/
def rechunkSel : List Nat → List Nat → List Nat → List Sel
  | n :: ns, c :: cs, b :: bs => .slice (b * c) (min ((b + 1) * c) n) 1 :: rechunkSel ns cs bs
  | _, _, _ => []

/-- `flip.selection_function`: on flipped axes the mirrored slice, elsewhere the block's own slice. -/
def flipSel : List Nat → List Nat → List Bool → List Nat → List Sel
  | n :: ns, c :: cs, f :: fs, b :: bs =>
    (if f then .slice (n - min ((b + 1) * c) n) (n - b * c) 1 else .slice (b * c) (min ((b + 1) * c) n) 1)
      :: flipSel ns cs fs bs
  | _, _, _, _ => []

/-- `_target_chunk_selection` for one slice `s = slice(offset, _, step)` and out block `j` of the target
chunk tuple `tc`: `slice(start[j], start[j+1], step)` with `start = offset + step * cumsum(tc)`. -/
def targetChunkSel1 (tc : List Nat) (offset step j : Nat) : Sel :=
  .slice (offset + step * (tc.take j).sum) (offset + step * (tc.take (j + 1)).sum) step

/-- … for an integer array: the slice of the array for out block `j`. -/
def targetChunkArr1 (tc : List Nat) (vs : List Nat) (j : Nat) : Sel :=
  .arr ((vs.drop (tc.take j).sum).take (tc.getD j 0))

/-- whole `_target_chunk_selection`: ints do not consume an out coordinate. -/
def targetChunkSel : List (List Nat) → List Nat → List Sel → List Sel
  | tcs, idx, .int v :: ss => .int v :: targetChunkSel tcs idx ss
  | tc :: tcs, j :: idx, .slice off _ step :: ss => targetChunkSel1 tc off step j :: targetChunkSel tcs idx ss
  | tc :: tcs, j :: idx, .arr vs :: ss => targetChunkArr1 tc vs j :: targetChunkSel tcs idx ss
  | _, _, _ => []

/-- `_assemble_index_chunk` for one axis (1-d): out-local position `t` of the block selected by `s` is read
from input block `e / c` at local index `e % c`, `e` the `t`-th selected position; the optional
function (`nxp.flip`) is applied afterwards. -/
def assembleIndexChunk1 {α : Type} (A : Nat → α) (c : Nat) (s : Sel) (t : Nat) : Option α :=
  ((selElems s)[t]?).map (fun e => block1 A c (e / c) (e % c))

/-- n-d: the input index selected for out-local index `js` (orthogonal indexing: one selected position
per axis; an integer selection contributes a position but consumes no out coordinate). -/
def selPick : List Sel → List Nat → Option (List Nat)
  | [], [] => some []
  | .int v :: ss, js => (selPick ss js).map (v :: ·)
  | s :: ss, j :: js =>
    match (selElems s)[j]?, selPick ss js with
    | some e, some es => some (e :: es)
    | _, _ => none
  | _, _ => none

/-- `_assemble_index_chunk` in n dimensions: element `js` of the out block is read from the input block
containing the selected index, at its local position. -/
def assembleIndexChunkN {α : Type} (A : List Nat → α) (ics : List Nat) (sel : List Sel) (js : List Nat) : Option α :=
  (selPick sel js).map (fun es => blockN A ics (divs es ics) (mods es ics))

/-- `nxp.flip` of a block of length `len`. -/
def flipBlock1 {α : Type} (len : Nat) (blk : Nat → Option α) : Nat → Option α := fun j => blk (len - 1 - j)

/-! ### repeat -/

def repeatKey (r axis : Nat) (out : List Nat) : List Nat := onAxis (· / r) axis out

/-- `_repeat`: `nxp.repeat(x, r)[ (bi % r) * c : (bi % r + 1) * c ]` for out block `bi`. -/
def repeatBlock1 {α : Type} (blk : Nat → α) (r c bi : Nat) : Nat → α :=
  fun j => blk (((bi % r) * c + j) / r)

/-- whole op, 1-d: assemble the out blocks. -/
def repeatOut1 {α : Type} (A : Nat → α) (r c : Nat) : Nat → α :=
  assemble1 c (fun bi => repeatBlock1 (block1 A c (bi / r)) r c bi)

/-- local coordinate on the repeated axis (n-d block function). -/
def repeatLocal (r c : Nat) (b j : Nat) : Nat := ((b % r) * c + j) / r

/-! ### concat -/

/-- `_array_slices(offsets, start, stop)` with `lens[i] = offsets[i+1] - offsets[i]`:
pieces `(array index, local start, local stop)` in order. -/
def arraySlices : List Nat → Nat → Nat → Nat → List (Nat × Nat × Nat)
  | [], _, _, _ => []
  | l :: ls, ai, start, stop =>
    if stop ≤ start then []
    else if start < l then (ai, start, min stop l) :: arraySlices ls (ai + 1) 0 (stop - l)
    else arraySlices ls (ai + 1) (start - l) (stop - l)

/-- positions a piece covers. -/
def pieceElems (p : Nat × Nat × Nat) : List (Nat × Nat) :=
  (List.range' p.2.1 (p.2.2 - p.2.1)).map (fun t => (p.1, t))

/-- other-axis slices of out block `out` (`get_item(chunks, idx)`), the piece's slice on `axis`. -/
def concatPieceSel (oshape ochunks out : List Nat) (axis : Nat) (lo hi : Nat) : List Sel :=
  let base := rechunkSel oshape ochunks out
  (base.take axis) ++ [Sel.slice lo hi 1] ++ base.drop (axis + 1)

/-- `concat.back_key_function`: for each piece, the blocks of that array (its own chunk sizes). -/
def concatKeys (lens : List Nat) (axis : Nat) (oshape ochunks : List Nat) (inChunks : List (List Nat))
    (out : List Nat) : List (Nat × List Nat) :=
  let c := ochunks.getD axis 1
  let b := out.getD axis 0
  let start := b * c
  let stop := min (start + c) (oshape.getD axis 0)
  (arraySlices lens 0 start stop).flatMap (fun p =>
    (mapSelectionKeys (inChunks.getD p.1 []) (concatPieceSel oshape ochunks out axis p.2.1 p.2.2)).map (fun k => (p.1, k)))

/-! ### stack / unstack -/

/-- `stack.back_key_function`: array number `out[axis]`, coordinates without `axis`. -/
def stackKey (axis : Nat) (out : List Nat) : Option (Nat × List Nat) :=
  (out[axis]?).map (fun k => (k, eraseAt axis out))

/-- zarr chunk write `region[...] = value` as the codec pipeline does it (`chunk_value = value[out_selection]`,
then `chunk_array[chunk_selection] = chunk_value`): `value` has shape `vshape`, the region `rshape` (same
rank).  A dimension of `value` at least as long as the region is cut to the region (silently), a dimension
of length 1 is broadcast, anything else raises.  Element `js` of the region is read from `value` at the
returned index. -/
def bcastIndex : List Nat → List Nat → List Nat → Option (List Nat)
  | [], [], [] => some []
  | v :: vs, r :: rs, j :: js =>
    if r ≤ v then (bcastIndex vs rs js).map (j :: ·)
    else if v = 1 then (bcastIndex vs rs js).map (0 :: ·)
    else none
  | _, _, _ => none

/-- element `is` of `stack(arrs, axis)` as the code computes it.  `shapes k`, `css k` are the shape and
chunk sizes of array `k`; the output is declared with the shape and chunks of array 0 and chunk size 1 on
the new axis.  `none` = the task fails (block does not exist / shapes not broadcastable). -/
def stackEval {α : Type} (arrs : Nat → List Nat → α) (shapes css : Nat → List Nat) (axis : Nat)
    (is : List Nat) : Option α :=
  let ocs := insertAt axis 1 (css 0)
  let bs := divs is ocs
  let js := mods is ocs
  match stackKey axis bs with
  | none => none
  | some (k, b') =>
    if inBox b' (numblocksN (shapes k) (css k)) then
      let vshape := insertAt axis 1 (blockShapeN (shapes k) (css k) b')        -- expand_dims of the block read
      let rshape := insertAt axis 1 (blockShapeN (shapes 0) (css 0) b')        -- declared out chunk
      match bcastIndex vshape rshape js with
      | none => none
      | some js' => some (arrs k (glob (css k) b' (eraseAt axis js')))
    else none

/-- `stack` raises `ValueError` unless every input has the shape of the first (since f3856f5). -/
def stackAccepts : List (List Nat) → Bool
  | [] => false
  | s :: rest => rest.all (· == s)

/-- `stack` since f3856f5 ("unify chunks"): every input whose chunks differ from the first input's is
replaced by `rechunk(x, a.chunksize)` (a `map_selection` op, modelled by `assembleIndexChunkN` over
`rechunkSel`), then the block-level op `stackEval` runs on inputs that all have the first's chunking.
`stackEval` with per-input chunkings is the OLD variant (no unification). -/
def stackUnified {α : Type} (arrs : Nat → List Nat → α) (shape : List Nat) (css : Nat → List Nat) (axis : Nat)
    (is : List Nat) : Option α :=
  (stackEval
    (fun k idx =>
      if css k = css 0 then some (arrs k idx)
      else assembleN (css 0) (fun b js => assembleIndexChunkN (arrs k) (css k) (rechunkSel shape (css 0) b) js) idx)
    (fun _ => shape) (fun _ => css 0) axis is).bind id

/-- `unstack.back_key_function`: all `nb` blocks along `axis`. -/
def unstackKeys (axis nb : Nat) (out : List Nat) : List (List Nat) :=
  (List.range nb).map (fun i => insertAt axis i out)

/-- `_unstack_chunk` yields, for every block along `axis` in order, its slices along `axis`; the `m`-th
yielded array (written to output number `m`) is slice `m % c` of block `m / c`. -/
def unstackPos (c m : Nat) : Nat × Nat := (m / c, m % c)

/-- element `js` of output number `m` of `unstack(A, axis)` as the code computes it. -/
def unstackEval {α : Type} (A : List Nat → α) (cs : List Nat) (axis c m : Nat) (js : List Nat) : α :=
  let cs' := eraseAt axis cs
  let b := divs js cs'
  let l := mods js cs'
  A (glob cs (insertAt axis (unstackPos c m).1 b) (insertAt axis (unstackPos c m).2 l))

/-! ### reshape_chunks -/

/-- in block coordinates: `offset_to_block_id(block_id_to_offset(out, out_numblocks), in_numblocks)`. -/
def reshapeKey (inNb outNb out : List Nat) : List Nat := unravel (ravel out outNb) inNb

/-! ### key trees for the correspondence protocol -/

def leafK (name : String) (c : List Nat) : Tree CK := .leaf ⟨name, c⟩

end Cubed.Ops
