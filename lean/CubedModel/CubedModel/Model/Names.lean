/-
  Names — per-process name counters, plans keyed by node *name*, merging of plans, pickling.
  (layer for property C20; core Lean only)

  Python                                                           model
  ---------------------------------------------------------------  ---------------------------------
  `sym_counter = 0` / `gensym(name)` in cubed/core/array.py,        `Proc` (one counter per module,
    cubed/core/plan.py, cubed/core/optimization.py,                   all 0 in a fresh process),
    cubed/primitive/blockwise.py, cubed/runtime/utils.py              `Proc.gensym`
    (`sym_counter += 1; return f"{name}-{sym_counter:03}"`)
  `"array-002"`, `"op-017"`                                         `Name` = (prefix, counter value)
  `cubed/core/plan.py: CONTEXT_ID`, `intermediate_store(spec)`,     `Proc.ctx`, `Loc.zarr ctx name`
    `lazy_zarr_array(store, path=name)`  (storage location of an      (the location, unlike the name,
    intermediate array = work_dir/CONTEXT_ID/<array name>)            is unique across processes)
  `VirtualInMemoryArray`, user supplied zarr arrays                 `Loc.data id`
  a node of `Plan.dag` (networkx `MultiDiGraph`) with its           `Node.arr loc producer` /
    attribute dict and its in-edges                                   `Node.op info`
  `PrimitiveOperation.source_array_names`,                          `OpInfo.srcs`,
    `BlockwiseSpec.reads_map` (dict keyed by array *name*,            `OpInfo.reads` (latest first),
    `dict(zip(names, arrays))`: a repeated name keeps the last),      `OpInfo.writes`, `OpInfo.prim`
    `writes_map`, `primitive_op is None` for creation ops
  `Plan.dag` : name ↦ node                                          `Dag` = association list, first
                                                                      match wins (`assocGet`)
  `arrays_to_dag` = `nx.compose_all(dags)` (node union keyed by     `merge dags`, `combine` (attribute
    name; `add_node` on an existing node *updates* its attribute      update: later wins per attribute);
    dict, so the later graph wins per attribute), followed in         `Proc.apply` appends the two new
    `Plan._new` by `dag.add_node(op_name_unique, …)`,                 nodes as the last "DAG"
    `dag.add_node(name, …)` which update equal names likewise
  `core.ops.blockwise` / `general_blockwise` / `Plan._new`          `Proc.apply fn xs`
  `asarray` / `from_array` / `from_zarr` (`Plan._new` without        `Proc.leaf data`
    `primitive_op`)
  executing a finalized plan: every op reads the *locations* held   `valArr` (demand driven, by fuel),
    in its `reads_map` under the names produced by its key            `Denotes`
    function, writes its target location; `_read_stored` reads
    the array's own `_zarray`
  `CoreArray` (`name`, `_zarray`, `_plan`)                          `Arr`
  default pickling of `CoreArray`/`Plan`/`LazyZarrArray`/           `pickle` / `unpickle` (copy of the
    `CubedArrayProxy` (no `__getstate__`/`__setstate__`/              instance dict; no counter is
    `__reduce__` anywhere in cubed, see `GeneratedC20`)               touched)
-/
namespace Cubed.Names

/-- A generated name `f"{prefix}-{counter:03}"`.  The rendering is injective (`:03` pads, never
truncates), so the pair is the name. -/
structure Name where
  kind : String
  idx : Nat
deriving DecidableEq, Repr, Inhabited

/-- Storage location of an array's data. -/
inductive Loc where
  /-- `LazyZarrArray(store = work_dir/CONTEXT_ID, path = name)` created by process `ctx`. -/
  | zarr (ctx : Nat) (name : Name)
  /-- data that exists independently of any plan (in-memory virtual array, user zarr array). -/
  | data (id : Nat)
deriving DecidableEq, Repr, Inhabited

structure OpInfo where
  /-- abstract function symbol of the block function -/
  fn : String
  /-- `primitive_op is not None` (creation ops have no pipeline: nothing runs) -/
  prim : Bool
  /-- `source_array_names`, in argument order, repeats kept -/
  srcs : List Name
  /-- `reads_map` : name ↦ location, latest binding first -/
  reads : List (Name × Loc)
  /-- `writes_map` : target name ↦ location -/
  writes : List (Name × Loc)
deriving DecidableEq, Repr, Inhabited

inductive Node where
  /-- array node: `target` and the op node it has an in-edge from -/
  | arr (loc : Loc) (producer : Option Name)
  | op (o : OpInfo)
deriving DecidableEq, Repr, Inhabited

/-- First-match lookup in an association list (a Python dict / the node map of a graph). -/
def assocGet {κ β : Type} [DecidableEq κ] : List (κ × β) → κ → Option β
  | [], _ => none
  | (k, v) :: rest, q => if k = q then some v else assocGet rest q

abbrev Dag := List (Name × Node)

/-- `G.add_node(n, **attrs)` on an existing node *updates* its attribute dict (networkx), it does not
replace it: attributes only the earlier node had survive.  Array nodes always carry `target`, so the
later one wins; an op node without `primitive_op`/`pipeline` (a creation op) that lands on an op node
which has them keeps the earlier pipeline under the later labels. -/
def combine (earlier later : Node) : Node :=
  match earlier, later with
  | .op e, .op l =>
    if l.prim then .op l
    else .op { fn := l.fn, prim := e.prim, srcs := e.srcs, reads := e.reads, writes := e.writes }
  | _, l => l

def combineList : List Node → Option Node
  | [] => none
  | x :: xs => some (xs.foldl combine x)

/-- The node the composed graph has under name `k`: the nodes the graphs have under `k`, in order,
folded with the attribute update. -/
def nodeAt (dags : List Dag) (k : Name) : Option Node :=
  combineList (dags.filterMap (assocGet · k))

/-- `nx.compose_all(dags)`: union of the node maps keyed by name; for a name present in several graphs
the attribute dicts are updated in order (the later graph wins per attribute). -/
def merge (dags : List Dag) : Dag :=
  (dags.flatten.map (·.1)).filterMap fun k => (nodeAt dags k).map fun x => (k, x)

/-- Live entries of a first-match list (what the node map of the composed graph contains). -/
def live : Dag → Dag
  | [] => []
  | (k, v) :: rest => (k, v) :: (live rest).filter (fun e => e.1 ≠ k)

/-- Equal name ⇒ same node, across all the graphs. -/
def NamesAgree (dags : List Dag) : Prop :=
  ∀ d₁ ∈ dags, ∀ d₂ ∈ dags, ∀ n x₁ x₂, assocGet d₁ n = some x₁ → assocGet d₂ n = some x₂ → x₁ = x₂

/-- Executable test for `NamesAgree` (sound and complete, see `Proofs/Names.lean`). -/
def namesAgreeB (dags : List Dag) : Bool :=
  dags.all fun d₁ => dags.all fun d₂ => d₁.all fun e =>
    match assocGet d₁ e.1, assocGet d₂ e.1 with
    | some x₁, some x₂ => x₁ = x₂
    | _, _ => true

/-! ### values -/

/-- Abstract values: what is stored at a data location, and what a block function computes. -/
structure Interp (V : Type) where
  input : Loc → V
  app : String → List V → V

def mapOpt {α β : Type} (f : α → Option β) : List α → Option (List β)
  | [] => some []
  | x :: xs =>
    match f x, mapOpt f xs with
    | some y, some ys => some (y :: ys)
    | _, _ => none

/-- `get_chunk`: the argument read under name `s` comes from the location bound to `s` in `reads_map`. -/
def readArg {V : Type} (reads : List (Name × Loc)) (rec : Name → Loc → Option V) (s : Name) : Option V :=
  match assocGet reads s with
  | some ls => rec s ls
  | none => none

/-- Running a primitive op: apply the block function to the arguments in `source_array_names` order. -/
def applyOp {V : Type} (I : Interp V) (o : OpInfo) (rec : Name → Loc → Option V) : Option V :=
  match mapOpt (readArg o.reads rec) o.srcs with
  | some vs => some (I.app o.fn vs)
  | none => none

/-- One unfolding of "the data that ends up at location `l`, read under name `a`", given the node map
`get` and the values `rec` of the arrays one level down.  `none`: the plan does not determine the
value (unknown name, the name denotes another array, the producing op is not the one that writes `l`). -/
def stepVal {V : Type} (I : Interp V) (get : Name → Option Node) (rec : Name → Loc → Option V)
    (a : Name) (l : Loc) : Option V :=
  match get a with
  | some (.arr l' prod) =>
    if l' = l then
      match prod with
      | none => some (I.input l)
      | some p =>
        match get p with
        | some (.op o) =>
          if o.prim then
            if (a, l) ∈ o.writes then applyOp I o rec else none
          else some (I.input l)
        | _ => none
    else none
  | _ => none

/-- Value of (name `a`, location `l`) in plan `d`, with `fuel` levels of unfolding. -/
def valArr {V : Type} (I : Interp V) (d : Dag) : Nat → Name → Loc → Option V
  | 0, _, _ => none
  | n + 1, a, l => stepVal I (assocGet d) (valArr I d n) a l

/-- An array handle: `CoreArray.name`, `CoreArray._zarray`, `CoreArray._plan.dag`. -/
structure Arr where
  name : Name
  loc : Loc
  dag : Dag
deriving DecidableEq, Repr, Inhabited

/-- `x.compute()` yields `v`: executing `x._plan` and reading `x._zarray`. -/
def Denotes {V : Type} (I : Interp V) (x : Arr) (v : V) : Prop :=
  ∃ n, valArr I x.dag n x.name x.loc = some v

/-- Executable denotation (fuel = number of entries + 1 suffices for acyclic plans). -/
def denote {V : Type} (I : Interp V) (x : Arr) : Option V :=
  valArr I x.dag (x.dag.length + 1) x.name x.loc

/-! ### processes and name generation -/

inductive Module where
  | array | plan | optimization | blockwise | runtimeUtils
deriving DecidableEq, Repr

def Module.all : List Module := [.array, .plan, .optimization, .blockwise, .runtimeUtils]

def Module.path : Module → String
  | .array => "cubed/core/array.py"
  | .plan => "cubed/core/plan.py"
  | .optimization => "cubed/core/optimization.py"
  | .blockwise => "cubed/primitive/blockwise.py"
  | .runtimeUtils => "cubed/runtime/utils.py"

/-- default value of `gensym`'s `name` parameter ("" = no default) -/
def Module.defaultPrefix : Module → String
  | .array => "array"
  | .plan => "op"
  | .optimization => "op"
  | .blockwise => ""
  | .runtimeUtils => ""

/-- Module-global state of one Python process. -/
structure Proc where
  /-- `cubed.core.plan.CONTEXT_ID` (timestamp + uuid4: distinct for distinct processes) -/
  ctx : Nat
  cArray : Nat := 0
  cPlan : Nat := 0
  cOptimization : Nat := 0
  cBlockwise : Nat := 0
  cRuntimeUtils : Nat := 0
deriving DecidableEq, Repr

/-- A freshly started interpreter: every `sym_counter` is 0. -/
def Proc.fresh (ctx : Nat) : Proc := { ctx := ctx }

def Proc.ctr (P : Proc) : Module → Nat
  | .array => P.cArray
  | .plan => P.cPlan
  | .optimization => P.cOptimization
  | .blockwise => P.cBlockwise
  | .runtimeUtils => P.cRuntimeUtils

def Proc.bump (P : Proc) : Module → Proc
  | .array => { P with cArray := P.cArray + 1 }
  | .plan => { P with cPlan := P.cPlan + 1 }
  | .optimization => { P with cOptimization := P.cOptimization + 1 }
  | .blockwise => { P with cBlockwise := P.cBlockwise + 1 }
  | .runtimeUtils => { P with cRuntimeUtils := P.cRuntimeUtils + 1 }

/-- `gensym(name)` of module `m`: increment, then format. -/
def Proc.gensym (P : Proc) (m : Module) (pfx : String) : Name × Proc :=
  (⟨pfx, P.ctr m + 1⟩, P.bump m)

/-- The op node and the array node that `Plan._new` adds for a creation function. -/
def leafNodes (o a : Name) (data : Loc) : Dag :=
  [(o, .op { fn := "input", prim := false, srcs := [], reads := [], writes := [] }),
   (a, .arr data (some o))]

/-- `asarray` / `from_array` / `from_zarr`: `name = gensym()`, `Plan._new(name, …, target)`. -/
def Proc.leaf (P : Proc) (data : Loc) : Arr × Proc :=
  let (a, P₁) := P.gensym .array "array"
  let (o, P₂) := P₁.gensym .plan "op"
  ({ name := a, loc := data, dag := leafNodes o a data }, P₂)

/-- The op node and the array node that `Plan._new` adds for a blockwise operation on `xs`. -/
def applyNodes (o a : Name) (loc : Loc) (fn : String) (xs : List Arr) : Dag :=
  [(o, .op { fn := fn, prim := true, srcs := xs.map (·.name),
             reads := (xs.map fun x => (x.name, x.loc)).reverse, writes := [(a, loc)] }),
   (a, .arr loc (some o))]

/-- `core.ops.blockwise(func, …, *arrays)`: `name = gensym()`; the primitive op gets
`in_names = [a.name …]`, `reads_map = dict(zip(in_names, zarrays))`, a `LazyZarrArray` target under the
context directory at path `name`, a pipeline label `gensym("apply_blockwise")`; `Plan._new` composes the
source plans, generates the op name and adds (overwrites) the two nodes. -/
def Proc.apply (P : Proc) (fn : String) (xs : List Arr) : Arr × Proc :=
  let (a, P₁) := P.gensym .array "array"
  let (_, P₂) := P₁.gensym .blockwise "apply_blockwise"
  let (o, P₃) := P₂.gensym .plan "op"
  let loc := Loc.zarr P.ctx a
  ({ name := a, loc := loc, dag := merge (xs.map (·.dag) ++ [applyNodes o a loc fn xs]) }, P₃)

/-- The two nodes `Plan._new` is about to add in process state `P` (names from the next counter values). -/
def Proc.newNodes (P : Proc) (fn : String) (xs : List Arr) : Dag :=
  applyNodes ⟨"op", P.cPlan + 1⟩ ⟨"array", P.cArray + 1⟩ (Loc.zarr P.ctx ⟨"array", P.cArray + 1⟩) fn xs

/-! ### pickling -/

/-- What the default `object.__reduce_ex__` ships for a `CoreArray`: its instance dict, by value. -/
structure Wire where
  name : Name
  zarray : Loc
  plan : Dag
deriving DecidableEq, Repr

def pickle (x : Arr) : Wire := ⟨x.name, x.loc, x.dag⟩

/-- Unpickling rebuilds the object from the shipped dict; no module code runs, no counter moves. -/
def unpickle (P : Proc) (w : Wire) : Arr × Proc := (⟨w.name, w.zarray, w.plan⟩, P)

/-! ### histories -/

/-- One step of a program run by a process.  Registers hold the arrays built so far together with
their *reference value* (what NumPy computes for the same expression — it never looks at a plan). -/
inductive Instr (V : Type) where
  /-- `xp.asarray(data)` -/
  | leaf (data : Nat)
  /-- `fn(*[regs[i] for i in args])` -/
  | apply (fn : String) (args : List Nat)
  /-- `regs.append(cloudpickle.loads(cloudpickle.dumps(regs[i])))` -/
  | roundtrip (i : Nat)
  /-- a build that generates an array name and then raises (e.g. operands with different specs) -/
  | bump
  /-- `regs.append(cloudpickle.loads(blob))` for a blob made elsewhere, with its reference value -/
  | recv (w : Wire) (ref : V)

def Instr.isLocal {V : Type} : Instr V → Bool
  | .recv _ _ => false
  | _ => true

abbrev Regs (V : Type) := List (Arr × V)

def pick {α : Type} (regs : List α) (args : List Nat) : List α := args.filterMap (regs[·]?)

def step {V : Type} (I : Interp V) (st : Proc × Regs V) : Instr V → Proc × Regs V
  | .leaf k =>
    let (x, P') := st.1.leaf (.data k)
    (P', st.2 ++ [(x, I.input (.data k))])
  | .apply fn args =>
    let xs := pick st.2 args
    let (x, P') := st.1.apply fn (xs.map (·.1))
    (P', st.2 ++ [(x, I.app fn (xs.map (·.2)))])
  | .roundtrip i =>
    match st.2[i]? with
    | some (x, v) =>
      let (y, P') := unpickle st.1 (pickle x)
      (P', st.2 ++ [(y, v)])
    | none => st
  | .bump => (st.1.bump .array, st.2)
  | .recv w v =>
    let (y, P') := unpickle st.1 w
    (P', st.2 ++ [(y, v)])

def run {V : Type} (I : Interp V) (P : Proc) (prog : List (Instr V)) : Proc × Regs V :=
  prog.foldl (step I) (P, [])

end Cubed.Names
