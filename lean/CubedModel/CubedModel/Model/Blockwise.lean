/-
  Model of index-notation block addressing:
    cubed/vendor/dask/blockwise.py : broadcast_dimensions, _make_dims, _get_coord_mapping, lol_product
    cubed/primitive/blockwise.py   : make_blockwise_back_key_function(_flattened)

  Index symbols are natural numbers (cubed always uses `tuple(range(ndim))[::-1]`-style ints).
  The model follows the *positional* algorithm of the source (a `coords` tuple made of the out
  coordinates, two entries per dummy index and a trailing 0; `index_pos` / `zero_pos` tables);
  `Proofs/Blockwise.lean` shows it equal to the three-line reference `refCoord`.
-/
import CubedModel.Model.KeyTree

namespace Cubed.Bw

/-- One entry of dask's `coords` tuple: an int, or a list of ints (contracted / dummy index). -/
inductive Ent where
  | one (n : Nat)
  | many (ns : List Nat)
deriving DecidableEq, Repr, Inhabited

structure Arg where
  name : String
  ind : List Nat      -- index symbols of this argument
  nb : List Nat       -- numblocks of this argument (same length as `ind`)
deriving Repr, Inhabited

structure Expr where
  outInd : List Nat
  args : List Arg
  newAxes : List (Nat × Nat) := []   -- new_axes: index ↦ number of blocks (`len(v)` or 1)
deriving Repr, Inhabited

/-- All `(index, numblocks)` pairs contributed by the arguments (`zip(inds, dims)` per argument). -/
def pairs (e : Expr) : List (Nat × Nat) :=
  e.args.flatMap (fun a => a.ind.zip a.nb)

/-- Block counts seen for index `i`, duplicates removed (the `set` in `broadcast_dimensions`). -/
def seen (e : Expr) (i : Nat) : List Nat :=
  (((pairs e).filter (fun p => p.1 == i)).map (·.2)).eraseDups

/-- `broadcast_dimensions` + `_make_dims` for one index: `none` = "Shapes do not align". -/
def dimOf (e : Expr) (i : Nat) : Option Nat :=
  match e.newAxes.find? (fun p => p.1 == i) with
  | some p => some p.2
  | none =>
    let vs := seen e i
    let vs' := if vs.length > 1 then vs.filter (· != 1) else vs
    match vs' with
    | [v] => some v
    | _ => none

/-- `all_indices` in order of first appearance. -/
def allIndices (e : Expr) : List Nat := ((pairs e).map (·.1)).eraseDups

/-- `dummy_indices = all_indices - set(out_indices)`.  Python iterates a `set`; any order gives the
same key function (see `entry_eq_ref`), the model uses first-appearance order. -/
def dummies (e : Expr) : List Nat := (allIndices e).filter (fun i => !e.outInd.contains i)

/-- Position of the last occurrence of `i` in `l` (`index_pos[ind] = i` overwrites earlier ones). -/
def lastIdx (i : Nat) (l : List Nat) : Option Nat :=
  match l with
  | [] => none
  | x :: xs =>
    match lastIdx i xs with
    | some p => some (p + 1)
    | none => if x == i then some 0 else none

/-- Position of the first occurrence. -/
def firstIdx (i : Nat) (l : List Nat) : Option Nat :=
  match l with
  | [] => none
  | x :: xs => if x == i then some 0 else (firstIdx i xs).map (· + 1)

/-- The `coords` tuple: out coordinates, then for each dummy index `[0..d)` and `[0]*d`, then `0`. -/
def coordsArr (e : Expr) (dims : Nat → Nat) (out : List Nat) : List Ent :=
  out.map .one
    ++ (dummies e).flatMap (fun d => [.many (List.range (dims d)), .many (List.replicate (dims d) 0)])
    ++ [.one 0]

/-- `index_pos` : position in `coords` of the entry for index `i`. -/
def indexPos (e : Expr) (i : Nat) : Option Nat :=
  match lastIdx i e.outInd with
  | some p => some p
  | none => (firstIdx i (dummies e)).map (fun j => 2 * j + e.outInd.length)

/-- `zero_pos`: `-1` (the trailing 0) for out indices, the all-zero list for dummy indices. -/
def zeroPos (e : Expr) (i : Nat) : Option Nat :=
  match lastIdx i e.outInd with
  | some _ => some (e.outInd.length + 2 * (dummies e).length)   -- Python index -1
  | none => (firstIdx i (dummies e)).map (fun j => 2 * j + 1 + e.outInd.length)

/-- `coord_maps` entry + lookup `coords[c]` for one axis of one argument. -/
def entry (e : Expr) (dims : Nat → Nat) (out : List Nat) (i nb : Nat) : Option Ent :=
  match (if nb == 1 then zeroPos e i else indexPos e i) with
  | some c => (coordsArr e dims out)[c]?
  | none => none

/-- The three-line reference: an argument with one block along an axis is broadcast (block 0), an
out index takes the out coordinate at the (last) position of that index, a contracted index ranges
over all its blocks. -/
def refEntry (e : Expr) (dims : Nat → Nat) (out : List Nat) (i nb : Nat) : Option Ent :=
  match lastIdx i e.outInd with
  | some p => if nb == 1 then some (.one 0) else (out[p]?).map .one
  | none =>
    if (dummies e).contains i then
      some (if nb == 1 then .many (List.replicate (dims i) 0) else .many (List.range (dims i)))
    else none

/-- `lol_product(head, values)` specialised to coordinates: the keys in row-major order (the nesting
into lists of lists is flattened away by `make_blockwise_back_key_function_flattened`). -/
def lolFlat : List Ent → List (List Nat)
  | [] => [[]]
  | .one n :: rest => (lolFlat rest).map (n :: ·)
  | .many ns :: rest => ns.flatMap (fun x => (lolFlat rest).map (x :: ·))

def hasDummy (e : Expr) (a : Arg) : Bool := a.ind.any (fun i => !e.outInd.contains i)

/-- The check in `make_blockwise_back_key_function`: a dropped (contracted) axis must have a single
block ("Cannot have multiple chunks in dropped axis"). -/
def droppedOk (e : Expr) : Bool :=
  e.args.all (fun a => (a.ind.zip a.nb).all (fun p => e.outInd.contains p.1 || p.2 ≤ 1))

def allSome {α : Type} : List (Option α) → Option (List α)
  | [] => some []
  | none :: _ => none
  | some a :: rest => (allSome rest).map (a :: ·)

/-- Entries of one argument. -/
def argEntries (e : Expr) (dims : Nat → Nat) (out : List Nat) (a : Arg) : Option (List Ent) :=
  allSome ((a.ind.zip a.nb).map (fun p => entry e dims out p.1 p.2))

inductive Result where
  | error (msg : String)        -- explicit ValueError while the op is built
  | malformed                   -- the Python code produces garbage keys (fails inside the task)
  | ok (fa : FArgs CK)
deriving Repr, Inhabited

/-- `make_blockwise_back_key_function_flattened(...)(out_key)`. -/
def keyFn (e : Expr) (out : CK) : Result :=
  -- _make_dims
  match allSome ((allIndices e).map (fun i => (dimOf e i).map (fun d => (i, d)))) with
  | none => .error "Shapes do not align"
  | some table =>
    let dims := fun i => ((table.find? (fun p => p.1 == i)).map (·.2)).getD 1
    if !droppedOk e then .error "Cannot have multiple chunks in dropped axis" else
    match allSome (e.args.map (fun a => (argEntries e dims out.coords a).map (fun es => (a, es)))) with
    | none => .malformed
    | some argEs =>
      match argEs with
      | [] => .malformed          -- `in_keys[0]` on an empty tuple: IndexError
      | (a0, _) :: _ =>
        if hasDummy e a0 then
          -- first argument is a list: everything is flattened
          .ok ⟨out.name, argEs.flatMap (fun (a, es) => (lolFlat es).map (fun c => .leaf ⟨a.name, c⟩))⟩
        else if argEs.any (fun (a, _) => hasDummy e a) then .malformed
        else .ok ⟨out.name, argEs.flatMap (fun (a, es) => (lolFlat es).map (fun c => .leaf ⟨a.name, c⟩))⟩

/-- Reference coordinate (as a plain number) for a non-contracted axis. -/
def refCoord (e : Expr) (out : List Nat) (i nb : Nat) : Option Nat :=
  if nb == 1 then some 0 else
  match lastIdx i e.outInd with
  | some p => out[p]?
  | none => none

end Cubed.Bw
