/-
  ArraySem — abstract arrays, chunk grids, blocks, assembly, and the *reference semantics* (what NumPy
  computes) of the array operations whose block plumbing is modelled in `Model/Ops.lean`.

  An n-d array over an arbitrary element type `α` is a function `List Nat → α` (index ↦ element) together
  with a shape; a 1-d array is `Nat → α` with a length.  Nothing here depends on the element type: NumPy's
  kernels on a block are taken to be these reference functions applied to the block (DESIGN §5 C01 **M**).

  code ↦ model
    cubed/utils.py            numblocks / normalize_chunks (regular)   ↦ `nblocks`, `blockLen`, `chunksOf`
    cubed/utils.py            get_item (cumulative sums of chunks)      ↦ `getItem`
    cubed/primitive/blockwise key_to_slices / get_chunk                 ↦ `block1`, `blockN` (read one block)
    zarr write of every out block at its chunk position                ↦ `assemble1`, `assembleN`
    cubed/utils.py            block_id_to_offset / offset_to_block_id   ↦ `ravel`, `unravel`
    cubed/core/ops.py         _partial_reduce loop (`result = None; for array in arrays: ...`) ↦ `ofold`
    nxp.repeat / flip / x[start::step] / concat / stack / expand_dims / permute_dims  ↦ `repeatRef1` … `permuteRef`

  Core Lean only (no imports): the drivers interpret this file.
-/
namespace Cubed.ArraySem

/-! ### regular chunk grids along one axis -/

/-- number of blocks of an axis of length `n` cut into chunks of `c` (`math.ceil(n / c)`). -/
def nblocks (n c : Nat) : Nat := (n + c - 1) / c

/-- length of block `b`: `c`, except for a shorter last block. -/
def blockLen (n c b : Nat) : Nat := min c (n - b * c)

/-- `normalize_chunks(c, shape=(n,))` for a regular grid: `c` repeated, then the remainder. -/
def chunksOf (n c : Nat) : List Nat :=
  List.replicate (n / c) c ++ (if n % c = 0 then [] else [n % c])

/-- `get_item(chunks, (b,))` along one axis: `(start, stop)` from the cumulative sums of the chunk lengths. -/
def getItem (chunks : List Nat) (b : Nat) : Nat × Nat :=
  ((chunks.take b).sum, (chunks.take (b + 1)).sum)

/-! ### 1-d arrays -/

/-- read block `b` (local index `j` ↦ element `b*c + j`). -/
def block1 {α : Type} (A : Nat → α) (c b : Nat) : Nat → α := fun j => A (b * c + j)

/-- the array whose block `b` is `blocks b` (each block written at offset `b*c`). -/
def assemble1 {α : Type} (c : Nat) (blocks : Nat → Nat → α) : Nat → α :=
  fun i => blocks (i / c) (i % c)

/-! ### n-d arrays -/

/-- global index of local index `js` in block `bs` of a grid with chunk sizes `cs`. -/
def glob : List Nat → List Nat → List Nat → List Nat
  | c :: cs, b :: bs, j :: js => (b * c + j) :: glob cs bs js
  | _, _, _ => []

/-- block coordinates of an index. -/
def divs : List Nat → List Nat → List Nat
  | i :: is, c :: cs => (i / c) :: divs is cs
  | _, _ => []

/-- position of an index inside its block. -/
def mods : List Nat → List Nat → List Nat
  | i :: is, c :: cs => (i % c) :: mods is cs
  | _, _ => []

/-- `is` is a valid index of an array of shape `shape` (same rank, every coordinate in range). -/
def InBox : List Nat → List Nat → Prop
  | [], [] => True
  | i :: is, n :: ns => i < n ∧ InBox is ns
  | _, _ => False

def inBox : List Nat → List Nat → Bool
  | [], [] => true
  | i :: is, n :: ns => decide (i < n) && inBox is ns
  | _, _ => false

def numblocksN : List Nat → List Nat → List Nat
  | n :: ns, c :: cs => nblocks n c :: numblocksN ns cs
  | _, _ => []

def blockShapeN : List Nat → List Nat → List Nat → List Nat
  | n :: ns, c :: cs, b :: bs => blockLen n c b :: blockShapeN ns cs bs
  | _, _, _ => []

def blockN {α : Type} (A : List Nat → α) (cs bs : List Nat) : List Nat → α :=
  fun js => A (glob cs bs js)

def assembleN {α : Type} (cs : List Nat) (blocks : List Nat → List Nat → α) : List Nat → α :=
  fun is => blocks (divs is cs) (mods is cs)

/-! ### ravel / unravel (C order) -/

/-- `np.ravel_multi_index(coords, dims)`. -/
def ravel : List Nat → List Nat → Nat
  | c :: cs, _ :: ds => c * ds.foldl (· * ·) 1 + ravel cs ds
  | _, _ => 0

/-- `np.unravel_index(off, dims)`. -/
def unravel : Nat → List Nat → List Nat
  | _, [] => []
  | off, _ :: ds => (off / ds.foldl (· * ·) 1) :: unravel (off % ds.foldl (· * ·) 1) ds

/-! ### folds: the loop of `_partial_reduce`

`result = None; for array in arrays: result = chunk if result is None else combine(result, chunk)`. -/

/-- lifted combine with `none` (= Python `None`, nothing accumulated yet) as unit. -/
def oop {β : Type} (op : β → β → β) : Option β → Option β → Option β
  | none, y => y
  | x, none => x
  | some a, some b => some (op a b)

/-- fold a list of optional blocks left to right. -/
def ofoldO {β : Type} (op : β → β → β) (xs : List (Option β)) : Option β := xs.foldl (oop op) none

/-- fold a list of blocks left to right. -/
def ofold {β : Type} (op : β → β → β) (xs : List β) : Option β := ofoldO op (xs.map some)

/-! ### reference semantics (NumPy) -/

/-- `np.repeat(A, r)` (1-d). -/
def repeatRef1 {α : Type} (A : Nat → α) (r : Nat) : Nat → α := fun i => A (i / r)

/-- `np.flip(A)` for a 1-d array of length `n`. -/
def flipRef1 {α : Type} (A : Nat → α) (n : Nat) : Nat → α := fun i => A (n - 1 - i)

/-- `A[start::step]`. -/
def sliceRef1 {α : Type} (A : Nat → α) (start step : Nat) : Nat → α := fun t => A (start + t * step)

/-- position `p` of the concatenation of arrays with lengths `lens`: `(array index, local index)`. -/
def locate : List Nat → Nat → Nat → Option (Nat × Nat)
  | [], _, _ => none
  | l :: ls, ai, p => if p < l then some (ai, p) else locate ls (ai + 1) (p - l)

/-- `np.concat(arrs)` (1-d): element at `p`. -/
def concatRef1 {α : Type} (lens : List Nat) (arrs : Nat → Nat → α) (p : Nat) : Option α :=
  (locate lens 0 p).map (fun q => arrs q.1 q.2)

/-- inclusive prefix fold (`cumulative_sum`) of a 1-d array: element `i` is `A 0 ⊕ … ⊕ A i`. -/
def scanRef1 {β : Type} (op : β → β → β) (A : Nat → β) (i : Nat) : Option β :=
  ofold op ((List.range (i + 1)).map A)

end Cubed.ArraySem
