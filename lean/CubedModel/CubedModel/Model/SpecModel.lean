/-
  Model layer for C18: resource specs, the spec check on multi-array entry points, memory settings of
  plan ops, and size-literal parsing.  Core Lean only; no Float anywhere (values are `Nat`/`Int`/`Rat`).

  Python                                              model
  --------------------------------------------------  ------------------------------------------------
  cubed/spec.py  Spec (the compared properties)       `Spec`, `Spec.get`
  cubed/spec.py  Spec.__eq__                          `specEq` (conjunction over `GeneratedC18.specEqFields`)
  cubed/spec.py  Spec.__init__ (memory settings)      `Spec.memInit`
  cubed/core/array.py  check_array_specs              `checkArraySpecs`
  cubed/core/ops.py  blockwise/_general_blockwise     `naryOp`   (every n-ary array function is built on one of them)
  cubed/core/array.py  compute / plan / visualize,
     cubed/core/plan.py arrays_to_dag, _create_lazy_zarr_arrays, _find_ops_exceeding_memory
                                                      `computePlan`, `createArraysOp`, `admitted`
  cubed/primitive/blockwise.py  fuse / fuse_multiple   `FusedFrom` (a fused op takes its memory settings from one constituent)
  cubed/utils.py  convert_to_bytes (str)              `convertStr`  (= `stripSpaces`, `splitValueUnit`, `lexNumber`, `litToBytes`)
  cubed/utils.py  convert_to_bytes (int / float)      `convertInt`, `convertRatio`
  float(s) succeeding  (is_numeric_str)               `isNumericStr`  (`lexNumber s` is `some _`)
  decimal.Decimal(value)                               `lexNumber` giving `.finite lit` (`.special` = inf/nan), `decimalOk`, `Lit.adjusted`, `outOfRange`

  Independent denotation of a size literal (what the string *means*, SI units fixed here and not taken from the code):
  `denote`, `Lit.value`, `siTable`.

  Scope: strings over ASCII (non-ASCII digits/whitespace that Python's float() also accepts are outside the model),
  integer literals within Python's int/str conversion limit.
-/
import CubedModel.Model.GeneratedC18

namespace Cubed.SpecModel

open Cubed

deriving instance DecidableEq for Except

/-! ## Specs -/

/-- Equality class of an opaque Python value (a path string, a store object, an executor, a dict …).
Python's `==` on the field values is assumed to be an equivalence; `Val` names its classes. -/
abbrev Val := Nat

/-- The resource fields of `cubed.Spec` that `__eq__` looks at (Python property names in `Spec.get`). -/
structure Spec where
  workDir : Val
  intermediateStore : Val
  allowedMem : Nat
  reservedMem : Nat
  executor : Val
  storageOptions : Val
  zarrCompressor : Val
  deriving DecidableEq, Repr

/-- Python property name ↦ value. -/
def Spec.get (s : Spec) (f : String) : Option Val :=
  if f = "work_dir" then some s.workDir
  else if f = "intermediate_store" then some s.intermediateStore
  else if f = "allowed_mem" then some s.allowedMem
  else if f = "reserved_mem" then some s.reservedMem
  else if f = "executor" then some s.executor
  else if f = "storage_options" then some s.storageOptions
  else if f = "zarr_compressor" then some s.zarrCompressor
  else none

/-- The resource fields a `Spec` has (its public properties; `executor` is derived from the constructor
arguments `executor`, `executor_name`, `executor_options`). -/
def resourceFields : List String :=
  ["work_dir", "intermediate_store", "allowed_mem", "reserved_mem", "executor", "storage_options", "zarr_compressor"]

/-- Constructor parameters that are not themselves properties compared by `__eq__` but feed one that is. -/
def derivedParams : List (String × String) :=
  [("executor_name", "executor"), ("executor_options", "executor")]

/-- `Spec.__eq__(a, b)` for two `Spec`s: the conjunction, over the fields listed in the source, of `a.f == b.f`. -/
def specEq (a b : Spec) : Bool :=
  GeneratedC18.specEqFields.all (fun f => a.get f == b.get f)

/-! ## The spec check -/

inductive CheckErr where
  | specMismatch      -- ValueError("Arrays must have same spec in single computation")
  | indexError        -- arrays[0] on an empty argument list
  | attributeError    -- arrays[0] has no attribute `spec`
  deriving DecidableEq, Repr

/-- `all(s == specs[0] for s in specs)` (true for the empty list: `specs[0]` is never evaluated). -/
def allSameSpec (specs : List Spec) : Bool :=
  match specs with
  | [] => true
  | s0 :: _ => specs.all (fun s => specEq s s0)

/-- `check_array_specs(arrays)`; an array-like without a `spec` attribute is `none`.
```
specs = [a.spec for a in arrays if hasattr(a, "spec")]
if not all(s == specs[0] for s in specs): raise ValueError(...)
return arrays[0].spec
``` -/
def checkArraySpecs (arrays : List (Option Spec)) : Except CheckErr Spec :=
  if !allSameSpec (arrays.filterMap id) then .error .specMismatch
  else match arrays with
    | [] => .error .indexError
    | none :: _ => .error .attributeError
    | some s :: _ => .ok s

/-! ## Ops, arrays, plans -/

/-- A primitive op as far as memory admission is concerned. -/
structure Op where
  allowedMem : Nat
  reservedMem : Nat
  projectedMem : Nat
  lazyTarget : Bool     -- writes a lazily created Zarr array
  deriving DecidableEq, Repr

/-- A cubed array: its spec and the ops of its plan. -/
structure Arr where
  spec : Spec
  ops : List Op
  deriving DecidableEq, Repr

/-- Every op of the array's plan carries the memory settings of the array's spec. -/
def Arr.WF (a : Arr) : Prop :=
  ∀ op ∈ a.ops, op.allowedMem = a.spec.allowedMem ∧ op.reservedMem = a.spec.reservedMem

/-- A creation function (`asarray`, `ones`, `from_zarr`, …) under `spec`: no ops yet, or ops made under `spec`. -/
def leaf (spec : Spec) : Arr := { spec := spec, ops := [] }

/-- An n-ary array function built on `blockwise` / `general_blockwise`:
`spec = check_array_specs(arrays)`; the new op gets `allowed_mem=spec.allowed_mem, reserved_mem=spec.reserved_mem`;
the plan is the union of the arguments' plans plus the new op. -/
def naryOp (args : List Arr) (projected : Nat) (lazyTarget : Bool := true) : Except CheckErr Arr :=
  match checkArraySpecs (args.map (fun a => some a.spec)) with
  | .error e => .error e
  | .ok spec =>
    .ok { spec := spec
          ops := (args.flatMap (·.ops)) ++ [⟨spec.allowedMem, spec.reservedMem, projected, lazyTarget⟩] }

/-- Arrays obtainable from creation functions by n-ary array functions (the expression DAG of a user program). -/
inductive Built : Arr → Prop where
  | leaf (s : Spec) : Built (leaf s)
  | nary (args : List Arr) (projected : Nat) (lazyTarget : Bool) (r : Arr) :
      (∀ a ∈ args, Built a) → naryOp args projected lazyTarget = .ok r → Built r

/-- `max` over a list, 0 for the empty list (`allowed_mem = 0; for …: allowed_mem = max(allowed_mem, op.allowed_mem)`). -/
def maxOf (l : List Nat) : Nat := l.foldl max 0

/-- The `create-arrays` op added by `_create_lazy_zarr_arrays` when some op writes a lazy array. -/
def createArraysOp (ops : List Op) (itemsize : Nat) : Option Op :=
  if ops.any (·.lazyTarget) then
    let r := maxOf (ops.map (·.reservedMem))
    some ⟨maxOf (ops.map (·.allowedMem)), r, itemsize + r, false⟩
  else none

/-- The optimizer may replace ops by fused ops; `fuse`/`fuse_multiple` copy `allowed_mem`/`reserved_mem` from one
of the ops they fuse. -/
def FusedFrom (before after : List Op) : Prop :=
  ∀ op' ∈ after, ∃ op ∈ before, op'.allowedMem = op.allowedMem ∧ op'.reservedMem = op.reservedMem ∧
    (op'.lazyTarget = true → ∃ o ∈ before, o.lazyTarget = true)

structure Plan where
  spec : Spec
  ops : List Op
  deriving DecidableEq, Repr

/-- `compute(*arrays)` / `visualize(*arrays)` / `store(...)` up to the finalized plan:
`check_array_specs(arrays)`, compose the dags, (optimize: `optimize`), add `create-arrays`. -/
def computePlan (arrays : List Arr) (optimize : List Op → List Op) (itemsize : Nat) : Except CheckErr Plan :=
  match checkArraySpecs (arrays.map (fun a => some a.spec)) with
  | .error e => .error e
  | .ok spec =>
    let ops := optimize (arrays.flatMap (·.ops))
    .ok { spec := spec
          ops := match createArraysOp ops itemsize with
            | some c => c :: ops
            | none => ops }

/-- `_find_ops_exceeding_memory` finds nothing: the plan is admitted. -/
def admitted (p : Plan) : Bool := p.ops.all (fun op => decide (op.projectedMem ≤ op.allowedMem))

/-! ## Size literals -/

inductive BytesErr where
  | format        -- ValueError "Expected the string to be a numeric value ending with an SI prefix"
  | nonInteger    -- ValueError "Can't have a non-integer number of bytes" (also inf / nan)
  | negative      -- ValueError "Must be a positive value"
  | range         -- ValueError "Exponent is out of range"
  | index         -- IndexError (empty string: `size[-1]`)
  deriving DecidableEq, Repr

/-- ASCII whitespace that Python's `float()` / `Fraction()` strip at both ends. -/
def isWs (c : Char) : Bool :=
  c == ' ' || c == '\t' || c == '\n' || c == '\x0b' || c == '\x0c' || c == '\r'

def digit? (c : Char) : Option Nat :=
  if '0' ≤ c ∧ c ≤ '9' then some (c.toNat - 48) else none

/-- Value of a digit sequence, most significant first. -/
def ofDigits (ds : List Nat) : Nat := ds.foldl (fun acc d => acc * 10 + d) 0

/-- After a digit: more digits, each optionally preceded by a single underscore. Returns digits and the rest. -/
def moreDigits : List Char → List Nat × List Char
  | [] => ([], [])
  | c :: cs =>
    match digit? c with
    | some d => let r := moreDigits cs; (d :: r.1, r.2)
    | none =>
      if c = '_' then
        match cs with
        | c2 :: cs' =>
          match digit? c2 with
          | some d2 => let r := moreDigits cs'; (d2 :: r.1, r.2)
          | none => ([], c :: cs)
        | [] => ([], c :: cs)
      else ([], c :: cs)

/-- `digitpart ::= digit (["_"] digit)*`, possibly empty (then nothing is consumed). -/
def digitPart : List Char → List Nat × List Char
  | [] => ([], [])
  | c :: cs =>
    match digit? c with
    | some d => let r := moreDigits cs; (d :: r.1, r.2)
    | none => ([], c :: cs)

/-- optional sign: (is negative, rest) -/
def lexSign : List Char → Bool × List Char
  | [] => (false, [])
  | c :: r => if c = '-' then (true, r) else if c = '+' then (false, r) else (false, c :: r)

def stripWs (cs : List Char) : List Char :=
  ((cs.dropWhile isWs).reverse.dropWhile isWs).reverse

/-- A finite decimal literal: sign, integer digits, fraction digits, exponent. -/
structure Lit where
  neg : Bool
  ip : List Nat
  fp : List Nat
  exp : Int
  deriving DecidableEq, Repr

inductive Num where
  | finite (l : Lit)
  | special            -- inf / infinity / nan (any case, optional sign): float() accepts, Fraction() raises ValueError
  deriving DecidableEq, Repr

def isSpecialWord (r : List Char) : Bool :=
  let w := r.map Char.toLower
  w == "inf".toList || w == "infinity".toList || w == "nan".toList

/-- optional fraction `"." [digitpart]`: (fraction digits, rest) -/
def lexFraction : List Char → List Nat × List Char
  | [] => ([], [])
  | c :: r => if c = '.' then digitPart r else ([], c :: r)

/-- mantissa `[digitpart] ["." [digitpart]]`: (integer digits, fraction digits, rest) -/
def lexMantissa (r : List Char) : List Nat × List Nat × List Char :=
  let i := digitPart r
  let f := lexFraction i.2
  (i.1, f.1, f.2)

/-- the rest after the mantissa: nothing, or `("e"|"E") [sign] digitpart` and then nothing -/
def lexExponent : List Char → Option Int
  | [] => some 0
  | c :: r =>
    if c = 'e' ∨ c = 'E' then
      let es := lexSign r
      let e := digitPart es.2
      if e.1.isEmpty || !e.2.isEmpty then none
      else some (if es.1 then -(ofDigits e.1 : Int) else (ofDigits e.1 : Int))
    else none

/-- The strings `float(s)` accepts (ASCII): optional whitespace around
`[sign] (digitpart ["." [digitpart]] | "." digitpart) [("e"|"E") [sign] digitpart]` or `[sign] inf|infinity|nan`. -/
def lexNumber (cs0 : List Char) : Option Num :=
  let s := lexSign (stripWs cs0)
  if isSpecialWord s.2 then some .special else
  let m := lexMantissa s.2
  if m.1.isEmpty && m.2.1.isEmpty then none else
  match lexExponent m.2.2 with
  | some e => some (.finite ⟨s.1, m.1, m.2.1, e⟩)
  | none => none

def isNumericStr (cs : List Char) : Bool := (lexNumber cs).isSome

def stripSpaces (s : List Char) : List Char := s.filter (· != ' ')

def lastTwo (cs : List Char) : List Char := cs.drop (cs.length - 2)
def dropLastTwo (cs : List Char) : List Char := cs.take (cs.length - 2)

/-- Exponent of a two-letter unit in the table extracted from the source. -/
def unitExp (u : List Char) : Option Nat :=
  (GeneratedC18.unitTable.find? (fun p => p.1.toList == u)).map (·.2)

/-- The three-way branch of `convert_to_bytes` on the (space-free) string: numeric part and unit factor.
```
if is_numeric_str(size): factor = 1; value = size
elif size[-1] == "B" and is_numeric_str(size[:-1]): factor = 1; value = size[:-1]
elif size[-2:] in units and is_numeric_str(size[:-2]): factor = 1000 ** units[size[-2:]]; value = size[:-2]
else: raise ValueError
``` -/
def splitValueUnit (cs : List Char) : Except BytesErr (List Char × Nat) :=
  if isNumericStr cs then .ok (cs, 1)
  else match cs.getLast? with
    | none => .error .index
    | some l =>
      if l == 'B' && isNumericStr cs.dropLast then .ok (cs.dropLast, 1)
      else match unitExp (lastTwo cs) with
        | some k => if isNumericStr (dropLastTwo cs) then .ok (dropLastTwo cs, GeneratedC18.unitBase ^ k)
                    else .error .format
        | none => .error .format

/-- Coefficient digits of `decimal.Decimal(value)`: the digits of integer and fraction part without leading zeros
(empty for zero). -/
def coeffDigits (l : Lit) : List Nat := (l.ip ++ l.fp).dropWhile (· == 0)

/-- Exponent of the `Decimal`: written exponent minus the number of fraction digits. -/
def Lit.decExp (l : Lit) : Int := l.exp - l.fp.length

/-- `Decimal.adjusted()`: position of the most significant digit (`exponent + #coefficient digits − 1`;
the coefficient of zero has one digit). -/
def Lit.adjusted (l : Lit) : Int := l.decExp + (max 1 (coeffDigits l).length : Nat) - 1

/-- `Decimal(value)` does not raise `InvalidOperation` (an `ArithmeticError`, turned into nan by the code):
the exact constructor works in the maximal context, `adjusted ≤ MAX_EMAX` and `exponent ≥ MIN_ETINY`. -/
def decimalOk (l : Lit) : Bool :=
  decide (l.adjusted ≤ 999999999999999999) && decide (-1999999999999999997 ≤ l.decExp)

/-- `decimal_value != 0 and abs(decimal_value.adjusted()) > bound` -/
def outOfRange (l : Lit) : Bool :=
  !(coeffDigits l).isEmpty && decide ((GeneratedC18.adjustedBound : Int) < l.adjusted.natAbs)

/-- `Fraction(decimal_value) * factor`, whole-number test, sign test — in integers:
the value is `± m · 10^e · factor` with `m` the digits of integer and fraction part and `e = exp − #fraction digits`. -/
def litToBytesCore (l : Lit) (factor : Nat) : Except BytesErr Nat :=
  let m := ofDigits (l.ip ++ l.fp)
  let e : Int := l.decExp
  let num := m * 10 ^ e.toNat * factor
  let den := 10 ^ (-e).toNat
  if num % den != 0 then .error .nonInteger
  else
    let n := num / den
    if l.neg && n != 0 then .error .negative else .ok n

/-- The tests on the parsed value in the order of the code: `Decimal(value)` representable (else nan → "non-integer"),
zero (exempt from the range test; `Fraction(0)`), exponent range, then the exact conversion.  The range tests come
first so that no astronomically large power of ten is ever materialised. -/
def litToBytes (l : Lit) (factor : Nat) : Except BytesErr Nat :=
  if !decimalOk l then .error .nonInteger
  else if (coeffDigits l).isEmpty then .ok 0
  else if outOfRange l then .error .range
  else litToBytesCore l factor

/-- `convert_to_bytes(size)` for a string. -/
def convertStr (s : List Char) : Except BytesErr Nat :=
  match splitValueUnit (stripSpaces s) with
  | .error e => .error e
  | .ok (value, factor) =>
    match lexNumber value with
    | some (.finite l) => litToBytes l factor
    | _ => .error .nonInteger     -- Fraction("inf"/"nan") raises ValueError

/-- `convert_to_bytes(size)` for an `int`. -/
def convertInt (n : Int) : Except BytesErr Nat :=
  if 0 ≤ n then .ok n.toNat else .error .negative

/-- `convert_to_bytes(size)` for a finite `float` given exactly as `num/den` (`float.as_integer_ratio()`), `den > 0`. -/
def convertRatio (num : Int) (den : Nat) : Except BytesErr Nat :=
  if den = 0 then .error .nonInteger        -- inf / nan: `is_integer()` is False
  else if num % (den : Int) != 0 then .error .nonInteger
  else convertInt (num / (den : Int))

/-- `Spec.__init__`: `reserved = convert(reserved_mem or 0)`; `allowed = reserved if allowed_mem is None else convert(allowed_mem)`. -/
def Spec.memInit (allowed : Option (List Char)) (reserved : Option (List Char)) : Except BytesErr (Nat × Nat) :=
  let r : Except BytesErr Nat := match reserved with
    | none => .ok 0
    | some s => if s.isEmpty then .ok 0 else convertStr s      -- `reserved_mem or 0`: the empty string is falsy
  match r with
  | .error e => .error e
  | .ok r =>
    match allowed with
    | none => .ok (r, r)
    | some s => match convertStr s with
      | .error e => .error e
      | .ok a => .ok (a, r)

/-! ### What a size literal denotes (independent of the code's branch order and arithmetic) -/

/-- Decimal SI units of the property statement: exponent of 1000. -/
def siTable : List (String × Nat) := [("kB", 1), ("MB", 2), ("GB", 3), ("TB", 4), ("PB", 5)]

def siExp (u : List Char) : Option Nat := (siTable.find? (fun p => p.1.toList == u)).map (·.2)

/-- Text-book value of a decimal literal: `± (ip + fp / 10^#fp) · 10^exp`. -/
def Lit.value (l : Lit) : Rat :=
  (if l.neg then -1 else 1) * (((ofDigits l.ip : Nat) : Rat) + ((ofDigits l.fp : Nat) : Rat) / (10 : Rat) ^ l.fp.length)
    * (10 : Rat) ^ l.exp

/-- Longest-suffix reading of the unit: a two-letter SI unit, else `B`, else none. -/
def splitUnit (cs : List Char) : List Char × Nat :=
  match siExp (lastTwo cs) with
  | some k => (dropLastTwo cs, k)
  | none => if cs.getLast? = some 'B' then (cs.dropLast, 0) else (cs, 0)

/-- The number of bytes a size string denotes: spaces are insignificant; a finite decimal literal followed by an
optional unit `B` or SI unit `kB … PB` meaning `1000^k`. `none`: the string denotes nothing. -/
def denote (s : List Char) : Option Rat :=
  let su := splitUnit (stripSpaces s)
  match lexNumber su.1 with
  | some (.finite l) => some (l.value * (1000 : Rat) ^ su.2)
  | _ => none

/-! ## Sites -/

/-- Public entry points that legitimately do not run the spec check over all their array arguments, because each
returned array derives from a single argument (property statement: "functions whose outputs each derive from a single
argument … may accept, provided no returned array's plan contains both inputs"). -/
def perArgumentSites : List String :=
  [ "cubed/array_api/manipulation_functions.py:broadcast_arrays"
  , "cubed/array_api/creation_functions.py:meshgrid"
  , "cubed/core/ops.py:unify_chunks"
  , "cubed/array/overlap.py:map_overlap" ]   -- only `args[0]` is used ("currently only one array may be specified")

def siteOk (s : String × String × String) : Bool :=
  s.2.1 == "checked" || s.2.1 == "eager-index" || (s.2.1 == "unchecked" && perArgumentSites.contains s.1)

end Cubed.SpecModel
