/-
  SpecThread — how the resource configuration (`cubed.Spec`) reaches arrays, helper arrays, the spec check,
  storage and the memory admission test.  Executable model for C19 (core Lean only).

  Python                                                          model
  ------------------------------------------------------------   -------------------------------------------
  cubed/spec.py  Spec (fields compared by `__eq__`)                `Spec` (structure, `DecidableEq` = `__eq__`)
  cubed/core/array.py CoreArray.__init__  `spec or spec_from_config(config)`   `resolve`
  cubed/core/array.py check_array_specs                            `checkSpecs`
  a call `creator(..., spec=E)` inside cubed (site table,          `Kind`, `step`, `chainState`, `helperSpec`
     harness/extract_c19.py -> Model/GeneratedC19.lean)
  an expression built by the user under one configuration          `Expr`, `build`, `denote`, `observe`
  cubed/utils.py is_cloud_storage_path (urlsplit(..).scheme)       `scheme`, `isCloud`
  cubed/primitive/memory.py get_buffer_copies                      `copies`
  cubed/primitive/memory.py calculate_projected_mem                `dataMem`, `projected`
  cubed/core/plan.py _find_ops_exceeding_memory (`projected > allowed` refuses)   `admits`, `accepts`
  cubed/runtime/executors/local.py check_runtime_memory            `machineOk`
  cubed/core/plan.py intermediate_store                            `storeOf`
  cubed/core/ops.py blockwise (`compressor=spec.zarr_compressor`)  `compressorOf`
-/
import CubedModel.Model.GeneratedC19

namespace Cubed.SpecThread

/-! ## Spec -/

/-- `zarr_compressor`: `"auto"` (default), `None`, or an explicit codec dict (identified by a number). -/
inductive Compressor
  | auto
  | off
  | codec (id : Nat)
  deriving DecidableEq, Repr

/-- The seven fields compared by `Spec.__eq__`.  Objects without structural equality (stores, executors,
option dicts) are represented by an identity number. -/
structure Spec where
  workDir : Option String
  store : Option Nat
  allowed : Nat
  reserved : Nat
  executor : Option Nat
  storageOptions : Option Nat
  compressor : Compressor
  deriving DecidableEq, Repr

/-- `self.spec = spec or spec_from_config(config)` (a `Spec` object is always truthy). -/
def resolve (dflt : Spec) : Option Spec → Spec
  | some s => s
  | none => dflt

/-- `check_array_specs(arrays)`: all specs equal to the first one (`Spec.__eq__`), result `arrays[0].spec`;
`none` = `ValueError("Arrays must have same spec in single computation")`. -/
def checkSpecs : List Spec → Option Spec
  | [] => none
  | s :: rest => if rest.all (fun t => t == s) then some s else none

/-! ## Sites and chains -/

/-- How a creation site passes `spec` (codes = index in `GeneratedC19.kindNames`). -/
inductive Kind
  | operand | param | like | likeArgs | fresh | selfUnwrap | missing | unknown
  deriving DecidableEq, Repr

def Kind.ofCode : Nat → Kind
  | 0 => .operand | 1 => .param | 2 => .like | 3 => .likeArgs | 4 => .fresh | 5 => .selfUnwrap | 6 => .missing
  | _ => .unknown

def Kind.name : Kind → String
  | .operand => "operand" | .param => "param" | .like => "like" | .likeArgs => "likeArgs" | .fresh => "fresh"
  | .selfUnwrap => "selfUnwrap" | .missing => "missing" | .unknown => "unknown"

/-- The site derives the helper's spec from an operand or forwards what it was given. -/
def Kind.threaded : Kind → Bool
  | .operand | .param | .like | .likeArgs => true
  | _ => false

/-- One call level.  `st` is the value of the `spec` argument that reached the enclosing function (`none` = not
given), the result is the value of the `spec` argument the callee receives; outer `none` = cannot tell. -/
def step (opnd freshS : Spec) (st : Option Spec) : Kind → Option (Option Spec)
  | .operand => some (some opnd)          -- `spec=x.spec`
  | .like => some (some opnd)             -- `zeros_like(x)`: `_like_args` substitutes `x.spec`
  | .likeArgs => some (match st with      -- `**_like_args(x, …, spec)`: `if spec is None: spec = x.spec`
      | some s => some s
      | none => some opnd)
  | .param => some st                     -- `spec=spec`
  | .fresh => some (some freshS)          -- `spec=Spec(...)`
  | .selfUnwrap => some none              -- `asarray(a.data)`: nothing forwarded
  | .missing => some none                 -- no `spec=` at all
  | .unknown => none

/-- A chain = the creation sites on the call stack of one array creation, outermost first (the last one is the
`Array(name, target, spec, plan)` constructor call). -/
def chainState (opnd freshS : Spec) : Option Spec → List Kind → Option (Option Spec)
  | st, [] => some st
  | st, k :: ks => match step opnd freshS st k with
      | some st' => chainState opnd freshS st' ks
      | none => none

/-- The spec of the array created through `chain`, when the public call received `c` and its operands carry `opnd`. -/
def helperSpec (dflt opnd freshS : Spec) (c : Option Spec) (chain : List Kind) : Option Spec :=
  (chainState opnd freshS c chain).map (resolve dflt)

def chainThreaded (chain : List Kind) : Bool := chain.all Kind.threaded

/-! ## Expressions built under one configuration -/

/-- `create id chain`: a creation function called by the user (`asarray`, `ones`, `arange`, …) with the configuration's
`spec` argument; `op1/op2 f chains a (b)`: an operation on arrays that creates one helper array per chain and hands
operands and helpers to `blockwise`/`general_blockwise` (→ `check_array_specs`). -/
inductive Expr
  | create (id : Nat) (chain : List Kind)
  | op1 (f : Nat) (chains : List (List Kind)) (a : Expr)
  | op2 (f : Nat) (chains : List (List Kind)) (a b : Expr)
  deriving Repr

/-- Every creation site used anywhere in the expression threads the spec. -/
def Expr.threaded : Expr → Bool
  | .create _ chain => chainThreaded chain
  | .op1 _ chains a => chains.all chainThreaded && a.threaded
  | .op2 _ chains a b => chains.all chainThreaded && a.threaded && b.threaded

/-- All site kinds used by the expression. -/
def Expr.kinds : Expr → List Kind
  | .create _ chain => chain
  | .op1 _ chains a => chains.flatten ++ a.kinds
  | .op2 _ chains a b => chains.flatten ++ a.kinds ++ b.kinds

def helperSpecs (dflt opnd freshS : Spec) (c : Option Spec) : List (List Kind) → Option (List Spec)
  | [] => some []
  | ch :: rest => match helperSpec dflt opnd freshS c ch, helperSpecs dflt opnd freshS c rest with
      | some s, some l => some (s :: l)
      | _, _ => none

/-- Build the expression with the configuration `c` (`none` = no `spec=` anywhere: global default config `dflt`);
result = the spec of the resulting array, `none` = rejected while building. -/
def build (dflt freshS : Spec) (c : Option Spec) : Expr → Option Spec
  | .create _ chain => helperSpec dflt (resolve dflt c) freshS c chain
  | .op1 _ chains a =>
      match build dflt freshS c a with
      | none => none
      | some sa => match helperSpecs dflt sa freshS c chains with
          | none => none
          | some hs => checkSpecs (sa :: hs)
  | .op2 _ chains a b =>
      match build dflt freshS c a, build dflt freshS c b with
      | some sa, some sb => match helperSpecs dflt sa freshS c chains with
          | none => none
          | some hs => checkSpecs (sa :: sb :: hs)
      | _, _ => none

def buildOk (dflt freshS : Spec) (c : Option Spec) (e : Expr) : Bool := (build dflt freshS c e).isSome

/-- Value semantics: no `Spec` anywhere in the signature. -/
def denote {V : Type} (inp : Nat → V) (f1 : Nat → V → V) (f2 : Nat → V → V → V) : Expr → V
  | .create i _ => inp i
  | .op1 f _ a => f1 f (denote inp f1 f2 a)
  | .op2 f _ a b => f2 f (denote inp f1 f2 a) (denote inp f1 f2 b)

/-! ## Storage and memory admission -/

def schemeChar (c : Char) : Bool := c.isAlphanum || c == '+' || c == '-' || c == '.'

/-- `urlsplit(path).scheme` for the paths used as work directories: the text before the first ':' when it starts
with a letter and consists of scheme characters, lower-cased; otherwise "". -/
def schemeOfChars (cs : List Char) : String :=
  let h := cs.takeWhile (fun c => c != ':')
  if h.length == cs.length then "" else
  match h with
  | [] => ""
  | c :: _ => if c.isAlpha && h.all schemeChar then String.ofList (h.map Char.toLower) else ""

def scheme (path : String) : String := schemeOfChars path.toList

def isCloud (s : Spec) : Bool :=
  match s.workDir with
  | some w => GeneratedC19.cloudSchemes.contains (scheme w)
  | none => false

/-- `get_buffer_copies(spec)`: (read, write). -/
def copies (s : Spec) : Nat × Nat :=
  if isCloud s then GeneratedC19.bufferCopiesCloud else GeneratedC19.bufferCopiesLocal

/-- Chunk memories of one primitive operation. -/
structure OpMem where
  inputs : List Nat
  operation : Nat
  output : Nat
  deriving Repr

def sumNat : List Nat → Nat
  | [] => 0
  | x :: xs => x + sumNat xs

/-- The part of `calculate_projected_mem` that does not come from `reserved_mem`. -/
def dataMem (bc : Nat × Nat) (m : OpMem) : Nat :=
  sumNat (m.inputs.map (fun i => i * bc.1 + i)) + m.operation + m.output + m.output * bc.2

def projected (reserved : Nat) (bc : Nat × Nat) (m : OpMem) : Nat := reserved + dataMem bc m

/-- `_find_ops_exceeding_memory`: refused when `projected_mem > allowed_mem`. -/
def admits (s : Spec) (m : OpMem) : Bool := projected s.reserved (copies s) m ≤ s.allowed

def accepts (s : Spec) (plan : List OpMem) : Bool := plan.all (admits s)

/-- `check_runtime_memory` of the local executors (threads / processes): `total_mem < allowed_mem * max_workers`
refuses to run. -/
def machineOk (totalMem workers : Nat) (s : Spec) : Bool := s.allowed * workers ≤ totalMem

/-- What remains for data: `allowed_mem − reserved_mem` (may be negative). -/
def headroom (s : Spec) : Int := (s.allowed : Int) - (s.reserved : Int)

/-- Where intermediate arrays go (`intermediate_store`): the store object if given, else a context directory under
`work_dir` (or the system temp dir). -/
inductive StoreLoc
  | object (id : Nat)
  | dir (workDir : Option String)
  deriving DecidableEq, Repr

def storeOf (s : Spec) : StoreLoc :=
  match s.store with
  | some o => .object o
  | none => .dir s.workDir

def compressorOf (s : Spec) : Compressor := s.compressor

/-! ## The observable of the property -/

inductive Outcome (V : Type)
  | buildError          -- rejected while building ("Arrays must have same spec")
  | planError           -- rejected when the plan is finalised (projected memory exceeds allowed memory)
  | value (v : V)
  deriving Repr

/-- Build under configuration `c`, admit the plan (which may depend on the configuration only through the headroom
and the buffer copies — `planOf`), compute. -/
def observe {V : Type} (dflt freshS : Spec) (inp : Nat → V) (f1 : Nat → V → V) (f2 : Nat → V → V → V)
    (planOf : Int → Nat × Nat → Expr → List OpMem) (c : Option Spec) (e : Expr) : Outcome V :=
  match build dflt freshS c e with
  | none => .buildError
  | some s => if accepts s (planOf (headroom s) (copies s) e) then .value (denote inp f1 f2 e) else .planError

/-! ## The generated site table -/

def siteKinds : List Kind := GeneratedC19.sites.map (fun p => Kind.ofCode p.2)

/-- Kinds of the sites that sit inside operations / creation functions of the library proper: the two documented
self-contained sites (`fresh`: measure_reserved_mem builds its own Spec; `selfUnwrap`: the xarray branch of `asarray`)
are not helper creations of an operation. -/
def helperKinds : List Kind := siteKinds.filter (fun k => k != .fresh && k != .selfUnwrap)

def siteKind? (id : String) : Option Kind :=
  (GeneratedC19.sites.find? (fun p => p.1 == id)).map (fun p => Kind.ofCode p.2)

end Cubed.SpecThread
