/-
  Grid — chunk-grid arithmetic (executable model, core Lean only).

  Python function                                         model
  ------------------------------------------------------  --------------------------------------
  dask `blockdims_from_blockshape` as reached through
    cubed.utils.normalize_chunks(c, shape=(n,)) per axis   `regular n c`
  cubed.utils._cumsum(seq, initial_zero=True)              `offsets g`   (`off g i` = its i-th entry)
  cubed.utils.get_item(chunks, idx)                        `getItem g i` per axis, `getItemN` all axes
                                                           (`none` = the IndexError of `start[i + 1]`)
  cubed.utils.numblocks                                    `List.length` per axis
  cubed.primitive.blockwise.key_to_slices(coords,
        write_proxy.array, write_proxy.chunks)             `getItemN writeGrids coords`  (= region of a task)
  cubed.primitive.blockwise.ChunkKeys.__iter__             `chunkKeys gs` (itertools.product of ranges)
  zarr's per-chunk decomposition of `arr[region] = v`
    (SliceDimIndexer: chunks the slice intersects;
     `is_complete_chunk` ⇒ one `set`, else get-modify-set) `writesAxis` / `wholeB`, n-D `writesN` / `wholeN`
  apply_blockwise write path as a whole                    `taskWrites stored write coords`
  cubed.core.ops.split_chunksizes(n, sc, tc)               `splitChunksizes n sc tc` (`splitBounds` = the
                                                           sorted union `c` incl. the appended `n`)
  cubed.core.ops.split_chunks                              `List.map` of the former over the axes
  cubed.core.rechunk._fix_copy_chunks (one axis)           `fixCopy n cc tc`
  cubed.vendor.rechunker.algorithm._calculate_shared_chunks `sharedChunk`
  cubed.core.ops._store_array, region branch (one axis)    `RegionAxis` (`aligned`, `tasks`, `write`, `read`, `taskOK`)
                                  … all axes               `regionTasks`, `regionTaskOK`
      step / bounds validation, `slice.indices(n)[:2]`     `SliceReq`, `clampIdx`, `sliceIndices`, `regionAccept`
      inserted `source.rechunk(region_chunksize)` (ba97b91) `RegionAxis.effective`  (the code before that commit is
                                                           `regionTaskOK` on the axes as given — "old variant")
  cubed.core.ops._store_array, no region, existing target:
      guard `all(sc % tc == 0 or sc >= n ...)` (d416aac)   `StoreReq.alignedB`, `storeGuard`
      write-proxy chunks after the guard / inserted rechunk `storeWriteFixed`  (old variant: `storeWriteOld`)

  A grid along one axis is the list of its chunk sizes (a regular zarr grid with chunk `c` over `n`
  elements is `regular n c`; a rectilinear grid is any list).  Intervals are half-open pairs `(lo, hi)`.
  An n-dimensional grid is the list of its per-axis grids.
-/

namespace Cubed.Grid

/-- `normalize_chunks(c, shape=(n,))[0]`: `(c,) * (n // c) + ((n % c,) if n % c else ())`, `(0,)` when `n = 0`. -/
def regular (n c : Nat) : List Nat :=
  if n = 0 then [0] else List.replicate (n / c) c ++ (if n % c = 0 then [] else [n % c])

/-- `off g i` = `_cumsum(g, initial_zero=True)[i]` = sum of the first `i` sizes (for `i` beyond the end it
is the full sum; every use is guarded by `i ≤ g.length`, see `getItem`). -/
def off (g : List Nat) (i : Nat) : Nat := (g.take i).sum

/-- `_cumsum(g, initial_zero=True)`. -/
def offsets (g : List Nat) : List Nat := (List.range (g.length + 1)).map (off g)

/-- One axis of `get_item`: `(start[i], start[i+1])`; `none` models the IndexError when `i ≥ len`. -/
def getItem (g : List Nat) (i : Nat) : Option (Nat × Nat) :=
  if i < g.length then some (off g i, off g (i + 1)) else none

/-- `get_item(chunks, idx)` on all axes (lengths must agree). -/
def getItemN : List (List Nat) → List Nat → Option (List (Nat × Nat))
  | [], [] => some []
  | g :: gs, i :: is =>
    match getItem g i, getItemN gs is with
    | some r, some rs => some (r :: rs)
    | _, _ => none
  | _, _ => none

/-- chunk `k` of the stored grid `g` has a non-empty intersection with the interval `r`. -/
def touchesB (g : List Nat) (r : Nat × Nat) (k : Nat) : Bool :=
  match getItem g k with
  | some (a, b) => decide (max a r.1 < min b r.2)
  | none => false

/-- the interval `r` covers chunk `k` of `g` entirely (zarr's `is_complete_chunk`). -/
def wholeB (g : List Nat) (r : Nat × Nat) (k : Nat) : Bool :=
  match getItem g k with
  | some (a, b) => decide (r.1 ≤ a ∧ b ≤ r.2)
  | none => false

/-- stored chunks along one axis that a write of interval `r` touches. -/
def writesAxis (g : List Nat) (r : Nat × Nat) : List Nat :=
  (List.range g.length).filter (touchesB g r)

/-- `ChunkKeys(chunks_normal).__iter__()`: `itertools.product(*[range(len(c)) for c in chunks])`. -/
def chunkKeys : List (List Nat) → List (List Nat)
  | [] => [[]]
  | g :: gs => (List.range g.length).flatMap (fun k => (chunkKeys gs).map (fun ks => k :: ks))

/-- stored chunk coordinates touched by writing the box `rs` into an array with stored grids `gs`. -/
def writesN : List (List Nat) → List (Nat × Nat) → List (List Nat)
  | [], [] => [[]]
  | g :: gs, r :: rs => (writesAxis g r).flatMap (fun k => (writesN gs rs).map (fun ks => k :: ks))
  | _, _ => []

/-- the box `rs` covers stored chunk `ks` entirely. -/
def wholeN : List (List Nat) → List (Nat × Nat) → List Nat → Bool
  | [], [], [] => true
  | g :: gs, r :: rs, k :: ks => wholeB g r k && wholeN gs rs ks
  | _, _, _ => false

/-- What the task with out coords `cs` does to an array with stored grids `gs` when its write proxy has
grids `ws`: the list of (stored chunk, written whole?) — `none` when `get_item` raises. -/
def taskWrites (gs ws : List (List Nat)) (cs : List Nat) : Option (List (List Nat × Bool)) :=
  match getItemN ws cs with
  | some rs => some ((writesN gs rs).map (fun ks => (ks, wholeN gs rs ks)))
  | none => none

/-! ### specification predicates (used in the statements of Properties/C05.lean) -/

/-- all chunk sizes of a grid axis are positive (true of every grid cubed creates for a non-empty axis). -/
def Pos (g : List Nat) : Prop := ∀ x ∈ g, 0 < x

/-- every stored chunk of the n-d grid `gs` has exactly one writer among the tasks whose regions come from
the write grids `ws`; that writer covers it whole (so no read-modify-write), and — existence for *every*
chunk key — the tasks together cover the grid. -/
def SingleWriter (gs ws : List (List Nat)) : Prop :=
  ∀ ks, ks ∈ chunkKeys gs → ∃ cs rs, getItemN ws cs = some rs ∧ ks ∈ writesN gs rs ∧ wholeN gs rs ks = true ∧
    ∀ cs' rs', getItemN ws cs' = some rs' → ks ∈ writesN gs rs' → cs' = cs

/-- `x` is a chunk boundary of `g` (an entry of `_cumsum(g, initial_zero=True)`). -/
def IsBound (g : List Nat) (x : Nat) : Prop := ∃ j, j ≤ g.length ∧ off g j = x

/-- grid `s` refines grid `w`: every boundary of `w` is a boundary of `s`. -/
def Refines (s w : List Nat) : Prop := ∀ c, c ≤ w.length → ∃ j, j ≤ s.length ∧ off s j = off w c

/-! ### split_chunksizes -/

/-- the array `c` of `split_chunksizes`: `union1d(arange(0,n,sc), arange(0,n,tc))` with `n` appended —
all `x ≤ n` that are `n` itself or a multiple of `sc` or of `tc` below `n`, in increasing order
(`sc = 0` / `tc = 0`, a ZeroDivisionError in `np.arange`, is not modelled: every statement has `0 < sc, tc`). -/
def splitBounds (n sc tc : Nat) : List Nat :=
  (List.range (n + 1)).filter (fun x => x == n || x % sc == 0 || x % tc == 0)

/-- `np.diff` -/
def diffs : List Nat → List Nat
  | a :: b :: rest => (b - a) :: diffs (b :: rest)
  | _ => []

def splitChunksizes (n sc tc : Nat) : List Nat := diffs (splitBounds n sc tc)

/-! ### rechunk / store geometry, one record per axis -/

/-- one axis of a rechunk copy: `n` elements, copy (task) chunk size, requested target chunk size. -/
structure RechunkAxis where
  n : Nat
  copy : Nat
  target : Nat
deriving DecidableEq, Repr

/-- one axis of a store into an existing array: `n` elements, source chunk size (= write proxy chunks),
chunk (or shard) size of the existing target. -/
structure StoreAxis where
  n : Nat
  src : Nat
  tgt : Nat
deriving DecidableEq, Repr

/-- one axis of a store into an existing (unsharded, regularly chunked) array as `_store_array` handles it
since d416aac: `last` is the copy chunk of the final stage of the rechunk to the target chunks that is
inserted when the guard fails (that final rechunk op is re-targeted to the user's array, so its copy
chunks are the write-proxy chunks); unused when the guard passes. -/
structure StoreReq where
  n : Nat
  src : Nat
  tgt : Nat
  last : Nat
deriving DecidableEq, Repr

/-- one conjunct of the guard: `sc % tc == 0 or sc >= n`. -/
def StoreReq.alignedB (a : StoreReq) : Bool := a.src % a.tgt == 0 || decide (a.n ≤ a.src)

/-- the guard of `_store_array`: every source chunk is a multiple of the target chunk or spans the axis. -/
def storeGuard (axes : List StoreReq) : Bool := axes.all StoreReq.alignedB

/-- stored grid of the existing target. -/
def storeStoredFixed (axes : List StoreReq) : List (List Nat) := axes.map fun a => regular a.n a.tgt

/-- write-proxy grids of the tasks that write the user's array: the source chunks when the guard passes,
otherwise the copy chunks of the final stage of the inserted rechunk. -/
def storeWriteFixed (axes : List StoreReq) : List (List Nat) :=
  if storeGuard axes then axes.map fun a => regular a.n a.src else axes.map fun a => regular a.n a.last

/-- OLD variant (before d416aac): no guard, the write-proxy grids are always the source chunks. -/
def storeWriteOld (axes : List StoreAxis) : List (List Nat) := axes.map fun a => regular a.n a.src

/-- `_fix_copy_chunks` on one axis. -/
def fixCopy (n cc tc : Nat) : Nat :=
  if cc ≤ tc ∨ cc = n ∨ cc % tc = 0 then cc else (cc / tc) * tc

/-- `_calculate_shared_chunks` on one axis. -/
def sharedChunk (a b : Nat) : Nat := min a b

/-! ### region stores (`_store_array`, `region is not None`) -/

/-- target axis of length `nt` with regular chunk `ct`; region `[a, b)` (slice bounds already made
explicit: `None` start ↦ 0, `None` stop ↦ `nt`); the source axis has length `b - a` (the code refuses
otherwise) and regular chunk `cs`. -/
structure RegionAxis where
  nt : Nat
  ct : Nat
  a : Nat
  b : Nat
  cs : Nat
deriving DecidableEq, Repr

namespace RegionAxis

/-- the alignment test of `_store_array`: it raises unless this holds. -/
def aligned (r : RegionAxis) : Bool :=
  r.a % r.ct == 0 && (r.b % r.ct == 0 || r.b == r.nt)

/-- `block_offsets`: `sl.start // cs`. -/
def offset (r : RegionAxis) : Nat := r.a / r.ct

/-- output block ids: target chunks the zarr indexer visits for the region. -/
def tasks (r : RegionAxis) : List Nat := writesAxis (regular r.nt r.ct) (r.a, r.b)

/-- interval task `j` writes (write proxy chunks = target chunks, key = out coords). -/
def write (r : RegionAxis) (j : Nat) : Option (Nat × Nat) := getItem (regular r.nt r.ct) j

/-- source block task `j` reads: `in_coords = out_coords - block_offsets`, `none` = IndexError. -/
def read (r : RegionAxis) (j : Nat) : Option (Nat × Nat) :=
  if j < r.offset then none else getItem (regular (r.b - r.a) r.cs) (j - r.offset)

/-- task `j` is well-formed: its source block exists, is exactly the data of the interval it writes, and
the interval lies inside the region. -/
def taskOK (r : RegionAxis) (j : Nat) : Bool :=
  match r.write j, r.read j with
  | some (lo, hi), some (lo', hi') => decide (r.a ≤ lo ∧ hi ≤ r.b ∧ lo' + r.a = lo ∧ hi' + r.a = hi)
  | _, _ => false

/-- since ba97b91 the source of a region store is rechunked to `to_chunksize(normalize_chunks(target.chunks,
source.shape))` = `min ct (b - a)` per axis when its chunksize differs: the axis the tasks really read. -/
def effective (r : RegionAxis) : RegionAxis :=
  { r with cs := if min r.cs (r.b - r.a) = min r.ct (r.b - r.a) then r.cs else min r.ct (r.b - r.a) }

end RegionAxis

/-- one slice of a `region=` argument: `None` = `none`. -/
structure SliceReq where
  start : Option Int
  stop : Option Int
  step : Option Int
deriving DecidableEq, Repr

/-- `slice.indices(n)` for one bound and positive step: negative counts from the end, clamped to `[0, n]`. -/
def clampIdx (n : Nat) (i : Int) : Nat :=
  if i < 0 then (i + n).toNat else min i.toNat n

/-- `slice(start, stop).indices(n)[:2]` (step `None`/1). -/
def sliceIndices (n : Nat) (s : SliceReq) : Nat × Nat :=
  ((match s.start with | none => 0 | some i => clampIdx n i),
   (match s.stop with | none => n | some i => clampIdx n i))

/-- the validation of one region slice in `_store_array` (since ba97b91): steps other than `None`/1 are
refused, bounds are normalized, then the alignment test runs on the normalized bounds.  `none` = ValueError. -/
def regionAccept (nt ct : Nat) (s : SliceReq) : Option (Nat × Nat) :=
  if s.step = none ∨ s.step = some 1 then
    let ab := sliceIndices nt s
    if ab.1 % ct = 0 ∧ (ab.2 % ct = 0 ∨ ab.2 = nt) then some ab else none
  else none

/-- `OutputBlocksIterable`: the tasks of a region store, one per target chunk meeting the region. -/
def regionTasks : List RegionAxis → List (List Nat)
  | [] => [[]]
  | r :: rs => r.tasks.flatMap (fun j => (regionTasks rs).map (fun js => j :: js))

/-- all axes of task `js` well-formed. -/
def regionTaskOK : List RegionAxis → List Nat → Bool
  | [], [] => true
  | r :: rs, j :: js => r.taskOK j && regionTaskOK rs js
  | _, _ => false

end Cubed.Grid
