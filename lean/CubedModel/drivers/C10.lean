/-
  Driver for C10: replays an API history on the History model.  Protocol (see harness/props/c10.py):

  request   hist|<step>;<step>;...
     steps  I:<virt 0|1>:<k>                     asarray / external from_zarr of input k
            Z:<t>                                from_zarr of store target t
            D:<fn>:<idx,idx,..>:<fusePreds 0|1>:<fusable 0|1>   derive (hidden helper arrays are I:1:0 steps)
            C:<idx,idx,..>:<opt 0|1>:<resume 0|1>                        compute
            S:<idx=t,idx=t,..>:<eager 0|1>:<opt 0|1>                     store / to_zarr
            N                                    plan / visualize / config change
  answer    one field per step, joined by ";":
            <obs> L<linked 0|1> R<lateRetarget 0|1>
     obs    built | invalid | failed
            values <term>,<term>.. created=<locs> writes=<locs> tg=<t>:<term|none>,..
            stored created=<locs> writes=<locs> tg=<t>:<term|none>,..
     term   F | S<k> | A<f>(<term> <term> ..)
     loc    i<pool index of the array whose intermediate location it is> | t<target id> | e<name>
-/
import CubedModel.Model.Proto
import CubedModel.Model.Generated
import CubedModel.Model.History

open Cubed Cubed.Proto Cubed.History

def b01 (s : String) : Bool := s.trimAscii.toString == "1"

partial def showVal : Val → String
  | .fill => "F"
  | .src k => s!"S{k}"
  | .app f args => s!"A{f}(" ++ " ".intercalate (args.map showVal) ++ ")"

def showLoc (s : State) : Loc → String
  | .inter n =>
    match s.arrs.findIdx? (fun a => a.name == n) with
    | some i => s!"i{i}"
    | none => s!"n{n}"
  | .target t => s!"t{t}"
  | .ext n => s!"e{n}"

def showLocs (s : State) (ls : List Loc) : String :=
  if ls.isEmpty then "-" else ",".intercalate (ls.map (showLoc s))

def parsePairs (s : String) : List (Nat × Nat) :=
  if s == "-" || s.isEmpty then [] else
  (s.splitOn ",").filterMap (fun kv =>
    match kv.splitOn "=" with
    | [k, v] => match parseNat? k, parseNat? v with
                | some k, some v => some (k, v)
                | _, _ => none
    | _ => none)

def parseStep (s : String) : Option Step :=
  match (s.trimAscii.toString).splitOn ":" with
  | ["I", v, k] => (parseNat? k).map (fun k => Step.input (b01 v) k)
  | ["Z", t] => (parseNat? t).map Step.fromZarr
  | ["D", fn, idxs, fp, fs] =>
    (parseNat? fn).map (fun fn => Step.derive fn (parseNats idxs) (b01 fp) (b01 fs))
  | ["C", idxs, opt, res] => some (Step.compute (parseNats idxs) (b01 opt) (b01 res))
  | ["S", pairs, eager, opt] => some (Step.store (parsePairs pairs) (b01 eager) (b01 opt))
  | ["N"] => some Step.noop
  | _ => none

def soft : List OpObj → List XOp → Nat → Bool :=
  softDefault Cubed.Generated.defaultMaxTotalSourceArrays Cubed.Generated.defaultMaxTotalNumInputBlocks

/-- created / written locations of the computation a step performs (recomputed from the pre-state) -/
def planInfo (s : State) (idxs : List Nat) (opt resume : Bool) : String :=
  match mapOpt (fun i => s.arrs[i]?) idxs with
  | none => ""
  | some as =>
    let f := finalize soft s.heap as opt
    let created := (f.created.filter (·.lazy)).map (·.target)
    let skip := skipOf resume f.nodes s.store
    let writes := (f.plan.reverse.filter (fun e => !skip e.out)).filterMap (fun e => wlocOf s.heap e.out)
    s!"created={showLocs s created} writes={showLocs s writes}"

def targetsInfo (s : State) : String :=
  let ts := s.used.reverse
  if ts.isEmpty then "tg=-" else
  "tg=" ++ ",".intercalate (ts.map (fun t =>
    match s.store (.target t) with
    | some v => s!"{t}:{showVal v}"
    | none => s!"{t}:none"))

def stepAnswer (s : State) (st : Step) : State × String :=
  let late := st.lateRetarget s
  let (s', obs) := s.step soft st
  let core :=
    match obs, st with
    | .built, _ => "built"
    | .invalid, _ => "invalid"
    | .failed, _ => "failed"
    | .values vs, .compute idxs opt resume =>
      "values " ++ ",".intercalate (vs.map showVal) ++ " " ++ planInfo s idxs opt resume ++ " " ++ targetsInfo s'
    | .values vs, _ => "values " ++ ",".intercalate (vs.map showVal)
    | .stored, .store pairs _ opt =>
      match s.storePairs pairs with
      | some (s1, js) => "stored " ++ planInfo s1 js opt false ++ " " ++ targetsInfo s'
      | none => "stored"
    | .stored, _ => "stored"
  let l := if decide (Linked s') then "1" else "0"
  (s', s!"{core} L{l} R{if late then "1" else "0"}")

def runHist (steps : List String) : String :=
  let rec go (s : State) (ss : List String) (acc : List String) : List String :=
    match ss with
    | [] => acc.reverse
    | x :: rest =>
      match parseStep x with
      | none => (("bad-step" :: acc).reverse)
      | some st =>
        let (s', a) := stepAnswer s st
        go s' rest (a :: acc)
  ";".intercalate (go {} steps [])

def handle (line : String) : String :=
  match line.splitOn "|" with
  | ["hist", steps] => runHist (steps.splitOn ";")
  | _ => "bad-request"

def main : IO Unit := runDriver handle
