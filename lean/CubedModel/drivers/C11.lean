/-
  Driver for C11: line protocol, see harness/props/c11.py.

  region|<axis>;<axis>;…        axis = n,cs,start,stop,step,m,sc   (N = None; start = X: the region tuple has no entry
                                 for this axis; start/stop/step are Python ints)
      -> verdict=<ok|misaligned|shape|badstep|badregion> offsets=<ints> blocks=<b.b b.b …> declared=<n>
         outcome=<ok|IndexError|BroadcastError> final=<ints>
         (final = target contents, row-major, after the sequential run; target prefilled with -1,
          source element number k (row-major) holds k+1)
  copy|m,sc,n,tc                 -> verdict=shape | verdict=ok outcome=<…> final=<ints>   no-region store into an existing
                                    length-n array with stored chunk tc, 1-D
  pairs|<nsrc>|<ntgt>|<N | one | many:k>
      -> ok <k> | error lenTargets | error lenRegions
  store|<id:lazy:dep.dep …>|<src:tgt:region:accepted:samechunks:existing …>
      -> rejected <k> | broken | done <w|m> …
-/
import CubedModel.Model.Proto
import CubedModel.Model.StoreSem

open Cubed Cubed.Proto Cubed.StoreSem

def optInt (s : String) : Option Int := if s.trimAscii.toString == "N" then none else parseInt? s

/-- an axis; the Bool says whether the region tuple has an entry for it (start field `X` = no entry) -/
def parseAxis (s : String) : Option (Axis × Bool) :=
  match s.splitOn "," with
  | [n, cs, st, sp, step, m, sc] =>
    match parseNat? n, parseNat? cs, parseNat? m, parseNat? sc with
    | some n, some cs, some m, some sc =>
      if st.trimAscii.toString == "X" then some (⟨n, cs, ⟨none, none, none⟩, m, sc⟩, false)
      else some (⟨n, cs, ⟨optInt st, optInt sp, optInt step⟩, m, sc⟩, true)
    | _, _, _, _ => none
  | _ => none

def showVerdict : Verdict → String
  | .ok => "ok"
  | .misaligned => "misaligned"
  | .shapeMismatch => "shape"
  | .badStep => "badstep"
  | .badRegion => "badregion"

def rowMajor (shape idx : List Nat) : Nat :=
  (shape.zip idx).foldl (fun acc p => acc * p.1 + p.2) 0

def handleRegion (body : String) : String :=
  let parsed := (body.splitOn ";").filterMap parseAxis
  if parsed.length != (body.splitOn ";").length then "bad-request" else
  let axes := parsed.map (·.1)
  let regionLen := (parsed.filter (·.2)).length
  let v := acceptReq axes.length regionLen axes
  if v != .ok then s!"verdict={showVerdict v}" else
  let prep := prepare axes
  let offs := prep.map blockOffset
  let blocks := outputBlocks prep
  let run := storeRegion axes
  let srcShape := axes.map (·.m)
  let src : List Nat → Int := fun js => (rowMajor srcShape js : Nat) + 1
  let tgt : List Nat → Int := fun _ => -1
  let fin := applyPairs src run.written tgt
  let cells := cartesian (axes.map (fun a => List.range a.n))
  let outcome := match run.err with
    | none => "ok"
    | some .indexError => "IndexError"
    | some .broadcastError => "BroadcastError"
  s!"verdict=ok offsets={showInts offs} blocks={" ".intercalate (blocks.map (fun b => ".".intercalate (b.map toString)))} declared={declaredTasks prep} outcome={outcome} final={showInts (cells.map fin)}"

def showOutcome : Option TaskErr → String
  | none => "ok"
  | some .indexError => "IndexError"
  | some .broadcastError => "BroadcastError"

def handleCopy (body : String) : String :=
  match parseNats body with
  | [m, sc, n, tc] =>
    if validateNoRegion m n != .ok then s!"verdict={showVerdict (validateNoRegion m n)}" else
    let src : Nat → Int := fun j => (j : Int) + 1
    let run := storeCopy m sc tc
    let fin := applyPairs src run.written (fun _ => -1)
    s!"verdict=ok outcome={showOutcome run.err} final={showInts ((List.range n).map fin)}"
  | _ => "bad-request"

def handlePairs (parts : List String) : String :=
  match parts with
  | [ns, nt, r] =>
    match parseNat? ns, parseNat? nt with
    | some ns, some nt =>
      let regions : Option (RegionsArg Nat) :=
        if r == "N" then some .none
        else if r == "one" then some (.one 0)
        else match r.splitOn ":" with
          | ["many", k] => (parseNat? k).map (fun k => .many (List.range k))
          | _ => none
      match regions with
      | none => "bad-request"
      | some rg =>
        match pairUp (List.range ns) (List.range nt) rg with
        | .ok ps => s!"ok {ps.length}"
        | .error .lenTargets => "error lenTargets"
        | .error .lenRegions => "error lenRegions"
    | _, _ => "bad-request"
  | _ => "bad-request"

def handleStore (parts : List String) : String :=
  match parts with
  | [arrs, prs] =>
    let tab : List (Nat × Bool × List Nat) := (arrs.splitOn " ").filterMap (fun s =>
      match s.splitOn ":" with
      | [i, l, d] => (parseNat? i).map (fun i => (i, l == "1", (d.splitOn ".").filterMap parseNat?))
      | _ => none)
    let A : Arrays :=
      { lazy := fun a => match tab.find? (fun e => e.1 == a) with | some e => e.2.1 | none => false
        deps := fun a => match tab.find? (fun e => e.1 == a) with | some e => e.2.2 | none => [] }
    let parsed : List (Pair × Bool × Bool) := (prs.splitOn " ").filterMap (fun s =>
      match s.splitOn ":" with
      | [a, t, r, ok, same, ex] =>
        match parseNat? a, parseNat? t with
        | some a, some t => some (⟨a, t, r == "1", ok == "1"⟩, same == "1", ex == "1")
        | _, _ => none
      | _ => none)
    let pairs := parsed.map (·.1)
    let A : Arrays :=
      { lazy := A.lazy, deps := A.deps
        sameChunks := fun l => match parsed.find? (fun e => e.1.tgt == l) with | some e => e.2.1 | none => true
        existing := fun l => match parsed.find? (fun e => e.1.tgt == l) with | some e => e.2.2 | none => false }
    match storeOutcome A pairs with
    | .rejected k => s!"rejected {k}"
    | .broken => "broken"
    | .done rs => "done " ++ " ".intercalate (rs.map (fun r => match r with | .written => "w" | .missing => "m"))
  | _ => "bad-request"

def handle (line : String) : String :=
  match line.splitOn "|" with
  | ["region", body] => handleRegion body
  | ["copy", body] => handleCopy body
  | "pairs" :: rest => handlePairs rest
  | "store" :: rest => handleStore rest
  | _ => "bad-request"

def main : IO Unit := runDriver handle
