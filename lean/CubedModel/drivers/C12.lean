/-
  Driver for C12: line protocol, see harness/props/c12.py.

  Encodings:  chunks  = axes separated by ';', block lengths by ','   ("4,4,1;3", 0-d = "-")
              list of chunks / of coordinates = separated by '/'
  Requests (fields separated by '|'); every op request ends with <fn>|<coords list> where applicable:
    bw|outInd|chunks@ind/...|i:c:k / i:l:1,2 / i:o|i:1,1/...|align(0/1)|fn|coords
    mb|chunks/...|none or specs (i3;t1,1)|drop ints|none or new axes|fn|coords
    argmap|x|axis (int, may be negative)|coords    elemwise|chunks/...|coords          squeeze|x|axes|coords      expand|x|axes|coords     permute|x|axes|coords
    pr|x|ax:k,...|ax:k / ax:t5,5,2 ...|kind(0 keepdims/1 concat/2 toCombine)|coords
    concat|chunks/...|axis|none or chunks|coords
    stackunify|chunks/...    stack|chunks/...|axis|coords        unstack|x|axis|coords      repeat|x|r|axis (int, may be negative)|coords   copy|x|copy sizes|coords
    index|x|i ; s:start:stop:step:orig ; a:len|coords
    blocks|x|selected block indexes per axis (as chunks)|coords    qr1|a|coords        qr3|q1|r2,c2|coords      qr2|r,n
    reduced|shape|axes|keepdims(0/1)    aslices|lens|start|stop    bshapes|shape/shape/...    tree|k|d|nb     reggrid|c|n
  fn:  same | squeeze:axes | expand:axes | setaxis:axis:len | none
  Answers:  ok c=<chunkss> d=<declared|!> b=<block/block/...>     (block '!' = undefined, shape "-" = 0-d)
            error   (the derivation fails: one of the code's ValueErrors)
-/
import CubedModel.Model.Proto
import CubedModel.Model.ShapeCalc

open Cubed Cubed.Proto Cubed.ShapeCalc

def dashNats (l : List Nat) : String := if l.isEmpty then "-" else showNats l

def showChunks (c : Chunks) : String :=
  if c.isEmpty then "-" else ";".intercalate (c.map showNats)

def parseChunks (s : String) : Chunks :=
  let s := s.trimAscii.toString
  if s == "-" || s.isEmpty then [] else (s.splitOn ";").map parseNats

def parseChunksList (s : String) : List Chunks :=
  let s := s.trimAscii.toString
  if s.isEmpty || s == "none" then [] else (s.splitOn "/").map parseChunks

def parseCoords (s : String) : List (List Nat) :=
  let s := s.trimAscii.toString
  if s.isEmpty || s == "none" then [] else (s.splitOn "/").map parseNats

def showOptShape (o : Option (List Nat)) : String :=
  match o with
  | some s => dashNats s
  | none => "!"

def showOptChunks (o : Option Chunks) : String :=
  match o with
  | some c => showChunks c
  | none => "!"

def answer (chunkss : Option Chunks) (block : List Nat → Option (List Nat)) (coords : List (List Nat)) : String :=
  match chunkss with
  | none => "error"
  | some c =>
    "ok c=" ++ showChunks c ++ " d=" ++ showOptChunks (arrChunks c) ++ " b=" ++
      "/".intercalate (coords.map (fun co => showOptShape (block co)))

def parseFn (s : String) : Option BlockFn :=
  match s.splitOn ":" with
  | ["same"] => some .same
  | ["squeeze", a] => some (.squeeze (parseNats a))
  | ["expand", a] => some (.expandDims (parseNats a))
  | ["setaxis", a, l] =>
    match parseNat? a, parseNat? l with
    | some a, some l => some (.setAxis a l)
    | _, _ => none
  | _ => none

def parseBwArg (s : String) : Option BwArg :=
  match s.splitOn "@" with
  | [c, i] => some ⟨parseChunks c, parseNats i⟩
  | _ => none

def parseAdjust (s : String) : List (Nat × Adjust) :=
  if s == "-" || s.isEmpty then [] else
  (s.splitOn "/").filterMap (fun e =>
    match e.splitOn ":" with
    | [i, "c", k] => match parseNat? i, parseNat? k with
                     | some i, some k => some (i, Adjust.const k)
                     | _, _ => none
    | [i, "l", l] => (parseNat? i).map (fun i => (i, Adjust.list (parseNats l)))
    | [i, "o"] => (parseNat? i).map (fun i => (i, Adjust.toOne))
    | _ => none)

def parseNewAxes (s : String) : List (Nat × List Nat) :=
  if s == "-" || s.isEmpty then [] else
  (s.splitOn "/").filterMap (fun e =>
    match e.splitOn ":" with
    | [i, l] => (parseNat? i).map (fun i => (i, parseNats l))
    | _ => none)

def blockOf (b : Bw) (fn : String) : List Nat → Option (List Nat) :=
  match parseFn fn with
  | some f => bwBlock b f
  | none => fun _ => none

def showBw (b : Bw) : String :=
  let adj := "/".intercalate (b.adjust.map (fun p =>
    toString p.1 ++ ":" ++ (match p.2 with
      | .const k => "c:" ++ toString k
      | .list l => "l:" ++ showNats l
      | .toOne => "o")))
  let na := "/".intercalate (b.newAxes.map (fun p => toString p.1 ++ ":" ++ showNats p.2))
  "out=" ++ dashNats b.outInd ++ " adj=" ++ (if adj.isEmpty then "-" else adj) ++ " new=" ++ (if na.isEmpty then "-" else na)

def parseSpecs (s : String) : Option (List ChunkSpec) :=
  if s == "none" then none else
  if s == "-" || s.isEmpty then some [] else
  some ((s.splitOn ";").filterMap (fun e =>
    if e.startsWith "i" then (parseNat? (e.drop 1).toString).map ChunkSpec.int
    else if e.startsWith "t" then some (ChunkSpec.tup (parseNats (e.drop 1).toString))
    else none))

def parsePairs (s : String) : List (Nat × Nat) :=
  if s == "-" || s.isEmpty then [] else
  (s.splitOn ",").filterMap (fun e =>
    match e.splitOn ":" with
    | [a, k] => match parseNat? a, parseNat? k with
                | some a, some k => some (a, k)
                | _, _ => none
    | _ => none)

def parseComb (s : String) : List (Nat × CombSize) :=
  if s == "-" || s.isEmpty then [] else
  (s.splitOn "/").filterMap (fun e =>
    match e.splitOn ":" with
    | [a, v] =>
      match parseNat? a with
      | some a =>
        if v.startsWith "t" then some (a, CombSize.sizes (parseNats (v.drop 1).toString))
        else (parseNat? v).map (fun k => (a, CombSize.const k))
      | none => none
    | _ => none)

def parseSel (s : String) : Option Sel :=
  match s.splitOn ":" with
  | ["i"] => some .int
  | ["a", n] => (parseNat? n).map Sel.arr
  | ["s", a, b, st, o] =>
    match parseNat? a, parseNat? b, parseNat? st, parseInt? o with
    | some a, some b, some st, some o => some (.slice a b st o)
    | _, _, _, _ => none
  | _ => none

def handleMB (m : MapBlocks) (fn coords : String) : String :=
  match mapBlocksToBw m with
  | none => "error"
  | some b => answer (bwChunkss b) (blockOf b fn) (parseCoords coords) ++ " " ++ showBw b

def handle (line : String) : String :=
  match line.splitOn "|" with
  | ["bw", oi, args, adj, na, al, fn, coords] =>
    let b : Bw := { outInd := parseNats oi, args := (args.splitOn "/").filterMap parseBwArg,
                    adjust := parseAdjust adj, newAxes := parseNewAxes na, align := al == "1" }
    answer (bwChunkss b) (blockOf b fn) (parseCoords coords)
  | ["mb", args, specs, drop, na, fn, coords] =>
    handleMB { args := parseChunksList args, chunks := parseSpecs specs, dropAxis := parseInts drop,
               newAxis := if na == "none" then none else some (parseNats na) } fn coords
  | ["elemwise", args, coords] =>
    let b := elemwiseBw (parseChunksList args)
    answer (bwChunkss b) (bwBlock b .same) (parseCoords coords)
  | ["squeeze", x, axes, coords] =>
    -- sc = the structural formula of the theorem (removeAxes / unsqueezeCoords) agrees with the map_blocks derivation
    let xc := parseChunks x
    let ax := parseNats axes
    let cs := parseCoords coords
    let sc := match mapBlocksToBw (squeezeMB xc ax) with
      | some b => bwChunkss b == some (removeAxes ax xc) &&
          cs.all (fun co => bwBlock b (.squeeze ax) co == (extents xc (unsqueezeCoords ax 0 xc co)).bind (squeezeShape ax))
      | none => false
    handleMB (squeezeMB xc ax) ("squeeze:" ++ axes) coords ++ " sc=" ++ (if sc then "1" else "0")
  | ["expand", x, axes, coords] =>
    let xc := parseChunks x
    let ax := parseNats axes
    let cs := parseCoords coords
    let sc := match mapBlocksToBw (expandDimsMB xc ax) with
      | some b => bwChunkss b == some (expandAxes ax [1] xc) &&
          cs.all (fun co => bwBlock b (.expandDims ax) co == (extents xc (removeAxes ax co)).map (expandAxes ax 1))
      | none => false
    handleMB (expandDimsMB xc ax) ("expand:" ++ axes) coords ++ " sc=" ++ (if sc then "1" else "0")
  | ["argmap", x, axis, coords] =>
    match (parseInt? axis).bind (fun a => argMapMB (parseChunks x) a) with
    | some (m, ax) => handleMB m ("setaxis:" ++ toString ax ++ ":1") coords
    | none => "error"
  | ["permute", x, axes, coords] =>
    let b := permuteBw (parseChunks x) (parseNats axes)
    answer (bwChunkss b) (bwBlock b .same) (parseCoords coords)
  | ["pr", x, split, comb, cc, coords] =>
    let p : PartialReduce := { x := parseChunks x, split := parsePairs split, combine := parseComb comb,
                               kind := if cc == "1" then .concat else if cc == "2" then .toCombine else .keepdims }
    answer (some (prChunkss p)) (prBlock p) (parseCoords coords)
  | ["concat", args, axis, ch, coords] =>
    let c : Concat := { args := parseChunksList args, axis := (parseNat? axis).getD 0,
                        chunks := if ch == "none" then none else some (parseChunks ch) }
    answer (concatChunkss c) (concatBlock c) (parseCoords coords)
  | ["stack", args, axis, coords] =>
    let a := parseChunksList args
    let ax := (parseNat? axis).getD 0
    answer (stackChunkss a ax) (stackBlock a ax) (parseCoords coords)
  | ["stackunify", args] =>
    match stackUnify (parseChunksList args) with
    | some u => "ok " ++ "/".intercalate (u.map showChunks)
    | none => "error"
  | ["unstack", x, axis, coords] =>
    let ax := (parseNat? axis).getD 0
    answer (unstackChunkss (parseChunks x) ax) (unstackBlock (parseChunks x) ax) (parseCoords coords)
  | ["repeat", x, r, axis, coords] =>
    let xc := parseChunks x
    let r := (parseNat? r).getD 0
    match (parseInt? axis).bind (repeatNormAxis xc) with
    | some ax => answer (repeatChunkss xc r ax) (repeatBlock xc r ax) (parseCoords coords)
    | none => "error"
  | ["copy", x, cp, coords] =>
    answer (copyChunkss (parseChunks x) (parseNats cp)) (copyBlock (parseChunks x) (parseNats cp)) (parseCoords coords)
  | ["merge", x, cp, coords] =>
    if mergeOk (parseChunks x) (parseNats cp) then
      answer (copyChunkss (parseChunks x) (parseNats cp)) (copyBlock (parseChunks x) (parseNats cp)) (parseCoords coords)
    else "error"
  | ["index", x, sels, coords] =>
    let ss := if sels == "-" then [] else (sels.splitOn ";").filterMap parseSel
    answer (indexChunkss (parseChunks x) ss) (indexBlock (parseChunks x) ss) (parseCoords coords)
  | ["blocks", x, sels, coords] =>
    let xc := parseChunks x
    let ss := parseChunks sels
    match blocksChunkss xc ss with
    | some c => if (arrChunks c).isNone then "error" else answer (some c) (blocksBlock xc ss) (parseCoords coords)
    | none => "error"
  | ["qr1", a, coords] =>
    match qr1Chunkss (parseChunks a) with
    | none => "error"
    | some (q, r) =>
      let cs := parseCoords coords
      "ok q=" ++ showChunks q ++ " qd=" ++ showOptChunks (arrChunks q) ++ " r=" ++ showChunks r ++ " rd=" ++ showOptChunks (arrChunks r)
        ++ " qb=" ++ "/".intercalate (cs.map (fun c => showOptShape ((qr1Block (parseChunks a) c).map (·.1))))
        ++ " rb=" ++ "/".intercalate (cs.map (fun c => showOptShape ((qr1Block (parseChunks a) c).map (·.2))))
  | ["qr2", rn] =>
    match parseNats rn with
    | [r, n] =>
      let (q, rr) := qr2Chunkss r n
      let (qb, rb) := qr2Block r n
      "ok q=" ++ showChunks q ++ " r=" ++ showChunks rr ++ " qb=" ++ dashNats qb ++ " rb=" ++ dashNats rb
    | _ => "bad-request"
  | ["qr3", q1, rc, coords] =>
    match parseNats rc with
    | [r2, c2] =>
      answer (some (parseChunks q1)) (qr3Block (parseChunks q1) r2 c2) (parseCoords coords)
    | _ => "bad-request"
  | ["aslices", lens, start, stop] =>
    match parseNat? start, parseNat? stop with
    | some a, some b =>
      let ps := arraySlices (parseNats lens) 0 0 a b
      if ps.isEmpty then "-" else "/".intercalate (ps.map (fun p => s!"{p.1},{p.2.1},{p.2.2}"))
    | _, _ => "bad-request"
  | ["reduced", shape, axes, kd] => dashNats (reducedShape (parseNats shape) (parseNats axes) (kd == "1"))
  | ["bshapes", shapes] =>
    showOptShape (broadcastShapes (if shapes.isEmpty then [] else (shapes.splitOn "/").map parseNats))
  | ["tree", k, d, nb] =>
    match parseNat? k, parseNat? d, parseNat? nb with
    | some k, some d, some nb => toString (treeLevels k d nb)
    | _, _, _ => "bad-request"
  | ["reggrid", c, n] =>
    match parseNat? c, parseNat? n with
    | some c, some n => showNats (regGrid c n)
    | _, _ => "bad-request"
  | _ => "bad-request"

def main : IO Unit := runDriver handle
