/-
  Driver for C18: line protocol, see harness/props/c18.py.  Strings travel as comma-separated code points
  ("-" = empty string) so that whitespace, control characters and "|" survive the line protocol.

  bytes|<cps>                    -> ok <n> | error format|noninteger|negative|index|range   (convert_to_bytes(str))
  int|<z>                        -> ok <n> | error negative                                 (convert_to_bytes(int))
  ratio|<num>|<den>              -> ok <n> | error noninteger|negative      (convert_to_bytes(float), den=0: inf/nan)
  denote|<cps>                   -> some <num>/<den> | none                                 (the denotation)
  meminit|<cps or none>|<cps or none>   -> ok <allowed> <reserved> | error <kind>          (Spec.__init__)
  speceq|<7 nats>|<7 nats>       -> true | false                                            (Spec.__eq__)
  check|<7 nats or ->;...        -> ok <7 nats> | error mismatch|index|attribute            (check_array_specs)
-/
import CubedModel.Model.Proto
import CubedModel.Model.SpecModel

open Cubed Cubed.Proto Cubed.SpecModel

def parseCps (s : String) : List Char :=
  (parseNats s).map Char.ofNat

def showBytesErr : BytesErr → String
  | .format => "format"
  | .nonInteger => "noninteger"
  | .negative => "negative"
  | .index => "index"
  | .range => "range"

def showBytes : Except BytesErr Nat → String
  | .ok n => s!"ok {n}"
  | .error e => "error " ++ showBytesErr e

def parseSpec (s : String) : Option (Option Spec) :=
  if s.trimAscii.toString == "-" then some none else
  match parseNats s with
  | [a, b, c, d, e, f, g] => some (some ⟨a, b, c, d, e, f, g⟩)
  | _ => none

def showSpec (s : Spec) : String :=
  showNats [s.workDir, s.intermediateStore, s.allowedMem, s.reservedMem, s.executor, s.storageOptions, s.zarrCompressor]

def optCps (s : String) : Option (List Char) :=
  if s.trimAscii.toString == "none" then none else some (parseCps s)

def handle (line : String) : String :=
  match line.splitOn "|" with
  | ["bytes", cps] => showBytes (convertStr (parseCps cps))
  | ["int", z] =>
    match parseInt? z with
    | some z => showBytes (convertInt z)
    | none => "bad-request"
  | ["ratio", n, d] =>
    match parseInt? n, parseNat? d with
    | some n, some d => showBytes (convertRatio n d)
    | _, _ => "bad-request"
  | ["denote", cps] =>
    match denote (parseCps cps) with
    | some q => s!"some {q.num}/{q.den}"
    | none => "none"
  | ["meminit", a, r] =>
    match Spec.memInit (optCps a) (optCps r) with
    | .ok (x, y) => s!"ok {x} {y}"
    | .error e => "error " ++ showBytesErr e
  | ["speceq", a, b] =>
    match parseSpec a, parseSpec b with
    | some (some a), some (some b) => toString (specEq a b)
    | _, _ => "bad-request"
  | ["check", l] =>
    let items := if l.trimAscii.toString.isEmpty then [] else (l.splitOn ";").map parseSpec
    if items.any Option.isNone then "bad-request" else
    match checkArraySpecs (items.filterMap id) with
    | .ok s => "ok " ++ showSpec s
    | .error .specMismatch => "error mismatch"
    | .error .indexError => "error index"
    | .error .attributeError => "error attribute"
  | _ => "bad-request"

def main : IO Unit := runDriver handle
