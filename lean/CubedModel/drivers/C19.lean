/-
  Driver for C19: line protocol, see harness/props/c19.py.

  site|<id>                                  -> kind name of the site in the generated table | unknown-site
  chain|<O|D>|<init>|<id;id;...>             O: the operands carry an explicit Spec different from the default config,
                                             D: they carry the default-config spec;
                                             init ∈ none | opnd | dflt | other : the `spec` argument the outermost function got
        -> opnd | dflt | fresh | other | error | unknown-site <id>      (which spec the created array carries; with D the
           answer for the operands' spec is "dflt"; "fresh" is a third spec, "other" a fourth)
  machine|<total>|<workers>|<allowed>        -> true | false      (check_runtime_memory of the local executors)
  build|<cfg>|<expr>                         cfg ∈ default | equal | other
        expr ::= (c <kinds>) | (u <chains> expr) | (b <chains> expr expr)
                 kinds = k,k,... or - ; chains = kinds;kinds;... or -   (k = site id looked up in the table, or a kind name)
        -> ok cfg | ok dflt | ok ? | reject | bad-request
  accept|<allowed>|<reserved>|<workdir or ->|<in,in,...>|<operation>|<output>
        -> copies=<r>,<w> projected=<n> accept=<true|false>
  speceq|<spec>|<spec>     spec = workdir;store;allowed;reserved;executor;storageopts;compressor ('-' = None; auto|off|c<n>)
        -> true | false
  store|<spec>                               -> object:<id> | dir:<workdir or ->
-/
import CubedModel.Model.Proto
import CubedModel.Model.SpecThread

open Cubed Cubed.Proto Cubed.SpecThread

def specD : Spec := ⟨none, none, 2000000000, 100000000, none, none, .auto⟩
def specO : Spec := ⟨some "/tmp/c19-operand", none, 400000000, 1000000, none, none, .auto⟩
def specF : Spec := ⟨some "/tmp/c19-fresh", none, 500000000, 0, none, none, .auto⟩
def specX : Spec := ⟨some "/tmp/c19-other", none, 300000000, 0, none, none, .off⟩

def classify (s : Spec) : String :=
  if s == specO then "opnd" else if s == specD then "dflt" else if s == specF then "fresh" else "other"

def kindOfName (n : String) : Option Kind :=
  [Kind.operand, .param, .like, .likeArgs, .fresh, .selfUnwrap, .missing, .unknown].find? (fun k => k.name == n)

/-- a site id (looked up in the generated table) or a literal kind name -/
def kindOfTok (t : String) : Except String Kind :=
  match kindOfName t with
  | some k => .ok k
  | none => match siteKind? t with
    | some k => .ok k
    | none => .error t

def kindsOf (toks : List String) : Except String (List Kind) :=
  toks.foldr (fun t acc => match kindOfTok t, acc with
    | .ok k, .ok l => .ok (k :: l)
    | .error e, _ => .error e
    | _, .error e => .error e) (.ok [])

def splitNonEmpty (s : String) (sep : String) : List String :=
  if s == "-" || s.isEmpty then [] else (s.splitOn sep).filter (fun t => !t.isEmpty)

def handleChain (ops init ids : String) : String :=
  let opnd := if ops == "D" then specD else specO
  let st : Option (Option Spec) := match init with
    | "none" => some none
    | "opnd" => some (some opnd)
    | "dflt" => some (some specD)
    | "other" => some (some specX)
    | _ => none
  match st, kindsOf (splitNonEmpty ids ";") with
  | none, _ => "bad-request"
  | _, .error id => "unknown-site " ++ id
  | some c, .ok ks =>
    match helperSpec specD opnd specF c ks with
    | some s => if s == specD then "dflt" else classify s
    | none => "error"

/-! expressions -/

def parseChains (s : String) : Except String (List (List Kind)) :=
  (splitNonEmpty s ";").foldr (fun ch acc => match kindsOf (splitNonEmpty ch ","), acc with
    | .ok k, .ok l => .ok (k :: l)
    | .error e, _ => .error e
    | _, .error e => .error e) (.ok [])

partial def parseExpr (toks : List String) : Option (Expr × List String) :=
  match toks with
  | "(c" :: ks :: ")" :: rest =>
    match kindsOf (splitNonEmpty ks ",") with
    | .ok k => some (.create 0 k, rest)
    | .error _ => none
  | "(u" :: chs :: rest =>
    match parseChains chs, parseExpr rest with
    | .ok c, some (a, ")" :: rest') => some (.op1 0 c a, rest')
    | _, _ => none
  | "(b" :: chs :: rest =>
    match parseChains chs, parseExpr rest with
    | .ok c, some (a, rest1) =>
      match parseExpr rest1 with
      | some (b, ")" :: rest2) => some (.op2 0 c a b, rest2)
      | _ => none
    | _, _ => none
  | _ => none

def handleBuild (cfg expr : String) : String :=
  let c : Option (Option Spec) := match cfg with
    | "default" => some none
    | "equal" => some (some { specD with })
    | "other" => some (some specO)
    | _ => none
  match c, parseExpr (tokens expr) with
  | some c, some (e, []) =>
    match build specD specF c e with
    | none => "reject"
    | some s => if s == resolve specD c then (if s == specD then "ok dflt" else "ok cfg") else "ok ?"
  | _, _ => "bad-request"

/-! memory / spec equality / storage -/

def optStr (s : String) : Option String := if s == "-" then none else some s
def optNat (s : String) : Option Nat := if s == "-" then none else parseNat? s

def parseCompressor (s : String) : Compressor :=
  if s == "auto" then .auto else if s == "off" then .off else .codec ((parseNat? (s.drop 1).toString).getD 0)

def parseSpec (s : String) : Option Spec :=
  match s.splitOn ";" with
  | [wd, st, al, re, ex, so, co] =>
    match parseNat? al, parseNat? re with
    | some a, some r => some ⟨optStr wd, optNat st, a, r, optNat ex, optNat so, parseCompressor co⟩
    | _, _ => none
  | _ => none

def handleAccept (al re wd ins op out : String) : String :=
  match parseNat? al, parseNat? re, parseNat? op, parseNat? out with
  | some a, some r, some o, some ou =>
    let s : Spec := ⟨optStr wd, none, a, r, none, none, .auto⟩
    let m : OpMem := ⟨parseNats ins, o, ou⟩
    let bc := copies s
    s!"copies={bc.1},{bc.2} projected={projected r bc m} accept={admits s m}"
  | _, _, _, _ => "bad-request"

def handle (line : String) : String :=
  match line.splitOn "|" with
  | ["site", id] => match siteKind? id with
    | some k => k.name
    | none => "unknown-site"
  | ["chain", ops, init, ids] => handleChain ops init ids
  | ["machine", t, w, a] => match parseNat? t, parseNat? w, parseNat? a with
    | some t, some w, some a => toString (machineOk t w ⟨none, none, a, 0, none, none, .auto⟩)
    | _, _, _ => "bad-request"
  | ["build", cfg, expr] => handleBuild cfg expr
  | ["accept", al, re, wd, ins, op, out] => handleAccept al re wd ins op out
  | ["speceq", a, b] => match parseSpec a, parseSpec b with
    | some x, some y => toString (decide (x = y))
    | _, _ => "bad-request"
  | ["store", a] => match parseSpec a with
    | some x => match storeOf x with
      | .object i => s!"object:{i}"
      | .dir w => "dir:" ++ w.getD "-"
    | none => "bad-request"
  | _ => "bad-request"

def main : IO Unit := Cubed.Proto.runDriver handle
