/-
  Driver for C07 and C13 (scheduling model), line protocol — see harness/props/c07.py, c13.py.

  <dag>   ::= e=<u>u>v,…>;p=<nodes with a pipeline>;c=<nodes marked computed>;n=<o:ntasks,…>;cr=<create node or ->;N=<number of nodes>
  <order> ::= seq:<n,n,…>            nx.topological_sort          (sequential mode, visit_nodes)
            | gen:<n,n;n;n,n,…>      nx.topological_generations   (parallel mode, visit_node_generations)
  <trace> ::= space separated tokens  cs ce os<o> te<o> oe<o>  c<a> w<a> r<a>

  sched|<dag>|<order>            -> topo=<0|1> create=<0|1|-> sched=<g;g;…>
                                    (topo: Topo/Gens holds; create: CreateFirst holds; sched: the model's schedule)
  gensok|<dag>|<order>           -> topo=<0|1>    (checkGens on the REAL visit_nodes / visit_node_generations output; <dag> is the
                                    DAG contracted to the executed ops: p>o iff p reaches o through skipped nodes only)
  accepts|<dag>|<order>|<trace>  -> hyp-fails | ok | reject      (acceptsObs on the model's schedule)
  acceptsraw|<dag>|<sched as gen:…>|<trace> -> ok | reject         (acceptsObs on a given schedule, no hypothesis check)
  keys|<nb>                      -> n=<numTasks> keys=<k;k;…>      (ChunkKeys.__iter__)
  range|<nb>|<start>|<stop or ->  -> keys=<k;k;…>                  (ChunkKeys.range)
  total|<counts>                 -> <planTotal>
  region|<start,stop,srcchunk,tgtchunk;…> -> advertised=<source.npartitions> real=<blocks met by the region>
-/
import CubedModel.Model.Proto
import CubedModel.Model.Sched

open Cubed Cubed.Proto Cubed.Sched

def field (fs : List String) (key : String) : String :=
  match fs.find? (fun f => f.startsWith (key ++ "=")) with
  | some f => (f.drop (key.length + 1)).toString
  | none => ""

def parsePairs (s : String) (sep : String) : List (Nat × Nat) :=
  if s.isEmpty || s == "-" then [] else
  (s.splitOn ",").filterMap (fun p =>
    match p.splitOn sep with
    | [a, b] => match parseNat? a, parseNat? b with
                | some a, some b => some (a, b)
                | _, _ => none
    | _ => none)

structure PDag where
  dag : Dag
  nodes : List Nat

def parseDag (s : String) : PDag :=
  let fs := s.splitOn ";"
  let edges := parsePairs (field fs "e") ">"
  let pipe := parseNats (field fs "p")
  let comp := parseNats (field fs "c")
  let nt := parsePairs (field fs "n") ":"
  let cr := parseNat? (field fs "cr")
  let n := (parseNat? (field fs "N")).getD 0
  { dag := { edges := edges
             pipeline := fun x => pipe.contains x
             computed := fun x => comp.contains x
             ntasks := fun x => match nt.find? (fun p => p.1 == x) with
                                | some p => p.2
                                | none => 0
             create := cr }
    nodes := List.range n }

/-- "seq:…" / "gen:…" ↦ generations (sequential order = singleton generations) -/
def parseOrder (s : String) : List (List Nat) :=
  if s.startsWith "seq:" then (parseNats (s.drop 4).toString).map (fun o => [o])
  else if s.startsWith "gen:" then
    let body := (s.drop 4).toString
    if body.isEmpty then [] else (body.splitOn ";").map parseNats
  else []

def showSched (sched : List (List Nat)) : String := ";".intercalate (sched.map showNats)

def parseTok (t : String) : Option Obs :=
  if t == "cs" then some (.ev .computeStart)
  else if t == "ce" then some (.ev .computeEnd)
  else if t.startsWith "os" then (parseNat? (t.drop 2).toString).map (fun o => .ev (.opStart o))
  else if t.startsWith "te" then (parseNat? (t.drop 2).toString).map (fun o => .ev (.taskEnd o))
  else if t.startsWith "oe" then (parseNat? (t.drop 2).toString).map (fun o => .ev (.opEnd o))
  else if t.startsWith "c" then (parseNat? (t.drop 1).toString).map .create
  else if t.startsWith "w" then (parseNat? (t.drop 1).toString).map .write
  else if t.startsWith "r" then (parseNat? (t.drop 1).toString).map .read
  else none

def parseTrace (s : String) : Option (List Obs) :=
  let toks := (s.splitOn " ").filter (fun t => !t.isEmpty)
  let obs := toks.filterMap parseTok
  if obs.length == toks.length then some obs else none

def handleSched (parts : List String) : String :=
  match parts with
  | [dag, order] =>
    let pd := parseDag dag
    let gens := parseOrder order
    let topo := checkGens pd.dag gens
    let cr := match pd.dag.create with
      | some c => if checkCreateFirst pd.dag c pd.nodes then "1" else "0"
      | none => "-"
    s!"topo={if topo then 1 else 0} create={cr} sched={showSched (genSchedule pd.dag gens)}"
  | _ => "bad-request"

/-- `checkGens` on a schedule the tree under test really hands out (dag = the DAG contracted to executed ops) -/
def handleGensOk (parts : List String) : String :=
  match parts with
  | [dag, order] =>
    let pd := parseDag dag
    if checkGens pd.dag (parseOrder order) then "topo=1" else "topo=0"
  | _ => "bad-request"

def handleAccepts (parts : List String) : String :=
  match parts with
  | [dag, order, trace] =>
    let pd := parseDag dag
    let gens := parseOrder order
    if !checkGens pd.dag gens then "hyp-fails" else
    match parseTrace trace with
    | none => "bad-trace"
    | some obs => if acceptsObs pd.dag (genSchedule pd.dag gens) obs then "ok" else "reject"
  | _ => "bad-request"

def handleAcceptsRaw (parts : List String) : String :=
  match parts with
  | [dag, sched, trace] =>
    let pd := parseDag dag
    match parseTrace trace with
    | none => "bad-trace"
    | some obs => if acceptsObs pd.dag (parseOrder sched) obs then "ok" else "reject"
  | _ => "bad-request"

def showKeys (ks : List (List Nat)) : String := ";".intercalate (ks.map (fun k => if k.isEmpty then "()" else showNats k))

def handle (line : String) : String :=
  match line.splitOn "|" with
  | "sched" :: rest => handleSched rest
  | "gensok" :: rest => handleGensOk rest
  | "accepts" :: rest => handleAccepts rest
  | "acceptsraw" :: rest => handleAcceptsRaw rest
  | ["keys", nb] =>
    let nb := parseNats nb
    s!"n={numTasks nb} keys={showKeys (chunkKeys nb)}"
  | ["range", nb, start, stop] =>
    match parseNat? start with
    | none => "bad-request"
    | some st => s!"keys={showKeys (chunkKeysRange (parseNats nb) st (parseNat? stop))}"
  | ["total", counts] => toString (planTotal (parseNats counts))
  | ["region", axes] =>
    let ax := (axes.splitOn ";").filterMap (fun a =>
      match parseNats a with
      | [st, sp, sc, tc] => some (st, sp, sc, tc)
      | _ => none)
    s!"advertised={regionAdvertised ax} real={regionReal ax}"
  | _ => "bad-request"

def main : IO Unit := runDriver handle
