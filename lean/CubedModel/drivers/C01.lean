/-
  Driver for C01: line protocol, see harness/props/c01.py.  Fields are separated by `|`, lists by `,`
  (`-` = empty list), lists of lists by `;`.

  key|repeat|r|axis|out                         -> (F:out K:a0:<in coords>)
  key|stack|axis|out                            -> (F:out K:a<k>:<in coords>)
  key|unstack|axis|nb|out                       -> (F:out K:a0:.. K:a0:.. ...)
  key|preduce|ks|nbs|out                        -> (F:out (I K:a0:.. ...))
  key|scan|axis|s|out                           -> (F:out K:a0:<out> K:a1:<increment coords>)
  key|reshape|inNb|outNb|out                    -> (F:out K:a0:<in> K:a1:<out>)
  key|flip|shape|chunks|axes|out                -> (F:out (I K:a0:.. ...))
  key|rechunk|shape|inchunks|copychunks|out     -> (F:out (I K:a0:.. ...))      (also merge_chunks)
  key|index|inchunks|tcs;..|sel;..|out          -> (F:out (I K:a0:.. ...))      sel items  s:start:stop:step | i:v | a:v.v.v
  key|concat|axis|lens|oshape|ochunks|inchunks;..|out -> (F:out (I K:a<i>:.. ...))
  accepts|scan|s|nb   accepts|stack|shape;shape;..   -> true | false
  util|scanreduced|s|nb                         -> declared chunk sizes of scan's per-block totals
  util|unravel|off|dims   util|ravel|coords|dims   util|getitem|n|c|b   util|chunks|n|c   (cubed/utils.py helpers)
  eval|repeat1|n|c|r   eval|flip1|n|c   eval|rechunk1|n|c|tc   eval|index1|n|c|start|stop|step
  eval|concat1|lens|c  eval|tree|nb|k|d   eval|scaninc|s|nb
  eval|stack|axis|shape0;shape1..|cs0;cs1..|outshape (stackUnified: inputs rechunked to cs0)   eval|unstack|shape|cs|axis|m|outshape
       -> comma separated values (`x` = the task fails)
-/
import CubedModel.Model.Proto
import CubedModel.Model.Ops

open Cubed Cubed.Proto Cubed.ArraySem Cubed.Ops

def parseLists (s : String) : List (List Nat) :=
  if s == "-" || s.isEmpty then [] else (s.splitOn ";").map parseNats

def parseSel (s : String) : Option Sel :=
  match s.splitOn ":" with
  | ["s", a, b, c] => match parseNat? a, parseNat? b, parseNat? c with
    | some a, some b, some c => some (.slice a b c)
    | _, _, _ => none
  | ["i", v] => (parseNat? v).map .int
  | ["a", vs] => some (.arr ((vs.splitOn ".").filterMap parseNat?))
  | _ => none

def parseSels (s : String) : List Sel :=
  if s == "-" || s.isEmpty then [] else (s.splitOn ";").filterMap parseSel

def keysF (out : String) (ks : List (Tree CK)) : String := showFArgs ⟨out, ks⟩
def iterF (out : String) (name : String) (cs : List (List Nat)) : String :=
  showFArgs ⟨out, [.iter (cs.map (leafK name))]⟩

def nat1 (s : String) : Nat := (parseNat? s).getD 0

def handleKey (parts : List String) : String :=
  match parts with
  | ["repeat", r, axis, out] => keysF "out" [leafK "a0" (repeatKey (nat1 r) (nat1 axis) (parseNats out))]
  | ["stack", axis, out] =>
    match stackKey (nat1 axis) (parseNats out) with
    | some (k, c) => keysF "out" [leafK s!"a{k}" c]
    | none => "error"
  | ["unstack", axis, nb, out] =>
    keysF "out" ((unstackKeys (nat1 axis) (nat1 nb) (parseNats out)).map (leafK "a0"))
  | ["preduce", ks, nbs, out] => iterF "out" "a0" (partialReduceKeys (parseNats ks) (parseNats nbs) (parseNats out))
  | ["scan", axis, s, out] =>
    let k := scanKeys (nat1 axis) (nat1 s) (parseNats out)
    keysF "out" [leafK "a0" k.1, leafK "a1" k.2]
  | ["reshape", inNb, outNb, out] =>
    let o := parseNats out
    keysF "out" [leafK "a0" (reshapeKey (parseNats inNb) (parseNats outNb) o), leafK "a1" o]
  | ["flip", shape, chunks, axes, out] =>
    let sh := parseNats shape
    let ax := parseNats axes
    let fl := (List.range sh.length).map (fun d => ax.contains d)
    iterF "out" "a0" (mapSelectionKeys (parseNats chunks) (flipSel sh (parseNats chunks) fl (parseNats out)))
  | ["rechunk", shape, inchunks, copychunks, out] =>
    iterF "out" "a0" (mapSelectionKeys (parseNats inchunks) (rechunkSel (parseNats shape) (parseNats copychunks) (parseNats out)))
  | ["index", inchunks, tcs, sel, out] =>
    iterF "out" "a0" (mapSelectionKeys (parseNats inchunks) (targetChunkSel (parseLists tcs) (parseNats out) (parseSels sel)))
  | ["concat", axis, lens, oshape, ochunks, inchunks, out] =>
    let ks := concatKeys (parseNats lens) (nat1 axis) (parseNats oshape) (parseNats ochunks) (parseLists inchunks) (parseNats out)
    showFArgs ⟨"out", [.iter (ks.map (fun p => leafK s!"a{p.1}" p.2))]⟩
  | _ => "bad-request"

def showVals (l : List (Option Nat)) : String :=
  ",".intercalate (l.map (fun v => match v with | some x => toString x | none => "x"))

def indexSpace (shape : List Nat) : List (List Nat) := cartesian (shape.map List.range)

def handleEval (parts : List String) : String :=
  match parts with
  | ["repeat1", n, c, r] =>
    showVals ((List.range (nat1 n * nat1 r)).map (fun i => some (repeatOut1 (fun x => x) (nat1 r) (nat1 c) i)))
  | ["flip1", n, c] =>
    let n := nat1 n; let c := nat1 c
    showVals ((List.range n).map (fun i =>
      let b := i / c
      let s := flipSel [n] [c] [true] [b]
      match s with
      | [s] => flipBlock1 (blockLen n c b) (assembleIndexChunk1 (fun x => x) c s) (i % c)
      | _ => none))
  | ["rechunk1", n, c, tc] =>
    let n := nat1 n; let c := nat1 c; let tc := nat1 tc
    showVals ((List.range n).map (fun i =>
      match rechunkSel [n] [tc] [i / tc] with
      | [s] => assembleIndexChunk1 (fun x => x) c s (i % tc)
      | _ => none))
  | ["index1", n, c, start, stop, step] =>
    let c := nat1 c; let start := nat1 start; let stop := nat1 stop; let step := nat1 step
    let _ := nat1 n
    let m := (stop - start + step - 1) / step
    let oc := max (c / step) 1
    let tc := chunksOf m oc
    showVals ((List.range m).map (fun i =>
      assembleIndexChunk1 (fun x => x) c (targetChunkSel1 tc start step (i / oc)) (i % oc)))
  | ["concat1", lens, c] =>
    let lens := parseNats lens; let c := nat1 c
    let total := lens.foldl (· + ·) 0
    showVals ((List.range total).map (fun i =>
      let b := i / c
      let elems := (arraySlices lens 0 (b * c) (min (b * c + c) total)).flatMap pieceElems
      (elems[i % c]?).map (fun p => p.1 * 1000 + p.2)))
  | ["tree", nb, k, d] =>
    let r := treeReduce (fun (a b : List Nat) => a ++ b) (nat1 k) (nat1 d) (nat1 nb) (fun i => some [i])
    s!"{r.1}|" ++ (match r.2 0 with | some l => showNats l | none => "x")
  | ["scaninc", s, nb] =>
    let s := nat1 s; let nb := nat1 nb
    showNats ((List.range nb).map (scanIncPos s (scanSplitSize s nb)))
  | ["stack", axis, shapes, css, oshape] =>
    let shapes := parseLists shapes; let css := parseLists css
    let A : Nat → List Nat → Nat := fun k idx => k * 1000 + ravel idx (shapes.getD k [])
    showVals ((indexSpace (parseNats oshape)).map
      (stackUnified A (shapes.getD 0 []) (fun k => css.getD k []) (nat1 axis)))
  | ["unstack", shape, cs, axis, m, oshape] =>
    let shape := parseNats shape; let cs := parseNats cs; let axis := nat1 axis
    let A : List Nat → Nat := fun idx => ravel idx shape
    showVals ((indexSpace (parseNats oshape)).map
      (fun js => some (unstackEval A cs axis (cs.getD axis 1) (nat1 m) js)))
  | _ => "bad-request"

def handleUtil (parts : List String) : String :=
  match parts with
  | ["unravel", off, dims] => showNats (unravel (nat1 off) (parseNats dims))
  | ["ravel", coords, dims] => toString (ravel (parseNats coords) (parseNats dims))
  | ["getitem", n, c, b] => let r := getItem (chunksOf (nat1 n) (nat1 c)) (nat1 b); s!"{r.1},{r.2}"
  | ["chunks", n, c] => showNats (chunksOf (nat1 n) (nat1 c))
  | ["scanreduced", s, nb] => showNats (scanReducedSizes (nat1 s) (nat1 nb))
  | _ => "bad-request"

def handle (line : String) : String :=
  match line.splitOn "|" with
  | "util" :: rest => handleUtil rest
  | "key" :: rest => handleKey rest
  | "eval" :: rest => handleEval rest
  | ["accepts", "scan", s, nb] => toString (scanAccepts (nat1 s) (nat1 nb))
  | ["accepts", "stack", shapes] => toString (stackAccepts (parseLists shapes))
  | _ => "bad-request"

def main : IO Unit := runDriver handle
