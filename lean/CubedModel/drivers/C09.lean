/-
  Driver for C09 (crash / resume): line protocol, see harness/props/c09.py.

  <arrays> := a;a;…      a := name:ndim:structured(0|1):doc:parents(,):fields(,):grid(,)
  <ops>    := o;o;…      o := name:pipeline(0|1):outputs(names ,):creates(names ,):tasks
                         tasks := t~t~…    t := reads(,)>outs(,)
  (keys are zarr store keys: letters, digits, '/', '.', '-', '_' — none of the separators)

  trace|<arrays>|<ops>
      -> effective write sequence of the uninterrupted sequential run from the empty store:  D:<doc>,C:<chunk>,…
         followed by  wf=<single><topo><exact>  (the hypotheses of the theorems evaluated on this plan)
  crash|<arrays>|<ops>|<j>
      -> the store after the first j effective writes, and what compute(resume=True) does from there
  state|<arrays>|<ops>|<docs ,>|<chunks ,>
      -> the same from an explicitly given store (chunk values unknown: present chunks are given their final values)

  answer of crash/state:
      docs=<sorted ,> chunks=<sorted ,> outcome=<done|refused:<kind>|createfailed:<kind>> run=<op names ,>
      writes=<effective writes of the resumed run ,> lost=<number of chunks the create step removes>
      complete=<arrays with every chunk present ,> refines=<1 iff the resumed store equals the uninterrupted one on every key>
-/
import CubedModel.Model.Proto
import CubedModel.Model.Resume

open Cubed Cubed.Proto Cubed.Resume

abbrev Val := UInt64

def splitList (s : String) : List String :=
  let s := s.trimAscii.toString
  if s.isEmpty || s == "-" then [] else s.splitOn ","

def parseArr (s : String) : Option (Arr String) :=
  match s.splitOn ":" with
  | [name, ndim, st, doc, parents, fields, grid] =>
    some { name := name, ndim := (parseNat? ndim).getD 0, structured := st == "1", doc := doc,
           parents := splitList parents, fields := splitList fields, grid := splitList grid }
  | _ => none

def mkFn (opName : String) (idx : Nat) : List (Option Val) → String → Val :=
  fun vs k => vs.foldl (fun h v => mixHash h (match v with | some x => x | none => 0))
    (mixHash (hash opName) (mixHash (hash idx) (hash k)))

def parseTask (opName : String) (idx : Nat) (s : String) : Option (Task String Val) :=
  match s.splitOn ">" with
  | [reads, outs] => some { reads := splitList reads, outs := splitList outs, fn := mkFn opName idx }
  | _ => none

def parseTasks (opName : String) (s : String) : List (Task String Val) :=
  let s := s.trimAscii.toString
  if s.isEmpty || s == "-" then [] else
  ((s.splitOn "~").zipIdx.filterMap (fun (t, i) => parseTask opName i t))

def parseOp (arrs : List (Arr String)) (s : String) : Option (Op String Val) :=
  let find (n : String) := arrs.find? (fun a => a.name == n)
  match s.splitOn ":" with
  | [name, pipe, outs, creates, tasks] =>
    some { name := name, hasPipeline := pipe == "1", outputs := (splitList outs).filterMap find,
           creates := (splitList creates).filterMap find, tasks := parseTasks name tasks }
  | _ => none

def parsePlan (arrays ops : String) : List (Arr String) × List (Op String Val) :=
  let arrs := if arrays == "-" then [] else (arrays.splitOn ";").filterMap parseArr
  let os := if ops == "-" then [] else (ops.splitOn ";").filterMap (parseOp arrs)
  (arrs, os)

def cfg : WriteCfg Val := genCfg (fun _ => false)

def emptyStore : Store String Val := { docs := [], chunks := [] }

/-- drop the document writes that do not change the store (document already present). -/
def effective (s : Store String Val) : List (Write String Val) → List (Write String Val)
  | [] => []
  | w :: ws =>
    match w with
    | .doc d => if s.hasDoc d then effective s ws else w :: effective (s.apply cfg w) ws
    | .chunk _ _ => w :: effective (s.apply cfg w) ws

def showWrite : Write String Val → String
  | .doc d => "D:" ++ d
  | .chunk k _ => "C:" ++ k

def showWrites (ws : List (Write String Val)) : String :=
  if ws.isEmpty then "-" else ",".intercalate (ws.map showWrite)

def sortStrs (l : List String) : List String := (l.toArray.qsort (· < ·)).toList

def showStrs (l : List String) : String := if l.isEmpty then "-" else ",".intercalate l

/-! decidable versions of the hypotheses -/

def opTopoB : List (Op String Val) → Bool
  | [] => true
  | o :: os =>
    o.tasks.all (fun t => t.reads.all (fun r => !(opOuts o).contains r && !(outKeys os).contains r)) && opTopoB os

def exactB (o : Op String Val) : Bool :=
  let g := o.outputs.flatMap Arr.grid
  (opOuts o).all g.contains && g.all (opOuts o).contains

def wfBits (ops : List (Op String Val)) : String :=
  let b (x : Bool) := if x then "1" else "0"
  b (decide (outKeys ops).Nodup) ++ b (opTopoB ops) ++ b (ops.all exactB)

/-! answers -/

def showRefusal : Refusal → String
  | .noInitializedCount => "NotImplementedError"
  | .structuredNotCreated => "structured-not-created"
  | .attributeError => "AttributeError"

def showCreateErr : CreateErr → String
  | .containsArray => "ContainsArrayError"
  | .fileExists => "FileExistsError"
  | .notFound => "NotFound"
  | .badMode => "BadMode"

def presentKeys (s : Store String Val) : List String := sortStrs (s.chunks.map (·.1)).eraseDups

def createLost (s : Store String Val) (ops : List (Op String Val)) : String :=
  match createAll genMode s (ops.flatMap (·.creates)) with
  | .error e => "createfailed:" ++ showCreateErr e
  | .ok s' => toString ((presentKeys s).filter (fun k => !s'.present k)).length

def describe (arrs : List (Arr String)) (ops : List (Op String Val)) (s : Store String Val) : String :=
  let full := runOpsA cfg emptyStore ops
  let run := toRun s ops
  let outcome := resume genMode cfg ops s
  let (oc, refines, writes, runNames) :=
    match outcome with
    | .refused r => ("refused:" ++ showRefusal r, "-", "-", "-")
    | .createFailed e => ("createfailed:" ++ showCreateErr e, "-", "-", showStrs (run.map Op.name))
    | .done s' =>
      let keys := (outKeys ops).eraseDups
      let same := keys.all (fun k => s'.get k == full.get k)
      ("done", (if same then "1" else "0"), showWrites (effective s (trace cfg s run)), showStrs (run.map Op.name))
  let complete := arrs.filter (fun a => !a.grid.isEmpty && a.grid.all s.present)
  s!"docs={showStrs (sortStrs s.docs)} chunks={showStrs (presentKeys s)} outcome={oc} run={runNames} writes={writes} lost={createLost s ops} complete={showStrs (complete.map Arr.name)} refines={refines}"

def handle (line : String) : String :=
  match line.splitOn "|" with
  | ["trace", arrays, ops] =>
    let (_, os) := parsePlan arrays ops
    showWrites (effective emptyStore (trace cfg emptyStore os)) ++ " wf=" ++ wfBits os
  | ["crash", arrays, ops, j] =>
    let (arrs, os) := parsePlan arrays ops
    let eff := effective emptyStore (trace cfg emptyStore os)
    describe arrs os (emptyStore.applyAll cfg (eff.take ((parseNat? j).getD 0)))
  | ["state", arrays, ops, docs, chunks] =>
    let (arrs, os) := parsePlan arrays ops
    let full := runOpsA cfg emptyStore os
    let s : Store String Val :=
      { docs := splitList docs,
        chunks := (splitList chunks).filterMap (fun k => (full.get k).map (fun v => (k, v))) }
    describe arrs os s
  | _ => "bad-request"

def main : IO Unit := runDriver handle
