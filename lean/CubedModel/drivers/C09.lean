/-
  Driver for C09 (crash / resume): line protocol, see harness/props/c09.py.

  <arrays> := a;a;…      a := name:ndim:structured(0|1):doc:parents(,):fields(,):grid(,)
  <ops>    := o;o;…      o := name:pipeline(0|1):outputs(names ,):creates(names ,):tasks
                         tasks := t~t~…    t := reads(,)>outs(,)
  (keys are zarr store keys: letters, digits, '/', '.', '-', '_' — none of the separators)

  zarr issues the stored-chunk writes of ONE task concurrently, so their order is not determined: write sequences are
  given as groups  g;g;…  (g := w,w,…  one group per metadata document and one per task); inside a group any order is
  legal (all of them are schedules in the sense of `ValidSched`).

  trace|<arrays>|<ops>
      -> grouped effective write sequence of the uninterrupted sequential run from the empty store (D:<doc> / C:<chunk>)
         followed by  wf=<single><topo><exact>  (the hypotheses of the theorems evaluated on this plan)
         and  flat=<1 iff the groups flattened are exactly `trace` without the no-op document writes>
  crash|<arrays>|<ops>|<j>|<docs ,>|<chunks ,>
      -> prefix=<1 iff the given store is the store after j writes of the sequential run, for some order inside the
         task that was cut>, and what compute(resume=True) does from the given store
  state|<arrays>|<ops>|<docs ,>|<chunks ,>
      -> what compute(resume=True) does from the given store (present chunks are given their final values)

  answer of crash/state:
      [prefix=…] outcome=<done|refused:<kind>|createfailed:<kind>> run=<op names ,>
      writes=<grouped effective writes of the resumed run> lost=<number of chunks the create step removes>
      complete=<arrays with every chunk present ,> refines=<1 iff the resumed store equals the uninterrupted one on every key>
-/
import CubedModel.Model.Proto
import CubedModel.Model.Resume

open Cubed Cubed.Proto Cubed.Resume

abbrev Val := UInt64

def splitList (s : String) : List String :=
  let s := s.trimAscii.toString
  if s.isEmpty || s == "-" then [] else s.splitOn ","

def parseArr (s : String) : Option (Arr String) :=
  match s.splitOn ":" with
  | [name, ndim, st, doc, parents, fields, grid] =>
    some { name := name, ndim := (parseNat? ndim).getD 0, structured := st == "1", doc := doc,
           parents := splitList parents, fields := splitList fields, grid := splitList grid }
  | _ => none

def mkFn (opName : String) (idx : Nat) : List (Option Val) → String → Val :=
  fun vs k => vs.foldl (fun h v => mixHash h (match v with | some x => x | none => 0))
    (mixHash (hash opName) (mixHash (hash idx) (hash k)))

def parseTask (opName : String) (idx : Nat) (s : String) : Option (Task String Val) :=
  match s.splitOn ">" with
  | [reads, outs] => some { reads := splitList reads, outs := splitList outs, fn := mkFn opName idx }
  | _ => none

def parseTasks (opName : String) (s : String) : List (Task String Val) :=
  let s := s.trimAscii.toString
  if s.isEmpty || s == "-" then [] else
  ((s.splitOn "~").zipIdx.filterMap (fun (t, i) => parseTask opName i t))

def parseOp (arrs : List (Arr String)) (s : String) : Option (Op String Val) :=
  let find (n : String) := arrs.find? (fun a => a.name == n)
  match s.splitOn ":" with
  | [name, pipe, outs, creates, tasks] =>
    some { name := name, hasPipeline := pipe == "1", outputs := (splitList outs).filterMap find,
           creates := (splitList creates).filterMap find, tasks := parseTasks name tasks }
  | _ => none

def parsePlan (arrays ops : String) : List (Arr String) × List (Op String Val) :=
  let arrs := if arrays == "-" then [] else (arrays.splitOn ";").filterMap parseArr
  let os := if ops == "-" then [] else (ops.splitOn ";").filterMap (parseOp arrs)
  (arrs, os)

def cfg : WriteCfg Val := genCfg (fun _ => false)

def emptyStore : Store String Val := { docs := [], chunks := [] }

/-- drop the document writes that do not change the store (document already present). -/
def effective (s : Store String Val) : List (Write String Val) → List (Write String Val)
  | [] => []
  | w :: ws =>
    match w with
    | .doc d => if s.hasDoc d then effective s ws else w :: effective (s.apply cfg w) ws
    | .chunk _ _ => w :: effective (s.apply cfg w) ws

def showWrite : Write String Val → String
  | .doc d => "D:" ++ d
  | .chunk k _ => "C:" ++ k

def showWrites (ws : List (Write String Val)) : String :=
  if ws.isEmpty then "-" else ",".intercalate (ws.map showWrite)

/-- grouped effective write sequence of the sequential run of `ops` from `s` (mode "a"): one group per document
actually written, one per task. -/
def taskGroups (s : Store String Val) : List (Task String Val) → List (List (Write String Val))
  | [] => []
  | t :: ts => ((taskWrites s t).map (fun w => Write.chunk w.1 w.2)) :: taskGroups (runTask cfg s t) ts

def groupsOf (s : Store String Val) : List (Op String Val) → List (List (Write String Val))
  | [] => []
  | o :: os =>
    let s1 := createAllA s o.creates
    ((effective s (docTrace s o.creates)).map (fun w => [w])) ++ taskGroups s1 o.tasks
      ++ groupsOf (runTasks cfg s1 o.tasks) os

def showGroups (gs : List (List (Write String Val))) : String :=
  let gs := gs.filter (fun g => !g.isEmpty)
  if gs.isEmpty then "-" else ";".intercalate (gs.map (fun g => ",".intercalate (g.map showWrite)))

def writeKey : Write String Val → String
  | .doc d => d
  | .chunk k _ => k

/-- is (docs, chunks) the store after `j` writes of the grouped sequence, for some order inside the group that is cut? -/
def isPrefixState (gs : List (List (Write String Val))) (j : Nat) (docs chunks : List String) : Bool :=
  let have_ := docs ++ chunks
  let rec go (gs : List (List (Write String Val))) (j : Nat) (acc : List String) (partialOk : Bool) : Bool × List String :=
    match gs with
    | [] => (partialOk, acc)
    | g :: rest =>
      if j == 0 then (partialOk, acc)
      else if g.length ≤ j then go rest (j - g.length) (acc ++ g.map writeKey) partialOk
      else
        let got := (g.map writeKey).filter have_.contains
        (partialOk && got.length == j, acc ++ got)
  let (ok, expected) := go (gs.filter (fun g => !g.isEmpty)) j [] true
  ok && expected.all have_.contains && have_.all expected.contains

def sortStrs (l : List String) : List String := (l.toArray.qsort (· < ·)).toList

def showStrs (l : List String) : String := if l.isEmpty then "-" else ",".intercalate l

/-! decidable versions of the hypotheses -/

def opTopoB : List (Op String Val) → Bool
  | [] => true
  | o :: os =>
    o.tasks.all (fun t => t.reads.all (fun r => !(opOuts o).contains r && !(outKeys os).contains r)) && opTopoB os

def exactB (o : Op String Val) : Bool :=
  let g := o.outputs.flatMap Arr.grid
  (opOuts o).all g.contains && g.all (opOuts o).contains

def wfBits (ops : List (Op String Val)) : String :=
  let b (x : Bool) := if x then "1" else "0"
  b (decide (outKeys ops).Nodup) ++ b (opTopoB ops) ++ b (ops.all exactB)

/-! answers -/

def showRefusal : Refusal → String
  | .noInitializedCount => "NotImplementedError"
  | .structuredNotCreated => "structured-not-created"
  | .attributeError => "AttributeError"

def showCreateErr : CreateErr → String
  | .containsArray => "ContainsArrayError"
  | .fileExists => "FileExistsError"
  | .notFound => "NotFound"
  | .badMode => "BadMode"

def presentKeys (s : Store String Val) : List String := sortStrs (s.chunks.map (·.1)).eraseDups

def createLost (s : Store String Val) (ops : List (Op String Val)) : String :=
  match createAll genMode s (ops.flatMap (·.creates)) with
  | .error e => "createfailed:" ++ showCreateErr e
  | .ok s' => toString ((presentKeys s).filter (fun k => !s'.present k)).length

def describe (arrs : List (Arr String)) (ops : List (Op String Val)) (s : Store String Val) : String :=
  let full := runOpsA cfg emptyStore ops
  let run := toRun s ops
  let outcome := resume genMode cfg ops s
  let (oc, refines, writes, runNames) :=
    match outcome with
    | .refused r => ("refused:" ++ showRefusal r, "-", "-", "-")
    | .createFailed e => ("createfailed:" ++ showCreateErr e, "-", "-", showStrs (run.map Op.name))
    | .done s' =>
      let keys := (outKeys ops).eraseDups
      let same := keys.all (fun k => s'.get k == full.get k)
      ("done", (if same then "1" else "0"), showGroups (groupsOf s run), showStrs (run.map Op.name))
  let complete := arrs.filter (fun a => !a.grid.isEmpty && a.grid.all s.present)
  s!"outcome={oc} run={runNames} writes={writes} lost={createLost s ops} complete={showStrs (complete.map Arr.name)} refines={refines}"

def mkState (os : List (Op String Val)) (docs chunks : String) : Store String Val :=
  let full := runOpsA cfg emptyStore os
  { docs := splitList docs,
    chunks := (splitList chunks).filterMap (fun k => (full.get k).map (fun v => (k, v))) }

def handle (line : String) : String :=
  match line.splitOn "|" with
  | ["trace", arrays, ops] =>
    let (_, os) := parsePlan arrays ops
    let gs := groupsOf emptyStore os
    let flat := gs.flatten.map showWrite == (effective emptyStore (trace cfg emptyStore os)).map showWrite
    showGroups gs ++ " wf=" ++ wfBits os ++ " flat=" ++ (if flat then "1" else "0")
  | ["crash", arrays, ops, j, docs, chunks] =>
    let (arrs, os) := parsePlan arrays ops
    let gs := groupsOf emptyStore os
    let ok := isPrefixState gs ((parseNat? j).getD 0) (splitList docs) (splitList chunks)
    "prefix=" ++ (if ok then "1" else "0") ++ " " ++ describe arrs os (mkState os docs chunks)
  | ["state", arrays, ops, docs, chunks] =>
    let (arrs, os) := parsePlan arrays ops
    describe arrs os (mkState os docs chunks)
  | _ => "bad-request"

def main : IO Unit := runDriver handle
