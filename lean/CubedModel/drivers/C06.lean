/-
  Driver for C06: line protocol, see harness/props/c06.py.

  ravel|<ints>|<nats>            -> ok <n> | error          np.ravel_multi_index / block_id_to_offset
  unravel|<int>|<nats>           -> ok <nats> | error       np.unravel_index / offset_to_block_id
  blockid|<nats coords>|<nats>   -> ok <nats> | error       block_id seen by a map_blocks function
  philox|<root>|<coords>|<nats>  -> ok <key> | error        Philox key of a random block
  trace|<taskdefs>|<phases>
      taskdefs : `id:op:kind:reads:writes` joined by ";"   kind T (plain task) | C (mode="a" creation)
                 keys are natural numbers (the harness numbers the zarr keys), lists joined by ","
      phases   : one `sched/late` per op in op order, joined by ";" ; each a ","-list of task ids
      -> hyp=<ok|single:..|selfread:..|final:..> phases=<ok|bad:..> final=<eq|neq:k> vals=<per execution "k:v,k:v"> joined by ";"
         The schedule is replayed with `runAllL` over free symbolic values (a value is the term
         `t<id>[k](values read)`), so two writes get the same number `v` iff the model says they are equal.
-/
import CubedModel.Model.Proto
import CubedModel.Model.TaskStore

open Cubed Cubed.Proto Cubed.TaskStore

def showNatsD (l : List Nat) : String := if l.isEmpty then "-" else showNats l

def handleRavel (parts : List String) : String :=
  match parts with
  | [ids, nbs] =>
    match ravelInt? (parseInts ids) (parseNats nbs) with
    | some o => s!"ok {o}"
    | none => "error"
  | _ => "bad-request"

def handleUnravel (parts : List String) : String :=
  match parts with
  | [off, nbs] =>
    match parseInt? off with
    | none => "bad-request"
    | some o =>
      match unravelInt? o (parseNats nbs) with
      | some ids => "ok " ++ showNatsD ids
      | none => "error"
  | _ => "bad-request"

def handleBlockId (parts : List String) : String :=
  match parts with
  | [cs, nbs] =>
    match blockIdOf (parseNats cs) (parseNats nbs) with
    | some ids => "ok " ++ showNatsD ids
    | none => "error"
  | _ => "bad-request"

def handlePhilox (parts : List String) : String :=
  match parts with
  | [root, cs, nbs] =>
    match parseNat? root with
    | none => "bad-request"
    | some r =>
      match philoxKey r (parseNats cs) (parseNats nbs) with
      | some k => s!"ok {k}"
      | none => "error"
  | _ => "bad-request"

/-! trace replay -/

structure TDef where
  id : Nat
  op : Nat
  task : Task Nat String

def renderVal (v : Option String) : String := match v with | some s => s | none => "_"

def mkTask (id : Nat) (kind : String) (reads writes : List Nat) : Task Nat String :=
  { reads := reads, writes := writes,
    f := fun vals k => some (s!"t{id}[{k}](" ++ ",".intercalate (vals.map renderVal) ++ ")"),
    ifAbsent := kind == "C" }

def parseTDef (s : String) : Option TDef :=
  match s.splitOn ":" with
  | [id, op, kind, rs, ws] =>
    match parseNat? id, parseNat? op with
    | some id, some op => some { id := id, op := op, task := mkTask id kind (parseNats rs) (parseNats ws) }
    | _, _ => none
  | _ => none

def findT (ts : List TDef) (id : Nat) : Option TDef := ts.find? (fun t => t.id == id)

/-- hypotheses (i) (ii) (iii) on the footprints -/
def checkHyp (ts : List TDef) : String :=
  let pairs := ts.flatMap (fun a => ts.map (fun b => (a, b)))
  let single := pairs.find? (fun (a, b) => a.op == b.op && a.id != b.id && !disjointB a.task.writes b.task.writes)
  let selfr := pairs.find? (fun (a, b) => a.op == b.op && !disjointB a.task.reads b.task.writes)
  let fin := pairs.find? (fun (a, b) => a.op < b.op &&
                (!disjointB b.task.writes a.task.reads || !disjointB b.task.writes a.task.writes))
  match single, selfr, fin with
  | some (a, b), _, _ => s!"single:{a.id},{b.id}"
  | _, some (a, b), _ => s!"selfread:{a.id},{b.id}"
  | _, _, some (a, b) => s!"final:{a.id},{b.id}"
  | none, none, none => "ok"

def parsePhase (s : String) : List Nat × List Nat :=
  match s.splitOn "/" with
  | [a, b] => (parseNats a, parseNats b)
  | [a] => (parseNats a, [])
  | _ => ([], [])

/-- decidable `PhasesOK` by task ids: phase `i` covers op `i`, late tasks belong to ops `≤ i` -/
def checkPhases (ts : List TDef) (phs : List (List Nat × List Nat)) : String :=
  let rec go (i : Nat) (phs : List (List Nat × List Nat)) : String :=
    match phs with
    | [] => if ts.all (fun t => t.op < i) then "ok" else s!"bad:missing-op{i}"
    | (sched, late) :: rest =>
      let opIds := (ts.filter (fun t => t.op == i)).map (·.id)
      if !(sched.all opIds.contains) then s!"bad:sched{i}-foreign"
      else if !(opIds.all sched.contains) then s!"bad:sched{i}-incomplete"
      else if !(late.all (fun id => match findT ts id with | some t => t.op ≤ i | none => false)) then s!"bad:late{i}"
      else go (i + 1) rest
  go 0 phs

def intern (tab : List (String × Nat)) (s : String) : List (String × Nat) × Nat :=
  match tab.find? (fun p => p.1 == s) with
  | some p => (tab, p.2)
  | none => let n := tab.length; (tab ++ [(s, n)], n)

def handleTrace (parts : List String) : String :=
  match parts with
  | [defs, phases] =>
    let ts := (defs.splitOn ";").filterMap parseTDef
    let phs := if phases.isEmpty then [] else (phases.splitOn ";").map parsePhase
    let hyp := checkHyp ts
    let pok := checkPhases ts phs
    let execIds := phs.flatMap (fun p => p.1 ++ p.2)
    let execs := execIds.filterMap (findT ts)
    -- replay the observed schedule, recording what every execution writes
    let step := fun (acc : StoreL Nat String × List (String × Nat) × List String) (t : TDef) =>
      let (st, tab, outs) := acc
      let st' := runL t.task st
      let (tab', items) := t.task.writes.foldl (fun (a : List (String × Nat) × List String) k =>
          let (tb, n) := intern a.1 (renderVal (lookupL st' k))
          (tb, a.2 ++ [s!"{k}:{n}"])) (tab, [])
      (st', tab', outs ++ [",".intercalate items])
    let (stAdv, _, outs) := execs.foldl step ([], [], [])
    -- the plain order: ops in order, tasks in definition order, once each
    let nops := phs.length
    let plain := (List.range nops).flatMap (fun i => (ts.filter (fun t => t.op == i)).map (·.task))
    let stPlain := runAllL plain []
    let keys := (ts.flatMap (fun t => t.task.writes ++ t.task.reads)).eraseDups
    let fin := match keys.find? (fun k => lookupL stAdv k != lookupL stPlain k) with
      | some k => s!"neq:{k}"
      | none => "eq"
    s!"hyp={hyp} phases={pok} final={fin} vals=" ++ ";".intercalate outs
  | _ => "bad-request"

def handle (line : String) : String :=
  match line.splitOn "|" with
  | "ravel" :: rest => handleRavel rest
  | "unravel" :: rest => handleUnravel rest
  | "blockid" :: rest => handleBlockId rest
  | "philox" :: rest => handlePhilox rest
  | "trace" :: rest => handleTrace rest
  | _ => "bad-request"

def main : IO Unit := runDriver handle
