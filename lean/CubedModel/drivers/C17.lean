/-
  Driver for C17: line protocol, see harness/props/c17.py.  Fields are separated by `|`, lists by `,`,
  lists of lists by `;`, `-` is the empty list, `n` is None.

  validate requests  -> `ok` | `err <Kind>`            (mapblocks: also `malformed`; scan: `ok` | `assert`)
    axis|ndim|axis                         -> `ok <k>` | `err IndexError`
    merge|chunksize|target
    squeeze|shape|axes
    repeat|shape|int:<r> or other|axis
    concat|axis|shapes|chunksizes
    stack|axis|shapes|chunksizes
    region|srcLen|srcChunk|tgtLen|tgtChunk|start|stop|step
    qr|ndim|reduced(0/1)|floating(0/1)|colBlocks|shortRow(0/1)
    reduce|ndim|axes or n|n, int:<k>, dict:<values of the reduced axes>, other
    bcast|xshape|shape
    roll|ndim|int, tuple:<k>, other|axes or n
    permute|ndim|axes
    mapblocks|numblocks lists|drop_axis|new_axis or n|len(chunks) or n
    index|shape|i:<k>;s;a:<k,k>;b:<len>;N;e;o
    scan|nb
  key-function requests
    prkeys|nb|k|bi                         -> keys
    repeatkey|r|bi                         -> `<k>` | `none`
    concatkeys|sizes|csizes|C|bi           -> `ai:blk ai:blk …` | `none`
    regionkeys|srcLen|srcChunk|tgtLen|tgtChunk|start|stop|step -> `bi:key:ok …`
    scaninc|s|bi                           -> `<key> <slot>`
    stackkey|axis|out                      -> `<i>:<coords>` | `none`
-/
import CubedModel.Model.Proto
import CubedModel.Model.Validate

open Cubed Cubed.Proto Cubed.Validate

def lists (s : String) : List (List Nat) :=
  if s == "-" || s.isEmpty then [] else (s.splitOn ";").map parseNats

def optNat (s : String) : Option Nat := if s == "n" then none else parseNat? s

def optInts (s : String) : Option (List Int) := if s == "n" then none else some (parseInts s)

def int1 (s : String) : Int := (parseInt? s).getD 0

def mkArrs (shapes chunks : String) : List Arr :=
  let ss := if shapes == "-" then [] else (shapes.splitOn ";").map parseNats
  let cs := if chunks == "-" then [] else (chunks.splitOn ";").map parseNats
  (ss.zip cs).map (fun (s, c) => { shape := s, chunksize := c })

def mkRegion (a b c d e f g : String) : RegionP :=
  { srcLen := (parseNat? a).getD 0, srcChunk := (parseNat? b).getD 1, tgtLen := (parseNat? c).getD 0,
    tgtChunk := (parseNat? d).getD 1, start := optNat e, stop := optNat f, step := optNat g }

def parseIx (s : String) : Ix :=
  match s.splitOn ":" with
  | ["i", k] => .int (int1 k)
  | ["s"] => .slice
  | ["a", ks] => .intArray (parseInts ks)
  | ["a"] => .intArray []
  | ["b", k] => .boolArray ((parseNat? k).getD 0)
  | ["N"] => .newaxis
  | ["e"] => .ellipsis
  | _ => .other

def showMB : MBResult → String
  | .ok => "ok"
  | .malformed => "malformed"
  | .err k => "err " ++ k.name

def handle (line : String) : String :=
  match line.splitOn "|" with
  | ["axis", nd, ax] =>
    match validateAxis (int1 ax) ((parseNat? nd).getD 0) with
    | .ok k => s!"ok {k}"
    | .error e => "err " ++ e.name
  | ["merge", cs, t] => (validateMerge ⟨parseNats cs, parseNats t⟩).show
  | ["squeeze", sh, axes] => (validateSqueeze (parseNats sh) (parseInts axes)).show
  | ["repeat", sh, r, ax] =>
    let rp : Repeats := match r.splitOn ":" with
      | ["int", k] => .int (int1 k)
      | _ => .other
    (validateRepeat ⟨parseNats sh, rp, int1 ax⟩).show
  | ["concat", ax, shapes, chunks] => (validateConcat (mkArrs shapes chunks) (int1 ax)).show
  | ["stack", ax, shapes, chunks] => (validateStack (mkArrs shapes chunks) (int1 ax)).show
  | ["region", a, b, c, d, e, f, g] => (validateRegion (mkRegion a b c d e f g)).show
  | ["qr", nd, red, fl, cb, sr] =>
    (validateQr ⟨(parseNat? nd).getD 0, red == "1", fl == "1", (parseNat? cb).getD 1, sr == "1"⟩).show
  | ["reduce", nd, axes, se] =>
    let sev : SplitEvery := match se.splitOn ":" with
      | ["n"] => .none
      | ["int", k] => .int ((parseNat? k).getD 0)
      | ["dict"] => .dict []
      | ["dict", vs] => .dict ((parseNats vs).map (fun v => (0, v)))
      | _ => .other
    (validateReduce ((parseNat? nd).getD 0) (optInts axes) sev).show
  | ["bcast", xs, sh] => (validateBroadcastTo (parseNats xs) (parseNats sh)).show
  | ["roll", nd, sh, axes] =>
    let shift : Shift := match sh.splitOn ":" with
      | ["int"] => .int
      | ["tuple", k] => .tuple ((parseNat? k).getD 0)
      | _ => .other
    (validateRoll ((parseNat? nd).getD 0) shift (optInts axes)).show
  | ["permute", nd, axes] => (validatePermute ((parseNat? nd).getD 0) (parseInts axes)).show
  | ["mapblocks", nbs, drop, na, cl] =>
    showMB (validateMapBlocks ⟨lists nbs, parseInts drop, if na == "n" then none else some (parseNats na), optNat cl⟩)
  | ["index", sh, ks] =>
    (validateIndex (parseNats sh) (if ks == "-" then [] else (ks.splitOn ";").map parseIx)).show
  | ["scan", nb] =>
    let n := (parseNat? nb).getD 1
    match scanBuild 5 (n + 1) n n with
    | some _ => "ok"
    | none => "assert"
  | ["prkeys", nb, k, bi] => showNats (prKeys ((parseNat? nb).getD 0) ((parseNat? k).getD 1) ((parseNat? bi).getD 0))
  | ["repeatkey", r, bi] =>
    match repeatKey ((parseNat? r).getD 0) ((parseNat? bi).getD 0) with
    | some k => toString k
    | none => "none"
  | ["concatkeys", sizes, csizes, c, bi] =>
    match concatKeys (parseNats sizes) (parseNats csizes) ((parseNat? c).getD 1) ((parseNat? bi).getD 0) with
    | some l => " ".intercalate (l.map (fun (a, b) => s!"{a}:{b}"))
    | none => "none"
  | ["regionkeys", a, b, c, d, e, f, g] =>
    let p := mkRegion a b c d e f g
    " ".intercalate ((regionOutBlocksN p).map (fun bi =>
      s!"{bi}:{regionKeyN p bi}:{if regionTaskOk p bi then "ok" else "bad"}"))
  | ["scaninc", s, bi] =>
    s!"{scanIncKey ((parseNat? s).getD 5) ((parseNat? bi).getD 0)} {scanIncSlot ((parseNat? s).getD 5) ((parseNat? bi).getD 0)}"
  | ["stackkey", ax, out] =>
    match stackKey ((parseNat? ax).getD 0) (parseNats out) with
    | some (i, c) => s!"{i}:{showNats c}"
    | none => "none"
  | _ => "bad-request"

def main : IO Unit := Cubed.Proto.runDriver handle
