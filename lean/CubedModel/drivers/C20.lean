/-
  Driver for C20: line protocol, see harness/props/c20.py.

  Texts:   name  = "array-002"                 loc = "Z<ctx>/<name>" | "D<id>"
           dag   = entries joined by ";" (first match wins):
                     A,<name>,<loc>,<producer|->
                     O,<name>,<fn>,<prim 0|1>,<srcs n+n|->,<reads n=l+n=l|->,<writes n=l+…|->

  merge|<dag>@@<dag>@@…                -> agree=<0|1> nodes=<live nodes of `merge`, canonical> edges=<derived edges>
  denote|<dag>|<name>|<loc>            -> val <term> | undef
  history|<proc>@@<proc>@@…            proc = <ctx>#<instr>;<instr>;…
        instr:  L<k> | A:<fn>:<i>,<j>,… | R:<i> | B | V:<proc index>:<register index>
      -> per process (joined by "@@"), per register (joined by "@"):
         <name>~<loc>~<agree of the step|->~<denote: term|undef>~<reference term>~<live plan, canonical>
-/
import CubedModel.Model.Proto
import CubedModel.Model.Names

open Cubed Cubed.Proto Cubed.Names

def pad3 (n : Nat) : String :=
  let s := toString n
  String.ofList (List.replicate (3 - s.length) '0') ++ s

def showName (n : Name) : String := n.kind ++ "-" ++ pad3 n.idx

def parseName (s : String) : Name :=
  match (s.splitOn "-").reverse with
  | last :: rest@(_ :: _) =>
    match last.toNat? with
    | some k => ⟨"-".intercalate rest.reverse, k⟩
    | none => ⟨s, 0⟩
  | _ => ⟨s, 0⟩

def showLoc : Loc → String
  | .zarr c n => "Z" ++ toString c ++ "/" ++ showName n
  | .data k => "D" ++ toString k

def parseLoc (s : String) : Loc :=
  if s.startsWith "Z" then
    match ((s.drop 1).toString.splitOn "/") with
    | [c, n] => .zarr (c.toNat?.getD 0) (parseName n)
    | _ => .data 0
  else .data (((s.drop 1).toString.toNat?).getD 0)

def splitList (s : String) (sep : String) : List String :=
  if s == "-" || s.isEmpty then [] else s.splitOn sep

def parsePairs (s : String) : List (Name × Loc) :=
  (splitList s "+").filterMap fun kv =>
    match kv.splitOn "=" with
    | [k, v] => some (parseName k, parseLoc v)
    | _ => none

def parseEntry (s : String) : Option (Name × Node) :=
  match s.splitOn "," with
  | ["A", n, l, p] => some (parseName n, .arr (parseLoc l) (if p == "-" then none else some (parseName p)))
  | ["O", n, fn, prim, srcs, reads, writes] =>
    some (parseName n, .op { fn := fn, prim := prim == "1", srcs := (splitList srcs "+").map parseName,
                             reads := parsePairs reads, writes := parsePairs writes })
  | _ => none

def parseDag (s : String) : Dag := (splitList s ";").filterMap parseEntry

def insertSorted (x : String) : List String → List String
  | [] => [x]
  | y :: ys => if x < y then x :: y :: ys else y :: insertSorted x ys

def sortStrings (l : List String) : List String := l.foldr insertSorted []

def dedup (l : List Name) : List Name := l.foldl (fun acc n => if acc.contains n then acc else acc ++ [n]) []

def showPairsCanon (ps : List (Name × Loc)) : String :=
  let keys := dedup (ps.map (·.1))
  let items := keys.filterMap fun k => (assocGet ps k).map fun l => showName k ++ "=" ++ showLoc l
  if items.isEmpty then "-" else "+".intercalate (sortStrings items)

def showEntry : Name × Node → String
  | (n, .arr l p) => "A," ++ showName n ++ "," ++ showLoc l ++ "," ++ (match p with | some q => showName q | none => "-")
  | (n, .op o) =>
    "O," ++ showName n ++ "," ++ o.fn ++ "," ++ (if o.prim then "1" else "0") ++ ","
      ++ (if o.srcs.isEmpty then "-" else "+".intercalate (o.srcs.map showName)) ++ ","
      ++ showPairsCanon o.reads ++ "," ++ showPairsCanon o.writes

def showDagCanon (d : Dag) : String :=
  let items := sortStrings ((live d).map showEntry)
  if items.isEmpty then "-" else ";".intercalate items

/-- edges derived from the live nodes: producer -> array, source -> op (with multiplicity index). -/
def derivedEdges (d : Dag) : List String :=
  let rec number (seen : List (Name × Nat)) : List Name → List (Name × Nat)
    | [] => []
    | s :: rest =>
      let k := (assocGet seen s).getD 0
      (s, k) :: number ((s, k + 1) :: seen) rest
  (live d).flatMap fun e =>
    match e with
    | (n, .arr _ (some p)) => [showName p ++ ">" ++ showName n ++ ">0"]
    | (_, .arr _ none) => []
    | (n, .op o) => (number [] o.srcs).map fun (s, k) => showName s ++ ">" ++ showName n ++ ">" ++ toString k

def termI : Interp String :=
  { input := showLoc, app := fun f vs => f ++ "(" ++ ",".intercalate vs ++ ")" }

def handleMerge (body : String) : String :=
  let dags := (body.splitOn "@@").map parseDag
  let m := merge dags
  let es := sortStrings (derivedEdges m)
  "agree=" ++ (if namesAgreeB dags then "1" else "0") ++ " nodes=" ++ showDagCanon m
    ++ " edges=" ++ (if es.isEmpty then "-" else ";".intercalate es)

def handleDenote (parts : List String) : String :=
  match parts with
  | [dag, name, loc] =>
    match denote termI { name := parseName name, loc := parseLoc loc, dag := parseDag dag } with
    | some t => "val " ++ t
    | none => "undef"
  | _ => "bad-request"

structure RegOut where
  arr : Arr
  ref : String
  agree : String

def showReg (r : RegOut) : String :=
  showName r.arr.name ++ "~" ++ showLoc r.arr.loc ++ "~" ++ r.agree ++ "~"
    ++ (match denote termI r.arr with | some t => t | none => "undef") ++ "~" ++ r.ref ++ "~" ++ showDagCanon r.arr.dag

def parseInstr (done : List (List RegOut)) (s : String) : Option (Instr String) :=
  if s == "B" then some .bump
  else if s.startsWith "L" then (s.drop 1).toString.toNat?.map .leaf
  else match s.splitOn ":" with
    | ["A", fn, args] => some (.apply fn (parseNats args))
    | ["R", i] => i.toNat?.map .roundtrip
    | ["V", p, r] =>
      match p.toNat?, r.toNat? with
      | some p, some r =>
        match done[p]? with
        | some regs => (regs[r]?).map fun ro => .recv (pickle ro.arr) ro.ref
        | none => none
      | _, _ => none
    | _ => none

/-- Run one process with the model's `step`, recording per created register whether the operand
plans and the new nodes agreed on names at that step. -/
def runProc (ctx : Nat) (prog : List (Instr String)) : List RegOut :=
  let go := fun (acc : (Proc × Regs String) × List RegOut) (ins : Instr String) =>
    let st := acc.1
    let st' := step termI st ins
    let agree : String :=
      match ins with
      | .apply fn args =>
        let xs := (pick st.2 args).map (·.1)
        if namesAgreeB (xs.map (·.dag) ++ [st.1.newNodes fn xs]) then "1" else "0"
      | _ => "-"
    if st'.2.length > st.2.length then
      match st'.2.getLast? with
      | some (x, v) => (st', acc.2 ++ [{ arr := x, ref := v, agree := agree }])
      | none => (st', acc.2)
    else (st', acc.2)
  (prog.foldl go ((Proc.fresh ctx, []), [])).2

def handleHistory (body : String) : String :=
  let procs := body.splitOn "@@"
  let outs := procs.foldl (fun (done : List (List RegOut)) (p : String) =>
    match p.splitOn "#" with
    | [c, prog] =>
      let instrs := (splitList prog ";").filterMap (parseInstr done)
      done ++ [runProc (c.toNat?.getD 0) instrs]
    | _ => done ++ [[]]) []
  "@@".intercalate (outs.map fun regs => "@".intercalate (regs.map showReg))

def handle (line : String) : String :=
  match line.splitOn "|" with
  | ["merge", body] => handleMerge body
  | "denote" :: rest => handleDenote rest
  | ["history", body] => handleHistory body
  | _ => "bad-request"

def main : IO Unit := runDriver handle
