/-
  Driver for C05: line protocol, see harness/props/c05.py.   Grids: axes separated by ";", sizes by ","
  ("-" = no axes / 0-d).

  regular|n|c                      -> sizes of normalize_chunks(c, shape=(n,))[0]
  split|n|sc|tc                    -> sizes of split_chunksizes(n, sc, tc)
  fix|n|cc|tc                      -> _fix_copy_chunks on one axis
  getitem|<grids>|<coords>         -> lo:hi,lo:hi | IndexError
  writes|<stored>|<write>|<coords> -> IndexError | "-" | k,k:W;k,k:P;...   (W whole, P partial = read-modify-write)
  region|nt,ct,a,b,cs;...          -> aligned=<bool> tasks=<j,j;j,j|-> ok=<bool>            (OLD variant of the region branch)
  store|n,src,tgt;...              -> guard=<bool>      (the guard of _store_array for an existing, unsharded target)
  slice|n|start|stop               -> a:b               (slice(start, stop).indices(n)[:2]; "N" = None)
  region2|nt,ct,start,stop,step,cs;...   ("N" = None)
        -> refused | accepted a:b,a:b tasks=<j,j;j,j|-> ok=<bool> okold=<bool>     (repaired region branch; okold = before ba97b91)
-/
import CubedModel.Model.Proto
import CubedModel.Model.Grid

open Cubed Cubed.Proto Cubed.Grid

def parseGrids (s : String) : List (List Nat) :=
  let s := s.trimAscii.toString
  if s.isEmpty || s == "-" then [] else (s.splitOn ";").map parseNats

def showNats' (l : List Nat) : String := if l.isEmpty then "-" else showNats l

def showIvs (l : List (Nat × Nat)) : String :=
  if l.isEmpty then "-" else ",".intercalate (l.map fun p => s!"{p.1}:{p.2}")

def parseOptInt (s : String) : Option Int :=
  if s.trimAscii.toString == "N" then none else parseInt? s

def handle (line : String) : String :=
  match line.splitOn "|" with
  | ["regular", n, c] =>
    match parseNat? n, parseNat? c with
    | some n, some c => showNats' (regular n c)
    | _, _ => "bad-request"
  | ["split", n, sc, tc] =>
    match parseNat? n, parseNat? sc, parseNat? tc with
    | some n, some sc, some tc => showNats' (splitChunksizes n sc tc)
    | _, _, _ => "bad-request"
  | ["fix", n, cc, tc] =>
    match parseNat? n, parseNat? cc, parseNat? tc with
    | some n, some cc, some tc => toString (fixCopy n cc tc)
    | _, _, _ => "bad-request"
  | ["getitem", g, c] =>
    match getItemN (parseGrids g) (parseNats c) with
    | some rs => showIvs rs
    | none => "IndexError"
  | ["writes", st, wr, c] =>
    match taskWrites (parseGrids st) (parseGrids wr) (parseNats c) with
    | none => "IndexError"
    | some [] => "-"
    | some l => ";".intercalate (l.map fun p => showNats p.1 ++ (if p.2 then ":W" else ":P"))
  | ["region", axes] =>
    let axes : List RegionAxis := (axes.splitOn ";").filterMap fun a =>
      match parseNats a with
      | [nt, ct, a, b, cs] => some ⟨nt, ct, a, b, cs⟩
      | _ => none
    let al := axes.all RegionAxis.aligned
    let ts := regionTasks axes
    let ok := ts.all (regionTaskOK axes)
    let tss := if ts.isEmpty then "-" else ";".intercalate (ts.map showNats)
    s!"aligned={al} tasks={tss} ok={ok}"
  | ["store", axes] =>
    let axes : List StoreReq := (axes.splitOn ";").filterMap fun a =>
      match parseNats a with
      | [n, src, tgt] => some ⟨n, src, tgt, 1⟩
      | _ => none
    s!"guard={storeGuard axes}"
  | ["slice", n, a, b] =>
    match parseNat? n with
    | some n => let r := sliceIndices n ⟨parseOptInt a, parseOptInt b, none⟩; s!"{r.1}:{r.2}"
    | none => "bad-request"
  | ["region2", axes] =>
    let reqs : List (Option (Nat × Nat × SliceReq × Nat)) := (axes.splitOn ";").map fun a =>
      match a.splitOn "," with
      | [nt, ct, st, sp, stp, cs] =>
        match parseNat? nt, parseNat? ct, parseNat? cs with
        | some nt, some ct, some cs => some (nt, ct, ⟨parseOptInt st, parseOptInt sp, parseOptInt stp⟩, cs)
        | _, _, _ => none
      | _ => none
    if reqs.any Option.isNone then "bad-request" else
    let reqs := reqs.filterMap id
    let acc := reqs.map fun (nt, ct, sl, cs) => (regionAccept nt ct sl).map fun ab => (⟨nt, ct, ab.1, ab.2, cs⟩ : RegionAxis)
    if acc.any Option.isNone then "refused" else
    let axes := acc.filterMap id
    let ts := regionTasks axes
    let ok := ts.all (regionTaskOK (axes.map RegionAxis.effective))
    let okold := ts.all (regionTaskOK axes)
    let tss := if ts.isEmpty then "-" else ";".intercalate (ts.map showNats)
    s!"accepted {showIvs (axes.map fun r => (r.a, r.b))} tasks={tss} ok={ok} okold={okold}"
  | _ => "bad-request"

def main : IO Unit := Cubed.Proto.runDriver handle
