/-
  Driver for C14: line protocol, see harness/props/c14.py.

  split|n|sc|tc                                            -> ok s,s,s | error
  cons|shape|chunks|itemsize|maxmem|limits|DIV             -> ok c,c | error <msg>
        limits: "-" (None) or comma list of N (None) / U (-1) / number
  fix|shape|copy|target                                    -> ok c,c | error <msg>
  ms|start|stop|num|MS                                     -> ok v,v | error <msg>
  plan|irr or reg|shape|src|tgt|itemsize|minmem|maxmem|DIV|GEO|MS
                                                           -> ok r>i>w;r>i>w | error <msg>
  rplan|irr or reg|shape|src|tgt|itemsize|allowed|reserved|cr|cw|minmem or N|DIV|GEO|MS
                                                           -> ok mm=<maxmem>,<minmem> src>copy>tgt;... | error <msg>
  Oracle tables recorded from the real run:
    DIV  b:g:e:h;...       for the divisions max_mem / b :  g = (f > 1), e = (f >= 1), h = int(f)
    GEO  k=c,c/c,c;...     calculate_stage_chunks(read, write, k)
    MS   a,b,num=q,q,q;... floor(v / vint) quotients inside _multspace(a, b, num)
-/
import CubedModel.Model.Proto
import CubedModel.Model.Rechunk

open Cubed Cubed.Proto Cubed.Rechunk

def parseDiv (s : String) : List (Nat × Bool × Bool × Nat) :=
  if s == "-" || s.isEmpty then [] else
  (s.splitOn ";").filterMap (fun e =>
    match e.splitOn ":" with
    | [b, g, e, h] =>
      match parseNat? b, parseNat? h with
      | some b, some h => some (b, g == "1", e == "1", h)
      | _, _ => none
    | _ => none)

def parseTuples (s : String) : List (List Nat) :=
  if s.isEmpty then [] else (s.splitOn "/").map parseNats

def parseGeo (s : String) : List (Nat × List (List Nat)) :=
  if s == "-" || s.isEmpty then [] else
  (s.splitOn ";").filterMap (fun e =>
    match e.splitOn "=" with
    | [k, v] => (parseNat? k).map (fun k => (k, parseTuples v))
    | _ => none)

def parseMs (s : String) : List (List Nat × List Nat) :=
  if s == "-" || s.isEmpty then [] else
  (s.splitOn ";").filterMap (fun e =>
    match e.splitOn "=" with
    | [k, v] => some (parseNats k, parseNats v)
    | _ => none)

def mkOracles (div geo ms : String) : Oracles :=
  let d := parseDiv div
  let g := parseGeo geo
  let m := parseMs ms
  let look := fun (b : Nat) => d.find? (fun e => e.1 == b)
  { gt1 := fun _ b => match look b with | some e => e.2.1 | none => false
    ge1 := fun _ b => match look b with | some e => e.2.2.1 | none => false
    hr := fun _ b => match look b with | some e => e.2.2.2 | none => 0
    geo := fun _ _ k => match g.find? (fun e => e.1 == k) with | some e => e.2 | none => []
    msq := fun a b n => match m.find? (fun e => e.1 == [a, b, n]) with | some e => e.2 | none => [] }

def parseLims (s : String) : Option (List Lim) :=
  if s == "-" then none else
  some ((s.splitOn ",").filterMap (fun t =>
    let t := t.trimAscii.toString
    if t == "N" then some Lim.skip else if t == "U" then some Lim.unlimited
    else (parseNat? t).map Lim.upto))

def showRes (r : Except String (List Nat)) : String :=
  match r with
  | .ok l => "ok " ++ showNats l
  | .error e => "error " ++ e

def showStage (s : Stage) : String := showNats s.read ++ ">" ++ showNats s.int ++ ">" ++ showNats s.write

def showOp (o : CopyOp) : String := showNats o.source ++ ">" ++ showNats o.copy ++ ">" ++ showNats o.target

def handle (line : String) : String :=
  match line.splitOn "|" with
  | ["split", n, sc, tc] =>
    match parseNat? n, parseNat? sc, parseNat? tc with
    | some n, some sc, some tc =>
      match splitSizes n sc tc with
      | some l => "ok " ++ showNats l
      | none => "error"
    | _, _, _ => "bad-request"
  | ["cons", shape, chunks, itemsize, maxmem, lims, div] =>
    match parseNat? itemsize, parseNat? maxmem with
    | some i, some m => showRes (consolidate (mkOracles div "-" "-") (parseNats shape) (parseNats chunks) i m (parseLims lims))
    | _, _ => "bad-request"
  | ["fix", shape, copy, target] => showRes (fixCopy (parseNats shape) (parseNats copy) (parseNats target))
  | ["ms", a, b, num, ms] =>
    match parseNat? a, parseNat? b, parseNat? num with
    | some a, some b, some n => showRes (multspace (mkOracles "-" "-" ms) a b n)
    | _, _, _ => "bad-request"
  | ["plan", kind, shape, src, tgt, itemsize, minmem, maxmem, div, geo, ms] =>
    match parseNat? itemsize, parseNat? minmem, parseNat? maxmem with
    | some i, some mn, some mx =>
      let O := mkOracles div geo ms
      let r := if kind == "irr" then irregularPlan O (parseNats shape) (parseNats src) (parseNats tgt) i mn mx
               else regularPlan O (parseNats shape) (parseNats src) (parseNats tgt) i mn mx
      match r with
      | .ok st => "ok " ++ ";".intercalate (st.map showStage)
      | .error e => "error " ++ e
    | _, _, _ => "bad-request"
  | ["rplan", kind, shape, src, tgt, itemsize, allowed, reserved, cr, cw, minmem, div, geo, ms] =>
    match parseNat? itemsize, parseNat? allowed, parseNat? reserved, parseNat? cr, parseNat? cw with
    | some i, some al, some re, some cr, some cw =>
      let O := mkOracles div geo ms
      let b : Budget := ⟨al, re, cr, cw⟩
      let mm := if minmem == "N" then none else parseNat? minmem
      let shape := parseNats shape
      let mmv := effMinMem b (i * lprod shape) mm
      match rechunkPlanOps O (kind == "irr") shape (parseNats src) (parseNats tgt) i b mm with
      | .ok ops => s!"ok mm={rechunkerMaxMem b},{mmv} " ++ ";".intercalate ((copyOps (parseNats src) ops).map showOp)
      | .error e => "error " ++ e
    | _, _, _, _, _ => "bad-request"
  | _ => "bad-request"

def main : IO Unit := runDriver handle
