/-
  Driver for C15 (and the fusion part of C02): line protocol, see harness/props/c15.py.

  bwkey|<outInd>|<name:ind:nb;...>|<newaxes i=d,...>|<outname>|<outcoords>
      -> ok <fargs> | error <msg> | malformed
  fusetree|<defs sep ";;">|<root id>|<coords>
      defs:  B <id> <arr> <coords=>fargs && coords=>fargs ...>     base spec with a key table
             U <id> <succ id> <pred id,pred id,...>                fuse_blockwise_specs(succ, *preds)
      -> key=<fargs> term=<symbolic value>
-/
import CubedModel.Model.Proto
import CubedModel.Model.Blockwise
import CubedModel.Model.Fusion

open Cubed Cubed.Proto Cubed.Bw

def parseArg (s : String) : Option Arg :=
  match s.splitOn ":" with
  | [n, i, b] => some { name := n, ind := parseNats i, nb := parseNats b }
  | _ => none

def parseNewAxes (s : String) : List (Nat × Nat) :=
  if s == "-" || s.isEmpty then [] else
  (s.splitOn ",").filterMap (fun kv =>
    match kv.splitOn "=" with
    | [k, v] => match parseNat? k, parseNat? v with
                | some k, some v => some (k, v)
                | _, _ => none
    | _ => none)

def handleBwKey (parts : List String) : String :=
  match parts with
  | [oi, args, na, oname, oc] =>
    let args := if args == "-" then [] else (args.splitOn ";").filterMap parseArg
    let e : Expr := { outInd := parseNats oi, args := args, newAxes := parseNewAxes na }
    match keyFn e ⟨oname, parseNats oc⟩ with
    | .ok fa => "ok " ++ showFArgs fa
    | .error m => "error " ++ m
    | .malformed => "malformed"
  | _ => "bad-request"

/-! symbolic values -/

mutual
partial def renderV (t : Tree String) : String :=
  match t with
  | .leaf v => v
  | .list ts => "[" ++ ",".intercalate (ts.map renderV) ++ "]"
  | .iter ts => "<" ++ ",".intercalate (ts.map renderV) ++ ">"
  | .fargs o ts => "FARGS:" ++ o ++ "(" ++ ",".intercalate (ts.map renderV) ++ ")"
end

structure Entry where
  id : String
  arr : String
  spec : BSpec String String

def parseTable (s : String) : List (List Nat × FArgs CK) :=
  (s.splitOn "&&").filterMap (fun e =>
    match e.splitOn "=>" with
    | [c, t] => (parseFArgs t).map (fun fa => (parseNats c, fa))
    | _ => none)

def baseSpec (arr : String) (table : List (List Nat × FArgs CK)) : BSpec String String :=
  { keyfn := fun k =>
      match table.find? (fun p => p.1 == k.coords) with
      | some p => ⟨k.name, p.2.args⟩
      | none => ⟨k.name, [.leaf ⟨"MISSING", k.coords⟩]⟩
    fn := fun args => "f_" ++ arr ++ "(" ++ ",".intercalate (args.map renderV) ++ ")" }

def addDef (env : List Entry) (d : String) : List Entry :=
  let d := d.trimAscii.toString
  match d.splitOn " " with
  | "B" :: id :: arr :: rest =>
    env ++ [{ id := id, arr := arr, spec := baseSpec arr (parseTable (" ".intercalate rest)) }]
  | ["U", id, succ, preds] =>
    match env.find? (fun e => e.id == succ) with
    | none => env
    | some s =>
      let ps := (preds.splitOn ",").filterMap (fun p => env.find? (fun e => e.id == p))
      let pm : Preds String := fun n => (ps.find? (fun e => e.arr == n)).map (·.spec)
      env ++ [{ id := id, arr := s.arr, spec := fuseMultiple s.spec pm }]
  | _ => env

def handleFuseTree (parts : List String) : String :=
  match parts with
  | [defs, root, coords] =>
    let env := (defs.splitOn ";;").foldl addDef []
    match env.find? (fun e => e.id == root) with
    | none => "bad-root"
    | some r =>
      let c := parseNats coords
      let key := r.spec.keyfn ⟨"out", c⟩
      let read : CK → String := fun k => k.name ++ "[" ++ showNats k.coords ++ "]"
      "key=" ++ showFArgs key ++ " term=" ++ evalSpec r.spec read c
  | _ => "bad-request"

def handle (line : String) : String :=
  match line.splitOn "|" with
  | "bwkey" :: rest => handleBwKey rest
  | "fusetree" :: rest => handleFuseTree rest
  | _ => "bad-request"

def main : IO Unit := runDriver handle
