/-
  Driver for C08: line protocol, see harness/props/c08.py.

  run|n=<inputs>|bs=<-|k>|ub=<0|1>|var=<gen|fixed|wxyz (4 bits: refillUpdates skipSuperseded guardNotInBackups emptyFirstBatchOk)>|
      script=<ok:dur,ok:dur,...>|dflt=<ok:dur>|cap=<max steps>
      script entry k = outcome (1 ok / 0 error) and duration (virtual seconds) of the k-th submitted future
      -> outs=<o> ; <o> ; ...      the set of outcomes over all iteration orders of `finished` and `copy(pending)`
           o = D res=<sorted futures yielded> subs=<input of each submission>
             | R f=<future whose exception is raised> subs=<…>
             | C <kind>
       | INCONCLUSIVE                when more than `cap` loop-body steps would have to be explored
  retry|retries=<r>|succ=<bits: k-th call succeeds>   -> ok=<0|1> calls=<number of calls>

  Timing (DESIGN A.3): integer clock; `asyncio.wait(pending, FIRST_COMPLETED, timeout=T)`: with t₁ the earliest completion of
  a pending future, if t₁ ≤ now+T then now := t₁ and finished = {f pending | completion f ≤ now}, else now := now+T and
  finished = ∅.  All clock readings inside one round return `now` (the consumer of the generator does not await).

  The exploration only uses the model's own `waitPhase`, `procOne`, `launchOne`, `refill`, `init`; orders are explored
  breadth first with identical (state, remaining set) nodes merged.
-/
import CubedModel.Model.Proto
import CubedModel.Model.MapUnordered
import Std.Data.HashSet

open Cubed Cubed.Proto Cubed.MapUnordered

structure DSt where
  st : St
  compl : Array Int      -- completion time of every future created so far
  now : Int

structure Env where
  cfg : Cfg
  script : Array (Bool × Nat)
  dflt : Bool × Nat
  timeout : Int

def Env.entry (e : Env) (k : Nat) : Bool × Nat := (e.script[k]?).getD e.dflt
def Env.ok (e : Env) (k : Nat) : Bool := (e.entry k).1

/-- rebuild the finite maps from tables (extensionally the same state; keeps closure chains short) -/
def normalize (st : St) : St :=
  let n := st.nextId
  let tab {α : Type} (f : Nat → α) : Array α := (Array.range n).map f
  let tasks := tab st.tasks
  let pending := tab st.pending
  let start := tab st.start
  let end_ := tab st.end_
  let backups := tab st.backups
  let sup := tab st.superseded
  let done := tab st.done
  { st with
    tasks := fun f => (tasks[f]?).join
    pending := fun f => (pending[f]?).getD false
    start := fun f => (start[f]?).join
    end_ := fun f => (end_[f]?).join
    backups := fun f => (backups[f]?).join
    superseded := fun f => (sup[f]?).getD false
    done := fun f => (done[f]?).getD false }

def showOpt {α : Type} [ToString α] : Option α → String
  | none => "_"
  | some a => toString a

def sortNats (l : List Nat) : List Nat := l.mergeSort (fun a b => decide (a ≤ b))

def sig (st : St) : String :=
  let r := List.range st.nextId
  let row (f : Nat) : String :=
    s!"{showOpt (st.tasks f)}/{st.pending f}/{showOpt (st.start f)}/{showOpt (st.end_ f)}/{showOpt (st.backups f)}/{st.superseded f}/{st.done f}"
  ";".intercalate (r.map row) ++ "#" ++ showNats (sortNats st.emitted) ++ "#" ++ toString st.batches

def subsOf (st : St) : String :=
  ",".intercalate ((List.range st.nextId).map (fun f => showOpt (st.tasks f)))

def summary (o : Outcome) (st : St) : String :=
  match o with
  | .done res => s!"D res={showNats (sortNats res)} subs={subsOf st}"
  | .raised f => s!"R f={f} subs={subsOf st}"
  | .crash why => "C " ++ ((why.splitOn ":").headD "")

structure XAcc where
  outs : Std.HashSet String := {}
  steps : Nat := 0

/-- all orders of applying `step` to `items`, merging identical nodes level by level -/
partial def orders (step : St → Nat → Except Outcome St) (acc : XAcc) (frontier : List (St × List Nat)) :
    XAcc × List St :=
  match frontier with
  | [] => (acc, [])
  | (_, []) :: _ => (acc, frontier.map (·.1))     -- all nodes of one level have equally many remaining items
  | _ =>
    let (acc, next, _) := frontier.foldl (init := (acc, ([] : List (St × List Nat)), ({} : Std.HashSet String)))
      (fun (acc, next, seen) (st, rem) =>
        rem.foldl (init := (acc, next, seen)) (fun (acc, next, seen) f =>
          let acc := { acc with steps := acc.steps + 1 }
          match step st f with
          | .error o => ({ acc with outs := acc.outs.insert (summary o st) }, next, seen)
          | .ok st' =>
            let rem' := rem.filter (· != f)
            let key := sig st' ++ "|" ++ showNats rem'
            if seen.contains key then (acc, next, seen)
            else (acc, (st', rem') :: next, seen.insert key)))
    orders step acc next

/-- reduction 1: `f` succeeded, has no twin entry, is not superseded and is nobody's twin in this round: processing it
only writes `end_times[f]` and yields; no other iteration of the loop over `finished` reads or writes anything of `f`. -/
def plainSuccess (e : Env) (st : St) (w : List Nat) (f : Nat) : Bool :=
  e.ok f && (st.backups f).isNone && !st.superseded f && !(w.any (fun g => st.backups g == some f))

/-- orders of the backup-launch loop.  reduction 2: when no remaining task launches a backup in the current state the
state can no longer change (a task that does not launch leaves the state untouched), so the node is a leaf. -/
partial def launchOrders (cfg : Cfg) (rd : Round) (acc : XAcc) (frontier : List (St × List Nat)) : XAcc × List St :=
  match frontier with
  | [] => (acc, [])
  | _ =>
    let (acc, next, leaves, _) := frontier.foldl
      (init := (acc, ([] : List (St × List Nat)), ([] : List St), ({} : Std.HashSet String)))
      (fun (acc, next, leaves, seen) (st, rem) =>
        let results := rem.map (fun f => (f, launchOne cfg rd st f))
        let acc := { acc with steps := acc.steps + rem.length }
        let quiet := results.all (fun (_, r) => match r with
          | .ok st' => st'.nextId == st.nextId
          | .error _ => false)
        if quiet then (acc, next, st :: leaves, seen)
        else
          results.foldl (init := (acc, next, leaves, seen)) (fun (acc, next, leaves, seen) (f, r) =>
            match r with
            | .error o => ({ acc with outs := acc.outs.insert (summary o st) }, next, leaves, seen)
            | .ok st' =>
              let rem' := rem.filter (· != f)
              let key := sig st' ++ "|" ++ showNats rem'
              if seen.contains key then (acc, next, leaves, seen)
              else (acc, (st', rem') :: next, leaves, seen.insert key)))
    let (acc, more) := launchOrders cfg rd acc next
    (acc, leaves ++ more)

def extendCompl (e : Env) (d : DSt) (st : St) : Array Int :=
  (List.range (st.nextId - d.compl.size)).foldl (init := d.compl) (fun c j =>
    let k := d.compl.size + j
    c.push (d.now + ((e.entry k).2 : Int)))

partial def explore (e : Env) (cap fuel : Nat) (acc : XAcc) (frontier : List DSt) : Option XAcc :=
  if acc.steps > cap then none else
  match frontier with
  | [] => some acc
  | _ =>
    if fuel = 0 then some { acc with outs := acc.outs.insert "C hang" } else
    let res := frontier.foldl (init := (some (acc, ([] : List DSt), ({} : Std.HashSet String))))
      (fun r d => match r with
        | none => none
        | some (acc, next, seen) =>
          if acc.steps > cap then none else
          let st := d.st
          let pend := pendingList st
          if pend.isEmpty then
            some ({ acc with outs := acc.outs.insert (summary (.done st.emitted) st) }, next, seen)
          else
            let t1 := pend.foldl (fun m f => min m (d.compl[f]?.getD m)) ((d.compl[pend.headD 0]?).getD 0)
            let now := if t1 ≤ d.now + e.timeout then t1 else d.now + e.timeout
            let finSet := pend.filter (fun f => decide ((d.compl[f]?).getD (now + 1) ≤ now))
            let rd : Round := { fin := finSet, clkEnd := fun _ => now, clkNow := now, clkBackup := fun _ => now,
                                clkRefill := now }
            let (st1, w) := waitPhase st rd
            -- reduction 1: plain successes (see header) are processed first, in creation order
            let (plain, rest) := w.partition (plainSuccess e st1 w)
            let (st1, rest) := match procAll e.cfg e.ok rd st1 plain with
              | .ok s => (s, rest)
              | .error _ => (st1, w)
            let acc := { acc with steps := acc.steps + plain.length }
            let (acc, leaves) := orders (procOne e.cfg e.ok rd) acc [(st1, rest)]
            -- launch phase
            let (acc, leaves2) :=
              if e.cfg.useBackups then
                leaves.foldl (init := (acc, ([] : List St))) (fun (acc, out) s =>
                  let (acc, ls) := launchOrders e.cfg rd acc [(s, pendingList s)]
                  (acc, ls ++ out))
              else (acc, leaves)
            let (next, seen) := leaves2.foldl (init := (next, seen)) (fun (next, seen) s =>
              let s' := normalize (refill e.cfg rd s)
              let d' : DSt := { st := s', compl := extendCompl e { d with now := now } s', now := now }
              let key := sig s' ++ "@" ++ toString now ++ "@" ++ toString d'.compl.toList
              if seen.contains key then (next, seen) else (d' :: next, seen.insert key))
            some (acc, next, seen))
    match res with
    | none => none
    | some (acc, next, _) => explore e cap (fuel - 1) acc next

def field (parts : List String) (name : String) : String :=
  match parts.find? (fun p => p.startsWith (name ++ "=")) with
  | some p => (p.drop (name.length + 1)).toString
  | none => ""

def parseEntry (s : String) : Option (Bool × Nat) :=
  match s.splitOn ":" with
  | [o, d] => (parseNat? d).map (fun d => (o.trimAscii.toString == "1", d))
  | _ => none

def parseVariant (s : String) : Variant :=
  if s == "gen" || s.isEmpty then Variant.generated
  else if s == "fixed" then Variant.fixed
  else
    let bits := s.toList.map (· == '1')
    ⟨bits.getD 0 true, bits.getD 1 true, bits.getD 2 true, bits.getD 3 true⟩

def handleRun (parts : List String) : String :=
  let n := (parseNat? (field parts "n")).getD 0
  let bs := let s := field parts "bs"; if s == "-" || s.isEmpty then none else parseNat? s
  let cfg : Cfg := { useBackups := field parts "ub" == "1", batchSize := bs, variant := parseVariant (field parts "var") }
  let scr := field parts "script"
  let script := if scr.isEmpty || scr == "-" then #[] else ((scr.splitOn ",").filterMap parseEntry).toArray
  let dflt := (parseEntry (field parts "dflt")).getD (true, 1)
  let cap := (parseNat? (field parts "cap")).getD 20000
  let e : Env := { cfg := cfg, script := script, dflt := dflt, timeout := (GeneratedC08.waitTimeout : Int) }
  match init cfg n 0 with
  | .error o => "outs=" ++ summary o St.empty
  | .ok st0 =>
    let d0 : DSt := { st := st0, compl := #[], now := 0 }
    let d0 := { d0 with compl := extendCompl e d0 st0 }
    match explore e cap 100000 {} [d0] with
    | none => "INCONCLUSIVE"
    | some acc =>
      let outs := acc.outs.toList.mergeSort (fun a b => decide (a ≤ b))
      "outs=" ++ " ; ".intercalate outs

def handleRetry (parts : List String) : String :=
  let r := (parseNat? (field parts "retries")).getD 0
  let bits := (field parts "succ").toList.map (· == '1')
  let succ : Nat → Bool := fun k => bits.getD (k - 1) false
  let (ok, calls) := callWithRetries r succ
  s!"ok={if ok then 1 else 0} calls={calls}"

def handle (line : String) : String :=
  match line.splitOn "|" with
  | "run" :: rest => handleRun rest
  | "retry" :: rest => handleRetry rest
  | _ => "bad-request"

def main : IO Unit := runDriver handle
