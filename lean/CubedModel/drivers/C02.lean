/-
  Driver for C02 / C04 (structural optimizer + admission) — see harness/props/c02.py, c04.py.

  opt|<mode>|<arrayNames>|<maxSrc>|<maxBlocks or none>|<always or none>|<never or none>|<order>|<virtual>|<ops>
      mode: multi | fuseall | fuseonly | simple      (fuseonly: <always> carries only_fuse)
      ops : records separated by ';'
            name:sources:inEdges:outputs:isPrim:blockwise:fusPred:fusSucc:numTasks:nib:proj:allowed:chunkmem
            (comma lists, '-' = empty; booleans 0/1)
      -> ops=<canonical records sorted by name> admits=<0|1> exceeding=<names>   |  raises
-/
import CubedModel.Model.Proto
import CubedModel.Model.Optimize

open Cubed Cubed.Proto Cubed.Opt

def strs (s : String) : List String :=
  let s := s.trimAscii.toString
  if s.isEmpty || s == "-" then [] else s.splitOn ","

def optStrs (s : String) : Option (List String) := if s == "none" then none else some (strs s)

def b (s : String) : Bool := s == "1"
def n (s : String) : Nat := (parseNat? s).getD 0

def parseOp (s : String) : Option OpRec :=
  match s.splitOn ":" with
  | [name, src, ine, outs, ip, bw, fp, fs, nt, nib, pm, am, cm] =>
    some { name := name, sources := strs src, inEdges := strs ine, outputs := strs outs, isPrim := b ip,
           blockwise := b bw, fusPred := b fp, fusSucc := b fs, numTasks := n nt, numInputBlocks := parseNats nib,
           projMem := n pm, allowedMem := n am, targetChunkMem := n cm }
  | _ => none

def sortStrs (l : List String) : List String := (l.toArray.qsort (· < ·)).toList

def showOp (o : OpRec) : String :=
  s!"{o.name}:{",".intercalate o.sources}:{",".intercalate (sortStrs o.inEdges)}:{",".intercalate o.outputs}:" ++
  s!"{showNats o.numInputBlocks}:{o.projMem}:{o.numTasks}:{if o.fusPred then 1 else 0}:{if o.fusSucc then 1 else 0}"

def showDag (d : DagRec) : String :=
  let ops := (d.ops.toArray.qsort (fun a c => a.name < c.name)).toList
  "ops=" ++ ";".intercalate (ops.map showOp) ++
  " admit=" ++ (if admits d then "1" else "0") ++ " exceeding=" ++ ",".intercalate (sortStrs (exceeding d))

def handleOpt (parts : List String) : String :=
  match parts with
  | [mode, an, ms, mb, al, nv, order, virt, ops] =>
    let d : DagRec := { ops := (ops.splitOn ";").filterMap parseOp, virtual := strs virt }
    let arrayNames := strs an
    let order := strs order
    let res : Option DagRec :=
      match mode with
      | "multi" =>
        let mbv : Option Nat := if mb == "none" then none else some (n mb)
        let ps : Params := { arrayNames := arrayNames, maxSrc := n ms, maxBlocks := mbv,
                             always := optStrs al, never := optStrs nv }
        optimize d order ps
      | "fuseall" => fuseAll d order arrayNames
      | "fuseonly" => fuseOnly d order arrayNames (strs al)
      | "simple" => some (simpleOptimize d order arrayNames)
      | "none" => some d
      | _ => none
    match res with
    | some d' => showDag d'
    | none => "raises"
  | _ => "bad-request"

def handle (line : String) : String :=
  match line.splitOn "|" with
  | "opt" :: rest => handleOpt rest
  | _ => "bad-request"

def main : IO Unit := runDriver handle
