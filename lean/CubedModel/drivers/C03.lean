/-
  Driver for C03: line protocol, see harness/props/c03.py.  All numbers are bytes.

  proj|<reserved>|<inputs csv>|<operation>|<output>|<read>|<write>                 -> n    calculate_projected_mem
  bw|<reserved>|<extra>|<read>|<write>|<src;src;…>|<out;out;…>                      -> n    general_blockwise
        src = <itemsize>:R:<c,c,…>            (regular chunks: tuple of ints)
            | <itemsize>:X:<c,c/c,c,c/…>      (rectangular chunks: tuple of tuples; an empty axis is written `e`)
        out = <itemsize>:<c,c,…>
  peak|<proj:chunkmem;proj:chunkmem;…>                                              -> n    peak_projected_mem
  fused|<op projected>|<proj:chunkmem;…>                                            -> n    fuse_multiple
  fusedx|<op projected>|<proj@src;proj@src;…>   (chunkmem of each predecessor computed from its target's src)  -> n
  pair|<a>|<b>                                                                      -> n    fuse
  create|<reserved>|<itemsizes csv>                                                 -> n    create_zarr_arrays
  copies|<scheme or ->|<has spec+work_dir: 0/1>                                     -> r,w  get_buffer_copies
  chunkmem|<src>                                                                    -> n    chunk_memory
  extra|partial_reduce|<x>|<red>  extra|rechunk|<c>  extra|scan|<c>  extra|permute|<c>
  extra|repeat|<c>|<n>  extra|qr|<c>                                                -> n
  trace|<read>|<write>|<eager csv>|<stream/stream (csv each)>|<work>|<out>          -> peak of taskTrace
  accounts|<blocks csv>|<inputs csv>                                                -> true|false (greedy)
-/
import CubedModel.Model.Proto
import CubedModel.Model.Memory

open Cubed Cubed.Proto Cubed.Memory

def nat (s : String) : Nat := (parseNat? s).getD 0

def splitNE (s : String) (sep : String) : List String :=
  let s := s.trimAscii.toString
  if s.isEmpty || s == "-" then [] else s.splitOn sep

def parseSrc (s : String) : Option Source :=
  match s.splitOn ":" with
  | [it, "R", cs] => some ⟨nat it, .regular (parseNats cs)⟩
  | [it, "X", cs] =>
    let axes := if cs.trimAscii.toString.isEmpty || cs == "-" then [] else cs.splitOn "/"
    some ⟨nat it, .rect (axes.map (fun a => if a == "e" then [] else parseNats a))⟩
  | _ => none

def parseOut (s : String) : Option (Nat × List Nat) :=
  match s.splitOn ":" with
  | [it, cs] => some (nat it, parseNats cs)
  | _ => none

def parsePOps (s : String) : List POp :=
  (splitNE s ";").filterMap (fun e =>
    match e.splitOn ":" with
    | [p, c] => some ⟨nat p, nat c⟩
    | _ => none)

def handle (line : String) : String :=
  match line.splitOn "|" with
  | ["proj", r, ins, op, out, rd, wr] =>
    toString (projectedMem (nat r) (parseNats ins) (nat op) (nat out) ⟨nat rd, nat wr⟩)
  | ["bw", r, extra, rd, wr, srcs, outs] =>
    let ss := (splitNE srcs ";").map parseSrc
    let os := (splitNE outs ";").map parseOut
    if ss.any Option.isNone || os.any Option.isNone then "bad-request" else
    toString (blockwiseProjected (nat r) (ss.filterMap id) (os.filterMap id) (nat extra) ⟨nat rd, nat wr⟩)
  | ["peak", ps] => toString (peakProjected (parsePOps ps))
  | ["fused", op, ps] => toString (fusedProjected (nat op) (parsePOps ps))
  | ["fusedx", op, ps] =>
    let preds := (splitNE ps ";").map (fun e =>
      match e.splitOn "@" with
      | [p, src] => (parseSrc src).map (fun s => (⟨nat p, chunkMemory s.itemsize s.chunks⟩ : POp))
      | _ => none)
    if preds.any Option.isNone then "bad-request" else toString (fusedProjected (nat op) (preds.filterMap id))
  | ["pair", a, b] => toString (fusedPairProjected (nat a) (nat b))
  | ["create", r, its] => toString (createArraysProjected (nat r) (parseNats its))
  | ["copies", scheme, has] =>
    let cloud : Option Bool := if has == "1" then some (isCloudScheme scheme) else none
    let c := getBufferCopies cloud
    s!"{c.read},{c.write}"
  | ["chunkmem", src] =>
    match parseSrc src with
    | some s => toString (chunkMemory s.itemsize s.chunks)
    | none => "bad-request"
  | ["extra", "partial_reduce", x, red] => toString (partialReduceExtra (nat x) (nat red))
  | ["extra", "rechunk", c] => toString (rechunkExtra (nat c))
  | ["extra", "scan", c] => toString (scanExtra (nat c))
  | ["extra", "permute", c] => toString (permuteExtra (nat c))
  | ["extra", "repeat", c, n] => toString (repeatExtra (nat c) (nat n))
  | ["extra", "qr", c] => toString (qrExtra (nat c))
  | ["trace", rd, wr, eager, streams, work, out] =>
    let t : Task := { eager := parseNats eager, streams := (splitNE streams "/").map parseNats,
                      work := nat work, out := nat out }
    toString (peak (taskTrace ⟨nat rd, nat wr⟩ t))
  | ["accounts", bs, ins] => toString (accountsGreedy (parseNats bs) (parseNats ins))
  | _ => "bad-request"

def main : IO Unit := runDriver handle
