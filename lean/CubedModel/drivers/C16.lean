/-
  Driver for C16: line protocol, see harness/props/c16.py.

  public|<name>                     -> exec | lazy            (is the public name in the model's `publicExec` list)
  trace|<tok tok ...>               -> ok | bad <index> <reason>
      tokens:  N = a non-executing public call starts, X = an executing one starts, E = call returns,
               p:<a> array existed before, m:<a> metadata set, c:<a> chunk set, d:<key> delete
  exec|<op;op;...>                  -> creates=<a,..>|written=<a,..>|createpred=<0/1>|accepted=<0/1>
      op = <name>,<pipeline 0/1>,<ntasks>,<targets kind:name+kind:name (kind v/l/e)>,<srcs +-separated>
      the ops are the nodes of a real finalized dag (create-arrays removed); the model finalizes them
      (optimizer = id), runs the canonical schedule and reports the arrays it creates / writes.
-/
import CubedModel.Model.Proto
import CubedModel.Model.Lazy

open Cubed Cubed.Proto Cubed.Lazy

def parseObs (t : String) : Option Obs :=
  if t == "N" then some (.enter false)
  else if t == "X" then some (.enter true)
  else if t == "E" then some .exit
  else if t.startsWith "p:" then some (.pre (t.drop 2).toString)
  else if t.startsWith "m:" then some (.mkmeta (t.drop 2).toString)
  else if t.startsWith "c:" then some (.chunk (t.drop 2).toString)
  else if t.startsWith "d:" then some (.del (t.drop 2).toString)
  else none

def handleTrace (s : String) : String :=
  let toks := (s.splitOn " ").filter (fun t => !t.isEmpty)
  let obs := toks.map parseObs
  if obs.any Option.isNone then "bad-request" else
  match scanTrace (obs.filterMap id) {} 0 with
  | none => "ok"
  | some (i, why) => s!"bad {i} {why}"

def parseTarget (s : String) : Option Target :=
  match s.splitOn ":" with
  | ["v"] => some .virt
  | ["v", _] => some .virt
  | ["l", a] => some (.lazy a)
  | ["e", a] => some (.existing a)
  | _ => none

def splitNonEmpty (s : String) (sep : String) : List String :=
  if s.isEmpty || s == "-" then [] else (s.splitOn sep).filter (fun t => !t.isEmpty)

def parseOp (s : String) : Option Op :=
  match s.splitOn "," with
  | [name, pipe, nt, tgts, srcs] =>
    match parseNat? nt with
    | some n =>
      let ts := (splitNonEmpty tgts "+").map parseTarget
      if ts.any Option.isNone then none else
      some { name := name, targets := ts.filterMap id, pipeline := pipe == "1", ntasks := n, srcs := splitNonEmpty srcs "+" }
    | none => none
  | _ => none

def insertSorted (x : String) : List String → List String
  | [] => [x]
  | y :: ys => if x < y then x :: y :: ys else if x == y then y :: ys else y :: insertSorted x ys

def sortDedup (l : List String) : List String := l.foldr insertSorted []

def handleExec (s : String) : String :=
  let ops := (splitNonEmpty s ";").map parseOp
  if ops.any Option.isNone then "bad-request" else
  let ops := ops.filterMap id
  let fp := finalize id ops
  let sched := tasksOf fp .createArrays ++ fp.pipes.flatMap (fun o => tasksOf fp (.op o.name))
  let evs := schedEvents fp sched
  let written := evs.filterMap (fun e => match e with | .chunk a _ => some a | _ => none)
  let createpred := fp.pipes.all (fun o => fp.creates.isEmpty || (preds fp (.op o.name)).contains .createArrays)
  let pre := ops.flatMap (fun o => o.targets.filterMap (fun t => match t with | .existing a => some (Obs.pre a) | _ => none))
  let obs := pre ++ [Obs.enter true] ++ evs.map (fun e => match e with | .mkmeta a => Obs.mkmeta a | .chunk a _ => Obs.chunk a) ++ [Obs.exit]
  let b (x : Bool) : String := if x then "1" else "0"
  s!"creates={",".intercalate (sortDedup fp.creates)}|written={",".intercalate (sortDedup written)}|createpred={b createpred}|accepted={b (traceOk obs)}"

def handle (line : String) : String :=
  match line.splitOn "|" with
  | ["public", name] => if publicExec.contains name then "exec" else "lazy"
  | ["trace", t] => handleTrace t
  | ["exec", t] => handleExec t
  | _ => "bad-request"

def main : IO Unit := runDriver handle
